#!/usr/bin/env python3
"""Rewrites the table between the SEEDED-TABLE markers of DESIGN.md from /verif/seeded/*/meta.json."""
import json, glob, os, re
rows = []
for d in sorted(glob.glob('/verif/seeded/*/')):
    sid = os.path.basename(d.rstrip('/'))
    m = json.load(open(d + 'meta.json'))
    det = m.get('detected_by') or []
    oth = m.get('detected_by_other_property') or []
    verdict = ', '.join(det) if det else ('— (missed)' if not oth else '— ; other property: ' + ', '.join(oth))
    note = m.get('checker_note', '')
    title = m.get('title', '').replace('|', '/')
    needs = m.get('needs_to_manifest', '').replace('|', '/').replace('\n', ' ')
    if len(needs) > 260:
        needs = needs[:257] + '…'
    rows.append(f"| {sid} | {title} | {needs} | {verdict} | {note} |")
table = "| id | change | needs, to manifest | caught by | note |\n|---|---|---|---|---|\n" + "\n".join(rows)
p = '/verif/DESIGN.md'
s = open(p).read()
s2 = re.sub(r'<!-- SEEDED-TABLE-BEGIN -->.*<!-- SEEDED-TABLE-END -->', '<!-- SEEDED-TABLE-BEGIN -->\n' + table.replace('\\', '\\\\') + '\n<!-- SEEDED-TABLE-END -->', s, flags=re.S)
open(p, 'w').write(s2)
print(len(rows), 'rows;', sum(1 for r in rows if '(missed)' in r), 'missed')
