#!/usr/bin/env python3
"""benign_eval.py <dir-with-*.diff> : apply each behaviour-preserving patch to a scratch copy of /repo and run all
checks on it (gpv checkall). Any finding is a false alarm to be looked at."""
import sys, os, glob, subprocess, tempfile, shutil, concurrent.futures, json
src = sys.argv[1]
def one(pf):
    d = tempfile.mkdtemp(prefix='ben-', dir='/tmp')
    try:
        subprocess.run(f'rsync -a --exclude .git /repo/ {d}/', shell=True, check=True)
        r = subprocess.run(f'cd {d} && git init -q . && git apply {pf}', shell=True, capture_output=True, text=True)
        if r.returncode != 0:
            return pf, 'NOAPPLY', r.stderr[:200]
        env = dict(os.environ, PATH='/opt/veriftools/go1.26.8/bin:' + os.environ['PATH'], GOTOOLCHAIN='local', GOFLAGS='-mod=mod', GOPROXY='off', GOSUMDB='off', GOWORK='off')
        r = subprocess.run(f'/verif/bin/gpv checkall --repo {d}', shell=True, capture_output=True, text=True, env=env, cwd='/verif')
        hits = [l.strip()[:300] for l in r.stdout.splitlines() if l.startswith('  [') or 'CHECKER-ERROR' in l]
        return pf, ('ALARM' if hits else 'silent'), hits
    finally:
        shutil.rmtree(d, ignore_errors=True)
files = sorted(glob.glob(src + '/*.diff'))
if len(sys.argv) > 2:
    files = [f for f in files if any(a in f for a in sys.argv[2:])]
res = {}
with concurrent.futures.ThreadPoolExecutor(max_workers=4) as ex:
    for pf, st, hits in ex.map(one, files):
        print(os.path.basename(pf), st, flush=True)
        if st != 'silent':
            for h in (hits if isinstance(hits, list) else [hits]):
                print('    ', h)
        res[os.path.basename(pf)] = {'status': st, 'hits': hits}
json.dump(res, open(src + '/RESULT.json', 'w'), indent=1)
print(sum(1 for v in res.values() if v['status'] == 'silent'), 'silent of', len(res))
