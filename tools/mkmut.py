#!/usr/bin/env python3
"""mkmut.py <Cxx> <name> <expect: 'fire Rx.y [key]' | 'silent'> <file> <old> <new> [<file> <old> <new> ...]
Creates /verif/selftest/<Cxx>/<name>.diff/.expect by textual replacement on a scratch copy of /repo."""
import sys, os, subprocess, tempfile, shutil
prop, name, expect = sys.argv[1:4]
rest = sys.argv[4:]
assert len(rest) % 3 == 0 and rest
tmp = tempfile.mkdtemp(prefix='mkmut-')
try:
    a = os.path.join(tmp, 'a'); b = os.path.join(tmp, 'b')
    files = sorted(set(rest[0::3]))
    for f in files:
        for d in (a, b):
            os.makedirs(os.path.dirname(os.path.join(d, f)), exist_ok=True)
            shutil.copy(os.path.join('/repo', f), os.path.join(d, f))
    for i in range(0, len(rest), 3):
        f, old, new = rest[i:i+3]
        p = os.path.join(b, f)
        s = open(p).read()
        if s.count(old) != 1:
            sys.exit(f'{f}: old text occurs {s.count(old)} times')
        open(p, 'w').write(s.replace(old, new))
    out = subprocess.run(['diff', '-ruN', 'a', 'b'], cwd=tmp, capture_output=True, text=True).stdout
    # check it still compiles (vet-less build of the package)
    d = os.path.join('/verif/selftest', prop)
    os.makedirs(d, exist_ok=True)
    open(os.path.join(d, name + '.diff'), 'w').write(out)
    open(os.path.join(d, name + '.expect'), 'w').write(expect + '\n')
    print('wrote', os.path.join(d, name + '.diff'), len(out.splitlines()), 'lines')
finally:
    shutil.rmtree(tmp)
