#!/usr/bin/env python3
"""Regenerates /verif/MANIFEST.json from tools/claims.json (what each built check decides)."""
import json, os
H = '/verif'
props = [json.loads(l) for l in open(f'{H}/properties.jsonl')]
claims = json.load(open(f'{H}/tools/claims.json'))
base = json.load(open('/root/.vp/BASELINE.json'))
ENV = 'PATH=/opt/veriftools/go1.26.8/bin:$PATH GOTOOLCHAIN=local GOFLAGS=-mod=mod GOPROXY=off GOSUMDB=off GOWORK=off'
checks, na = [], []
for p in props:
    pid = p['id']
    c = claims.get(pid)
    if not c or not c.get('claimed'):
        na.append({'property_id': pid, 'reason': (c or {}).get('reason', 'check not built yet (planned structural rules: DESIGN.md section 4)')})
        continue
    checks.append({
        'property_id': pid,
        'quick_cmd': f'{ENV} /verif/bin/gpv check {pid} --tier quick',
        'thorough_cmd': f'{ENV} /verif/bin/gpv check {pid} --tier thorough',
        'evidence_file': f'/verif/evidence/{pid}.json',
        'replay_cmd_template': '/verif/bin/gpv explain {path}',
        'engine': 'gpv',
        'level_claimed': {'category': 'other', 'text': c['text'], 'design_ref': f'DESIGN.md section 4, {pid}'},
        'level_note': c.get('note', 'Trusted base: go/types, go/ssa and the VTA/CHA call graphs of golang.org/x/tools v0.50.0 on go1.26.8; the standard-library write/length summaries in gpv/internal/core. Decides the named structural clauses only, not the behavioural property.'),
        'technique': c['technique'],
    })
m = {
    'version': 1,
    'setup_cmd': f'cd /verif/gpv && {ENV} go build -o /verif/bin/gpv ./cmd/gpv',
    'hooks': {'guard': 'verif', 'enable': 'none: the checks are static and read the sources of /repo as they are; no build tag or instrumentation exists', 'baseline_off_cmd': base['cmd'], 'source_commits': [], 'add_only': True},
    'engines': [{'name': 'gpv', 'path': '/verif/gpv', 'serves_properties': [c['property_id'] for c in checks], 'kind_free_text': 'custom static analyser over go/types + go/ssa + call graphs (x/tools v0.50.0): guard-aware bounds analysis, write-effect analysis, CFG path rules, must-assign, sibling agreement, lock regions, boolean typestate'}],
    'checks': checks,
    'notes': 'Every check is `gpv check <id>`: it re-parses and type-checks /repo on each run, applies the rules of DESIGN.md section 4, prints one VIOLATION line per unlisted violated obligation, KNOWN-FINDING lines for entries of /verif/KNOWN_FINDINGS.txt, and rewrites /verif/evidence/<id>.json. Exit 2 / CHECKER-ERROR means the checker could not do its job (load error, anchors below floor).',
    'not_applicable': na,
}
json.dump(m, open(f'{H}/MANIFEST.json', 'w'), indent=1)
print('claimed', [c['property_id'] for c in checks])
