#!/usr/bin/env python3
"""seed_eval.py <Cxx-N> : confirm a sub-agent's change (compiles, existing tests pass, demo fails with / passes without)
in a scratch worktree, then run the registered checks of /verif against /repo with the patch applied, and file it
under /verif/seeded/<Cxx-N>/ ."""
import sys, os, subprocess, json, re, shutil
sid = sys.argv[1]
src = f'/tmp/mutout/{sid}'
if '--src' in sys.argv:
    i = sys.argv.index('--src')
    src = sys.argv[i+1]
    del sys.argv[i:i+2]
if not os.path.isdir(src):
    src = f'/verif/seeded/{sid}'
prop = sid.split('-')[0]
meta = json.load(open(f'{src}/meta.json'))
demo = open(f'{src}/demo_test.go').read()
first = demo.splitlines()[0]
m = re.search(r'(?:into|in|directory)[:\s]+`?([./\w-]+?/?)`?(?:[\s,;(]|$)', first)
pkgclause = re.search(r'^package\s+(\w+)', demo, re.M).group(1)
def guess_dir():
    cands = re.findall(r'([\w./-]*(?:layers|reassembly|tcpassembly/tcpreader|tcpassembly|ip4defrag|ip6defrag|pcapgo|gopacket)[\w./-]*)', first)
    for c in cands:
        c = c.strip('./')
        if c in ('gopacket', 'github.com/gopacket/gopacket'):
            return '.'
        c = c.replace('github.com/gopacket/gopacket/', '')
        if os.path.isdir('/repo/' + c):
            return c
    base = pkgclause.replace('_test', '')
    return {'gopacket': '.', 'tcpreader': 'tcpassembly/tcpreader'}.get(base, base)
ddir = guess_dir()
wt = f'/tmp/sv-{sid}'
def run(cmd, cwd=None, timeout=900):
    p = subprocess.run(cmd, shell=True, cwd=cwd, capture_output=True, text=True, timeout=timeout)
    return p.returncode, (p.stdout + p.stderr)
run(f'git -C /repo worktree remove --force {wt}')
rc, out = run(f'git -C /repo worktree add -q {wt} HEAD')
assert rc == 0, out
res = {'demo_dir': ddir}
try:
    testfile = f'{wt}/{ddir}/zz_seed_demo_test.go'
    shutil.copy(f'{src}/demo_test.go', testfile)
    pk = './' + ddir if ddir != '.' else '.'
    names = '|'.join(re.findall(r'^func (Test\w+)\(', demo, re.M))
    race = ' -race' if 'race' in (meta.get('needs_to_manifest', '') + first).lower() else ''
    rc0, out0 = run(f'go test -mod=mod -vet=off -count=1{race} -timeout 120s -run "^({names})$" {pk}', cwd=wt)
    res['demo_passes_without'] = rc0 == 0
    rc, out = run(f'git apply {src}/patch.diff', cwd=wt)
    res['applies'] = rc == 0
    rc, out = run('go build ./... 2>&1 | grep -v pfring | grep -v "^#" | head -5', cwd=wt)
    res['build_output'] = out.strip()[:300]
    rc1, out1 = run(f'go test -mod=mod -vet=off -count=1{race} -timeout 120s -run "^({names})$" {pk}', cwd=wt)
    res['demo_fails_with'] = rc1 != 0
    res['demo_tail'] = '\n'.join(out1.strip().splitlines()[-6:])[:800]
    os.remove(testfile)
    pkgs = '. ./layers/ ./pcapgo/ ./reassembly/ ./tcpassembly/... ./ip4defrag/ ./ip6defrag/'
    rc2, out2 = run(f'go test -mod=mod -vet=off -count=1 {pkgs} 2>&1 | grep -v TestEthernetHandle_Close | grep -E "^(--- FAIL|FAIL|ok|panic)"', cwd=wt)
    fails = [l for l in out2.splitlines() if l.startswith('--- FAIL') or l.startswith('panic')]
    res['existing_tests_pass'] = len(fails) == 0
    res['existing_tests'] = out2.strip()[:600]
finally:
    run(f'git -C /repo worktree remove --force {wt}')
# run the checks against /repo with the patch applied
st = run('git -C /repo status --short')[1].strip()
assert st == '', 'repo dirty: ' + st
rc, out = run(f'git -C /repo apply {src}/patch.diff')
det = {}
try:
    props = sys.argv[2:] or [prop]
    for pr in props:
        rc, o = run(f'/verif/bin/gpv check {pr} --no-write --quiet', cwd='/verif')
        hits = [l.strip()[:300] for l in o.splitlines() if l.startswith('  [')]
        det[pr] = {'exit': rc, 'findings': hits[:6]}
finally:
    run('git -C /repo checkout -- .')
res['checks'] = det
detected = [pr for pr, d in det.items() if d['exit'] == 1]
dst = f'/verif/seeded/{sid}'
os.makedirs(dst, exist_ok=True)
if os.path.abspath(src) != os.path.abspath(dst):
    shutil.copy(f'{src}/patch.diff', dst)
    shutil.copy(f'{src}/demo_test.go', dst)
meta['confirmed_by_me'] = res
rules = []
for pr in [x for x in detected if x == prop]:
    for h in det[pr]['findings']:
        mm = re.match(r'\[(R[\d.]+)\]', h)
        if mm and mm.group(1) not in rules:
            rules.append(mm.group(1))
meta['detected_by'] = rules if detected and prop in detected else []
meta['detected_by_other_property'] = [pr for pr in detected if pr != prop]
try:
    old = json.load(open(f'{dst}/meta.json'))
    if 'checker_note' in old:
        meta['checker_note'] = old['checker_note']
except Exception:
    pass
json.dump(meta, open(f'{dst}/meta.json', 'w'), indent=1)
ok = res.get('applies') and res.get('demo_passes_without') and res.get('demo_fails_with') and res.get('existing_tests_pass')
print(sid, 'VALID' if ok else 'INVALID', 'detected_by=', meta['detected_by'], meta['detected_by_other_property'], '| dir', ddir)
if not ok:
    print(json.dumps(res, indent=1)[:1500])
for pr, d in det.items():
    for h in d['findings'][:3]:
        print('   ', pr, h[:200])
