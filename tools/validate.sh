#!/bin/sh
python3-vt - <<'PY'
import json,jsonschema,glob
jsonschema.validate(json.load(open('/verif/MANIFEST.json')),json.load(open('/root/.vp/MANIFEST.schema.json')))
for f in glob.glob('/verif/evidence/C*.json'):
    jsonschema.validate(json.load(open(f)),json.load(open('/root/.vp/EVIDENCE.schema.json')))
print('manifest+evidence valid')
PY
