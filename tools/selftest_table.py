#!/usr/bin/env python3
"""Rewrites the selftest matrix of DESIGN.md §11 from /verif/selftest."""
import glob, os, re, collections
rows=[]
for d in sorted(glob.glob('/verif/selftest/C*/')):
    prop=os.path.basename(d.rstrip('/'))
    fire=collections.OrderedDict(); benign=[]
    for e in sorted(glob.glob(d+'*.expect')):
        name=os.path.basename(e)[:-7]
        exp=open(e).read().split()
        if exp and exp[0]=='silent':
            benign.append(name)
        else:
            rule=exp[1] if len(exp)>1 else '?'
            fire.setdefault(rule,[]).append(name)
    f='; '.join(', '.join(v)+f' ({k})' for k,v in fire.items()) or '—'
    rows.append(f"| {prop} | {f} | {', '.join(benign) or '—'} |")
table="| property | must fire (rule) | benign (silent) |\n|---|---|---|\n"+"\n".join(rows)
p='/verif/DESIGN.md'; s=open(p).read()
m=re.search(r'\| property \| must fire \(rule\) \| benign \(silent\) \|\n\|---\|---\|---\|\n(?:\|.*\n)+', s)
s=s[:m.start()]+table+"\n"+s[m.end():]
open(p,'w').write(s)
print(len(rows),'properties')
