// gpv: static checker for the gopacket properties in /verif/properties.jsonl.
//
//	gpv check <Cxx> [--tier quick|thorough] [--repo DIR] [--no-write]
//	gpv explain <replay.json>
//	gpv selftest [Cxx]
package main

import (
	"flag"
	"fmt"
	"os"
	"runtime/debug"
	"sort"
	"strings"
	"time"

	"gpv/internal/core"
	"gpv/internal/props"
)

func main() {
	if len(os.Args) < 2 {
		usage()
	}
	switch os.Args[1] {
	case "check":
		os.Exit(check(os.Args[2:]))
	case "checkall":
		os.Exit(checkAll(os.Args[2:]))
	case "explain":
		if len(os.Args) < 3 {
			usage()
		}
		b, err := os.ReadFile(os.Args[2])
		if err != nil {
			fmt.Println("CHECKER-ERROR:", err)
			os.Exit(2)
		}
		os.Stdout.Write(b)
		fmt.Println()
	case "selftest":
		os.Exit(props.Selftest(os.Args[2:]))
	case "roots":
		p, err := core.Load("/repo", core.InScope)
		if err != nil {
			fmt.Println(err)
			os.Exit(2)
		}
		r := p.Roots()
		k := map[string]int{}
		for _, d := range r.Dec {
			k[d.Kind]++
			if len(os.Args) > 2 {
				fmt.Println(d.Kind, d.MinLen, core.FnKey(d.Fn))
			}
		}
		fmt.Println("dec roots", len(r.Dec), k, "decReach", len(r.DecReach), "acc", len(r.Acc), "accReach", len(r.AccReach), "ser", len(r.Ser), "serReach", len(r.SerReach), "declayers", len(r.DecLayerTs))
	case "candscan":
		p, err := core.Load("/repo", core.InScope)
		if err != nil {
			fmt.Println(err)
			os.Exit(2)
		}
		props.CandScan(p)
	case "list":
		var ids []string
		for id := range props.Registry {
			ids = append(ids, id)
		}
		sort.Strings(ids)
		fmt.Println(strings.Join(ids, " "))
	default:
		usage()
	}
}

func usage() {
	fmt.Fprintln(os.Stderr, "usage: gpv check <Cxx> [--tier quick|thorough] [--repo DIR] [--no-write] | gpv explain <replay.json> | gpv selftest [Cxx]")
	os.Exit(2)
}

func check(args []string) (code int) {
	if len(args) < 1 {
		usage()
	}
	id := args[0]
	fs := flag.NewFlagSet("check", flag.ExitOnError)
	tier := fs.String("tier", envOr("VERIF_TIER", "quick"), "quick|thorough")
	repo := fs.String("repo", "/repo", "repository root")
	noWrite := fs.Bool("no-write", false, "do not write evidence/replay files")
	quiet := fs.Bool("quiet", false, "only print findings")
	listUndec := fs.Bool("undecided", false, "also print every undecided obligation")
	fs.Parse(args[1:])
	if *tier != "quick" && *tier != "thorough" {
		*tier = "quick"
	}
	fn, ok := props.Registry[id]
	if !ok {
		fmt.Printf("CHECKER-ERROR: no check for property %s\n", id)
		return 2
	}
	defer func() {
		if r := recover(); r != nil {
			fmt.Printf("CHECKER-ERROR: panic in checker: %v\n%s\n", r, debug.Stack())
			code = 2
		}
	}()
	pats := core.InScope
	t0 := time.Now()
	p, err := core.Load(*repo, pats)
	if err != nil {
		fmt.Println("CHECKER-ERROR:", err)
		return 2
	}
	c := core.NewCtx(p, id, *tier)
	c.Start = t0
	c.NoWrite = *noWrite
	c.Quiet = *quiet
	c.ListUndecided = *listUndec
	fn(c)
	c.Explain += props.ExtraExplain[id]
	code = c.Finish()
	if code == 0 && *tier == "thorough" && !*noWrite && *repo == "/repo" {
		if st := props.Selftest([]string{id}); st != 0 {
			return 2
		}
	}
	return code
}

// checkAll loads the program once and runs every registered check on it
// without writing evidence (used to try patches: benign refactorings must stay silent).
func checkAll(args []string) (code int) {
	fs := flag.NewFlagSet("checkall", flag.ExitOnError)
	repo := fs.String("repo", "/repo", "repository root")
	fs.Parse(args)
	p, err := core.Load(*repo, core.InScope)
	if err != nil {
		fmt.Println("CHECKER-ERROR:", err)
		return 2
	}
	var ids []string
	for id := range props.Registry {
		ids = append(ids, id)
	}
	sort.Strings(ids)
	for _, id := range ids {
		func() {
			defer func() {
				if r := recover(); r != nil {
					fmt.Printf("CHECKER-ERROR: %s: panic in checker: %v\n", id, r)
					code = 2
				}
			}()
			c := core.NewCtx(p, id, "quick")
			c.Start = time.Now()
			c.NoWrite = true
			c.Quiet = true
			props.Registry[id](c)
			if rc := c.Finish(); rc != 0 && code == 0 {
				code = rc
			}
		}()
	}
	return code
}

func envOr(k, d string) string {
	if v := os.Getenv(k); v != "" {
		return v
	}
	return d
}
