package props

import (
	"fmt"
	"sort"
	"strings"

	"golang.org/x/tools/go/ssa"
)

// ssaCanon renders a function's SSA in a canonical form that is insensitive
// to variable names, to aliases, to blocks that only jump, to the order of
// captured variables and to whether a method is called statically or through
// an interface (calls are named by method name only).  Two functions with the
// same canonical form perform the same operations in the same order on
// corresponding values.
func ssaCanon(fn *ssa.Function) string {
	if fn == nil || len(fn.Blocks) == 0 {
		return ""
	}
	valID := map[ssa.Value]string{}
	nVal := 0
	vid := func(v ssa.Value) string {
		switch x := v.(type) {
		case *ssa.Const:
			if x.Value == nil {
				return "K:nil"
			}
			return "K:" + x.Value.ExactString()
		case *ssa.Global:
			return "G:" + x.Name()
		case *ssa.Function:
			return "F:" + x.Name()
		case *ssa.Builtin:
			return "B:" + x.Name()
		}
		if s, ok := valID[v]; ok {
			return s
		}
		nVal++
		s := fmt.Sprintf("v%d", nVal)
		valID[v] = s
		return s
	}
	// resolve jump-only blocks
	resolve := func(b *ssa.BasicBlock) *ssa.BasicBlock {
		for i := 0; i < 32; i++ {
			if len(b.Instrs) == 1 {
				if _, ok := b.Instrs[0].(*ssa.Jump); ok && len(b.Succs) == 1 {
					b = b.Succs[0]
					continue
				}
			}
			break
		}
		return b
	}
	blkID := map[*ssa.BasicBlock]int{}
	var order []*ssa.BasicBlock
	bid := func(b *ssa.BasicBlock) int {
		b = resolve(b)
		if id, ok := blkID[b]; ok {
			return id
		}
		blkID[b] = len(order)
		order = append(order, b)
		return blkID[b]
	}
	bid(fn.Blocks[0])
	var sb strings.Builder
	for i := 0; i < len(order); i++ {
		b := order[i]
		fmt.Fprintf(&sb, "B%d:\n", i)
		for _, ins := range b.Instrs {
			if _, ok := ins.(*ssa.DebugRef); ok {
				continue
			}
			line := ""
			ops := func(vs ...ssa.Value) string {
				var s []string
				for _, v := range vs {
					if v == nil {
						s = append(s, "_")
					} else {
						s = append(s, vid(v))
					}
				}
				return strings.Join(s, ",")
			}
			switch x := ins.(type) {
			case *ssa.Phi:
				var es []string
				for _, e := range x.Edges {
					es = append(es, vid(e))
				}
				sort.Strings(es)
				line = "phi(" + strings.Join(es, ",") + ")"
			case *ssa.BinOp:
				line = "binop " + x.Op.String() + " " + ops(x.X, x.Y)
			case *ssa.UnOp:
				line = "unop " + x.Op.String() + " " + ops(x.X)
			case *ssa.Call:
				name := ""
				var args []ssa.Value
				switch {
				case x.Call.IsInvoke():
					name = x.Call.Method.Name()
					args = append([]ssa.Value{x.Call.Value}, x.Call.Args...)
				default:
					if f := x.Call.StaticCallee(); f != nil {
						name = f.Name()
					} else if bi, ok := x.Call.Value.(*ssa.Builtin); ok {
						name = "builtin." + bi.Name()
					} else {
						name = "dyn"
						args = append(args, x.Call.Value)
					}
					args = append(args, x.Call.Args...)
				}
				line = "call " + name + " " + ops(args...)
			case *ssa.Store:
				line = "store " + ops(x.Addr, x.Val)
			case *ssa.If:
				line = fmt.Sprintf("if %s B%d B%d", vid(x.Cond), bid(b.Succs[0]), bid(b.Succs[1]))
			case *ssa.Jump:
				line = fmt.Sprintf("jump B%d", bid(b.Succs[0]))
			case *ssa.Return:
				line = "return " + ops(x.Results...)
			case *ssa.Extract:
				line = fmt.Sprintf("extract %s #%d", vid(x.Tuple), x.Index)
			case *ssa.FieldAddr:
				line = fmt.Sprintf("fieldaddr %s .%d", vid(x.X), x.Field)
			case *ssa.IndexAddr:
				line = "indexaddr " + ops(x.X, x.Index)
			case *ssa.Slice:
				line = "slice " + ops(x.X, x.Low, x.High, x.Max)
			case *ssa.Convert:
				line = "convert " + ops(x.X) + " " + x.Type().String()
			case *ssa.ChangeType:
				line = "changetype " + ops(x.X)
			case *ssa.MakeInterface:
				line = "makeiface " + ops(x.X)
			case *ssa.TypeAssert:
				line = "typeassert " + ops(x.X)
			case *ssa.Alloc:
				line = "alloc " + x.Type().String()
			default:
				var rs []ssa.Value
				for _, o := range ins.Operands(nil) {
					if *o != nil {
						rs = append(rs, *o)
					}
				}
				line = fmt.Sprintf("%T %s", ins, ops(rs...))
			}
			if v, ok := ins.(ssa.Value); ok {
				line = vid(v) + " = " + line
			}
			sb.WriteString("  " + line + "\n")
		}
	}
	return sb.String()
}
