package props

import (
	"fmt"
	"go/token"
	"go/types"
	"sort"
	"strings"

	"golang.org/x/tools/go/ssa"

	"gpv/internal/core"
)

func init() { register("C14", checkC14) }

func isWriterFn(p *core.Prog, fn *ssa.Function) bool {
	f := p.Pos(fn.Pos())
	return strings.Contains(f, "write") || (strings.Contains(f, "pcapng.go") && (strings.HasPrefix(fn.Name(), "to") || strings.HasPrefix(fn.Name(), "To")))
}
func isReaderFn(p *core.Prog, fn *ssa.Function) bool {
	f := p.Pos(fn.Pos())
	return strings.Contains(f, "read") || strings.Contains(f, "snoop") || (strings.Contains(f, "pcapng.go") && strings.HasPrefix(fn.Name(), "From"))
}

// namedConstsOfType: constants of the named type tn used in fn (as stored values / comparison operands).
func constsOfType(fn *ssa.Function, tn string, stores bool) map[int64]ssa.Instruction {
	out := map[int64]ssa.Instruction{}
	isT := func(v ssa.Value) (int64, bool) {
		c, ok := v.(*ssa.Const)
		if !ok || c.Value == nil {
			return 0, false
		}
		n, ok := c.Type().(*types.Named)
		if !ok || n.Obj().Name() != tn {
			return 0, false
		}
		k, ok := core.ConstInt(c)
		return k, ok
	}
	core.Instrs(fn, func(ins ssa.Instruction) {
		switch x := ins.(type) {
		case *ssa.Store:
			if stores {
				if k, ok := isT(x.Val); ok {
					out[k] = ins
				}
			}
		case *ssa.BinOp:
			if !stores && (x.Op == token.EQL || x.Op == token.NEQ) {
				if k, ok := isT(x.X); ok {
					out[k] = ins
				}
				if k, ok := isT(x.Y); ok {
					out[k] = ins
				}
			}
		case *ssa.Convert:
			// uint16(ngOptionCodeX) / uint32(ngBlockTypeX) written directly
			if stores {
				if k, ok := isT(x.X); ok {
					out[k] = ins
				}
			}
		}
	})
	return out
}

func checkC14(c *core.Ctx) {
	p := c.P
	fns := pkgFunctions(p, "pcapgo")
	var wr, rd []*ssa.Function
	for _, fn := range fns {
		if isWriterFn(p, fn) {
			wr = append(wr, fn)
		}
		if isReaderFn(p, fn) {
			rd = append(rd, fn)
		}
	}
	c.Explain = "Structural clauses of 'capture files round-trip; a truncated file yields a true prefix' for pcapgo: (R14.1) every pcapng block type and option code the writers emit is one the reader has a case for, and the magics/versions the classic writer emits are accepted by the classic reader; (R14.2) fixed-offset fields are paired by the CaptureInfo/interface field they carry: writer offset and reader offset differ exactly by the part of the block header the reader consumes separately, with equal widths; every block's total length is written twice from the same value; (R14.3) io.EOF is returned only at the start of a block and mid-block EOF is mapped to io.ErrUnexpectedEOF; (R14.4) no stream/helper error is dropped, so nothing is returned after a failed read; (R14.5) 32-bit padding: every padding amount computed by writers and skipped by the reader is evaluated in an (exact | mod 4) abstract domain for all four residues of the length it pads and must equal (4 - len mod 4) mod 4; the option-area length computed by the writer is a multiple of 4. Not decided: equality of what is read back as values, libpcap interoperability, timestamp scaling."
	r1 := c.Rule("R14.1", "T", "writer vocabulary ⊆ reader vocabulary (block types, option codes, magics, versions)")
	r2 := c.Rule("R14.2", "D", "block/record fields: writer and reader offsets and widths agree; total length written twice")
	r3 := c.Rule("R14.3", "T", "EOF only at a block boundary; mid-block EOF becomes ErrUnexpectedEOF")
	r4 := c.Rule("R14.4", "T", "no dropped stream error (nothing is returned after a failed read)")
	r7 := c.Rule("R14.7", "T", "the classic pcap file header stores the caller's snaplen and link type unmodified (the reader rejects records longer than the stored snaplen, the writer accepts any)")
	if wf := p.Func("pcapgo", "Writer.WriteFileHeader"); wf == nil {
		r7.Missing("pcapgo.Writer.WriteFileHeader", "not found")
	} else {
		n := 0
		core.Instrs(wf, func(ins ssa.Instruction) {
			call, ok := ins.(*ssa.Call)
			if !ok {
				return
			}
			_, w, put, ok := binaryOrder(call)
			if !ok || !put || w != 4 || len(call.Call.Args) != 3 {
				return
			}
			v := call.Call.Args[2]
			// does the value depend on a parameter at all?
			var dep *ssa.Parameter
			var walk func(x ssa.Value, d int)
			walk = func(x ssa.Value, d int) {
				if d > 8 || dep != nil {
					return
				}
				switch y := x.(type) {
				case *ssa.Parameter:
					if y != wf.Params[0] {
						dep = y
					}
				case *ssa.Convert:
					walk(y.X, d+1)
				case *ssa.ChangeType:
					walk(y.X, d+1)
				case *ssa.BinOp:
					walk(y.X, d+1)
					walk(y.Y, d+1)
				case *ssa.Phi:
					for _, e := range y.Edges {
						walk(e, d+1)
					}
				case *ssa.Call:
					for _, a := range y.Call.Args {
						walk(a, d+1)
					}
				}
			}
			walk(v, 0)
			if dep == nil {
				return
			}
			n++
			key := "pcapgo.(*Writer).WriteFileHeader/stores:" + dep.Name()
			r7.Check(core.StripConv(v) == ssa.Value(dep), key, p.InstrPos(ins), dep.Name()+" is written as passed", "the value written for "+dep.Name()+" is computed from the parameter instead of being the parameter: a file written with a value the computation changes is rejected (or read with other lengths) by the reader")
		})
		if n < 2 {
			r7.Missing("pcapgo.(*Writer).WriteFileHeader/params", fmt.Sprintf("only %d header fields written from parameters", n))
		}
	}
	writerNarrowSizes(c, c.Rule("R14.10", "T", "the writers compute no size in uint8/uint16 that is widened afterwards"))
	optionSizerCountsHeaders(c, c.Rule("R14.11", "T", "the option sizer adds at least the 4-byte option header for every option"))
	r8 := c.Rule("R14.8", "T", "unsigned fields read from a file are not sign-extended (no same-width signed conversion before widening)")
	r9 := c.Rule("R14.9", "T", "ReadPacketData* (the copying calls) return no slice of memory owned by the reader")
	readerValueRules(c, r8, r9)
	r6 := c.Rule("R14.6", "T", "segment order of a pcapng packet block (header, data, padding, options, trailer) is the same in the writer and the reader")
	segmentOrder(c, r6)
	r5 := c.Rule("R14.5", "D", "padding is (4 - len mod 4) mod 4 on both sides, for all four residues")

	// ---- R14.1
	// block types: go/ssa folds uint32(ngBlockTypeX) to an untyped constant, so compare by value:
	// constants written with PutUint32 at offset 0 of a block whose length goes to [4:8]
	{
		wset := map[int64]ssa.Instruction{}
		for _, fn := range wr {
			hasLen := false
			var typ []struct {
				k  int64
				at ssa.Instruction
			}
			core.Instrs(fn, func(ins ssa.Instruction) {
				call, ok := ins.(*ssa.Call)
				if !ok || !strings.HasSuffix(core.StaticName(&call.Call), "PutUint32") || len(call.Call.Args) != 3 {
					return
				}
				sl, ok := call.Call.Args[1].(*ssa.Slice)
				if !ok {
					return
				}
				lo := int64(0)
				if sl.Low != nil {
					lo, _ = core.ConstInt(sl.Low)
				}
				k, isK := core.ConstFold(call.Call.Args[2])
				if lo == 4 && !isK {
					hasLen = true
				}
				if lo == 0 && isK && k != 0 {
					typ = append(typ, struct {
						k  int64
						at ssa.Instruction
					}{k, ins})
				}
			})
			if hasLen {
				for _, t := range typ {
					wset[t.k] = t.at
				}
			}
		}
		rset := map[int64]bool{}
		for _, fn := range rd {
			for k := range constsOfType(fn, "ngBlockType", false) {
				rset[k] = true
			}
		}
		for k, at := range wset {
			r1.Check(rset[k], fmt.Sprintf("pcapgo/ngBlockType=%#x", k), p.InstrPos(at), "written and parsed", fmt.Sprintf("the writer emits block type %#x but the reader has no case for it", k))
		}
		if len(wset) < 4 {
			r1.Missing("pcapgo/ngBlockType", "too few block types found in the writers")
		}
	}
	for _, tn := range []string{"ngOptionCode"} {
		wset, rset := map[int64]ssa.Instruction{}, map[int64]ssa.Instruction{}
		for _, fn := range wr {
			for k, at := range constsOfType(fn, tn, true) {
				wset[k] = at
			}
		}
		// toNgOptions etc. build options in pcapng.go
		for _, fn := range fns {
			if strings.HasPrefix(fn.Name(), "toNgOptions") {
				for k, at := range constsOfType(fn, tn, true) {
					wset[k] = at
				}
			}
		}
		for _, fn := range rd {
			for k, at := range constsOfType(fn, tn, false) {
				rset[k] = at
			}
		}
		var ks []int64
		for k := range wset {
			ks = append(ks, k)
		}
		sort.Slice(ks, func(i, j int) bool { return ks[i] < ks[j] })
		for _, k := range ks {
			key := fmt.Sprintf("pcapgo/%s=%d", tn, k)
			_, ok := rset[k]
			r1.Check(ok, key, p.InstrPos(wset[k]), "written and parsed", fmt.Sprintf("the writer emits %s %d but no reader case handles it: it is silently dropped on read-back", tn, k))
		}
		if len(ks) < 4 {
			r1.Missing("pcapgo/"+tn, "too few writer constants found")
		}
	}
	// classic pcap magics and versions: writer constants compared in the reader
	{
		wf := p.Func("pcapgo", "Writer.WriteFileHeader")
		rf := p.Func("pcapgo", "Reader.readHeader")
		if wf == nil || rf == nil {
			r1.Missing("pcapgo/classic-header", "WriteFileHeader/readHeader not found")
		} else {
			wc := map[int64]bool{}
			core.Instrs(wf, func(ins ssa.Instruction) {
				if call, ok := ins.(*ssa.Call); ok && strings.Contains(core.StaticName(&call.Call), "PutUint") && len(call.Call.Args) == 3 {
					if k, ok := core.ConstFold(call.Call.Args[2]); ok {
						wc[k] = true
					}
				}
			})
			rc := map[int64]bool{}
			core.Instrs(rf, func(ins ssa.Instruction) {
				if bo, ok := ins.(*ssa.BinOp); ok {
					if k, ok := core.ConstFold(bo.Y); ok {
						rc[k] = true
					}
					if k, ok := core.ConstFold(bo.X); ok {
						rc[k] = true
					}
				}
			})
			for k := range wc {
				if k == 0 {
					continue
				}
				r1.Check(rc[k], fmt.Sprintf("pcapgo/classic-header-const=%#x", k), p.Pos(wf.Pos()), "accepted by the reader", fmt.Sprintf("the classic writer emits header constant %#x that the reader does not accept", k))
			}
		}
	}

	// ---- R14.2 field pairing
	fieldNames := []string{"CaptureLength", "Length", "InterfaceIndex", "SnapLength", "LinkType", "secretsLength", "secretsType"}
	wOff := map[string][]fld{}
	for _, fn := range wr {
		core.Instrs(fn, func(ins ssa.Instruction) {
			call, ok := ins.(*ssa.Call)
			if !ok || len(call.Call.Args) != 3 {
				return
			}
			name := core.StaticName(&call.Call)
			w := int64(0)
			switch {
			case strings.HasSuffix(name, "PutUint16"):
				w = 2
			case strings.HasSuffix(name, "PutUint32"):
				w = 4
			case strings.HasSuffix(name, "PutUint64"):
				w = 8
			}
			if w == 0 {
				return
			}
			off := int64(0)
			if sl, ok := call.Call.Args[1].(*ssa.Slice); ok && sl.Low != nil {
				off, _ = core.ConstInt(sl.Low)
			}
			t := termOf(fn, call.Call.Args[2], 0)
			for _, fnm := range fieldNames {
				if strings.HasSuffix(t, "."+fnm) {
					wOff[fn.Name()+":"+fnm] = append(wOff[fn.Name()+":"+fnm], fld{off, w, ins, fn})
				}
			}
		})
	}
	rOff := map[string][]fld{}
	for _, fn := range rd {
		core.Instrs(fn, func(ins ssa.Instruction) {
			st, ok := ins.(*ssa.Store)
			if !ok {
				return
			}
			fv := fieldVarOfAddr(st.Addr)
			if fv == nil {
				return
			}
			v := core.StripConv(st.Val)
			call, ok := v.(*ssa.Call)
			if !ok || !isReaderUint(call) {
				return
			}
			w := int64(4)
			n := ""
			if call.Call.IsInvoke() {
				n = call.Call.Method.Name()
			} else {
				n = call.Call.StaticCallee().Name()
			}
			switch {
			case strings.HasSuffix(n, "16"):
				w = 2
			case strings.HasSuffix(n, "64"):
				w = 8
			}
			arg := call.Call.Args[len(call.Call.Args)-1]
			off := int64(0)
			if sl, ok := arg.(*ssa.Slice); ok && sl.Low != nil {
				off, _ = core.ConstInt(sl.Low)
			}
			rOff[fv.Name()] = append(rOff[fv.Name()], fld{off, w, ins, fn})
		})
	}
	// expected pairings: writer function -> (reader function, header bytes consumed before the reader's buffer starts)
	pairs := []struct {
		wfn, rfn string
		delta    int64
	}{
		{"WritePacketWithOptions", "readPacketHeader", 8},
		{"AddInterface", "readInterfaceDescriptor", 8},
		{"writePacketHeader", "readPacketHeader", 0},
		{"WriteDecryptionSecretsBlock", "readDecryptionSecretsBlock", 8},
	}
	nPair := 0
	for _, pr := range pairs {
		for _, fnm := range fieldNames {
			ws := wOff[pr.wfn+":"+fnm]
			if len(ws) == 0 {
				continue
			}
			for _, w := range ws {
				// reader candidates in the named reader function of the matching reader type
				var cands []fld
				for _, r := range rOff[fnm] {
					if r.fn.Name() == pr.rfn && sameFormat(w.fn, r.fn) {
						cands = append(cands, r)
					}
				}
				if len(cands) == 0 {
					continue
				}
				nPair++
				key := fmt.Sprintf("pcapgo/%s.%s~%s", pr.wfn, fnm, pr.rfn)
				ok := false
				for _, r := range cands {
					if r.off == w.off-pr.delta && r.width == w.width {
						ok = true
					}
				}
				if ok {
					r2.OK(key, p.InstrPos(w.at), fmt.Sprintf("written at %d (width %d), read at %d", w.off, w.width, w.off-pr.delta))
				} else {
					r2.Violate(key, p.InstrPos(w.at), fmt.Sprintf("%s is written at block offset %d (width %d) but read at offset(s) %v after a %d-byte header: the value read back is a different field", fnm, w.off, w.width, offsList(cands), pr.delta), nil)
				}
			}
		}
	}
	c.Counts["paired_fields"] = nPair
	if nPair < 6 {
		r2.Missing("pcapgo/field-pairs", fmt.Sprintf("only %d writer/reader field pairs found", nPair))
	}
	// total length twice
	for _, fn := range wr {
		var hdr, trl ssa.Value
		var at ssa.Instruction
		core.Instrs(fn, func(ins ssa.Instruction) {
			call, ok := ins.(*ssa.Call)
			if !ok || !strings.HasSuffix(core.StaticName(&call.Call), "PutUint32") || len(call.Call.Args) != 3 {
				return
			}
			sl, ok := call.Call.Args[1].(*ssa.Slice)
			if !ok {
				return
			}
			lo := int64(0)
			if sl.Low != nil {
				lo, _ = core.ConstInt(sl.Low)
			}
			hi := int64(-1)
			if sl.High != nil {
				hi, _ = core.ConstInt(sl.High)
			}
			if _, isK := core.ConstFold(call.Call.Args[2]); isK {
				return
			}
			if lo == 4 && hi == 8 {
				hdr = call.Call.Args[2]
			}
			if lo == 0 && hdr != nil && core.Dominates(hdr.(ssa.Instruction), ins) {
				trl, at = call.Call.Args[2], ins
			}
		})
		if hdr == nil {
			continue
		}
		key := "pcapgo." + fn.Name() + "/total-length-twice"
		if trl == nil {
			r2.Undecided(key, p.Pos(fn.Pos()), "no separate write of the trailing total length recognised")
		} else {
			r2.Check(trl == hdr, key, p.InstrPos(at), "leading and trailing block length are the same value", "the trailing block length differs from the leading one: readers that walk backwards, and this reader's skip logic, lose the block framing")
		}
	}

	// ---- R14.3
	if rb := p.Func("pcapgo", "NgReader.readBytes"); rb != nil {
		mapped := false
		for _, ret := range core.Returns(rb) {
			if len(ret.Results) == 2 {
				if a, ok := core.IsLoad(core.RetOperand(ret, 1)); ok {
					if g, ok := a.(*ssa.Global); ok && g.Name() == "ErrUnexpectedEOF" {
						for _, dc := range core.DomConds(ret.Block()) {
							if bo, ok := dc.V.(*ssa.BinOp); ok && dc.Truth && bo.Op == token.EQL {
								if a2, ok := core.IsLoad(bo.Y); ok {
									if g2, ok := a2.(*ssa.Global); ok && g2.Name() == "EOF" {
										mapped = true
									}
								}
							}
						}
					}
				}
			}
		}
		r3.Check(mapped, "pcapgo.(*NgReader).readBytes/eof-mapped", p.Pos(rb.Pos()), "EOF inside a read becomes ErrUnexpectedEOF", "an EOF in the middle of a block is reported as a clean end of file: a truncated file looks complete")
	} else {
		r3.Missing("pcapgo.readBytes", "not found")
	}
	// who returns io.EOF in the pcapng reader: only readBlock under n == 0
	for _, fn := range rd {
		if recvTypeName(fn) != "NgReader" {
			continue
		}
		for _, ret := range core.Returns(fn) {
			n := len(ret.Results)
			if n == 0 {
				continue
			}
			a, ok := core.IsLoad(core.RetOperand(ret, n-1))
			if !ok {
				continue
			}
			g, ok := a.(*ssa.Global)
			if !ok || g.Name() != "EOF" {
				continue
			}
			key := core.FnKey(fn) + "/returns-EOF"
			okEOF := false
			if fn.Name() == "readBlock" {
				for _, dc := range core.DomConds(ret.Block()) {
					if bo, ok := dc.V.(*ssa.BinOp); ok && dc.Truth && bo.Op == token.EQL {
						if k, ok := core.ConstInt(bo.Y); ok && k == 0 {
							okEOF = true
						}
					}
				}
			}
			r3.Check(okEOF, key, p.InstrPos(ret), "EOF only when zero bytes of the block header were read", "io.EOF is returned although part of a block was read: a file cut inside a block ends without an error")
		}
	}

	// ---- R14.4
	nIO := decodeErrorDiscipline(c, r4, rd, func(cc *ssa.CallCommon) bool {
		if f := cc.StaticCallee(); f != nil {
			switch f.String() {
			case "io.ReadFull", "(*bufio.Reader).Discard", "(*bufio.Reader).Peek", "(*bufio.Reader).Read":
				return true
			}
			if p.InModule(f) && core.FnPkg(f).Path() == core.Mod+"/pcapgo" && isReaderFn(p, f) {
				return true
			}
			return false
		}
		return cc.IsInvoke() && cc.Method.Name() == "Read"
	})
	c.Counts["reader_io_call_sites"] = nIO
	nW := decodeErrorDiscipline(c, r4, wr, func(cc *ssa.CallCommon) bool {
		if f := cc.StaticCallee(); f != nil {
			if f.String() == "(*bufio.Writer).Write" || f.String() == "(*bufio.Writer).Flush" {
				return true
			}
			return p.InModule(f) && core.FnPkg(f).Path() == core.Mod+"/pcapgo" && isWriterFn(p, f)
		}
		return cc.IsInvoke() && cc.Method.Name() == "Write"
	})
	c.Counts["writer_io_call_sites"] = nW

	// ---- R14.5 padding
	checkPadding(c, r5, wr, rd)
}

type fld struct {
	off, width int64
	at         ssa.Instruction
	fn         *ssa.Function
}

func offsList(fs []fld) []int64 {
	var out []int64
	for _, f := range fs {
		out = append(out, f.off)
	}
	return out
}

// sameFormat: writer and reader belong to the same file format (pcapng vs classic).
func sameFormat(w, r *ssa.Function) bool {
	wn, rn := recvTypeName(w), recvTypeName(r)
	ng := func(s string) bool { return strings.HasPrefix(s, "Ng") }
	return ng(wn) == ng(rn) && !strings.Contains(rn, "Snoop")
}

// m4Varies: functions whose result provably takes different residues for different inputs.
var m4Varies = map[*ssa.Function]bool{}

// m4Summary: residue of a function's result for arbitrary arguments.
func m4Summary(cache map[*ssa.Function]m4) func(*ssa.Function) m4 {
	var sum func(f *ssa.Function) m4
	sum = func(f *ssa.Function) m4 {
		if v, ok := cache[f]; ok {
			return v
		}
		cache[f] = m4Top
		if len(f.Blocks) == 0 {
			return m4Top
		}
		ev := &m4Eval{fn: f, env: map[ssa.Value]m4{}, sum: sum, memo: map[ssa.Value]m4{}, busy: map[ssa.Value]bool{}}
		var out m4
		first := true
		for _, ret := range core.Returns(f) {
			if len(ret.Results) == 0 {
				return m4Top
			}
			r := ev.evalEnum(ret.Results[0])
			if ev.varies {
				m4Varies[f] = true
			}
			if first {
				out, first = r, false
			} else {
				out = joinM4(out, r)
			}
		}
		cache[f] = out
		return out
	}
	return sum
}

func checkPadding(c *core.Ctx, r *core.Rule, wr, rd []*ssa.Function) {
	p := c.P
	cache := map[*ssa.Function]m4{}
	sum := m4Summary(cache)
	nSites := 0
	evalSite := func(fn *ssa.Function, site ssa.Instruction, pad ssa.Value, role string) {
		// the single unknown leaf (after summaries) is the padded length
		leaves := map[ssa.Value]bool{}
		m4Leaves(pad, 0, leaves, map[ssa.Value]bool{})
		ev := &m4Eval{fn: fn, env: map[ssa.Value]m4{}, sum: sum, memo: map[ssa.Value]m4{}, busy: map[ssa.Value]bool{}}
		var unk []ssa.Value
		for l := range leaves {
			if ev.eval(l).kind == 0 {
				unk = append(unk, l)
			}
		}
		ord := 0
		key := fmt.Sprintf("%s/padding:%s", core.FnKey(fn), role)
		for {
			ord++
			k := key
			if ord > 1 {
				k = fmt.Sprintf("%s#%d", key, ord)
			}
			dup := false
			for _, o := range r.Obls {
				if o.Key == k {
					dup = true
				}
			}
			if !dup {
				key = k
				break
			}
		}
		if len(unk) != 1 {
			r.Undecided(key, p.InstrPos(site), fmt.Sprintf("padding depends on %d unknown quantities", len(unk)))
			return
		}
		nSites++
		x := unk[0]
		for res := int64(0); res < 4; res++ {
			ev := &m4Eval{fn: fn, env: map[ssa.Value]m4{x: m4Res(res)}, sum: sum, memo: map[ssa.Value]m4{}, busy: map[ssa.Value]bool{}}
			// is the site executed?
			executed := true
			decided := true
			for _, dc := range core.DomConds(site.Block()) {
				if !mentionsVal(dc.V, x, 0) {
					continue
				}
				b, ok := ev.evalCond(dc.V)
				if !ok {
					decided = false
					continue
				}
				if b != dc.Truth {
					executed = false
				}
			}
			want := (4 - res) % 4
			got := int64(0)
			if executed {
				v := ev.eval(pad)
				if v.kind != 1 {
					if !decided || v.kind == 0 {
						r.Undecided(key, p.InstrPos(site), fmt.Sprintf("padding not exactly determined for length ≡ %d (mod 4)", res))
						return
					}
				}
				got = v.n
			}
			if got != want {
				r.Violate(key, p.InstrPos(site), fmt.Sprintf("for a length ≡ %d (mod 4) %d padding byte(s) are %s, the 32-bit alignment needs %d: every following block is misframed", res, got, role, want), nil)
				return
			}
		}
		r.OK(key, p.InstrPos(site), "padding = (4 - len mod 4) mod 4 for all four residues")
	}
	// reader: discard(arg) where arg uses mod 4
	for _, fn := range rd {
		core.Instrs(fn, func(ins ssa.Instruction) {
			cc := core.CallCommonOf(ins)
			if cc == nil || cc.StaticCallee() == nil || cc.StaticCallee().Name() != "discard" || len(cc.Args) != 2 {
				return
			}
			if !usesMod4(cc.Args[1], 0, map[ssa.Value]bool{}) {
				return
			}
			evalSite(fn, ins, cc.Args[1], "skipped")
		})
	}
	// writer: Write(buf[:p]) where p uses mod 4
	for _, fn := range wr {
		core.Instrs(fn, func(ins ssa.Instruction) {
			cc := core.CallCommonOf(ins)
			if cc == nil || len(cc.Args) < 2 {
				return
			}
			name := ""
			if f := cc.StaticCallee(); f != nil {
				name = f.Name()
			} else if cc.IsInvoke() {
				name = cc.Method.Name()
			}
			if name != "Write" {
				return
			}
			arg := cc.Args[len(cc.Args)-1]
			sl, ok := arg.(*ssa.Slice)
			if !ok || sl.High == nil || !usesMod4(sl.High, 0, map[ssa.Value]bool{}) {
				return
			}
			evalSite(fn, ins, sl.High, "written")
		})
	}
	c.Counts["padding_sites"] = nSites
	// option area is a multiple of 4
	if f := p.Func("pcapgo", "prepareNgOptions"); f != nil {
		v := sum(f)
		res, ok := v.res()
		if !ok && m4Varies[f] {
			r.Violate("pcapgo.prepareNgOptions/multiple-of-4", p.Pos(f.Pos()), "the option area length is not a multiple of 4 for every option length (its residue varies with the option lengths): block lengths and padding no longer line up", nil)
		} else if !ok {
			r.Undecided("pcapgo.prepareNgOptions/multiple-of-4", p.Pos(f.Pos()), "result not determined modulo 4")
		} else {
			r.Check(res == 0, "pcapgo.prepareNgOptions/multiple-of-4", p.Pos(f.Pos()), "option area length ≡ 0 (mod 4)", fmt.Sprintf("the option area length is ≡ %d (mod 4): block lengths and padding no longer line up", res))
		}
	}
	if nSites < 4 {
		r.Undecided("pcapgo/padding-sites", "", fmt.Sprintf("only %d padding sites recognised", nSites))
	}
}

func mentionsVal(v, x ssa.Value, depth int) bool {
	if depth > 10 {
		return false
	}
	if v == x {
		return true
	}
	switch y := v.(type) {
	case *ssa.BinOp:
		return mentionsVal(y.X, x, depth+1) || mentionsVal(y.Y, x, depth+1)
	case *ssa.Convert:
		return mentionsVal(y.X, x, depth+1)
	case *ssa.Phi:
		for _, e := range y.Edges {
			if e != ssa.Value(y) && mentionsVal(e, x, depth+1) {
				return true
			}
		}
	}
	return false
}

// writerNarrowSizes (R14.10): the capture-file writers compute block and
// option sizes from lengths that can be as large as the field that stores
// them (65535 for an option value).  Rounding such a length up, or adding a
// header size to it, in uint8/uint16 wraps for the largest values; the wrapped
// size then goes into the block length while the bytes written are not
// shortened, so the file no longer frames.  Every addition/multiplication in a
// narrow unsigned type on a non-constant operand whose result is widened
// afterwards is reported, in the writer files.
func writerNarrowSizes(c *core.Ctx, r *core.Rule) {
	p := c.P
	n, nAr := 0, 0
	for _, fn := range pkgFunctions(p, "pcapgo") {
		f := p.Pos(fn.Pos())
		if !strings.Contains(f, "write") {
			continue
		}
		k := 0
		core.Instrs(fn, func(ins ssa.Instruction) {
			bo, ok := ins.(*ssa.BinOp)
			if !ok {
				return
			}
			nAr++
			if bo.Op != token.ADD && bo.Op != token.MUL && bo.Op != token.SHL {
				return
			}
			bt, ok := bo.Type().Underlying().(*types.Basic)
			if !ok || (bt.Kind() != types.Uint8 && bt.Kind() != types.Uint16) {
				return
			}
			_, kx := core.ConstInt(bo.X)
			_, ky := core.ConstInt(bo.Y)
			if kx && ky {
				return
			}
			// is the (possibly masked) result widened?
			widened := false
			seen := map[ssa.Value]bool{}
			var follow func(v ssa.Value, d int)
			follow = func(v ssa.Value, d int) {
				if d > 4 || seen[v] || widened {
					return
				}
				seen[v] = true
				refs := v.Referrers()
				if refs == nil {
					return
				}
				for _, ref := range *refs {
					switch x := ref.(type) {
					case *ssa.Convert:
						if wb, ok := x.Type().Underlying().(*types.Basic); ok && wb.Info()&types.IsInteger != 0 && wb.Kind() != types.Uint8 && wb.Kind() != types.Uint16 && wb.Kind() != types.Int8 && wb.Kind() != types.Int16 {
							widened = true
						}
					case *ssa.BinOp:
						if x.Op == token.AND || x.Op == token.AND_NOT {
							follow(x, d+1)
						}
					}
				}
			}
			follow(bo, 0)
			if !widened {
				return
			}
			n++
			k++
			r.Violate(fmt.Sprintf("%s/narrow-size#%d", core.FnKey(fn), k), p.InstrPos(ins), "a size is computed in "+bt.Name()+" from a length that can reach the maximum of that type and is widened only afterwards: for the largest lengths the sum wraps, the block (or option) length written to the file is too small by 2^16 while the value is written in full, and a reader loses the framing from that block on", nil)
		})
	}
	c.Counts["writer_arithmetic_ops"] = nAr
	if nAr < 10 {
		r.Missing("pcapgo/writer arithmetic", fmt.Sprintf("only %d operations found", nAr))
	} else if n == 0 {
		r.OK("pcapgo/writers-no-narrow-sizes", "", fmt.Sprintf("%d arithmetic operations in the writers; none adds or multiplies in uint8/uint16 before widening", nAr))
	}
}

// optionSizerCountsHeaders (R14.11): every pcapng option costs a 4-byte
// header in the file whatever its value is.  The function that sizes an
// option list (prepareNgOptions) adds, on every iteration of its loop over the
// options, an amount whose lower bound — from constants, masks and additions,
// with an arbitrary non-negative value length — is at least 4.  Counting the
// headers only when the values are non-empty makes the block length too small
// for options with empty values.
func optionSizerCountsHeaders(c *core.Ctx, r *core.Rule) {
	p := c.P
	fn := p.Func("pcapgo", "prepareNgOptions")
	if fn == nil || len(fn.Blocks) == 0 {
		r.Missing("pcapgo.prepareNgOptions", "not found")
		return
	}
	var lb func(v ssa.Value, d int) int64
	lb = func(v ssa.Value, d int) int64 {
		if d > 10 {
			return 0
		}
		if k, ok := core.ConstInt(v); ok {
			return k
		}
		switch x := v.(type) {
		case *ssa.Convert:
			return lb(x.X, d+1)
		case *ssa.BinOp:
			switch x.Op {
			case token.ADD:
				return lb(x.X, d+1) + lb(x.Y, d+1)
			case token.AND_NOT:
				if k, ok := core.ConstInt(x.Y); ok {
					if a := lb(x.X, d+1) - k; a > 0 {
						return a
					}
				}
				return 0
			}
			return 0
		case *ssa.Phi:
			m := int64(1 << 40)
			for _, e := range x.Edges {
				if l := lb(e, d+1); l < m {
					m = l
				}
			}
			return m
		}
		return 0
	}
	// the accumulator: a loop-header φ of the returned value
	n := 0
	for _, b := range fn.Blocks {
		for _, ins := range b.Instrs {
			ph, ok := ins.(*ssa.Phi)
			if !ok || len(ph.Edges) != 2 {
				continue
			}
			if bt, ok := ph.Type().Underlying().(*types.Basic); !ok || bt.Info()&types.IsInteger == 0 {
				continue
			}
			var next ssa.Value
			for i, pr := range b.Preds {
				if b.Dominates(pr) {
					next = ph.Edges[i]
				}
			}
			add, ok := next.(*ssa.BinOp)
			if !ok || add.Op != token.ADD {
				continue
			}
			var inc ssa.Value
			if add.X == ssa.Value(ph) {
				inc = add.Y
			} else if add.Y == ssa.Value(ph) {
				inc = add.X
			} else {
				continue
			}
			// only the accumulator that is returned
			isRet := false
			for _, ret := range core.Returns(fn) {
				seen := map[ssa.Value]bool{}
				var reach func(v ssa.Value, d int) bool
				reach = func(v ssa.Value, d int) bool {
					if d > 6 || seen[v] {
						return false
					}
					seen[v] = true
					if v == ssa.Value(ph) {
						return true
					}
					switch y := v.(type) {
					case *ssa.Phi:
						for _, e := range y.Edges {
							if reach(e, d+1) {
								return true
							}
						}
					case *ssa.BinOp:
						return reach(y.X, d+1) || reach(y.Y, d+1)
					case *ssa.Convert:
						return reach(y.X, d+1)
					}
					return false
				}
				if reach(ret.Results[0], 0) {
					isRet = true
				}
			}
			if !isRet {
				continue
			}
			n++
			l := lb(inc, 0)
			r.Check(l >= 4, core.FnKey(fn)+"/per-option-header", p.InstrPos(add), fmt.Sprintf("every option adds at least %d bytes", l), "the size added per option has no lower bound of 4 (the option header): for options whose value is empty nothing, or too little, is added, so the block length written is smaller than the bytes the option writer emits and the reader loses the framing at that block")
		}
	}
	if n < 1 {
		r.Missing("pcapgo.prepareNgOptions/accumulator", "no returned loop accumulator found")
	}
}
