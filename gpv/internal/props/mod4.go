package props

import (
	"go/token"

	"golang.org/x/tools/go/ssa"

	"gpv/internal/core"
)

// m4 is an abstract integer: exactly known, known modulo 4, or unknown.
type m4 struct {
	kind int // 0 top, 1 exact, 2 residue
	n    int64
}

var m4Top = m4{}

func m4Exact(n int64) m4 { return m4{1, n} }
func m4Res(r int64) m4   { return m4{2, ((r % 4) + 4) % 4} }
func (a m4) res() (int64, bool) {
	switch a.kind {
	case 1:
		return ((a.n % 4) + 4) % 4, true
	case 2:
		return a.n, true
	}
	return 0, false
}

// m4Eval evaluates integer SSA values in the (exact | mod 4) domain.
type m4Eval struct {
	fn    *ssa.Function
	env   map[ssa.Value]m4 // fixed leaves
	sum   func(*ssa.Function) m4
	depth int
	memo  map[ssa.Value]m4
	busy  map[ssa.Value]bool
	// varies is set when an enumeration found two different known residues
	varies bool
}

func (e *m4Eval) eval(v ssa.Value) m4 {
	if x, ok := e.env[v]; ok {
		return x
	}
	if x, ok := e.memo[v]; ok {
		return x
	}
	if e.busy[v] {
		return m4Top
	}
	e.busy[v] = true
	defer delete(e.busy, v)
	r := e.eval1(v)
	e.memo[v] = r
	return r
}

func (e *m4Eval) eval1(v ssa.Value) m4 {
	switch x := v.(type) {
	case *ssa.Const:
		if k, ok := core.ConstInt(x); ok {
			return m4Exact(k)
		}
	case *ssa.Convert:
		return e.eval(x.X)
	case *ssa.ChangeType:
		return e.eval(x.X)
	case *ssa.BinOp:
		a, b := e.eval(x.X), e.eval(x.Y)
		if a.kind == 1 && b.kind == 1 {
			switch x.Op {
			case token.ADD:
				return m4Exact(a.n + b.n)
			case token.SUB:
				return m4Exact(a.n - b.n)
			case token.MUL:
				return m4Exact(a.n * b.n)
			case token.AND:
				return m4Exact(a.n & b.n)
			case token.REM:
				if b.n != 0 {
					return m4Exact(a.n % b.n)
				}
			case token.SHL:
				if b.n >= 0 && b.n < 32 {
					return m4Exact(a.n << uint(b.n))
				}
			}
		}
		ra, oka := a.res()
		rb, okb := b.res()
		switch x.Op {
		case token.ADD:
			if oka && okb {
				return m4Res(ra + rb)
			}
		case token.SUB:
			if oka && okb {
				return m4Res(ra - rb)
			}
		case token.MUL:
			if oka && okb {
				return m4Res(ra * rb)
			}
			if (a.kind == 1 && a.n%4 == 0) || (b.kind == 1 && b.n%4 == 0) {
				return m4Res(0)
			}
		case token.AND:
			// x & 3 is exactly x mod 4
			if b.kind == 1 && b.n == 3 && oka {
				return m4Exact(ra)
			}
			if a.kind == 1 && a.n == 3 && okb {
				return m4Exact(rb)
			}
			// x &^ 3 style masks keep multiples of 4
		case token.AND_NOT:
			if b.kind == 1 && b.n == 3 {
				return m4Res(0)
			}
		case token.REM:
			if b.kind == 1 && b.n == 4 && oka {
				return m4Exact(ra)
			}
		case token.SHL:
			if b.kind == 1 && b.n >= 2 {
				return m4Res(0)
			}
		}
	case *ssa.Phi:
		return e.evalPhi(x)
	case *ssa.Call:
		if nm, _ := core.BuiltinCall(x); nm == "len" || nm == "cap" {
			return m4Top
		}
		if f := x.Call.StaticCallee(); f != nil && e.sum != nil {
			return e.sum(f)
		}
	case *ssa.Extract:
		return m4Top
	}
	return m4Top
}

// evalPhi: resolve through the controlling condition when it evaluates to an
// exact boolean; otherwise join equal values; loop phis are iterated.
func (e *m4Eval) evalPhi(ph *ssa.Phi) m4 {
	b := ph.Block()
	// loop accumulation: one edge depends on the phi itself
	// (handled by fix-point: assume the non-cyclic value, check the cyclic edge keeps it)
	var vals []m4
	cyc := -1
	for i, ed := range ph.Edges {
		if dependsOnPhi(ed, ph, 0) {
			cyc = i
			continue
		}
		vals = append(vals, e.eval(ed))
	}
	if cyc >= 0 {
		if len(vals) == 0 {
			return m4Top
		}
		init := vals[0]
		for _, v := range vals[1:] {
			if v != init {
				init = joinM4(init, v)
			}
		}
		// assume the residue of init and re-evaluate the cyclic edge
		assume := init
		if r, ok := init.res(); ok {
			assume = m4Res(r)
		}
		e.env[ph] = assume
		back := e.evalEnum(ph.Edges[cyc])
		delete(e.env, ph)
		if rb, ok := back.res(); ok {
			if ra, ok2 := assume.res(); ok2 {
				if ra == rb {
					return assume
				}
				e.varies = true // one iteration provably changes the residue
			}
		}
		return m4Top
	}
	// two-way diamond / triangle: find the controlling If
	if len(ph.Edges) == 2 {
		if idom := b.Idom(); idom != nil {
			if iff := blockIf(idom); iff != nil {
				if c, ok := e.evalCond(iff.Cond); ok {
					taken := idom.Succs[1]
					if c {
						taken = idom.Succs[0]
					}
					for i, p := range b.Preds {
						if p == taken || (taken == b && p == idom) || dominatesBlock(taken, p) {
							return e.eval(ph.Edges[i])
						}
					}
				}
			}
		}
	}
	out := e.eval(ph.Edges[0])
	for _, ed := range ph.Edges[1:] {
		out = joinM4(out, e.eval(ed))
	}
	return out
}

func dominatesBlock(a, b *ssa.BasicBlock) bool { return a == b || a.Dominates(b) }

func joinM4(a, b m4) m4 {
	if a == b {
		return a
	}
	ra, oka := a.res()
	rb, okb := b.res()
	if oka && okb && ra == rb {
		return m4Res(ra)
	}
	return m4Top
}

func dependsOnPhi(v ssa.Value, ph *ssa.Phi, depth int) bool {
	if depth > 8 {
		return false
	}
	if v == ssa.Value(ph) {
		return true
	}
	switch x := v.(type) {
	case *ssa.BinOp:
		return dependsOnPhi(x.X, ph, depth+1) || dependsOnPhi(x.Y, ph, depth+1)
	case *ssa.Convert:
		return dependsOnPhi(x.X, ph, depth+1)
	case *ssa.Phi:
		if x == ph {
			return true
		}
		for _, e := range x.Edges {
			if e != ssa.Value(x) && dependsOnPhi(e, ph, depth+1) {
				return true
			}
		}
	}
	return false
}

func (e *m4Eval) evalCond(c ssa.Value) (bool, bool) {
	bo, ok := c.(*ssa.BinOp)
	if !ok {
		return false, false
	}
	a, b := e.eval(bo.X), e.eval(bo.Y)
	if a.kind != 1 || b.kind != 1 {
		return false, false
	}
	switch bo.Op {
	case token.EQL:
		return a.n == b.n, true
	case token.NEQ:
		return a.n != b.n, true
	case token.LSS:
		return a.n < b.n, true
	case token.LEQ:
		return a.n <= b.n, true
	case token.GTR:
		return a.n > b.n, true
	case token.GEQ:
		return a.n >= b.n, true
	}
	return false, false
}

// m4Leaves: the non-constant leaves (loads, parameters, len calls, call results) of v.
func m4Leaves(v ssa.Value, depth int, out map[ssa.Value]bool, seen map[ssa.Value]bool) {
	if depth > 12 || seen[v] {
		return
	}
	seen[v] = true
	switch x := v.(type) {
	case *ssa.Const:
	case *ssa.Convert:
		m4Leaves(x.X, depth+1, out, seen)
	case *ssa.ChangeType:
		m4Leaves(x.X, depth+1, out, seen)
	case *ssa.BinOp:
		m4Leaves(x.X, depth+1, out, seen)
		m4Leaves(x.Y, depth+1, out, seen)
	case *ssa.Phi:
		for _, e := range x.Edges {
			m4Leaves(e, depth+1, out, seen)
		}
	default:
		out[v] = true
	}
}

// usesMod4: v's expression applies &3 or %4 somewhere.
func usesMod4(v ssa.Value, depth int, seen map[ssa.Value]bool) bool {
	if depth > 12 || seen[v] {
		return false
	}
	seen[v] = true
	switch x := v.(type) {
	case *ssa.BinOp:
		if (x.Op == token.AND || x.Op == token.AND_NOT) && (isConstK(x.Y, 3) || isConstK(x.X, 3)) {
			return true
		}
		if x.Op == token.REM && isConstK(x.Y, 4) {
			return true
		}
		return usesMod4(x.X, depth+1, seen) || usesMod4(x.Y, depth+1, seen)
	case *ssa.Convert:
		return usesMod4(x.X, depth+1, seen)
	case *ssa.Phi:
		for _, e := range x.Edges {
			if usesMod4(e, depth+1, seen) {
				return true
			}
		}
	}
	return false
}

func isConstK(v ssa.Value, k int64) bool {
	c, ok := core.ConstInt(v)
	return ok && c == k
}

// evalEnum evaluates v; leaves whose value is unknown are enumerated over the
// four residues, and the result is the common outcome (else unknown).
func (e *m4Eval) evalEnum(v ssa.Value) m4 {
	leaves := map[ssa.Value]bool{}
	m4Leaves(v, 0, leaves, map[ssa.Value]bool{})
	var unk []ssa.Value
	for l := range leaves {
		if _, fixed := e.env[l]; fixed {
			continue
		}
		saved := e.memo
		e.memo = map[ssa.Value]m4{}
		x := e.eval(l)
		e.memo = saved
		if x.kind == 0 {
			unk = append(unk, l)
		}
	}
	if len(unk) > 3 {
		return m4Top
	}
	var out m4
	first := true
	var rec func(i int) bool
	rec = func(i int) bool {
		if i == len(unk) {
			saved := e.memo
			e.memo = map[ssa.Value]m4{}
			r := e.eval(v)
			e.memo = saved
			if first {
				out, first = r, false
				return true
			}
			if _, ok1 := out.res(); ok1 {
				if _, ok2 := r.res(); ok2 && joinM4(out, r).kind == 0 {
					e.varies = true // two assignments give two different known residues
				}
			}
			out = joinM4(out, r)
			return out.kind != 0
		}
		for r := int64(0); r < 4; r++ {
			e.env[unk[i]] = m4Res(r)
			ok := rec(i + 1)
			delete(e.env, unk[i])
			if !ok {
				return false
			}
		}
		return true
	}
	if !rec(0) {
		return m4Top
	}
	return out
}
