package props

import (
	"fmt"
	"sort"
	"strings"

	"golang.org/x/tools/go/ssa"

	"gpv/internal/assign"
	"gpv/internal/core"
)

func init() { register("C05", checkC05) }

// the common stack the property quantifies over (type names in layers / gopacket)
var c05Stack = map[string]bool{
	"Ethernet": true, "Dot1Q": true, "IPv4": true, "IPv6": true, "IPv6HopByHop": true, "IPv6Routing": true,
	"IPv6Fragment": true, "IPv6Destination": true, "TCP": true, "UDP": true, "DNS": true, "Payload": true, "Fragment": true,
	"ARP": true, "ICMPv4": true, "ICMPv6": true, "LLC": true, "SNAP": true, "SCTP": true, "UDPLite": true, "GRE": true, "MPLS": true, "PPP": true, "PPPoE": true, "VXLAN": true, "Geneve": true,
}

func recvTypeName(fn *ssa.Function) string {
	if fn.Signature.Recv() == nil {
		return ""
	}
	s := fn.Signature.Recv().Type().String()
	if i := strings.LastIndex(s, "."); i >= 0 {
		s = s[i+1:]
	}
	return s
}

func checkC05(c *core.Ctx) {
	p := c.P
	roots := p.Roots()
	c.Explain = "Structural clauses of 'preallocated-layer decoding equals packet decoding and keeps no stale state': (R5.1) must-assign dataflow over every DecodeFromBytes of the common stack (and, as information, of all other decoding layers): every receiver field the method or its callees ever assign must be reset — assigned a value that does not depend on its previous value — on every success exit, and no field is updated from its old value (append, |=, +=) before it has been reset; (R5.2) the four decode loops generated for the container kinds are identical up to the container variable; (R5.3) every registered decoder whose layer type is a DecodingLayer wraps that type's DecodeFromBytes on a fresh object with its unmodified data; (R5.4) every populated enum-metadata row decodes with the decoder registered for the row's layer type; (R5.5) the container lookups are guard-safe. Not decided: field-value equality with NewPacket for all inputs; Truncated flag equality."
	r1 := c.Rule("R5.1", "T", "DecodeFromBytes resets every receiver field it ever sets, on every success path, before updating it")
	an := assign.New(provablyNonNilErr)
	n := 0
	for _, d := range roots.Dec {
		if d.Kind != "DecodeFromBytes" {
			continue
		}
		tn := recvTypeName(d.Fn)
		res := an.Analyze(d.Fn)
		n++
		inStack := c05Stack[tn]
		type agg struct {
			at  ssa.Instruction
			set ssa.Instruction
			n   int
		}
		nr := map[string]*agg{}
		for _, f := range res.NotReset {
			if a, ok := nr[f.Field]; ok {
				a.n++
			} else {
				nr[f.Field] = &agg{at: f.At, set: f.Set, n: 1}
			}
		}
		st := map[string]ssa.Instruction{}
		for _, f := range res.Stale {
			if _, ok := st[f.Field]; !ok {
				st[f.Field] = f.At
			}
		}
		var fields []string
		for f := range res.MaySet {
			fields = append(fields, f)
		}
		sort.Strings(fields)
		// scratch storage: an unexported field whose address is published through another
		// receiver field that is itself reset (IPv6.hbh via HopByHop)
		scratch := map[string]string{}
		core.Instrs(d.Fn, func(ins ssa.Instruction) {
			st, ok := ins.(*ssa.Store)
			if !ok {
				return
			}
			fa, ok := st.Val.(*ssa.FieldAddr)
			if !ok || !core.IsRecvParam(d.Fn, fa.X) {
				return
			}
			fld := core.FieldOfAddr(fa)
			if fld.Exported() {
				return
			}
			if g, base := core.FieldPath(st.Addr); g != "" && core.IsRecvParam(d.Fn, base) {
				scratch[fld.Name()] = g
			}
		})
		for _, f := range fields {
			key := core.FnKey(d.Fn) + "/field:" + f
			head := f
			if i := strings.Index(f, "."); i >= 0 {
				head = f[:i]
			}
			if g, ok := scratch[head]; ok && nr[g] == nil && st[g] == nil {
				r1.OK(key, p.InstrPos(res.MaySet[f]), "scratch storage only published through "+g+", which is reset")
				continue
			}
			switch {
			case st[f] != nil:
				msg := fmt.Sprintf("field %s is updated from its previous value at %s before it has been reset on every path: decoding a second packet into the same %s object keeps data of the first", f, p.InstrPos(st[f]), tn)
				if inStack {
					r1.Violate(key, p.InstrPos(st[f]), msg, nil)
				} else {
					r1.Info(key, p.InstrPos(st[f]), msg)
				}
			case nr[f] != nil:
				a := nr[f]
				msg := fmt.Sprintf("field %s is assigned at %s but not on the success path ending at %s (%d such exits): decoding a second packet into the same %s object keeps the value of the first", f, p.InstrPos(a.set), p.InstrPos(a.at), a.n, tn)
				if inStack {
					r1.Violate(key, p.InstrPos(a.set), msg, nil)
				} else {
					r1.Info(key, p.InstrPos(a.set), msg)
				}
			default:
				r1.OK(key, p.InstrPos(res.MaySet[f]), "reset on every success exit")
			}
		}
	}
	c.Counts["DecodeFromBytes_methods"] = n
	checkC05Rest(c)
}
