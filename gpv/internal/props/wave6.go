package props

import (
	"fmt"
	"go/token"
	"go/types"
	"strings"

	"golang.org/x/tools/go/ssa"

	"gpv/internal/core"
)

// duplicateTestFirst (R13.12): in the IPv6 defragmenter a fragment is linked
// into the list only where a test of its offset against the offset of the
// list element it is placed next to has already failed (the fragment is not a
// duplicate of that element).  Linking before the test lets a retransmitted
// tail fragment be appended after itself, and the contiguity walk then never
// succeeds.
func duplicateTestFirst(c *core.Ctx, r *core.Rule) {
	p := c.P
	fn := p.Func("ip6defrag", "IPv6Defragmenter.DefragIPv6")
	if fn == nil || len(fn.Blocks) == 0 {
		r.Missing("ip6defrag.(*IPv6Defragmenter).DefragIPv6", "not found")
		return
	}
	isOffsetLoad := func(v ssa.Value) bool {
		ld, ok := core.StripConv(v).(*ssa.UnOp)
		if !ok || ld.Op != token.MUL {
			return false
		}
		fa, ok := ld.X.(*ssa.FieldAddr)
		return ok && core.FieldOfAddr(fa).Name() == "offset"
	}
	n := 0
	core.Instrs(fn, func(ins ssa.Instruction) {
		st, ok := ins.(*ssa.Store)
		if !ok {
			return
		}
		fa, ok := st.Addr.(*ssa.FieldAddr)
		if !ok || core.FieldOfAddr(fa).Name() != "next" {
			return
		}
		if _, isNew := st.Val.(*ssa.Alloc); !isNew {
			return // only links that put the new fragment behind an existing one
		}
		// inside the insertion loop?
		inLoop := false
		for _, blk := range fn.Blocks {
			for _, pr := range blk.Preds {
				if blk.Dominates(pr) && blk.Dominates(st.Block()) && reaches(st.Block(), pr) || blk.Dominates(pr) && blk.Dominates(st.Block()) {
					inLoop = true
				}
			}
		}
		if !inLoop {
			return
		}
		n++
		ok2 := false
		for _, dc := range core.DomConds(st.Block()) {
			bo, isB := dc.V.(*ssa.BinOp)
			if !isB || !isOffsetLoad(bo.X) || !isOffsetLoad(bo.Y) {
				continue
			}
			if (bo.Op == token.EQL && !dc.Truth) || (bo.Op == token.NEQ && dc.Truth) {
				ok2 = true
			}
		}
		r.Check(ok2, fmt.Sprintf("%s/link-after-duplicate-test#%d", core.FnKey(fn), n), p.InstrPos(ins), "the link is made only where the offsets were found different", "the new fragment is linked behind a list element without the test that it is not a duplicate of that element having failed first: a retransmitted fragment that equals the current tail is appended after itself, the list then holds two fragments with the same offset, and the completeness walk never finds the next offset it expects — the datagram is never returned")
	})
	if n < 1 {
		r.Missing("ip6defrag/list links", "no link of the new fragment behind a list element found")
	}
}

// noLockOverwrite (R12.9): an object that carries its own mutex and is
// recycled (connection) is re-armed field by field: no store replaces the
// whole struct, mutex included — a goroutine that still holds, or waits for,
// the lock of the object would otherwise share it with the next user.
func noLockOverwrite(c *core.Ctx, r *core.Rule) {
	p := c.P
	hasLock := func(t types.Type) bool {
		st, ok := t.Underlying().(*types.Struct)
		if !ok {
			return false
		}
		for i := 0; i < st.NumFields(); i++ {
			if nt, ok := st.Field(i).Type().(*types.Named); ok && nt.Obj().Pkg() != nil && nt.Obj().Pkg().Path() == "sync" && (nt.Obj().Name() == "Mutex" || nt.Obj().Name() == "RWMutex") {
				return true
			}
		}
		return false
	}
	n, bad := 0, 0
	for _, pkg := range []string{"tcpassembly", "reassembly"} {
		for _, fn := range pkgFunctions(p, pkg) {
			k := 0
			core.Instrs(fn, func(ins ssa.Instruction) {
				st, ok := ins.(*ssa.Store)
				if !ok || !hasLock(st.Val.Type()) {
					return
				}
				n++
				// initialising a fresh allocation is fine
				if al, ok := st.Addr.(*ssa.Alloc); ok && al.Heap {
					return
				}
				if _, ok := st.Addr.(*ssa.Alloc); ok {
					return
				}
				if ia, ok := st.Addr.(*ssa.IndexAddr); ok {
					if _, fresh := ia.X.(*ssa.MakeSlice); fresh {
						return
					}
				}
				bad++
				k++
				r.Violate(fmt.Sprintf("%s/overwrites-lock#%d", core.FnKey(fn), k), p.InstrPos(ins), "a whole struct that contains its own mutex is stored over an existing object: the mutex is reset with it, so a goroutine that holds (or is about to get) the object's lock and the next user of the recycled object both run inside what each believes is its critical section — stream callbacks interleave, and the first unlock of the zeroed mutex is fatal", nil)
			})
		}
	}
	c.Counts["lock_struct_stores"] = n
	if bad == 0 {
		r.OK("assemblers/no-lock-overwrite", "", fmt.Sprintf("%d stores of lock-carrying structs, all into fresh allocations", n))
	}
}

// timeParamsUsed (R11.14): the flush helpers receive two cut-off times (flush
// older than T, close older than TC); each time.Time parameter of an assembler
// function is used — a helper in which one of them is never read compares
// everything with the other.
func timeParamsUsed(c *core.Ctx, r *core.Rule) {
	p := c.P
	n := 0
	for _, pkg := range []string{"tcpassembly", "reassembly"} {
		for _, fn := range pkgFunctions(p, pkg) {
			if strings.HasSuffix(p.Pos(fn.Pos()), "_test.go") {
				continue
			}
			var times []*ssa.Parameter
			for _, pa := range fn.Params {
				if nt, ok := pa.Type().(*types.Named); ok && nt.Obj().Pkg() != nil && nt.Obj().Pkg().Path() == "time" && nt.Obj().Name() == "Time" {
					times = append(times, pa)
				}
			}
			if len(times) < 2 {
				continue
			}
			for _, pa := range times {
				n++
				used := false
				for _, ref := range *pa.Referrers() {
					if _, dbg := ref.(*ssa.DebugRef); !dbg {
						used = true
					}
				}
				r.Check(used, core.FnKey(fn)+"/uses:"+pa.Name(), p.Pos(fn.Pos()), "the cut-off parameter is read", "cut-off parameter "+pa.Name()+" is never read: both the age of buffered data and the age of the connection are compared with the other cut-off, so an age-based flush with different flush and close times leaves data older than the flush time buffered (or releases newer data)")
			}
		}
	}
	if n < 2 {
		r.Missing("assemblers/two cut-off parameters", fmt.Sprintf("only %d found", n))
	}
}

// popKeepsLast (R10.13 / R9.17): a function that pops the head of the page
// queue (x.first = x.first.next) also maintains the queue's tail pointer: it
// stores nil into x.last on some path (the path on which the queue becomes
// empty).  A dangling `last` points at a page that was given back to the cache
// and may already belong to another connection.
func popKeepsLast(c *core.Ctx, r *core.Rule, pkg string) {
	p := c.P
	n := 0
	for _, fn := range pkgFunctions(p, pkg) {
		var pop ssa.Instruction
		storesLastNil := false
		core.Instrs(fn, func(ins ssa.Instruction) {
			st, ok := ins.(*ssa.Store)
			if !ok {
				return
			}
			fa, ok := st.Addr.(*ssa.FieldAddr)
			if !ok {
				return
			}
			switch core.FieldOfAddr(fa).Name() {
			case "first":
				// value = load(load(x.first).next)
				if ld, ok := st.Val.(*ssa.UnOp); ok && ld.Op == token.MUL {
					if f2, ok := ld.X.(*ssa.FieldAddr); ok && core.FieldOfAddr(f2).Name() == "next" {
						if l3, ok := f2.X.(*ssa.UnOp); ok && l3.Op == token.MUL {
							if f3, ok := l3.X.(*ssa.FieldAddr); ok && core.FieldOfAddr(f3).Name() == "first" {
								pop = ins
							}
						}
					}
				}
			case "last":
				if core.IsNilConst(st.Val) {
					storesLastNil = true
				}
			}
		})
		if pop == nil {
			continue
		}
		n++
		r.Check(storesLastNil, core.FnKey(fn)+"/pop-maintains-last", p.InstrPos(pop), "the function that pops the queue head also clears last when the queue empties", "the head of the page queue is popped here but no path of the function clears the queue's last pointer: after the only page is popped, last still points at it although it went back to the page cache — once the cache hands that page to another connection, the next insertion into this connection starts from the other connection's page and links the two queues together")
	}
	if n < 1 && pkg == "tcpassembly" {
		r.Missing(pkg+"/queue pops", "no x.first = x.first.next found")
	}
}

// narrowAddsIn (R8.10): checksum helpers accumulate 16-bit words in a uint32;
// an addition carried out in uint8/uint16 before it is widened wraps and loses
// the carry for particular byte values.
func narrowAddsIn(c *core.Ctx, r *core.Rule) {
	p := c.P
	n, nAdd := 0, 0
	for _, fn := range core.SortedFns(p.AllFns) {
		if !p.InModule(fn) || len(fn.Blocks) == 0 {
			continue
		}
		nm := fn.Name()
		if nm != "pseudoheaderChecksum" && nm != "ComputeChecksum" && nm != "computeChecksum" && nm != "FoldChecksum" && nm != "tcpipChecksum" {
			continue
		}
		k := 0
		core.Instrs(fn, func(ins ssa.Instruction) {
			bo, ok := ins.(*ssa.BinOp)
			if !ok || bo.Op != token.ADD {
				return
			}
			nAdd++
			bt, ok := bo.Type().Underlying().(*types.Basic)
			if !ok || (bt.Kind() != types.Uint8 && bt.Kind() != types.Uint16) {
				return
			}
			n++
			k++
			r.Violate(fmt.Sprintf("%s/narrow-add#%d", core.FnKey(fn), k), p.InstrPos(ins), "two checksum operands are added in "+bt.Name()+" before being widened: when their sum exceeds the type the carry is lost, so the checksum written (and the one used to verify) is wrong for exactly those byte values", nil)
		})
	}
	c.Counts["checksum_helper_adds"] = nAdd
	if nAdd < 8 {
		r.Missing("checksum helpers/additions", fmt.Sprintf("only %d found", nAdd))
	} else if n == 0 {
		r.OK("checksum-helpers/no-narrow-adds", "", fmt.Sprintf("%d additions in the checksum helpers, none in uint8/uint16", nAdd))
	}
}

// truncatedOnlyRaised (R3.7 = R16.9): PacketSource.NextPacket may set the
// packet's Truncated flag from the capture lengths but never lowers it: for an
// eagerly decoded packet the decoders have already run and may have set it,
// for a lazy packet they run later and set it again — overwriting the flag
// makes the two modes disagree.  Every store to Truncated in NextPacket stores
// the constant true, or `old || x` (a merge whose other edge is the constant
// true chosen by a test of the old value).
func truncatedOnlyRaised(c *core.Ctx, r *core.Rule) {
	p := c.P
	fn := p.Func("", "PacketSource.NextPacket")
	if fn == nil || len(fn.Blocks) == 0 {
		r.Missing("gopacket.(*PacketSource).NextPacket", "not found")
		return
	}
	isTruncLoad := func(v ssa.Value) bool {
		ld, ok := v.(*ssa.UnOp)
		if !ok || ld.Op != token.MUL {
			return false
		}
		fa, ok := ld.X.(*ssa.FieldAddr)
		return ok && core.FieldOfAddr(fa).Name() == "Truncated"
	}
	n := 0
	core.Instrs(fn, func(ins ssa.Instruction) {
		st, ok := ins.(*ssa.Store)
		if !ok {
			return
		}
		fa, ok := st.Addr.(*ssa.FieldAddr)
		if !ok || core.FieldOfAddr(fa).Name() != "Truncated" {
			return
		}
		n++
		okv := false
		if b, isK := core.ConstBool(st.Val); isK && b {
			okv = true
		}
		if ph, ok := st.Val.(*ssa.Phi); ok {
			for i, e := range ph.Edges {
				if b, isK := core.ConstBool(e); isK && b {
					pr := ph.Block().Preds[i]
					if iff, ok := pr.Instrs[len(pr.Instrs)-1].(*ssa.If); ok && isTruncLoad(iff.Cond) && pr.Succs[0] == ph.Block() {
						okv = true
					}
				}
			}
		}
		if bo, ok := st.Val.(*ssa.BinOp); ok && bo.Op == token.OR && (isTruncLoad(bo.X) || isTruncLoad(bo.Y)) {
			okv = true
		}
		r.Check(okv, fmt.Sprintf("%s/truncated-only-raised#%d", core.FnKey(fn), n), p.InstrPos(ins), "Truncated is only raised (old || …)", "NextPacket overwrites the packet's Truncated flag instead of or-ing into it: a truncation that a decoder reported while the packet was decoded eagerly is wiped here, whereas a lazily decoded packet sets it again later — after all layers were requested the two modes disagree on Metadata().Truncated and on the rendered header")
	})
	if n < 1 {
		r.Missing("gopacket.(*PacketSource).NextPacket/Truncated", "no store to Truncated found")
	}
}

// mismatchIffInvalid (R8.8 addition): VerifyChecksums records a mismatch
// exactly for the layers whose own verification says Valid == false.
func mismatchIffInvalid(c *core.Ctx, r *core.Rule) {
	p := c.P
	fn := p.Func("", "packet.VerifyChecksums")
	if fn == nil || len(fn.Blocks) == 0 {
		return
	}
	var app ssa.Instruction
	core.Instrs(fn, func(ins ssa.Instruction) {
		if nm, _ := core.BuiltinCall(ins); nm == "append" {
			app = ins
		}
	})
	key := core.FnKey(fn) + "/mismatch-iff-not-valid"
	if app == nil {
		r.Missing(key, "no append to the mismatch list found")
		return
	}
	ok := false
	for _, dc := range core.DomConds(app.Block()) {
		v := dc.V
		var fld string
		switch x := v.(type) {
		case *ssa.UnOp:
			if x.Op == token.MUL {
				if fa, isFA := x.X.(*ssa.FieldAddr); isFA {
					fld = core.FieldOfAddr(fa).Name()
				}
			}
		case *ssa.Field:
			fld = core.FieldOfVal(x).Name()
		case *ssa.Extract:
			fld = ""
		}
		if fld == "Valid" && !dc.Truth {
			ok = true
		}
	}
	r.Check(ok, key, p.InstrPos(app), "a mismatch is recorded exactly under !Valid", "the mismatch list is not filled under the test of the layer's own Valid result: layers that legitimately carry no checksum (UDP with checksum 0, GRE without the checksum bit) report Valid with Actual != Correct and are now listed as mismatches, or invalid ones are skipped")
}

// noVacuousRangeTests (R13.13): a security check of the defragmenters that
// compares a value with the maximum of the value's own type can never fire:
// `a + b > 65535` evaluated in uint16 wraps before the comparison.  Every
// ordering comparison of a uint8/uint16 expression with a constant at or above
// the type's maximum (for >) is reported.
func noVacuousRangeTests(c *core.Ctx, r *core.Rule) {
	p := c.P
	n, bad := 0, 0
	for _, pkg := range []string{"ip4defrag", "ip6defrag"} {
		for _, fn := range pkgFunctions(p, pkg) {
			k := 0
			core.Instrs(fn, func(ins ssa.Instruction) {
				bo, ok := ins.(*ssa.BinOp)
				if !ok {
					return
				}
				var x, y ssa.Value
				op := bo.Op
				switch op {
				case token.GTR, token.GEQ:
					x, y = bo.X, bo.Y
				case token.LSS, token.LEQ:
					x, y = bo.Y, bo.X
					if op == token.LSS {
						op = token.GTR
					} else {
						op = token.GEQ
					}
				default:
					return
				}
				kc, isK := core.ConstInt(y)
				if !isK {
					return
				}
				bt, ok := x.Type().Underlying().(*types.Basic)
				if !ok {
					return
				}
				var max int64
				switch bt.Kind() {
				case types.Uint8:
					max = 255
				case types.Uint16:
					max = 65535
				default:
					return
				}
				n++
				if (op == token.GTR && kc >= max) || (op == token.GEQ && kc > max) {
					bad++
					k++
					r.Violate(fmt.Sprintf("%s/vacuous-range-test#%d", core.FnKey(fn), k), p.InstrPos(ins), fmt.Sprintf("a %s value is tested for being greater than %d, which it can never be: the sum was computed in %s and wrapped before the comparison, so the check that should reject fragments reaching beyond the maximum datagram size never rejects anything — an oversize fragment set is accepted and reassembled with wrapped offsets", bt.Name(), kc, bt.Name()), nil)
				}
			})
		}
	}
	c.Counts["narrow_range_tests"] = n
	if n < 1 {
		r.Missing("defrag/narrow range tests", fmt.Sprintf("only %d found", n))
	} else if bad == 0 {
		r.OK("defrag/no-vacuous-range-tests", "", fmt.Sprintf("%d comparisons of narrow unsigned values with constants, none vacuous", n))
	}
}

// chainErrorUnchanged (R3.8): the error a decoder gets back from
// p.NextDecoder is the inner decoders' error in eager mode and always nil in
// lazy mode (where the inner error is recorded later, as it is).  A decoder
// that wraps or replaces that error makes the recorded failure differ between
// the two modes: the value may only be returned as it is, or compared with
// nil.
func chainErrorUnchanged(c *core.Ctx, r *core.Rule) {
	p := c.P
	n, bad := 0, 0
	for _, fn := range core.SortedFns(p.Roots().DecReach) {
		if builderParam(fn) == nil || len(fn.Blocks) == 0 || !p.InModule(fn) {
			continue
		}
		k := 0
		core.Instrs(fn, func(ins ssa.Instruction) {
			if !isBuilderCall(ins, "NextDecoder") {
				return
			}
			call, ok := ins.(*ssa.Call)
			if !ok {
				return
			}
			n++
			var misuse ssa.Instruction
			seen := map[ssa.Value]bool{}
			var follow func(v ssa.Value, d int)
			follow = func(v ssa.Value, d int) {
				if d > 6 || seen[v] || misuse != nil {
					return
				}
				seen[v] = true
				refs := v.Referrers()
				if refs == nil {
					return
				}
				for _, ref := range *refs {
					switch x := ref.(type) {
					case *ssa.Return, *ssa.DebugRef, *ssa.If:
					case *ssa.BinOp:
						if core.IsNilConst(x.X) || core.IsNilConst(x.Y) {
							continue
						}
						misuse = x
					case *ssa.Phi:
						follow(x, d+1)
					case *ssa.Store:
						// named result spilled to a local: fine when the address is a local result cell
						if _, isAl := x.Addr.(*ssa.Alloc); isAl {
							continue
						}
						misuse = x
					case *ssa.MakeInterface, *ssa.ChangeInterface:
						follow(x.(ssa.Value), d+1)
					default:
						misuse = ref
					}
				}
			}
			follow(call, 0)
			if misuse != nil {
				bad++
				k++
				r.Violate(fmt.Sprintf("%s/chain-error-unchanged#%d", core.FnKey(fn), k), p.InstrPos(misuse), "the error returned by NextDecoder is wrapped or otherwise used here instead of being returned unchanged: in eager mode it is the inner decoder's error and ends up, modified, in the packet's error layer; in lazy mode NextDecoder returns nil and the inner error is recorded later as it is — ErrorLayer().Error(), the last layer and the rendered packet differ between the two modes", nil)
			}
		})
	}
	c.Counts["NextDecoder_results"] = n
	if n < 30 {
		r.Missing("decoders/NextDecoder results", fmt.Sprintf("only %d found", n))
	} else if bad == 0 {
		r.OK("decoders/chain-error-unchanged", "", fmt.Sprintf("%d NextDecoder results are returned unchanged or only compared with nil", n))
	}
}

// lastSeenWithEveryFragment (R13.14): the ip4 fragment list records when it
// last received a fragment for every fragment it counts: in insert the store
// to LastSeen dominates the store to Current.  Refreshing the time only for
// fragments that raise the highest offset lets DiscardOlderThan forget a
// datagram that is still receiving (gap-filling) fragments.
func lastSeenWithEveryFragment(c *core.Ctx, r *core.Rule) {
	p := c.P
	fn := p.Func("ip4defrag", "fragmentList.insert")
	if fn == nil || len(fn.Blocks) == 0 {
		r.Missing("ip4defrag.(*fragmentList).insert", "not found")
		return
	}
	var last, cur []*ssa.Store
	core.Instrs(fn, func(ins ssa.Instruction) {
		if st, ok := ins.(*ssa.Store); ok {
			if fa, ok := st.Addr.(*ssa.FieldAddr); ok {
				switch core.FieldOfAddr(fa).Name() {
				case "LastSeen":
					last = append(last, st)
				case "Current":
					cur = append(cur, st)
				}
			}
		}
	})
	if len(cur) == 0 {
		r.Missing("ip4defrag.(*fragmentList).insert/Current", "no store to Current found")
		return
	}
	for i, cs := range cur {
		ok := false
		for _, ls := range last {
			if core.Dominates(ls, cs) {
				ok = true
			}
		}
		if !ok {
			// or every path from the counter update to a return still refreshes the time
			esc := core.ForwardSearch(fn, cs, func(i ssa.Instruction) bool { _, isRet := i.(*ssa.Return); return isRet }, func(i ssa.Instruction) bool {
				for _, ls := range last {
					if i == ssa.Instruction(ls) {
						return true
					}
				}
				return false
			})
			ok = esc == nil && len(last) > 0
		}
		r.Check(ok, fmt.Sprintf("%s/last-seen-with-current#%d", core.FnKey(fn), i+1), p.InstrPos(cs), "LastSeen is stored on every path that counts a fragment", "a fragment is counted (Current is updated) on a path on which LastSeen is not refreshed: fragments that only fill gaps do not count as activity, so DiscardOlderThan forgets a datagram that received a fragment after the cut-off, and its last fragment then yields nothing")
	}
}

// assemblyStopsAtFinal (R13.15): the IPv6 defragmenter concatenates payloads
// up to the fragment whose More flag is clear; the loop that appends fragment
// payloads leaves on a test of that flag.  Walking the whole list instead
// appends a stray fragment that lies beyond the final one.
func assemblyStopsAtFinal(c *core.Ctx, r *core.Rule) {
	p := c.P
	fn := p.Func("ip6defrag", "IPv6Defragmenter.DefragIPv6")
	if fn == nil || len(fn.Blocks) == 0 {
		r.Missing("ip6defrag.(*IPv6Defragmenter).DefragIPv6", "not found")
		return
	}
	n := 0
	for _, h := range fn.Blocks {
		var work []*ssa.BasicBlock
		for _, pr := range h.Preds {
			if h.Dominates(pr) {
				work = append(work, pr)
			}
		}
		if len(work) == 0 {
			continue
		}
		loop := map[*ssa.BasicBlock]bool{h: true}
		for len(work) > 0 {
			x := work[len(work)-1]
			work = work[:len(work)-1]
			if loop[x] {
				continue
			}
			loop[x] = true
			work = append(work, x.Preds...)
		}
		appendsPayload, exitsOnMore := false, false
		for b := range loop {
			for _, ins := range b.Instrs {
				if nm, cc := core.BuiltinCall(ins); nm == "append" && len(cc.Args) == 2 {
					if ld, ok := cc.Args[1].(*ssa.UnOp); ok && ld.Op == token.MUL {
						if fa, ok := ld.X.(*ssa.FieldAddr); ok && core.FieldOfAddr(fa).Name() == "payload" {
							appendsPayload = true
						}
					}
				}
			}
			if iff, ok := b.Instrs[len(b.Instrs)-1].(*ssa.If); ok {
				cond := iff.Cond
				if u, ok := cond.(*ssa.UnOp); ok && u.Op == token.NOT {
					cond = u.X
				}
				if ld, ok := cond.(*ssa.UnOp); ok && ld.Op == token.MUL {
					if fa, ok := ld.X.(*ssa.FieldAddr); ok && core.FieldOfAddr(fa).Name() == "more" {
						for _, s := range b.Succs {
							if !loop[s] {
								exitsOnMore = true
							}
						}
					}
				}
			}
		}
		if !appendsPayload {
			continue
		}
		n++
		r.Check(exitsOnMore, fmt.Sprintf("%s/payload-loop-stops-at-final#%d", core.FnKey(fn), n), p.Pos(fn.Pos()), "the loop that concatenates payloads leaves at the fragment whose More flag is clear", "the loop that concatenates fragment payloads does not leave on the More flag: it runs to the end of the list, so a fragment that lies beyond the final one is appended to the datagram (and the next-header value is taken from it) although no fragment placed those bytes inside the datagram")
	}
	if n < 1 {
		r.Missing("ip6defrag/payload loop", "no loop appending fragment payloads found")
	}
}

// trimmedPacketStartsAtNextSeq (R9.19): overlapExisting cuts from the packet
// the bytes the stream already has; what is left starts exactly where the
// connection continues.  Each of its returns hands back either the packet
// unchanged (its own bytes and start parameters) or a re-slice of the bytes
// together with the connection's nextSeq — not a sequence number computed from
// the packet's own start, which differs from nextSeq when the whole packet lies
// in the past (the amount cut is clamped to the packet's length) and then
// rewinds the connection.
func trimmedPacketStartsAtNextSeq(c *core.Ctx, r *core.Rule) {
	p := c.P
	fn := p.Func("reassembly", "Assembler.overlapExisting")
	if fn == nil || len(fn.Blocks) == 0 {
		r.Missing("reassembly.(*Assembler).overlapExisting", "not found")
		return
	}
	res := fn.Signature.Results()
	if res.Len() != 2 {
		r.Missing("reassembly.(*Assembler).overlapExisting/results", "unexpected result list")
		return
	}
	isParam := func(v ssa.Value) bool { _, ok := v.(*ssa.Parameter); return ok }
	for i, ret := range core.Returns(fn) {
		b, s := core.RetOperand(ret, 0), core.RetOperand(ret, 1)
		ok := false
		switch {
		case isParam(b) && isParam(s):
			ok = true // unchanged
		default:
			if ld, isLd := s.(*ssa.UnOp); isLd && ld.Op == token.MUL {
				if fa, isFA := ld.X.(*ssa.FieldAddr); isFA && core.FieldOfAddr(fa).Name() == "nextSeq" {
					ok = true
				}
			}
		}
		r.Check(ok, fmt.Sprintf("%s/return#%d/starts-at-nextSeq", core.FnKey(fn), i+1), p.InstrPos(ret), "the packet is returned unchanged, or trimmed and starting at nextSeq", "after trimming, the remainder of the packet is given a sequence number computed from the packet's own start instead of the connection's nextSeq: for a packet that lies wholly in the past (a retransmitted SYN/FIN after data) the amount cut is clamped to the packet's length, the result is below nextSeq, and the connection is rewound — following in-order data is queued behind a phantom gap and later released with a bogus skip")
	}
}
