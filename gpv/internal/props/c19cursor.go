package props

import (
	"fmt"
	"strings"

	"golang.org/x/tools/go/ssa"

	"gpv/internal/core"
	"gpv/internal/guard"
)

// cursorSites (R19.4): length discipline for []byte cells advanced through a
// pointer (`data *[]byte` helpers and the local whose address they receive).
func cursorSites(c *core.Ctx, r *core.Rule) {
	p := c.P
	roots := p.Roots()
	var fns []*ssa.Function
	for _, fn := range core.SortedFns(roots.DecReach) {
		if fn.Pkg == nil || len(fn.Blocks) == 0 || strings.HasSuffix(p.Pos(fn.Pos()), "_test.go") {
			continue
		}
		fns = append(fns, fn)
	}
	rootOf := func(fn *ssa.Function) *guard.RootInfo {
		if d := roots.DecByFn[fn]; d != nil {
			return &guard.RootInfo{Data: d.Data, MinLen: d.MinLen}
		}
		return nil
	}
	sums := map[*ssa.Function]*guard.CursorSummary{}
	// summaries to a fixpoint: entry requirements grow, arbitrary-entry flags turn on
	for iter := 0; iter < 8; iter++ {
		changed := false
		for _, fn := range fns {
			_, out, pass := guard.AnalyzeCursors(fn, rootOf(fn), sums)
			me := sums[fn]
			if me == nil {
				me = &guard.CursorSummary{Req: map[int]int{}, Arb: map[int]bool{}}
				sums[fn] = me
			}
			for i, n := range out.Req {
				if n > me.Req[i] {
					me.Req[i] = n
					changed = true
				}
			}
			for callee, idxs := range pass {
				cs := sums[callee]
				if cs == nil {
					cs = &guard.CursorSummary{Req: map[int]int{}, Arb: map[int]bool{}}
					sums[callee] = cs
				}
				for i := range idxs {
					if !cs.Arb[i] {
						cs.Arb[i] = true
						changed = true
					}
				}
			}
		}
		if !changed {
			break
		}
	}
	nSites, nCells := 0, 0
	cnt := map[string]int{}
	for _, fn := range fns {
		sites, _, _ := guard.AnalyzeCursors(fn, rootOf(fn), sums)
		if len(sites) > 0 {
			nCells++
		}
		perKey := map[string]int{}
		for _, s := range sites {
			nSites++
			cnt[s.Class]++
			base := core.FnKey(fn) + "/cursor:" + s.What
			perKey[base]++
			key := base
			if perKey[base] > 1 {
				key = fmt.Sprintf("%s#%d", base, perKey[base])
			}
			switch s.Class {
			case "SAFE":
				r.OK(key, p.InstrPos(s.Ins), fmt.Sprintf("%d bytes needed, %d established", s.Need, s.Have))
			case "REQ":
				r.OK(key, p.InstrPos(s.Ins), fmt.Sprintf("requirement handed to the callers: %d bytes at entry (checked at every call site)", s.Req))
			case "DEF":
				r.Violate(key, p.InstrPos(s.Ins), fmt.Sprintf("%s needs %d bytes of the cursor but only %d are established: %s; a packet that ends here makes the decoder panic", s.What, s.Need, s.Have, s.Why), nil)
			default:
				r.Undecided(key, p.InstrPos(s.Ins), fmt.Sprintf("%s needs %d, %d established: %s", s.What, s.Need, s.Have, s.Why))
			}
		}
	}
	c.Counts["cursor_sites"] = nSites
	c.Counts["cursor_functions"] = nCells
	for k, v := range cnt {
		c.Counts["cursor_"+k] = v
	}
	if nSites < 50 {
		r.Missing("decode/cursor sites", fmt.Sprintf("only %d cursor sites found", nSites))
	}
}
