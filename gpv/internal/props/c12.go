package props

import (
	"fmt"
	"go/token"
	"go/types"
	"sort"
	"strings"

	"golang.org/x/tools/go/ssa"

	"gpv/internal/core"
	"gpv/internal/lock"
)

func init() { register("C12", checkC12) }

// allowed explicit panics: key -> reason
var panicAllow = map[string]string{
	"tcpassembly.(*Assembler).sendToConnection/panic:why?": "defensive: stream is nil only if the user's StreamFactory.New returned nil, which its contract forbids",
	"tcpassembly.(*Assembler).insertIntoConn/panic:wtf":    "defensive invariant check (queued head equal to nextSeq is drained by addContiguous before any insert)",
	"reassembly.(*pageCache).next/panic":                   "",
}

type pkgLocks struct {
	pkg   string
	fns   []*ssa.Function
	roots map[*ssa.Function]bool
	an    *lock.Analysis
}

func pkgFunctions(p *core.Prog, pkg string) []*ssa.Function {
	var out []*ssa.Function
	for _, fn := range core.SortedFns(p.AllFns) {
		if core.FnPkg(fn) != nil && core.FnPkg(fn).Path() == core.Mod+"/"+pkg && len(fn.Blocks) > 0 && fn.Synthetic == "" {
			out = append(out, fn)
		}
	}
	return out
}

func isExportedAPI(fn *ssa.Function) bool {
	if fn.Parent() != nil {
		return false
	}
	o := fn.Object()
	if o == nil || !o.Exported() {
		return false
	}
	if recv := fn.Signature.Recv(); recv != nil {
		t := recv.Type()
		if pt, ok := t.(*types.Pointer); ok {
			t = pt.Elem()
		}
		if n, ok := t.(*types.Named); ok {
			return n.Obj().Exported()
		}
		return false
	}
	return true
}

func lockInfo(p *core.Prog, pkg string) *pkgLocks {
	pl := &pkgLocks{pkg: pkg, roots: map[*ssa.Function]bool{}}
	pl.fns = pkgFunctions(p, pkg)
	for _, f := range pl.fns {
		if isExportedAPI(f) {
			pl.roots[f] = true
		}
	}
	pl.an = lock.New(p.CG(false), pl.fns, pl.roots)
	return pl
}

func checkC12(c *core.Ctx) {
	p := c.P
	c.Explain = "LOCK (DESIGN.md 3.7) over packages reassembly and tcpassembly: per-instruction must-held lock sets by forward dataflow (mutex identity = struct field; deferred unlocks hold to the exit), held-at-entry = intersection over all call sites, exported API entered with nothing held. Decides: (R12.1) the held-before relation over {StreamPool.mu, connection.mu} is acyclic and no lock is re-acquired while held; (R12.2) every Stream callback is invoked with connection.mu held; (R12.3) StreamPool.conns/free are read only under StreamPool.mu and written only under its write lock, and connection/halfconnection fields are accessed only under connection.mu or in functions that hold the only reference (constructor/reset table); (R12.4) the map insert in getConnection is preceded, under the write lock, by a second lookup whose hit returns without inserting, and the factory is asked at most once per inserted connection; (R12.5) no explicit panic is reachable from the exported assembler API except the tabled defensive checks. Not decided: data-race freedom in general (locksets by field, not by instance), in-order delivery under concurrency, exactly-once completion under races."
	r1 := c.Rule("R12.1", "T", "lock order acyclic; no re-acquisition while held")
	r2 := c.Rule("R12.2", "T", "Stream callbacks only under the connection lock")
	r3 := c.Rule("R12.3", "T", "lockset of StreamPool.conns/free and of connection state")
	r4 := c.Rule("R12.4", "T", "double-checked insert in getConnection")
	noLockOverwrite(c, c.Rule("R12.9", "T", "no store replaces a whole lock-carrying struct of a live or recycled object"))
	checkThenActOneSection(c, c.Rule("R12.8", "T", "a map lookup and the pool update it decides lie in one critical section"))
	r6 := c.Rule("R12.6", "T", "a connection handed back to the pool (remove) is not accessed again by the function that removed it")
	r5 := c.Rule("R12.5", "T", "no reachable explicit panic in the assembler API (except tabled ones)")

	for _, pkg := range []string{"reassembly", "tcpassembly"} {
		pl := lockInfo(p, pkg)
		if len(pl.fns) == 0 {
			r1.Missing(pkg, "package not loaded")
			continue
		}
		// ---- R12.1
		ord := pl.an.Order()
		var pairs []string
		for k := range ord {
			pairs = append(pairs, k)
		}
		sort.Strings(pairs)
		for _, k := range pairs {
			ab := strings.SplitN(k, "<", 2)
			key := pkg + "/order:" + k
			if ab[0] == ab[1] {
				r1.Violate(key, p.InstrPos(ord[k]), ab[0]+" is acquired while already held (self-deadlock; mutexes are not reentrant)", nil)
				continue
			}
			if w, ok := ord[ab[1]+"<"+ab[0]]; ok {
				r1.Violate(key, p.InstrPos(ord[k]), fmt.Sprintf("%s is acquired while holding %s here, and the opposite order is used at %s: two assemblers can deadlock", ab[1], ab[0], p.InstrPos(w)), nil)
				continue
			}
			r1.OK(key, p.InstrPos(ord[k]), ab[0]+" held while acquiring "+ab[1])
		}
		if len(pairs) == 0 {
			r1.OK(pkg+"/order:none", "", "no nested acquisition")
		}
		// every Lock has an Unlock on all paths to return (defer or explicit)
		for _, fn := range pl.fns {
			fi := pl.an.Fns[fn]
			for _, ac := range fi.Acquire {
				key := core.FnKey(fn) + "/release:" + ac.Lock
				released := lockReleased(fn, ac.At, ac.Lock)
				r1.Check(released, key, p.InstrPos(ac.At), "released on every path (defer or explicit)", ac.Lock+" is not released on some path to return: the next caller blocks forever")
			}
		}

		// ---- R12.2
		nCB := 0
		for _, fn := range pl.fns {
			fi := pl.an.Fns[fn]
			core.Instrs(fn, func(ins ssa.Instruction) {
				cc := core.CallCommonOf(ins)
				if cc == nil || !cc.IsInvoke() {
					return
				}
				if !core.NamedIs(cc.Value.Type(), "Stream") {
					return
				}
				nCB++
				h := fi.At[ins]
				key := core.FnKey(fn) + "/callback:" + cc.Method.Name()
				r2.Check(h.Has("connection.mu"), key, p.InstrPos(ins), "under connection.mu "+h.String(), "stream callback "+cc.Method.Name()+" is invoked without holding the connection lock (held: "+h.String()+"): callbacks of one stream may run concurrently")
			})
		}
		if nCB < 2 {
			r2.Missing(pkg+"/callbacks", "fewer than two Stream callback sites found")
		}

		// ---- R12.3
		ownerOnly := func(fn *ssa.Function) bool {
			// functions holding the only reference: constructors / reset of a pooled object
			n := fn.Name()
			return n == "reset" || strings.HasPrefix(n, "New") || n == "grow" || n == "String"
		}
		for _, fn := range pl.fns {
			fi := pl.an.Fns[fn]
			seenKey := map[string]bool{}
			core.Instrs(fn, func(ins ssa.Instruction) {
				fa, ok := ins.(*ssa.FieldAddr)
				if !ok {
					return
				}
				tn := fa.X.Type().Underlying().(*types.Pointer).Elem().String()
				tn = tn[strings.LastIndex(tn, ".")+1:]
				fld := core.FieldOfAddr(fa).Name()
				h := fi.At[ins]
				write := addrWritten(fa)
				switch tn {
				case "StreamPool":
					if fld != "conns" && fld != "free" {
						return
					}
					key := core.FnKey(fn) + "/pool." + fld
					if write {
						key += "/write"
					}
					if seenKey[key] {
						return
					}
					seenKey[key] = true
					if strings.HasPrefix(fn.Name(), "New") {
						r3.OK(key, p.InstrPos(ins), "constructor")
						return
					}
					if write {
						r3.Check(h.Has("StreamPool.mu"), key, p.InstrPos(ins), "written under the write lock", "StreamPool."+fld+" is modified without the pool's write lock (held: "+h.String()+")")
					} else {
						r3.Check(h.HasAny("StreamPool.mu"), key, p.InstrPos(ins), "read under the pool lock", "StreamPool."+fld+" is read without the pool lock (held: "+h.String()+")")
					}
				case "connection", "halfconnection":
					if fld == "mu" || fld == "key" {
						return
					}
					if !addrAccessed(fa) {
						return // address taken only (e.g. &conn.c2s returned to the caller)
					}
					if n := fn.Name(); n == "Dump" || n == "String" || n == "dump" {
						return // debug rendering, documented as unsynchronised
					}
					key := core.FnKey(fn) + "/conn-state"
					if seenKey[key] {
						return
					}
					if ownerOnly(fn) {
						return
					}
					if h.Has("connection.mu") {
						return
					}
					seenKey[key] = true
					r3.Violate(key, p.InstrPos(ins), tn+"."+fld+" is accessed without the connection lock (held: "+h.String()+")", nil)
				}
			})
		}
		r3.OK(pkg+"/scan", "", "lockset scan done")

		// ---- R12.6: nothing touches a connection after it went back to the pool
		if rm := p.Func(pkg, "StreamPool.remove"); rm == nil {
			r6.Missing(pkg+".remove", "not found")
		} else if n := p.CG(false).Nodes[rm]; n != nil {
			for _, e := range n.In {
				if e.Site == nil {
					continue
				}
				caller := e.Caller.Func
				var connArg ssa.Value
				for _, a := range e.Site.Common().Args {
					if core.NamedIs(a.Type(), "connection") {
						connArg = a
					}
				}
				key := core.FnKey(caller) + "/after-remove"
				if connArg == nil {
					r6.Undecided(key, p.InstrPos(e.Site), "connection argument not identified")
					continue
				}
				site := e.Site.(ssa.Instruction)
				use := core.ForwardSearch(caller, site, func(i ssa.Instruction) bool {
					fa, ok := i.(*ssa.FieldAddr)
					if !ok || fa.X != connArg {
						return false
					}
					if core.FieldOfAddr(fa).Name() == "mu" {
						return false // unlocking the mutex the closer still holds
					}
					return true
				}, func(i ssa.Instruction) bool { return i == core.AsInstr(connArg) })
				usePos := ""
				if use != nil {
					usePos = p.InstrPos(use)
				}
				r6.Check(use == nil, key, p.InstrPos(site), "remove is the closer's last access to the connection's state", "the connection's state is accessed at "+usePos+" after remove put the object on the pool's free list: another assembler can pop and reset() it meanwhile (reset runs without the connection lock because it assumes the only reference)")
			}
		}

		// ---- R12.4
		gc := p.Func(pkg, "StreamPool.getConnection")
		if gc == nil {
			r4.Missing(pkg+".getConnection", "not found")
		} else {
			fi := pl.an.Fns[gc]
			var ins ssa.Instruction
			core.Instrs(gc, func(i ssa.Instruction) {
				if mu, ok := i.(*ssa.MapUpdate); ok {
					if fieldLoadOf(mu.Map, "StreamPool", "conns") {
						ins = i
					}
				}
			})
			key := pkg + ".(*StreamPool).getConnection/"
			if ins == nil {
				r4.Violate(key+"insert", p.Pos(gc.Pos()), "no insertion into the connection map", nil)
			} else {
				h := fi.At[ins]
				r4.Check(h.Has("StreamPool.mu"), key+"insert-under-write-lock", p.InstrPos(ins), "insert under the write lock", "the connection map is updated without the write lock")
				// a lookup after the write Lock whose non-nil result leads away from the insert
				var lockIns ssa.Instruction
				for _, ac := range fi.Acquire {
					if ac.Lock == "StreamPool.mu" && lockOpIs(ac.At, "Lock") {
						lockIns = ac.At
					}
				}
				rechecked := false
				secondKind := ""
				if lockIns != nil {
					for _, dc := range core.DomConds(ins.Block()) {
						bo, ok := dc.V.(*ssa.BinOp)
						if !ok || !(core.IsNilConst(bo.X) || core.IsNilConst(bo.Y)) {
							continue
						}
						isNil := (bo.Op == token.EQL) == dc.Truth
						v := bo.X
						if core.IsNilConst(v) {
							v = bo.Y
						}
						if isNil && isSecondLookup(v, lockIns) {
							rechecked = true
							secondKind = lookupKind(v)
						}
					}
				}
				// the first (read-locked) lookup and the re-check must look the key up the same way
				firstKind := ""
				core.Instrs(gc, func(i ssa.Instruction) {
					if lockIns == nil || core.Dominates(lockIns, i) || firstKind != "" {
						return
					}
					if v, ok := i.(ssa.Value); ok {
						switch x := v.(type) {
						case *ssa.Lookup:
							if fieldLoadOf(x.X, "StreamPool", "conns") {
								firstKind = "map"
							}
						case *ssa.Call:
							if f := x.Call.StaticCallee(); f != nil && f.Name() == "getHalf" {
								firstKind = "getHalf"
							}
						}
					}
				})
				if rechecked {
					r4.Check(firstKind == secondKind && firstKind != "", key+"recheck-same-lookup", p.InstrPos(ins), "the re-check under the write lock looks the key up like the first check ("+firstKind+")", "the first check finds a connection through "+firstKind+" but the re-check under the write lock through "+secondKind+": a connection registered meanwhile under the reverse key is missed, so one TCP connection gets two entries and two streams")
				}
				r4.Check(rechecked, key+"recheck", p.InstrPos(ins), "second lookup under the write lock; a hit returns without inserting", "the insert is not preceded, under the write lock, by a second lookup of the key: two assemblers racing on a new connection both insert (the second overwrites the first, whose stream is never completed)")
			}
		}

		// ---- R12.5
		reach := p.Reach(p.CG(false), rootsOf(pl))
		for _, fn := range core.SortedFns(reach) {
			if core.FnPkg(fn) == nil || core.FnPkg(fn).Path() != core.Mod+"/"+pkg {
				continue
			}
			core.Instrs(fn, func(i ssa.Instruction) {
				pn, ok := i.(*ssa.Panic)
				if !ok {
					return
				}
				msg := ""
				if mi, ok := pn.X.(*ssa.MakeInterface); ok {
					if cst, ok := mi.X.(*ssa.Const); ok && cst.Value != nil {
						msg = strings.Trim(cst.Value.ExactString(), "\"")
					}
				}
				if len(msg) > 40 {
					msg = msg[:40]
				}
				key := strings.TrimPrefix(core.FnKey(fn), "") + "/panic:" + msg
				key = strings.Replace(key, "(*"+pkg+".", pkg+".(*", 1)
				if why, ok := panicAllow[key]; ok && why != "" {
					r5.OK(key, p.InstrPos(i), "tabled: "+why)
					return
				}
				// blocking select fallthrough panics inserted by the compiler have no position
				if !pn.Pos().IsValid() {
					return
				}
				r5.Violate(key, p.InstrPos(i), "explicit panic reachable from the exported assembler API: for some interleaving or input the assembler crashes instead of handling the case", nil)
			})
		}
		r5.OK(pkg+"/scan", "", fmt.Sprintf("%d reachable functions scanned", len(reach)))
	}
}

func rootsOf(pl *pkgLocks) []*ssa.Function {
	var out []*ssa.Function
	for f := range pl.roots {
		out = append(out, f)
	}
	sort.Slice(out, func(i, j int) bool { return out[i].String() < out[j].String() })
	return out
}

func lockOpIs(ins ssa.Instruction, op string) bool {
	cc := core.CallCommonOf(ins)
	if cc == nil {
		return false
	}
	f := cc.StaticCallee()
	return f != nil && f.Name() == op
}

// isSecondLookup: v derives from a map lookup / getHalf call that happens after lockIns.
func isSecondLookup(v ssa.Value, lockIns ssa.Instruction) bool {
	for depth := 0; depth < 6; depth++ {
		switch x := v.(type) {
		case *ssa.Extract:
			v = x.Tuple
		case *ssa.Lookup:
			return core.Dominates(lockIns, x)
		case *ssa.Call:
			if f := x.Call.StaticCallee(); f != nil && (f.Name() == "getHalf") {
				return core.Dominates(lockIns, x)
			}
			return false
		case *ssa.UnOp:
			v = x.X
		default:
			return false
		}
	}
	return false
}

func lookupKind(v ssa.Value) string {
	for depth := 0; depth < 6; depth++ {
		switch x := v.(type) {
		case *ssa.Extract:
			v = x.Tuple
		case *ssa.Lookup:
			return "map"
		case *ssa.Call:
			if f := x.Call.StaticCallee(); f != nil && f.Name() == "getHalf" {
				return "getHalf"
			}
			return ""
		case *ssa.UnOp:
			v = x.X
		default:
			return ""
		}
	}
	return ""
}

// addrWritten: the field address is stored to, map-updated, appended, or deleted from.
func addrWritten(fa *ssa.FieldAddr) bool {
	for _, ref := range *fa.Referrers() {
		switch x := ref.(type) {
		case *ssa.Store:
			if x.Addr == ssa.Value(fa) {
				return true
			}
		case *ssa.UnOp:
			for _, r2 := range *x.Referrers() {
				switch y := r2.(type) {
				case *ssa.MapUpdate:
					if y.Map == ssa.Value(x) {
						return true
					}
				case *ssa.Call:
					if nm, cc := core.BuiltinCall(y); (nm == "delete" || nm == "clear") && cc.Args[0] == ssa.Value(x) {
						return true
					}
				}
			}
		}
	}
	return false
}

// lockReleased: from the acquisition every path to a return passes a matching
// unlock, or a defer of the unlock was registered.
func lockReleased(fn *ssa.Function, at ssa.Instruction, name string) bool {
	isUnlock := func(i ssa.Instruction, deferOK bool) bool {
		switch x := i.(type) {
		case *ssa.Call:
			return unlockOf(&x.Call, name)
		case *ssa.Defer:
			return deferOK && unlockOf(&x.Call, name)
		}
		return false
	}
	esc := core.ForwardSearch(fn, at, func(i ssa.Instruction) bool {
		_, ok := i.(*ssa.Return)
		return ok
	}, func(i ssa.Instruction) bool { return isUnlock(i, true) })
	return esc == nil
}

func unlockOf(cc *ssa.CallCommon, name string) bool {
	f := cc.StaticCallee()
	if f == nil || f.Pkg == nil || f.Pkg.Pkg.Path() != "sync" || (f.Name() != "Unlock" && f.Name() != "RUnlock") || len(cc.Args) == 0 {
		return false
	}
	fa, ok := cc.Args[0].(*ssa.FieldAddr)
	if !ok {
		return false
	}
	st := fa.X.Type().Underlying().(*types.Pointer).Elem()
	tn := st.String()
	tn = tn[strings.LastIndex(tn, ".")+1:]
	return tn+"."+st.Underlying().(*types.Struct).Field(fa.Field).Name() == name
}

// addrAccessed: the memory at fa (or below it) is loaded or stored in this function.
func addrAccessed(v ssa.Value) bool {
	for _, ref := range *v.Referrers() {
		switch x := ref.(type) {
		case *ssa.UnOp:
			return true
		case *ssa.Store:
			if x.Addr == v {
				return true
			}
		case *ssa.FieldAddr:
			if addrAccessed(x) {
				return true
			}
		case *ssa.IndexAddr:
			if addrAccessed(x) {
				return true
			}
		}
	}
	return false
}

// checkThenActOneSection (R12.8): a decision taken from a lookup in the pool's
// connection map (found / not found) and the action it allows on the pool's
// shared state (delete from the map, push on the free list, insert) lie in
// one critical section: the pool's lock is not released on any path between
// the lookup and the action.  Deciding under the read lock and acting under a
// later write lock lets two goroutines take the same decision.
func checkThenActOneSection(c *core.Ctx, r *core.Rule) {
	p := c.P
	n := 0
	for _, pkg := range []string{"tcpassembly", "reassembly"} {
		for _, fn := range pkgFunctions(p, pkg) {
			k := 0
			core.Instrs(fn, func(ins ssa.Instruction) {
				// actions on pool state
				isAct := false
				switch x := ins.(type) {
				case *ssa.Store:
					if fa, ok := x.Addr.(*ssa.FieldAddr); ok && core.FieldOfAddr(fa).Name() == "free" && core.NamedIs(fa.X.Type(), "StreamPool") {
						isAct = true
					}
				case *ssa.MapUpdate:
					if a, ok := core.IsLoad(x.Map); ok {
						if fa, ok := a.(*ssa.FieldAddr); ok && core.FieldOfAddr(fa).Name() == "conns" {
							isAct = true
						}
					}
				case *ssa.Call:
					if bi, ok := x.Call.Value.(*ssa.Builtin); ok && bi.Name() == "delete" {
						if a, ok := core.IsLoad(x.Call.Args[0]); ok {
							if fa, ok := a.(*ssa.FieldAddr); ok && core.FieldOfAddr(fa).Name() == "conns" {
								isAct = true
							}
						}
					}
				}
				if !isAct {
					return
				}
				var stale, fresh *ssa.Lookup
				for _, dc := range core.DomConds(ins.Block()) {
					var lk *ssa.Lookup
					var find func(v ssa.Value, d int)
					find = func(v ssa.Value, d int) {
						if d > 6 || lk != nil {
							return
						}
						switch x := v.(type) {
						case *ssa.Lookup:
							if a, ok := core.IsLoad(x.X); ok {
								if fa, ok := a.(*ssa.FieldAddr); ok && core.FieldOfAddr(fa).Name() == "conns" {
									lk = x
								}
							}
						case *ssa.Extract:
							find(x.Tuple, d+1)
						case *ssa.BinOp:
							find(x.X, d+1)
							find(x.Y, d+1)
						case *ssa.UnOp:
							find(x.X, d+1)
						}
					}
					find(dc.V, 0)
					if lk == nil {
						continue
					}
					if unlockBetween(fn, lk, ins) {
						stale = lk
					} else {
						fresh = lk
					}
				}
				if stale == nil && fresh == nil {
					return
				}
				n++
				k++
				key := fmt.Sprintf("%s/check-then-act#%d", core.FnKey(fn), k)
				if fresh != nil {
					r.OK(key, p.InstrPos(ins), "a lookup in the same critical section decides the action")
				} else {
					r.Violate(key, p.InstrPos(ins), "this update of the pool's shared state is decided by a lookup in the connection map at "+p.InstrPos(stale)+", but the pool's lock is released between the two and nothing looks again: another goroutine can take the same decision in the gap (the same connection object is then removed, or pushed on the free list, twice)", nil)
				}
			})
		}
	}
	c.Counts["check_then_act_sites"] = n
	if n < 2 {
		r.Missing("pools/check-then-act sites", fmt.Sprintf("only %d found", n))
	}
}
