package props

import (
	"fmt"
	"go/token"
	"go/types"
	"strings"

	"golang.org/x/tools/go/ssa"

	"gpv/internal/core"
)

// linBaseOf: v = base + k through integer conversions and +/- constants.
// len(x) calls are keyed by their argument so that two evaluations agree.
func linBaseOf(v ssa.Value, depth int) (string, ssa.Value, int64, bool) {
	if depth > 8 {
		return "", nil, 0, false
	}
	switch x := v.(type) {
	case *ssa.Convert:
		return linBaseOf(x.X, depth+1)
	case *ssa.ChangeType:
		return linBaseOf(x.X, depth+1)
	case *ssa.BinOp:
		if x.Op == token.ADD || x.Op == token.SUB {
			if k, ok := core.ConstInt(x.Y); ok {
				key, b, c, ok2 := linBaseOf(x.X, depth+1)
				if x.Op == token.SUB {
					k = -k
				}
				return key, b, c + k, ok2
			}
			if k, ok := core.ConstInt(x.X); ok && x.Op == token.ADD {
				key, b, c, ok2 := linBaseOf(x.Y, depth+1)
				return key, b, c + k, ok2
			}
		}
		return "", nil, 0, false
	case *ssa.Call:
		if arg, ok := core.IsLen(x); ok {
			return "len", arg, 0, true
		}
		return "", nil, 0, false
	case *ssa.Const:
		return "", nil, 0, false
	}
	return "val", v, 0, true
}

// narrowGuardAgreement (R6.3): where a serializer tests an integer quantity
// against the 16-bit limit and also narrows a linearly related quantity to
// uint16, the narrowed quantity must not exceed the tested one.
func narrowGuardAgreement(c *core.Ctx, r *core.Rule) {
	p := c.P
	roots := p.Roots()
	n := 0
	for _, fn := range core.SortedFns(roots.SerReach) {
		if fn.Pkg == nil || len(fn.Blocks) == 0 || strings.HasSuffix(p.Pos(fn.Pos()), "_test.go") {
			continue
		}
		type test struct {
			key  string
			base ssa.Value
			aEff int64
			at   ssa.Instruction
		}
		var tests []test
		core.Instrs(fn, func(ins ssa.Instruction) {
			bo, ok := ins.(*ssa.BinOp)
			if !ok {
				return
			}
			op := bo.Op
			var e ssa.Value
			var C int64
			if k, ok := core.ConstInt(bo.Y); ok {
				e, C = bo.X, k
			} else if k, ok := core.ConstInt(bo.X); ok {
				e, C = bo.Y, k
				switch op {
				case token.LSS:
					op = token.GTR
				case token.GTR:
					op = token.LSS
				case token.LEQ:
					op = token.GEQ
				case token.GEQ:
					op = token.LEQ
				}
			} else {
				return
			}
			if C != 65535 && C != 65536 {
				return
			}
			key, base, a, ok := linBaseOf(e, 0)
			if !ok {
				return
			}
			// canonical form: base + aEff > 65535  (or its negation)
			var aEff int64
			switch op {
			case token.GTR, token.LEQ:
				aEff = a + 65535 - C
			case token.GEQ, token.LSS:
				aEff = a + 65535 - (C - 1)
			default:
				return
			}
			tests = append(tests, test{key, base, aEff, ins})
		})
		if len(tests) == 0 {
			continue
		}
		k := 0
		core.Instrs(fn, func(ins ssa.Instruction) {
			cv, ok := ins.(*ssa.Convert)
			if !ok {
				return
			}
			dst, ok := cv.Type().Underlying().(*types.Basic)
			if !ok || dst.Kind() != types.Uint16 {
				return
			}
			src, ok := cv.X.Type().Underlying().(*types.Basic)
			if !ok || src.Info()&types.IsInteger == 0 || src.Kind() == types.Uint16 || src.Kind() == types.Uint8 || src.Kind() == types.Int8 {
				return
			}
			key, base, k0, ok := linBaseOf(cv.X, 0)
			if !ok {
				return
			}
			// constant added afterwards in 16-bit arithmetic
			kEff := k0
			for _, ref := range *cv.Referrers() {
				if b2, ok := ref.(*ssa.BinOp); ok && b2.Op == token.ADD {
					if kk, ok := core.ConstInt(b2.Y); ok && b2.X == ssa.Value(cv) {
						kEff = k0 + kk
					} else if kk, ok := core.ConstInt(b2.X); ok && b2.Y == ssa.Value(cv) {
						kEff = k0 + kk
					}
				}
			}
			for _, t := range tests {
				if t.key != key || t.base != base {
					continue
				}
				n++
				k++
				okey := fmt.Sprintf("%s/narrow#%d", core.FnKey(fn), k)
				if kEff <= t.aEff {
					r.OK(okey, p.InstrPos(ins), fmt.Sprintf("narrowed quantity (base%+d) does not exceed the quantity tested against the 16-bit limit (base%+d)", kEff, t.aEff))
				} else {
					r.Violate(okey, p.InstrPos(ins), fmt.Sprintf("the 16-bit limit is tested on base%+d at %s but base%+d is what gets narrowed to uint16: for %d values the test passes and the written length wraps, so decoding the written bytes fails or gives a different length", t.aEff, p.InstrPos(t.at), kEff, kEff-t.aEff), nil)
				}
			}
		})
	}
	c.Counts["narrowing_sites_with_limit_test"] = n
	if n < 1 {
		r.Missing("serialize/narrowing", "no narrowing with a 16-bit limit test found (UDP's was confirmed by reading)")
	}
}

// chainInsertGuarded (R6.4): `p.F = o.F; o.F = K` links p in front of o's
// successor.  Executed on a layer that is already linked it makes p point at
// itself, so the pair must be guarded by a condition that no longer holds once
// it ran: p was created in this function under `o.ptr == nil`, or `o.F != K`.
func chainInsertGuarded(c *core.Ctx, r *core.Rule) {
	p := c.P
	roots := p.Roots()
	n := 0
	for _, fn := range core.SortedFns(roots.SerReach) {
		if fn.Pkg == nil || len(fn.Blocks) == 0 || strings.HasSuffix(p.Pos(fn.Pos()), "_test.go") {
			continue
		}
		for _, b := range fn.Blocks {
			for i, ins := range b.Instrs {
				s2, ok := ins.(*ssa.Store)
				if !ok {
					continue
				}
				if _, isK := s2.Val.(*ssa.Const); !isK {
					continue
				}
				f2, ok := s2.Addr.(*ssa.FieldAddr)
				if !ok {
					continue
				}
				// an earlier store in this block copying o.F into the same-named field of another object
				var s1 *ssa.Store
				for _, prev := range b.Instrs[:i] {
					st, ok := prev.(*ssa.Store)
					if !ok {
						continue
					}
					f1, ok := st.Addr.(*ssa.FieldAddr)
					if !ok || f1 == f2 || core.FieldOfAddr(f1).Name() != core.FieldOfAddr(f2).Name() {
						continue
					}
					if a, ok := core.IsLoad(st.Val); ok {
						if fl, ok := a.(*ssa.FieldAddr); ok && fl.X == f2.X && fl.Field == f2.Field {
							s1 = st
						}
					}
				}
				if s1 == nil {
					continue
				}
				n++
				key := core.FnKey(fn) + "/link-in:" + core.FieldOfAddr(f2).Name()
				guarded := false
				for _, dc := range core.DomConds(b) {
					bo, ok := dc.V.(*ssa.BinOp)
					if !ok || (bo.Op != token.EQL && bo.Op != token.NEQ) {
						continue
					}
					for _, side := range [][2]ssa.Value{{bo.X, bo.Y}, {bo.Y, bo.X}} {
						a, ok := core.IsLoad(side[0])
						if !ok {
							continue
						}
						fa, ok := a.(*ssa.FieldAddr)
						if !ok || fa.X != f2.X {
							continue
						}
						isEq := (bo.Op == token.EQL) == dc.Truth
						if core.IsNilConst(side[1]) && isEq {
							guarded = true // the linked object did not exist yet
						}
						if _, isK := side[1].(*ssa.Const); isK && fa.Field == f2.Field && !isEq && !core.IsNilConst(side[1]) {
							guarded = true // o.F != K
						}
					}
				}
				r.Check(guarded, key, p.InstrPos(s2), "linking happens only when the linked header was created here (or the link is not there yet)", "the successor link is copied into the other header and then overwritten unconditionally: on a layer that already carries that header (decoded, or serialized before) the header ends up pointing at itself and the upper-layer protocol is lost, so the written bytes do not decode to the same layers")
			}
		}
	}
	if n < 1 {
		r.Missing("serialize/link-in", "no chain insertion found (addIPv6JumboOption was confirmed by reading)")
	}
}

// listOrderUnderPrepend (R6.5): elements of a list field that the decoder
// appends in wire order are written back in the same order.  A loop that
// walks the list upwards and PrependBytes for each element writes them in
// reverse.
func listOrderUnderPrepend(c *core.Ctx, r *core.Rule) {
	p := c.P
	roots := p.Roots()
	n := 0
	for _, fn := range core.SortedFns(roots.SerReach) {
		if fn.Pkg == nil || len(fn.Blocks) == 0 || strings.HasSuffix(p.Pos(fn.Pos()), "_test.go") {
			continue
		}
		k := 0
		for _, b := range fn.Blocks {
			for _, ins := range b.Instrs {
				ph, ok := ins.(*ssa.Phi)
				if !ok {
					break
				}
				bt, ok := ph.Type().Underlying().(*types.Basic)
				if !ok || bt.Info()&types.IsInteger == 0 {
					continue
				}
				// index variable: one edge a constant, another phi+1 or phi-1
				dir := 0
				var step ssa.Value
				for _, e := range ph.Edges {
					if bo, ok := e.(*ssa.BinOp); ok && bo.X == ssa.Value(ph) {
						step = bo
						if kk, ok := core.ConstInt(bo.Y); ok && kk == 1 {
							if bo.Op == token.ADD {
								dir = +1
							} else if bo.Op == token.SUB {
								dir = -1
							}
						}
					}
				}
				if dir == 0 {
					continue
				}
				// the loop body: blocks on a cycle through b that index a slice loaded from a field by ph
				indexesList := false
				var prepend ssa.Instruction
				seen := map[*ssa.BasicBlock]bool{}
				var inLoop []*ssa.BasicBlock
				var dfs func(x *ssa.BasicBlock)
				dfs = func(x *ssa.BasicBlock) {
					if seen[x] {
						return
					}
					seen[x] = true
					if x != b && !b.Dominates(x) {
						return
					}
					// x is in the loop if it can reach b
					if core.ForwardSearch(fn, x.Instrs[0], func(i ssa.Instruction) bool { return i == ssa.Instruction(ph) }, nil) != nil || x == b {
						inLoop = append(inLoop, x)
						for _, s := range x.Succs {
							dfs(s)
						}
					}
				}
				dfs(b)
				for _, x := range inLoop {
					for _, i2 := range x.Instrs {
						if ia, ok := i2.(*ssa.IndexAddr); ok && (ia.Index == ssa.Value(ph) || (step != nil && ia.Index == step)) {
							if a, ok := core.IsLoad(ia.X); ok {
								if pth, _ := core.FieldPath(a); pth != "" {
									indexesList = true
								}
							}
							if _, isParamOrConv := core.StripConv(ia.X).(*ssa.UnOp); isParamOrConv {
								indexesList = true
							}
						}
						if cc := core.CallCommonOf(i2); cc != nil && cc.IsInvoke() && cc.Method.Name() == "PrependBytes" && core.NamedIs(cc.Value.Type(), "SerializeBuffer") {
							prepend = i2
						}
					}
				}
				if !indexesList || prepend == nil {
					continue
				}
				n++
				k++
				key := fmt.Sprintf("%s/list-prepend#%d", core.FnKey(fn), k)
				r.Check(dir < 0, key, p.InstrPos(prepend), "the list is walked from its last element down, so prepending keeps the wire order", "the list is walked from its first element up and each element is prepended: the elements end up in reverse order on the wire, so decoding the written bytes gives the list reversed")
			}
		}
	}
	c.Counts["list_prepend_loops"] = n
}

// lengthBeforePadding (R6.7): a length field that a serializer derives from
// len(b.Bytes()) is computed before the serializer appends padding behind the
// payload — otherwise the field counts the padding and decoding no longer
// strips it.
func lengthBeforePadding(c *core.Ctx, r *core.Rule) {
	p := c.P
	n := 0
	for _, fn := range p.Roots().Ser {
		if fn.Name() != "SerializeTo" || len(fn.Blocks) == 0 {
			continue
		}
		var appends []ssa.Instruction
		core.Instrs(fn, func(ins ssa.Instruction) {
			if cc := core.CallCommonOf(ins); cc != nil && cc.IsInvoke() && cc.Method.Name() == "AppendBytes" && core.NamedIs(cc.Value.Type(), "SerializeBuffer") {
				appends = append(appends, ins)
			}
		})
		if len(appends) == 0 {
			continue
		}
		// len(b.Bytes()) values that reach a store into a receiver field
		flowsToField := func(v ssa.Value) (ssa.Instruction, bool) {
			seen := map[ssa.Value]bool{}
			var walk func(v ssa.Value, d int) (ssa.Instruction, bool)
			walk = func(v ssa.Value, d int) (ssa.Instruction, bool) {
				if d > 6 || seen[v] || v.Referrers() == nil {
					return nil, false
				}
				seen[v] = true
				for _, ref := range *v.Referrers() {
					switch x := ref.(type) {
					case *ssa.Store:
						if x.Val == v {
							if pth, ok := core.RecvFieldAddrPath(fn, x.Addr); ok && pth != "" {
								return x, true
							}
						}
					case *ssa.Convert:
						if i, ok := walk(x, d+1); ok {
							return i, true
						}
					case *ssa.BinOp:
						if x.Op == token.ADD || x.Op == token.SUB {
							if i, ok := walk(x, d+1); ok {
								return i, true
							}
						}
					case *ssa.Phi:
						if i, ok := walk(x, d+1); ok {
							return i, true
						}
					}
				}
				return nil, false
			}
			return walk(v, 0)
		}
		k := 0
		core.Instrs(fn, func(ins ssa.Instruction) {
			call, ok := ins.(*ssa.Call)
			if !ok || !call.Call.IsInvoke() || call.Call.Method.Name() != "Bytes" || !core.NamedIs(call.Call.Value.Type(), "SerializeBuffer") {
				return
			}
			// len(result) flowing into a receiver field
			var st ssa.Instruction
			for _, ref := range *call.Referrers() {
				if lc, ok := ref.(*ssa.Call); ok {
					if nm, _ := core.BuiltinCall(lc); nm == "len" {
						if s, ok := flowsToField(lc); ok {
							st = s
						}
					}
				}
			}
			if st == nil {
				return
			}
			n++
			k++
			key := fmt.Sprintf("%s/length-from-bytes#%d", core.FnKey(fn), k)
			var before ssa.Instruction
			for _, a := range appends {
				if core.ForwardSearch(fn, a, func(i ssa.Instruction) bool { return i == ins }, nil) != nil {
					before = a
				}
			}
			r.Check(before == nil, key, p.InstrPos(ins), "the length is taken before any padding is appended", "the length field stored at "+p.InstrPos(st)+" is computed from len(b.Bytes()) after padding was appended behind the payload: it counts the padding, so decoding the written bytes no longer strips it (payloads grow and an extra layer of zeros appears)")
		})
	}
	c.Counts["length_from_bytes_sites"] = n
}
