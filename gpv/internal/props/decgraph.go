package props

import (
	"fmt"
	"go/token"
	"go/types"

	"golang.org/x/tools/go/ssa"

	"gpv/internal/core"
)

// DECGRAPH — who can decode next.  For a decoder (a DecodeFunc-shaped function
// or a DecodeFromBytes method) the set of decoder functions it can hand the
// remaining bytes to is resolved from the repository's own tables: the
// LayerType globals and their registered decoders (RegisterLayerType in
// init code), the enum metadata tables (XMetadata[k] = EnumMetadata{DecodeWith,
// LayerType}) behind E.Decode / E.LayerType, DecodeFunc(f) conversions,
// package-level decoder variables, and T.NextLayerType() of the layer type.
// Anything else makes the set "unknown".  It is used by the progress rule
// (R1.6 = R5.10 = R19.6): a zero advance is a definite defect only where the
// decoder can be handed its own bytes again.

type decGraph struct {
	p       *core.Prog
	regDec  map[*ssa.Global]*ssa.Function
	table   map[*ssa.Global]map[*ssa.Function]bool // metadata table -> decoders of its rows
	tableOf map[string]*ssa.Global                 // enum type name -> its table
	nextMem map[*ssa.Function]*decNext
	// layers whose own decodable types could not be resolved to registered decoders
	selfUnknown map[*ssa.Function]bool
}

type decNext struct {
	set     map[*ssa.Function]bool
	unknown bool
}

var decGraphMemo *decGraph

func getDecGraph(p *core.Prog) *decGraph {
	if decGraphMemo != nil && decGraphMemo.p == p {
		return decGraphMemo
	}
	g := &decGraph{p: p, regDec: map[*ssa.Global]*ssa.Function{}, table: map[*ssa.Global]map[*ssa.Function]bool{}, tableOf: map[string]*ssa.Global{}, nextMem: map[*ssa.Function]*decNext{}, selfUnknown: map[*ssa.Function]bool{}}
	rowLT := map[*ssa.Global][]*ssa.Global{}
	for _, fn := range core.SortedFns(p.AllFns) {
		if !p.InModule(fn) {
			continue
		}
		initLike := isInitLike(fn) || initOnly(p, fn, 0)
		core.Instrs(fn, func(ins ssa.Instruction) {
			if initLike {
				if call, ok := ins.(*ssa.Call); ok {
					if callee := call.Call.StaticCallee(); callee != nil && (callee.Name() == "RegisterLayerType" || callee.Name() == "OverrideLayerType") && len(call.Call.Args) == 2 {
						dec := decoderOfMeta(call.Call.Args[1])
						for _, ref := range *call.Referrers() {
							if st, ok := ref.(*ssa.Store); ok {
								if gl, ok := st.Addr.(*ssa.Global); ok && dec != nil {
									g.regDec[gl] = dec
								}
							}
						}
					}
				}
				if st, ok := ins.(*ssa.Store); ok && core.NamedIs(st.Val.Type(), "EnumMetadata") {
					if ia, ok := st.Addr.(*ssa.IndexAddr); ok {
						if tbl, ok := ia.X.(*ssa.Global); ok {
							if a, ok := core.IsLoad(st.Val); ok {
								if al, ok := a.(*ssa.Alloc); ok {
									for _, ref := range *al.Referrers() {
										fa, ok := ref.(*ssa.FieldAddr)
										if !ok {
											continue
										}
										for _, r2 := range *fa.Referrers() {
											s2, ok := r2.(*ssa.Store)
											if !ok || s2.Addr != ssa.Value(fa) {
												continue
											}
											switch core.FieldOfAddr(fa).Name() {
											case "DecodeWith":
												if f := funcOfDecoderValue(s2.Val); f != nil {
													if g.table[tbl] == nil {
														g.table[tbl] = map[*ssa.Function]bool{}
													}
													g.table[tbl][f] = true
												}
											case "LayerType":
												if a2, ok := core.IsLoad(s2.Val); ok {
													if lg, ok := a2.(*ssa.Global); ok {
														rowLT[tbl] = append(rowLT[tbl], lg)
													}
												}
											}
										}
									}
								}
							}
						}
					}
				}
			}
		})
		// enum type -> table: methods Decode / LayerType that index a metadata table
		if fn.Signature.Recv() != nil && (fn.Name() == "Decode" || fn.Name() == "LayerType") {
			if nt, ok := fn.Signature.Recv().Type().(*types.Named); ok {
				core.Instrs(fn, func(ins ssa.Instruction) {
					if ia, ok := ins.(*ssa.IndexAddr); ok {
						if tbl, ok := ia.X.(*ssa.Global); ok {
							g.tableOf[nt.Obj().Name()] = tbl
						}
					}
				})
			}
		}
	}
	for tbl, lts := range rowLT {
		for _, lg := range lts {
			if f := g.regDec[lg]; f != nil {
				if g.table[tbl] == nil {
					g.table[tbl] = map[*ssa.Function]bool{}
				}
				g.table[tbl][f] = true
			}
		}
	}
	decGraphMemo = g
	return g
}

func (g *decGraph) enumTable(t types.Type) map[*ssa.Function]bool {
	if nt, ok := t.(*types.Named); ok {
		if tbl, ok := g.tableOf[nt.Obj().Name()]; ok {
			return g.table[tbl]
		}
	}
	return nil
}

// resolve: the decoder functions a Decoder / LayerType / enum value stands for.
func (g *decGraph) resolve(v ssa.Value, out *decNext, depth int) {
	if depth > 8 {
		out.unknown = true
		return
	}
	switch x := v.(type) {
	case *ssa.MakeInterface:
		if f := funcOfDecoderValue(x); f != nil {
			out.set[f] = true
			return
		}
		if rows := g.enumTable(x.X.Type()); rows != nil {
			for f := range rows {
				out.set[f] = true
			}
			return
		}
		// a decoder struct value: its Decode method
		if m := methodOf(g.p, x.X.Type(), "Decode"); m != nil && g.p.InModule(m) {
			out.set[m] = true
			return
		}
		g.resolve(x.X, out, depth+1)
	case *ssa.ChangeType:
		g.resolve(x.X, out, depth+1)
	case *ssa.Convert:
		g.resolve(x.X, out, depth+1)
	case *ssa.Function:
		out.set[x] = true
	case *ssa.Phi:
		for _, e := range x.Edges {
			g.resolve(e, out, depth+1)
		}
	case *ssa.UnOp:
		if x.Op != token.MUL {
			out.unknown = true
			return
		}
		if gl, ok := x.X.(*ssa.Global); ok {
			if f := g.regDec[gl]; f != nil {
				out.set[f] = true
				return
			}
			// a package-level decoder variable: what init stores into it
			found := false
			for _, fn := range core.SortedFns(g.p.AllFns) {
				if !g.p.InModule(fn) || !(isInitLike(fn) || initOnly(g.p, fn, 0)) {
					continue
				}
				core.Instrs(fn, func(ins ssa.Instruction) {
					if st, ok := ins.(*ssa.Store); ok && st.Addr == ssa.Value(gl) {
						if f := funcOfDecoderValue(st.Val); f != nil {
							out.set[f] = true
							found = true
						}
					}
				})
			}
			if !found {
				// LayerTypeZero / unregistered types decode nothing further
				if core.NamedIs(x.Type(), "LayerType") {
					return
				}
				out.unknown = true
			}
			return
		}
		if rows := g.enumTable(x.Type()); rows != nil {
			for f := range rows {
				out.set[f] = true
			}
			return
		}
		out.unknown = true
	case *ssa.Call:
		if f := x.Call.StaticCallee(); f != nil && f.Signature.Recv() != nil && len(x.Call.Args) >= 1 {
			switch f.Name() {
			case "LayerType":
				if rows := g.enumTable(f.Signature.Recv().Type()); rows != nil {
					for d := range rows {
						out.set[d] = true
					}
					return
				}
			case "NextLayerType":
				if len(f.Blocks) > 0 {
					for _, ret := range core.Returns(f) {
						g.resolve(ret.Results[0], out, depth+1)
					}
					return
				}
			}
		}
		out.unknown = true
	case *ssa.Const:
		// LayerTypeZero
	default:
		if rows := g.enumTable(v.Type()); rows != nil {
			for f := range rows {
				out.set[f] = true
			}
			return
		}
		out.unknown = true
	}
}

// nextOf: decoders fn can hand the rest of the bytes to.
func (g *decGraph) nextOf(fn *ssa.Function) *decNext {
	if n, ok := g.nextMem[fn]; ok {
		return n
	}
	n := &decNext{set: map[*ssa.Function]bool{}}
	g.nextMem[fn] = n
	if len(fn.Blocks) == 0 {
		n.unknown = true
		return n
	}
	if fn.Name() == "DecodeFromBytes" && fn.Signature.Recv() != nil {
		if nlt := methodOf(g.p, fn.Signature.Recv().Type(), "NextLayerType"); nlt != nil && len(nlt.Blocks) > 0 {
			for _, ret := range core.Returns(nlt) {
				g.resolve(ret.Results[0], n, 0)
			}
		} else {
			n.unknown = true
		}
		return n
	}
	dld := g.p.Func("layers", "decodingLayerDecoder")
	core.Instrs(fn, func(ins ssa.Instruction) {
		cc := core.CallCommonOf(ins)
		if cc == nil {
			return
		}
		if isBuilderCall(ins, "NextDecoder") {
			g.resolve(cc.Args[0], n, 0)
			return
		}
		callee := cc.StaticCallee()
		if callee == nil {
			return
		}
		if callee == dld && dld != nil && len(cc.Args) == 3 {
			// generic wrapper: DecodeFromBytes of the concrete layer, then its NextLayerType
			arg := cc.Args[0]
			if mi, ok := arg.(*ssa.MakeInterface); ok {
				arg = mi.X
			}
			if dfb := methodOf(g.p, arg.Type(), "DecodeFromBytes"); dfb != nil {
				sub := g.nextOf(dfb)
				for f := range sub.set {
					n.set[f] = true
				}
				n.unknown = n.unknown || sub.unknown
			} else {
				n.unknown = true
			}
			return
		}
		// E.Decode(data, p) on an enum value, or a direct call of another decoder function
		if callee.Name() == "Decode" && callee.Signature.Recv() != nil {
			if rows := g.enumTable(callee.Signature.Recv().Type()); rows != nil {
				for f := range rows {
					n.set[f] = true
				}
				return
			}
		}
		if builderParam(callee) != nil && g.p.InModule(callee) && callee != fn {
			n.set[callee] = true
		}
	})
	return n
}

// addsLayer: the function itself calls AddLayer (it is a layer decoder, not a dispatcher).
func addsLayer(fn *ssa.Function) bool {
	found := false
	core.Instrs(fn, func(ins ssa.Instruction) {
		if isBuilderCall(ins, "AddLayer") {
			found = true
		}
	})
	return found
}

// mayChainToSelf: can one of `selves` (the decoder and the registered
// functions that wrap it) be the next decoder — directly or through
// dispatchers that add no layer?  known=false when some step is unresolved.
func (g *decGraph) mayChainToSelf(start *ssa.Function, selves map[*ssa.Function]bool) (yes, known bool) {
	known = !g.selfUnknown[start]
	seen := map[*ssa.Function]bool{}
	var visit func(fn *ssa.Function, depth int)
	visit = func(fn *ssa.Function, depth int) {
		if depth > 4 || seen[fn] || yes {
			return
		}
		seen[fn] = true
		n := g.nextOf(fn)
		if n.unknown {
			known = false
		}
		for f := range n.set {
			if selves[f] {
				yes = true
				return
			}
		}
		for f := range n.set {
			if !addsLayer(f) { // a pure dispatcher passes the same bytes on
				visit(f, depth+1)
			}
		}
	}
	visit(start, 0)
	return yes, known
}

// decoderSelves: fn plus the decoder functions through which fn is reached as
// "this layer's decoder": for a DecodeFromBytes method the module functions
// that call it (directly or through decodingLayerDecoder with its type); for a
// helper, its decoder-shaped static callers.
func (g *decGraph) decoderSelves(fn *ssa.Function) (starts []*ssa.Function, selves map[*ssa.Function]bool) {
	selves = map[*ssa.Function]bool{fn: true}
	cg := g.p.CG(false)
	if fn.Name() == "DecodeFromBytes" && fn.Signature.Recv() != nil {
		starts = append(starts, fn)
		dld := g.p.Func("layers", "decodingLayerDecoder")
		if n := cg.Nodes[fn]; n != nil {
			for _, e := range n.In {
				c := e.Caller.Func
				if builderParam(c) != nil && c != dld {
					selves[c] = true
				}
			}
		}
		// the types this layer decodes when it sits in a DecodingLayerParser: the decoders
		// registered for them stand for this layer too; a class of types is not resolved
		if cd := methodOf(g.p, fn.Signature.Recv().Type(), "CanDecode"); cd != nil && len(cd.Blocks) > 0 {
			for _, ret := range core.Returns(cd) {
				v := ret.Results[0]
				if mi, ok := v.(*ssa.MakeInterface); ok {
					v = mi.X
				}
				ok := false
				if a, isLd := core.IsLoad(v); isLd {
					if gl, isG := a.(*ssa.Global); isG {
						if f := g.regDec[gl]; f != nil {
							selves[f] = true
							ok = true
						}
					}
				}
				if !ok {
					g.selfUnknown[fn] = true
				}
			}
		} else {
			g.selfUnknown[fn] = true
		}
		// wrappers through the generic helper
		if dld != nil {
			if n := cg.Nodes[dld]; n != nil {
				for _, e := range n.In {
					if cc := e.Site.Common(); len(cc.Args) == 3 {
						arg := cc.Args[0]
						if mi, ok := arg.(*ssa.MakeInterface); ok {
							arg = mi.X
						}
						if methodOf(g.p, arg.Type(), "DecodeFromBytes") == fn {
							selves[e.Caller.Func] = true
						}
					}
				}
			}
		}
		return
	}
	if builderParam(fn) != nil {
		starts = append(starts, fn)
		return
	}
	// a helper: its decoder-shaped callers are the decoders
	if n := cg.Nodes[fn]; n != nil {
		for _, e := range n.In {
			c := e.Caller.Func
			if builderParam(c) != nil || (c.Name() == "DecodeFromBytes" && c.Signature.Recv() != nil) {
				s2, sv := g.decoderSelves(c)
				starts = append(starts, s2...)
				for k := range sv {
					selves[k] = true
				}
			}
		}
	}
	return
}

// passThroughCycles (R1.9 = R19.12): a layer whose DecodeFromBytes publishes
// its whole input as the payload (it consumes nothing: the 802.11 data
// sub-type markers) is only harmless while the layer type it names as next is
// not its own: otherwise the same bytes are decoded by the same decoder for
// ever (eager: unrecoverable stack overflow; lazy: Layers() never returns).
func passThroughCycles(c *core.Ctx, r *core.Rule) {
	p := c.P
	g := getDecGraph(p)
	memo := map[*ssa.Function]int{}
	var passes func(fn *ssa.Function, depth int) bool
	passes = func(fn *ssa.Function, depth int) bool {
		if v, ok := memo[fn]; ok {
			return v == 1
		}
		memo[fn] = 0
		if depth > 4 || len(fn.Blocks) == 0 {
			return false
		}
		var data *ssa.Parameter
		for _, pa := range fn.Params {
			if core.IsByteSlice(pa.Type()) {
				data = pa
				break
			}
		}
		if data == nil {
			return false
		}
		res := false
		core.Instrs(fn, func(ins ssa.Instruction) {
			switch x := ins.(type) {
			case *ssa.Store:
				if fa, ok := x.Addr.(*ssa.FieldAddr); ok && core.FieldOfAddr(fa).Name() == "Payload" && x.Val == ssa.Value(data) {
					res = true
				}
			case *ssa.Call:
				if f := x.Call.StaticCallee(); f != nil && f.Name() == "DecodeFromBytes" && f != fn && len(x.Call.Args) >= 2 && x.Call.Args[1] == ssa.Value(data) {
					if passes(f, depth+1) {
						res = true
					}
				}
			}
		})
		if res {
			memo[fn] = 1
		}
		return res
	}
	n := 0
	for _, nt := range p.Roots().DecLayerTs {
		pt := types.NewPointer(nt)
		dfb := methodOf(p, pt, "DecodeFromBytes")
		if dfb == nil {
			continue
		}
		// a promoted method is a synthetic wrapper around the embedded type's method
		impl := dfb
		for i := 0; i < 3 && impl.Synthetic != "" && len(impl.Blocks) > 0; i++ {
			var callee *ssa.Function
			core.Instrs(impl, func(ins ssa.Instruction) {
				if cc := core.CallCommonOf(ins); cc != nil && cc.StaticCallee() != nil && cc.StaticCallee().Name() == "DecodeFromBytes" {
					callee = cc.StaticCallee()
				}
			})
			if callee == nil {
				break
			}
			impl = callee
		}
		if !passes(impl, 0) {
			continue
		}
		n++
		// the decoders that stand for this layer type: those registered for what CanDecode returns
		selves := map[*ssa.Function]bool{dfb: true}
		selfKnown := false
		if cd := methodOf(p, pt, "CanDecode"); cd != nil {
			for impl2, i := cd, 0; i < 3 && impl2 != nil; i++ {
				if impl2.Synthetic != "" && len(impl2.Blocks) > 0 {
					var callee *ssa.Function
					core.Instrs(impl2, func(ins ssa.Instruction) {
						if cc := core.CallCommonOf(ins); cc != nil && cc.StaticCallee() != nil && cc.StaticCallee().Name() == "CanDecode" {
							callee = cc.StaticCallee()
						}
					})
					impl2 = callee
					continue
				}
				for _, ret := range core.Returns(impl2) {
					v := ret.Results[0]
					if mi, ok := v.(*ssa.MakeInterface); ok {
						v = mi.X
					}
					if a, isLd := core.IsLoad(v); isLd {
						if gl, isG := a.(*ssa.Global); isG {
							if f := g.regDec[gl]; f != nil {
								selves[f] = true
								selfKnown = true
							}
						}
					}
				}
				break
			}
		}
		nx := &decNext{set: map[*ssa.Function]bool{}}
		if nlt := methodOf(p, pt, "NextLayerType"); nlt != nil {
			for impl2, i := nlt, 0; i < 3 && impl2 != nil; i++ {
				if impl2.Synthetic != "" && len(impl2.Blocks) > 0 {
					var callee *ssa.Function
					core.Instrs(impl2, func(ins ssa.Instruction) {
						if cc := core.CallCommonOf(ins); cc != nil && cc.StaticCallee() != nil && cc.StaticCallee().Name() == "NextLayerType" {
							callee = cc.StaticCallee()
						}
					})
					impl2 = callee
					continue
				}
				for _, ret := range core.Returns(impl2) {
					g.resolve(ret.Results[0], nx, 0)
				}
				break
			}
		} else {
			nx.unknown = true
		}
		yes := false
		for f := range nx.set {
			if selves[f] {
				yes = true
			}
		}
		known := selfKnown && !nx.unknown
		key := "layers." + nt.Obj().Name() + "/pass-through-next"
		pos := p.Pos(dfb.Pos())
		if dfb.Synthetic != "" {
			pos = p.TypePos(nt.Obj())
		}
		switch {
		case yes:
			r.Violate(key, pos, "this layer hands its whole input on as payload and the layer type it names as next is decoded by this same layer: any non-empty input is decoded by the same decoder for ever — eager decoding recurses until the stack overflows (which no recover can catch), lazy decoding never finishes", nil)
		case known:
			r.OK(key, pos, "the next decoders were resolved and none of them is this layer")
		default:
			r.Undecided(key, pos, "the next decoders (or this layer's own registered decoder) are not all resolved")
		}
	}
	c.Counts["pass_through_layers"] = n
	if n < 3 {
		r.Missing("layers/pass-through layers", fmt.Sprintf("only %d found", n))
	}
}
