package props

import (
	"fmt"
	"go/token"
	"go/types"
	"strings"

	"golang.org/x/tools/go/ssa"

	"gpv/internal/core"
)

func init() { register("C16", checkC16) }

// fieldLoadNamed: v is a load of a field (last component) with this name.
func fieldLoadNamed(v ssa.Value, name string) bool {
	_, ok := core.LoadsField(v, name)
	return ok
}

// storesToField lists Store instructions in fn whose address is a FieldAddr of
// a field called name whose struct is the named module type `typ` ("" = any).
func storesToField(fn *ssa.Function, typ, name string) []*ssa.Store {
	var out []*ssa.Store
	core.Instrs(fn, func(ins ssa.Instruction) {
		st, ok := ins.(*ssa.Store)
		if !ok {
			return
		}
		fa, ok := st.Addr.(*ssa.FieldAddr)
		if !ok || core.FieldOfAddr(fa).Name() != name {
			return
		}
		if typ != "" && !core.NamedIs(fa.X.Type(), typ) {
			return
		}
		out = append(out, st)
	})
	return out
}

// edgeFilteredReach: reachability from the entry block where an edge
// (block b, successor index i) is followed only if allow(b, i).
func edgeFilteredReach(fn *ssa.Function, allow func(b *ssa.BasicBlock, i int) bool) map[*ssa.BasicBlock]bool {
	seen := map[*ssa.BasicBlock]bool{}
	if len(fn.Blocks) == 0 {
		return seen
	}
	work := []*ssa.BasicBlock{fn.Blocks[0]}
	seen[fn.Blocks[0]] = true
	for len(work) > 0 {
		b := work[len(work)-1]
		work = work[:len(work)-1]
		for i, s := range b.Succs {
			if allow != nil && !allow(b, i) {
				continue
			}
			if !seen[s] {
				seen[s] = true
				work = append(work, s)
			}
		}
	}
	return seen
}

func blockIf(b *ssa.BasicBlock) *ssa.If {
	if len(b.Instrs) == 0 {
		return nil
	}
	iff, _ := b.Instrs[len(b.Instrs)-1].(*ssa.If)
	return iff
}

func checkC16(c *core.Ctx) {
	p := c.P
	c.Explain = "Structural clauses of the packet-source contract decided on the SSA/CFG of packet.go: (R16.1) every constructor binding PacketSource.source to ZeroCopyReadPacketData stores true into the flag the PacketsCtx guard reads; (R16.2) that guard (panic under NoCopy && flag) is passed on every path to channel creation / goroutine start; (R16.3) the channel is closed only by a defer in the goroutine body, the goroutine is started only under c == nil and after c is stored; (R16.4) every send of a packet is a blocking select with a ctx.Done() case and every loop cycle through the read re-tests the context; (R16.5) NextPacket returns the source error, decodes exactly the bytes read with the source's decoder/options, stores the CaptureInfo read and sets Truncated from CaptureLength < Length; (R16.6) io.EOF ends the loop (to the deferred close) and nothing is sent on the error edge. Not decided: exactly-once/in-order delivery as values, goroutine timing, behaviour of user data sources."
	r1 := c.Rule("R16.1", "T", "zero-copy constructor sets the flag read by the PacketsCtx guard")
	r2 := c.Rule("R16.2", "T", "NoCopy && zeroCopy guard precedes channel creation and goroutine start; panic reachable exactly under both")
	r3 := c.Rule("R16.3", "T", "channel closed only by defer in the goroutine body; goroutine started only under c == nil after storing c")
	r4 := c.Rule("R16.4", "T", "sends are blocking selects with ctx.Done(); every cycle through the read re-tests the context")
	r5 := c.Rule("R16.5", "T", "NextPacket: error returned, bytes/decoder/options passed through, CaptureInfo stored, Truncated from CaptureLength < Length")
	concatAdvance(c, c.Rule("R16.8", "T", "the concatenated source list is advanced relative to its current contents"))
	truncatedOnlyRaised(c, c.Rule("R16.9", "T", "NextPacket only raises the Truncated flag (= R3.7)"))
	r7 := c.Rule("R16.7", "T", "end-of-input from a PacketDataSource is recognised with errors.Is (sources may wrap io.EOF), never by comparing the error value with io.EOF")
	{
		n := 0
		for _, fn := range core.SortedFns(p.AllFns) {
			if core.FnPkg(fn) == nil || core.FnPkg(fn).Path() != core.Mod || len(fn.Blocks) == 0 || strings.HasSuffix(p.Pos(fn.Pos()), "_test.go") {
				continue
			}
			// error values obtained from ReadPacketData / ZeroCopyReadPacketData invokes
			fromSource := func(v ssa.Value) bool {
				seen := map[ssa.Value]bool{}
				var walk func(v ssa.Value, d int) bool
				walk = func(v ssa.Value, d int) bool {
					if d > 6 || seen[v] {
						return false
					}
					seen[v] = true
					switch x := v.(type) {
					case *ssa.Extract:
						if call, ok := x.Tuple.(*ssa.Call); ok && call.Call.IsInvoke() && strings.HasSuffix(call.Call.Method.Name(), "ReadPacketData") {
							return true
						}
					case *ssa.Phi:
						for _, e := range x.Edges {
							if walk(e, d+1) {
								return true
							}
						}
					case *ssa.UnOp:
						// a named result spilled to memory: any store into it from a source
						if al, ok := x.X.(*ssa.Alloc); ok {
							for _, r := range *al.Referrers() {
								if st, ok := r.(*ssa.Store); ok && st.Addr == ssa.Value(al) && walk(st.Val, d+1) {
									return true
								}
							}
						}
					}
					return false
				}
				return walk(v, 0)
			}
			isEOF := func(v ssa.Value) bool {
				if a, ok := core.IsLoad(v); ok {
					if g, ok := a.(*ssa.Global); ok && g.Name() == "EOF" && g.Pkg != nil && g.Pkg.Pkg.Path() == "io" {
						return true
					}
				}
				return false
			}
			k := 0
			core.Instrs(fn, func(ins ssa.Instruction) {
				switch x := ins.(type) {
				case *ssa.BinOp:
					if x.Op != token.EQL && x.Op != token.NEQ {
						return
					}
					var other ssa.Value
					if isEOF(x.X) {
						other = x.Y
					} else if isEOF(x.Y) {
						other = x.X
					} else {
						return
					}
					if !fromSource(other) {
						return
					}
					n++
					k++
					r7.Violate(fmt.Sprintf("%s/eof-compare#%d", core.FnKey(fn), k), p.InstrPos(ins), "the error returned by a PacketDataSource is compared with io.EOF by value: a source that wraps io.EOF (fmt.Errorf(\"...: %w\", io.EOF)) is not recognised as exhausted, so the remaining sources are never read although the consumer, which uses errors.Is, stops", nil)
				case *ssa.Call:
					if f := x.Call.StaticCallee(); f != nil && f.Name() == "Is" && f.Pkg != nil && f.Pkg.Pkg.Path() == "errors" && len(x.Call.Args) == 2 && isEOF(x.Call.Args[1]) && fromSource(x.Call.Args[0]) {
						n++
						k++
						r7.OK(fmt.Sprintf("%s/eof-is#%d", core.FnKey(fn), k), p.InstrPos(ins), "errors.Is(err, io.EOF)")
					}
				}
			})
		}
		if n < 1 {
			r7.Missing("packet source/eof tests", fmt.Sprintf("only %d end-of-input tests on source errors found", n))
		}
	}
	r6 := c.Rule("R16.6", "T", "io.EOF terminates the loop; nothing is sent on the error edge")

	pctx := p.Func("", "PacketSource.PacketsCtx")
	ptc := p.Func("", "PacketSource.packetsToChannel")
	np := p.Func("", "PacketSource.NextPacket")
	if pctx == nil || ptc == nil || np == nil {
		r1.Missing("PacketSource", "PacketsCtx/packetsToChannel/NextPacket")
		return
	}
	psT := p.NamedType("", "PacketSource")
	zcIface := p.Iface("", "ZeroCopyPacketDataSource")

	// ---- R16.2: find the guard
	var panicIns *ssa.Panic
	core.Instrs(pctx, func(ins ssa.Instruction) {
		if pi, ok := ins.(*ssa.Panic); ok && panicIns == nil {
			panicIns = pi
		}
	})
	guardField := ""
	var guardIfs []*ssa.If
	if panicIns == nil {
		r2.Violate("gopacket.(*PacketSource).PacketsCtx/guard", p.Pos(pctx.Pos()), "no panic guarding NoCopy on a zero-copy source", nil)
	} else {
		hasNoCopy := false
		for _, dc := range core.DomConds(panicIns.Block()) {
			if !dc.Truth {
				continue
			}
			if fa, ok := core.LoadsField(dc.V, "NoCopy"); ok {
				_ = fa
				hasNoCopy = true
				continue
			}
			if a, ok := core.IsLoad(core.StripConv(dc.V)); ok {
				if fa, ok := a.(*ssa.FieldAddr); ok && core.IsRecvParam(pctx, fa.X) {
					guardField = core.FieldOfAddr(fa).Name()
				}
			}
		}
		if !hasNoCopy || guardField == "" {
			r2.Violate("gopacket.(*PacketSource).PacketsCtx/guard-cond", p.InstrPos(panicIns), "panic is not under (DecodeOptions.NoCopy && <receiver bool field>)", nil)
		} else {
			// guard Ifs: those whose condition is one of the two loads
			for _, b := range pctx.Blocks {
				if iff := blockIf(b); iff != nil {
					if fieldLoadNamed(iff.Cond, "NoCopy") || fieldLoadNamed(iff.Cond, guardField) {
						guardIfs = append(guardIfs, iff)
					}
				}
			}
			// remove the false edges of the guard Ifs: then neither MakeChan nor Go may be reachable
			isGuard := map[*ssa.BasicBlock]bool{}
			for _, g := range guardIfs {
				isGuard[g.Block()] = true
			}
			reach := edgeFilteredReach(pctx, func(b *ssa.BasicBlock, i int) bool { return !(isGuard[b] && i == 1) })
			bad := false
			n := 0
			core.Instrs(pctx, func(ins ssa.Instruction) {
				switch ins.(type) {
				case *ssa.MakeChan, *ssa.Go:
					n++
					if reach[ins.Block()] {
						bad = true
						r2.Violate("gopacket.(*PacketSource).PacketsCtx/guard-precedes", p.InstrPos(ins), "channel creation or goroutine start reachable with NoCopy && "+guardField+" both true (guard does not precede it)", nil)
					}
				}
			})
			// conversely every path to them passes the first guard If
			first := core.ForwardSearch(pctx, nil, func(ins ssa.Instruction) bool {
				switch ins.(type) {
				case *ssa.MakeChan, *ssa.Go:
					return true
				}
				return false
			}, func(ins ssa.Instruction) bool {
				iff, ok := ins.(*ssa.If)
				// either operand of the pair: `p.zeroCopy && p.NoCopy` short-circuits past the NoCopy test
				return ok && (fieldLoadNamed(iff.Cond, "NoCopy") || fieldLoadNamed(iff.Cond, guardField))
			})
			if first != nil {
				bad = true
				r2.Violate("gopacket.(*PacketSource).PacketsCtx/guard-skipped", p.InstrPos(first), "a path reaches channel creation / goroutine start without testing NoCopy", nil)
			}
			// the options are re-read for every packet, so the refusal has to be evaluated on every call, not
			// only on the one that creates the channel: no path entry -> return may avoid the NoCopy test (C16-13)
			if ret := core.ForwardSearch(pctx, nil, func(ins ssa.Instruction) bool { _, ok := ins.(*ssa.Return); return ok }, func(ins ssa.Instruction) bool {
				iff, ok := ins.(*ssa.If)
				// either operand of the pair: `p.zeroCopy && p.NoCopy` short-circuits past the NoCopy test
				return ok && (fieldLoadNamed(iff.Cond, "NoCopy") || fieldLoadNamed(iff.Cond, guardField))
			}); ret != nil && first == nil {
				bad = true
				r2.Violate("gopacket.(*PacketSource).PacketsCtx/guard-every-call", p.InstrPos(ret), "a call that finds the channel already created returns it without testing NoCopy && "+guardField+": options changed after the first call are not refused although packetsToChannel re-reads them per packet", nil)
			}
			if n == 0 {
				r2.Missing("PacketsCtx/go", "no goroutine start / make(chan) found")
			} else if !bad {
				r2.OK("gopacket.(*PacketSource).PacketsCtx/guard", p.InstrPos(panicIns), "panic under NoCopy && "+guardField+"; precedes make(chan) and go")
			}
		}
	}

	// ---- R16.1: constructors
	if guardField == "" {
		guardField = "zeroCopy"
	}
	nCtor := 0
	for _, fn := range core.SortedFns(p.AllFns) {
		if core.FnPkg(fn) == nil || core.FnPkg(fn).Path() != core.Mod || fn.Synthetic != "" {
			continue
		}
		for _, st := range storesToField(fn, "PacketSource", "source") {
			mc, ok := st.Val.(*ssa.MakeClosure)
			if !ok {
				continue
			}
			bound := mc.Fn.(*ssa.Function)
			if len(mc.Bindings) != 1 {
				continue
			}
			bt := mc.Bindings[0].Type()
			isZC := false
			if zcIface != nil && types.Implements(bt, zcIface) && bound.Name() == "ZeroCopyReadPacketData$bound" {
				isZC = true
			}
			key := core.FnKey(fn) + "/source=" + bound.Name()
			if !isZC {
				// a copying source must not be refused: flag must not be set true
				setsTrue := false
				for _, s2 := range storesToField(fn, "PacketSource", guardField) {
					if b, ok := core.ConstBool(s2.Val); ok && b {
						setsTrue = true
					}
				}
				r1.Check(!setsTrue, key, p.InstrPos(st), "copying source: flag left false", "copying data source marked zero-copy")
				nCtor++
				continue
			}
			nCtor++
			// must store true to guardField of the same object on every path to return
			base := st.Addr.(*ssa.FieldAddr).X
			ok2 := false
			var setter *ssa.Store
			for _, s2 := range storesToField(fn, "PacketSource", guardField) {
				if b, okb := core.ConstBool(s2.Val); okb && b && s2.Addr.(*ssa.FieldAddr).X == base {
					setter = s2
				}
			}
			if setter != nil {
				// every path entry -> return passes setter
				esc := core.ForwardSearch(fn, nil, func(ins ssa.Instruction) bool { _, ok := ins.(*ssa.Return); return ok }, func(ins ssa.Instruction) bool { return ins == setter })
				// and no later store of false / option application cannot be seen; a later store of false is a violation
				var later ssa.Instruction
				if esc == nil {
					later = core.ForwardSearch(fn, setter, func(ins ssa.Instruction) bool {
						s3, ok := ins.(*ssa.Store)
						if !ok {
							return false
						}
						fa, ok := s3.Addr.(*ssa.FieldAddr)
						if !ok || core.FieldOfAddr(fa).Name() != guardField {
							return false
						}
						b, okb := core.ConstBool(s3.Val)
						return !(okb && b)
					}, nil)
				}
				ok2 = esc == nil && later == nil
			}
			if ok2 {
				r1.OK(key, p.InstrPos(st), "stores true to "+guardField+" on every path")
			} else {
				r1.Violate(key, p.InstrPos(st), "binds source to ZeroCopyReadPacketData but does not store true to PacketSource."+guardField+" (the PacketsCtx guard can never fire)", map[string]any{"how_to_see_it": "NewZeroCopyPacketSource(src, dec, WithNoCopy(true)).Packets() must panic"})
			}
		}
	}
	if nCtor < 2 {
		r1.Missing("constructors", "fewer than two functions bind PacketSource.source")
	}
	_ = psT

	// ---- R16.3 close-once
	nClose := 0
	for _, fn := range core.SortedFns(p.AllFns) {
		if core.FnPkg(fn) == nil || core.FnPkg(fn).Path() != core.Mod {
			continue
		}
		core.Instrs(fn, func(ins ssa.Instruction) {
			name, cc := core.BuiltinCall(ins)
			if name != "close" || !fieldLoadOf(cc.Args[0], "PacketSource", "c") {
				return
			}
			nClose++
			_, isDefer := ins.(*ssa.Defer)
			key := core.FnKey(fn) + "/close(c)"
			if fn != ptc || !isDefer {
				r3.Violate(key, p.InstrPos(ins), "channel closed outside the deferred close of the goroutine body", nil)
				return
			}
			// defer at entry: dominates everything
			if ins.Block() != fn.Blocks[0] {
				r3.Violate(key, p.InstrPos(ins), "deferred close is not unconditional at goroutine entry", nil)
				return
			}
			r3.OK(key, p.InstrPos(ins), "deferred at entry of goroutine body")
		})
	}
	if nClose == 0 {
		r3.Violate("gopacket.(*PacketSource).packetsToChannel/close(c)", p.Pos(ptc.Pos()), "channel is never closed (consumers ranging over Packets() never terminate)", nil)
	}
	// go only in PacketsCtx under c == nil, after store to c
	nGo := 0
	for _, fn := range core.SortedFns(p.AllFns) {
		if core.FnPkg(fn) == nil || core.FnPkg(fn).Path() != core.Mod {
			continue
		}
		core.Instrs(fn, func(ins ssa.Instruction) {
			var cc *ssa.CallCommon
			isGo := false
			switch x := ins.(type) {
			case *ssa.Go:
				cc, isGo = &x.Call, true
			case *ssa.Call:
				cc = &x.Call
			case *ssa.Defer:
				cc = &x.Call
			}
			if cc == nil || cc.StaticCallee() != ptc {
				return
			}
			nGo++
			key := core.FnKey(fn) + "/start"
			if !isGo {
				r3.Violate(key, p.InstrPos(ins), "packetsToChannel called synchronously", nil)
				return
			}
			underNil := false
			for _, dc := range core.DomConds(ins.Block()) {
				if b, ok := dc.V.(*ssa.BinOp); ok && ((b.Op == token.EQL && dc.Truth) || (b.Op == token.NEQ && !dc.Truth)) {
					if (fieldLoadOf(b.X, "PacketSource", "c") && core.IsNilConst(b.Y)) || (fieldLoadOf(b.Y, "PacketSource", "c") && core.IsNilConst(b.X)) {
						underNil = true
					}
				}
			}
			stored := false
			for _, st := range storesToField(fn, "PacketSource", "c") {
				if _, ok := st.Val.(*ssa.MakeChan); ok && core.Dominates(st, ins) {
					stored = true
				}
			}
			if underNil && stored {
				r3.OK(key, p.InstrPos(ins), "started under c == nil after c = make(chan)")
			} else {
				r3.Violate(key, p.InstrPos(ins), "goroutine start not guarded by c == nil or c not stored before (second start => double close / duplicated packets)", nil)
			}
		})
	}
	if nGo == 0 {
		r3.Missing("go packetsToChannel", "goroutine start not found")
	}

	// ---- R16.4 sends
	nSend := 0
	var npCall ssa.Instruction
	isCtxCall := func(ins ssa.Instruction, method string) bool {
		c, ok := ins.(*ssa.Call)
		if !ok || !c.Call.IsInvoke() || c.Call.Method.Name() != method {
			return false
		}
		n, ok := c.Call.Value.Type().(*types.Named)
		return ok && n.Obj().Pkg() != nil && n.Obj().Pkg().Path() == "context" && n.Obj().Name() == "Context"
	}
	for _, fn := range core.SortedFns(p.AllFns) {
		if core.FnPkg(fn) == nil || core.FnPkg(fn).Path() != core.Mod {
			continue
		}
		core.Instrs(fn, func(ins ssa.Instruction) {
			switch x := ins.(type) {
			case *ssa.Send:
				if fieldLoadOf(x.Chan, "PacketSource", "c") {
					nSend++
					r4.Violate(core.FnKey(fn)+"/send(c)", p.InstrPos(ins), "plain send on the packet channel: cannot be cancelled while the consumer is not reading", nil)
				}
			case *ssa.Select:
				sendsC := false
				hasDone := false
				for _, s := range x.States {
					if s.Dir == types.SendOnly && fieldLoadOf(s.Chan, "PacketSource", "c") {
						sendsC = true
					}
					if s.Dir == types.RecvOnly {
						if ci, ok := s.Chan.(ssa.Instruction); ok && isCtxCall(ci, "Done") {
							hasDone = true
						}
					}
				}
				if !sendsC {
					return
				}
				nSend++
				key := core.FnKey(fn) + "/select-send(c)"
				switch {
				case !hasDone:
					r4.Violate(key, p.InstrPos(ins), "select sending a packet has no <-ctx.Done() case", nil)
				case !x.Blocking:
					r4.Violate(key, p.InstrPos(ins), "non-blocking select drops packets when the consumer is slow", nil)
				default:
					r4.OK(key, p.InstrPos(ins), "blocking select {c <- packet; <-ctx.Done()}")
				}
			}
		})
	}
	if nSend == 0 {
		r4.Missing("send", "no send on PacketSource.c found")
	}
	core.Instrs(ptc, func(ins ssa.Instruction) {
		if c, ok := ins.(*ssa.Call); ok && c.Call.StaticCallee() == np {
			npCall = ins
		}
	})
	if npCall == nil {
		r4.Missing("packetsToChannel/NextPacket", "read call not found")
	} else {
		// cycle through the read that avoids any ctx.Err() test / select with Done
		cyc := core.ForwardSearch(ptc, npCall, func(ins ssa.Instruction) bool { return ins == npCall }, func(ins ssa.Instruction) bool {
			if isCtxCall(ins, "Err") {
				// result must feed the block's If
				call := ins.(*ssa.Call)
				if iff := blockIf(ins.Block()); iff != nil {
					if b, ok := iff.Cond.(*ssa.BinOp); ok && (b.X == call || b.Y == call) {
						return true
					}
				}
			}
			return false
		})
		r4.Check(cyc == nil, "gopacket.(*PacketSource).packetsToChannel/loop-retests-ctx", p.InstrPos(npCall), "every cycle through NextPacket re-evaluates ctx.Err()", "a loop cycle through NextPacket does not re-test the context: cancellation is not honoured after a read returns")
	}

	// ---- R16.5 NextPacket
	checkNextPacket(c, r5, np)

	// ---- R16.6 EOF terminal; nothing sent on error edge
	if npCall != nil {
		var errV ssa.Value
		for _, ref := range *npCall.(*ssa.Call).Referrers() {
			if e, ok := ref.(*ssa.Extract); ok && e.Index == 1 {
				errV = e
			}
		}
		eofOK := false
		var eofSite ssa.Instruction
		core.Instrs(ptc, func(ins ssa.Instruction) {
			call, ok := ins.(*ssa.Call)
			if !ok {
				return
			}
			isEOFLoad := func(v ssa.Value) bool {
				a, ok := core.IsLoad(v)
				if !ok {
					return false
				}
				g, ok := a.(*ssa.Global)
				return ok && g.Pkg.Pkg.Path() == "io" && g.Name() == "EOF"
			}
			if core.StaticName(&call.Call) == "errors.Is" && len(call.Call.Args) == 2 && call.Call.Args[0] == errV && isEOFLoad(call.Call.Args[1]) {
				eofSite = ins
				// true edge must reach return without passing NextPacket
				iff := blockIf(ins.Block())
				if iff != nil && iff.Cond == call {
					tb := ins.Block().Succs[0]
					again := reachesInstr(tb, npCall)
					eofOK = !again
				}
			}
		})
		// also accept direct comparison err == io.EOF
		core.Instrs(ptc, func(ins ssa.Instruction) {
			b, ok := ins.(*ssa.BinOp)
			if !ok || b.Op != token.EQL || eofSite != nil {
				return
			}
			isEOF := func(v ssa.Value) bool {
				a, ok := core.IsLoad(v)
				if !ok {
					return false
				}
				g, ok := a.(*ssa.Global)
				return ok && g.Pkg.Pkg.Path() == "io" && g.Name() == "EOF"
			}
			if (b.X == errV && isEOF(b.Y)) || (b.Y == errV && isEOF(b.X)) {
				eofSite = ins
				if iff := blockIf(ins.Block()); iff != nil && iff.Cond == b {
					eofOK = !reachesInstr(ins.Block().Succs[0], npCall)
				}
			}
		})
		if eofSite == nil {
			r6.Violate("gopacket.(*PacketSource).packetsToChannel/eof-terminal", p.Pos(ptc.Pos()), "io.EOF from the data source is not recognised as terminal: the channel is never closed at end of input", nil)
		} else {
			r6.Check(eofOK, "gopacket.(*PacketSource).packetsToChannel/eof-terminal", p.InstrPos(eofSite), "io.EOF leaves the loop", "the io.EOF branch returns to the read loop")
		}
		// select-send only under err == nil
		core.Instrs(ptc, func(ins ssa.Instruction) {
			sel, ok := ins.(*ssa.Select)
			if !ok {
				return
			}
			under := false
			for _, dc := range core.DomConds(sel.Block()) {
				if b, ok := dc.V.(*ssa.BinOp); ok && errV != nil {
					if (b.X == errV && core.IsNilConst(b.Y)) || (b.Y == errV && core.IsNilConst(b.X)) {
						if (b.Op == token.EQL && dc.Truth) || (b.Op == token.NEQ && !dc.Truth) {
							under = true
						}
					}
				}
			}
			r6.Check(under, "gopacket.(*PacketSource).packetsToChannel/send-only-on-success", p.InstrPos(ins), "send dominated by err == nil", "a packet is sent on a path where the read reported an error")
		})
	}
}

// fieldLoadOf: v is a load of field `name` of module type `typ`.
func fieldLoadOf(v ssa.Value, typ, name string) bool {
	fa, ok := core.LoadsField(v, name)
	if !ok {
		return false
	}
	return core.NamedIs(fa.X.Type(), typ)
}

// reachesInstr: some path starting at block b reaches instruction target.
func reachesInstr(b *ssa.BasicBlock, target ssa.Instruction) bool {
	seen := map[*ssa.BasicBlock]bool{b: true}
	work := []*ssa.BasicBlock{b}
	for len(work) > 0 {
		x := work[len(work)-1]
		work = work[:len(work)-1]
		if x == target.Block() {
			return true
		}
		for _, s := range x.Succs {
			if !seen[s] {
				seen[s] = true
				work = append(work, s)
			}
		}
	}
	return false
}

func checkNextPacket(c *core.Ctx, r *core.Rule, np *ssa.Function) {
	p := c.P
	key := "gopacket.(*PacketSource).NextPacket/"
	// the read
	var src *ssa.Call
	var newPkt *ssa.Call
	core.Instrs(np, func(ins ssa.Instruction) {
		call, ok := ins.(*ssa.Call)
		if !ok {
			return
		}
		if fieldLoadOf(call.Call.Value, "PacketSource", "source") {
			src = call
		}
		if f := call.Call.StaticCallee(); f != nil && f == p.Func("", "NewPacket") {
			newPkt = call
		}
	})
	if src == nil || newPkt == nil {
		r.Missing("NextPacket/source-or-NewPacket", "read of p.source() or call of NewPacket not found")
		return
	}
	var data, ci, errV ssa.Value
	for _, ref := range *src.Referrers() {
		if e, ok := ref.(*ssa.Extract); ok {
			switch e.Index {
			case 0:
				data = e
			case 1:
				ci = e
			case 2:
				errV = e
			}
		}
	}
	// error returned on non-nil
	okErr := false
	for _, ret := range core.Returns(np) {
		if len(ret.Results) == 2 && ret.Results[1] == errV && errV != nil {
			for _, dc := range core.DomConds(ret.Block()) {
				if b, ok := dc.V.(*ssa.BinOp); ok && (b.X == errV || b.Y == errV) && ((b.Op == token.NEQ && dc.Truth) || (b.Op == token.EQL && !dc.Truth)) {
					okErr = true
				}
			}
		}
	}
	r.Check(okErr, key+"error-returned", p.InstrPos(src), "source error returned on the err != nil edge", "the data source's error is not returned to the caller")
	// NewPacket only when err == nil
	under := false
	for _, dc := range core.DomConds(newPkt.Block()) {
		if b, ok := dc.V.(*ssa.BinOp); ok && (b.X == errV || b.Y == errV) && ((b.Op == token.NEQ && !dc.Truth) || (b.Op == token.EQL && dc.Truth)) {
			under = true
		}
	}
	r.Check(under, key+"decode-only-on-success", p.InstrPos(newPkt), "NewPacket dominated by err == nil", "NewPacket is called although the read failed")
	// args
	a := newPkt.Call.Args
	r.Check(len(a) == 3 && a[0] == data, key+"bytes-passed", p.InstrPos(newPkt), "decodes exactly the bytes read", "NewPacket is not given the bytes the data source returned")
	r.Check(len(a) == 3 && fieldLoadOf(a[1], "PacketSource", "decoder"), key+"decoder-passed", p.InstrPos(newPkt), "uses p.decoder", "NewPacket is not given the source's decoder")
	r.Check(len(a) == 3 && fieldLoadOf(a[2], "PacketSource", "DecodeOptions"), key+"options-passed", p.InstrPos(newPkt), "uses p.DecodeOptions", "NewPacket is not given the source's DecodeOptions")
	// returned packet is the decoded one on success
	okRet := false
	for _, ret := range core.Returns(np) {
		if len(ret.Results) == 2 && core.IsNilConst(ret.Results[1]) {
			okRet = ret.Results[0] == newPkt
		}
	}
	r.Check(okRet, key+"packet-returned", p.InstrPos(newPkt), "success returns the decoded packet", "success return does not return the decoded packet")
	// CaptureInfo store: value must be ci (possibly through a local spill)
	isCI := func(v ssa.Value) bool {
		if v == ci {
			return true
		}
		if a, ok := core.IsLoad(v); ok {
			if al, ok := a.(*ssa.Alloc); ok {
				// all stores to the alloc are of ci
				n := 0
				good := true
				for _, ref := range *al.Referrers() {
					if st, ok := ref.(*ssa.Store); ok && st.Addr == al {
						n++
						if st.Val != ci {
							good = false
						}
					}
				}
				return n > 0 && good
			}
		}
		return false
	}
	ciField := func(v ssa.Value, name string) bool {
		// load of field `name` of the ci spill, or Field of ci value
		v = core.StripConv(v)
		if f, ok := v.(*ssa.Field); ok && core.FieldOfVal(f).Name() == name && isCI(f.X) {
			return true
		}
		if a, ok := core.IsLoad(v); ok {
			if fa, ok := a.(*ssa.FieldAddr); ok && core.FieldOfAddr(fa).Name() == name {
				if al, ok := fa.X.(*ssa.Alloc); ok {
					for _, ref := range *al.Referrers() {
						if st, ok := ref.(*ssa.Store); ok && st.Addr == al && st.Val == ci {
							return true
						}
					}
				}
			}
		}
		return false
	}
	isMeta := func(v ssa.Value) bool {
		call, ok := v.(*ssa.Call)
		return ok && call.Call.IsInvoke() && call.Call.Method.Name() == "Metadata" && call.Call.Value == newPkt
	}
	var ciStore, trStore *ssa.Store
	core.Instrs(np, func(ins ssa.Instruction) {
		st, ok := ins.(*ssa.Store)
		if !ok {
			return
		}
		fa, ok := st.Addr.(*ssa.FieldAddr)
		if !ok || !isMeta(fa.X) {
			return
		}
		switch core.FieldOfAddr(fa).Name() {
		case "CaptureInfo":
			ciStore = st
		case "Truncated":
			trStore = st
		}
	})
	retOK := func(st *ssa.Store) bool {
		// every success return is preceded by st
		esc := core.ForwardSearch(np, nil, func(ins ssa.Instruction) bool {
			ret, ok := ins.(*ssa.Return)
			return ok && len(ret.Results) == 2 && core.IsNilConst(ret.Results[1])
		}, func(ins ssa.Instruction) bool { return ins == st })
		return esc == nil
	}
	if ciStore == nil {
		r.Violate(key+"captureinfo-stored", p.InstrPos(newPkt), "packet.Metadata().CaptureInfo is never assigned: packets lose timestamp/length metadata", nil)
	} else {
		r.Check(isCI(ciStore.Val) && retOK(ciStore), key+"captureinfo-stored", p.InstrPos(ciStore), "CaptureInfo := ci read with the data, on every success path", "CaptureInfo stored is not the one read with this packet, or not on every success path")
	}
	if trStore == nil {
		r.Violate(key+"truncated-set", p.InstrPos(newPkt), "Truncated is never derived from CaptureLength < Length", nil)
		return
	}
	// interpret stored value
	isLess := func(v ssa.Value) (bool, bool) { // (recognised, correct polarity)
		b, ok := v.(*ssa.BinOp)
		if !ok {
			return false, false
		}
		switch {
		case ciField(b.X, "CaptureLength") && ciField(b.Y, "Length"):
			return true, b.Op == token.LSS
		case ciField(b.X, "Length") && ciField(b.Y, "CaptureLength"):
			return true, b.Op == token.GTR
		}
		return false, false
	}
	verdict := "undecided"
	var examine func(v ssa.Value, depth int)
	examine = func(v ssa.Value, depth int) {
		if depth > 4 {
			return
		}
		if rec, good := isLess(v); rec {
			if good && verdict != "bad" {
				verdict = "good"
			} else if !good {
				verdict = "bad"
			}
			return
		}
		switch x := v.(type) {
		case *ssa.Phi:
			for _, e := range x.Edges {
				examine(e, depth+1)
			}
		case *ssa.BinOp:
			if x.Op == token.OR || x.Op == token.LOR {
				examine(x.X, depth+1)
				examine(x.Y, depth+1)
			}
		}
	}
	if b, ok := core.ConstBool(trStore.Val); ok && b {
		for _, dc := range core.DomConds(trStore.Block()) {
			if rec, good := isLess(dc.V); rec {
				if good == dc.Truth {
					verdict = "good"
				} else {
					verdict = "bad"
				}
			}
		}
	} else {
		examine(trStore.Val, 0)
	}
	switch verdict {
	case "good":
		if retOK(trStore) || func() bool { b, ok := core.ConstBool(trStore.Val); return ok && b }() {
			r.OK(key+"truncated-set", p.InstrPos(trStore), "Truncated ⊇ (ci.CaptureLength < ci.Length)")
		} else {
			r.Violate(key+"truncated-set", p.InstrPos(trStore), "Truncated not stored on every success path", nil)
		}
	case "bad":
		r.Violate(key+"truncated-set", p.InstrPos(trStore), "Truncated is computed from the capture lengths with the wrong comparison (must be CaptureLength < Length)", nil)
	default:
		r.Undecided(key+"truncated-set", p.InstrPos(trStore), "value stored to Truncated not of a recognised form")
	}
}

// concatAdvance (R16.8): ConcatFinitePacketDataSources keeps the sources that
// are still to be read in a slice behind a pointer and drops exhausted ones by
// re-slicing it.  The re-slice must be relative to the list as it is at that
// moment: either the constant one-element pop of the list whose element 0 was
// just asked, or an index obtained from that same, unmodified list.  An index
// that counts positions of an earlier snapshot, applied to a list the loop has
// already shortened, skips sources that were never read.
func concatAdvance(c *core.Ctx, r *core.Rule) {
	p := c.P
	fn := p.Func("", "concat.ReadPacketData")
	if fn == nil || len(fn.Blocks) == 0 {
		r.Missing("gopacket.(*concat).ReadPacketData", "not found")
		return
	}
	cell := ssa.Value(fn.Params[0])
	n := 0
	core.Instrs(fn, func(ins ssa.Instruction) {
		st, ok := ins.(*ssa.Store)
		if !ok || st.Addr != cell {
			return
		}
		n++
		key := fmt.Sprintf("%s/advance#%d", core.FnKey(fn), n)
		sl, ok := st.Val.(*ssa.Slice)
		if !ok {
			r.Undecided(key, p.InstrPos(ins), "the list is replaced by something that is not a re-slice")
			return
		}
		ld, isLd := sl.X.(*ssa.UnOp)
		if !isLd || ld.Op != token.MUL || ld.X != cell {
			r.Undecided(key, p.InstrPos(ins), "re-slice of something other than the current list")
			return
		}
		if k, ok := core.ConstInt(sl.Low); ok && k == 1 && sl.High == nil {
			r.OK(key, p.InstrPos(ins), "pops one element of the current list")
			return
		}
		// a variable low bound: is it an index over another load of the list while the list is stored in a loop?
		inLoop := false
		b := st.Block()
		for _, blk := range fn.Blocks {
			for _, pr := range blk.Preds {
				if blk.Dominates(pr) && blk.Dominates(b) && reaches(b, pr) {
					inLoop = true
				}
			}
		}
		if inLoop {
			r.Violate(key, p.InstrPos(ins), "inside the loop the list of remaining sources is cut at a position counted on an earlier snapshot of the list, although the loop itself has already shortened the list: after two exhausted sources in one call the cut lands too far and sources that were never read are dropped (or the slice bound is out of range)", nil)
			return
		}
		r.Undecided(key, p.InstrPos(ins), "variable cut outside a loop")
	})
	if n < 1 {
		r.Missing("gopacket.(*concat).ReadPacketData/advance", "no store to the source list found")
	}
}

func reaches(from, to *ssa.BasicBlock) bool {
	seen := map[*ssa.BasicBlock]bool{}
	work := []*ssa.BasicBlock{from}
	for len(work) > 0 {
		x := work[len(work)-1]
		work = work[:len(work)-1]
		if x == to {
			return true
		}
		if seen[x] {
			continue
		}
		seen[x] = true
		work = append(work, x.Succs...)
	}
	return false
}
