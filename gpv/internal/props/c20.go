package props

import (
	"fmt"
	"go/token"
	"sort"
	"strings"

	"golang.org/x/tools/go/ssa"

	"gpv/internal/core"
)

func init() { register("C20", checkC20) }

// rsState is the abstract state of a ReaderStream between and inside consumer calls.
type rsState struct {
	first, closed bool // the two boolean fields
	owed          bool // a batch was received and not yet acknowledged on done
	chanClosed    bool // the data channel was observed closed
	empty         int  // len(current)==0 : 0 unknown, 1 yes, 2 no
}

func (s rsState) String() string {
	e := map[int]string{0: "?", 1: "empty", 2: "nonempty"}[s.empty]
	return fmt.Sprintf("{first:%v closed:%v ackOwed:%v chanClosed:%v current:%s}", s.first, s.closed, s.owed, s.chanClosed, e)
}

type rsViolation struct {
	at    ssa.Instruction
	state rsState
	what  string
	hist  string
}

type rsExplorer struct {
	p         *core.Prog
	dataField string
	ackField  string
	viol      map[string]rsViolation
	steps     int
}

type rsNode struct {
	b   *ssa.BasicBlock
	idx int
	pb  *ssa.BasicBlock
	s   rsState
	oks string // receive results so far: "t3=T;t9=F"
}

func okGet(oks string, name string) (bool, bool) {
	for _, kv := range strings.Split(oks, ";") {
		if strings.HasPrefix(kv, name+"=") {
			return strings.HasSuffix(kv, "T"), true
		}
	}
	return false, false
}

func okSet(oks, name string, v bool) string {
	var out []string
	for _, kv := range strings.Split(oks, ";") {
		if kv != "" && !strings.HasPrefix(kv, name+"=") {
			out = append(out, kv)
		}
	}
	val := "F"
	if v {
		val = "T"
	}
	out = append(out, name+"="+val)
	sort.Strings(out)
	return strings.Join(out, ";")
}

// run explores method fn from entry state s; returns the set of exit states.
func (ex *rsExplorer) run(fn *ssa.Function, s rsState, hist string) map[rsState]bool {
	exits := map[rsState]bool{}
	seen := map[rsNode]bool{}
	work := []rsNode{{b: fn.Blocks[0], s: s}}
	for len(work) > 0 {
		n := work[len(work)-1]
		work = work[:len(work)-1]
		if seen[n] {
			continue
		}
		seen[n] = true
		ex.steps++
		st, oks := n.s, n.oks
		var evalB func(v ssa.Value) (bool, bool)
		evalB = func(v ssa.Value) (bool, bool) {
			switch x := v.(type) {
			case *ssa.Const:
				return core.ConstBool(x)
			case *ssa.UnOp:
				if x.Op == token.NOT {
					b, ok := evalB(x.X)
					return !b, ok
				}
				if x.Op == token.MUL {
					if pth, ok := core.RecvFieldLoad(fn, x); ok {
						switch pth {
						case "first":
							return st.first, true
						case "closed":
							return st.closed, true
						}
					}
				}
			case *ssa.Extract:
				if x.Index == 1 {
					return okGet(oks, x.Tuple.Name())
				}
			case *ssa.BinOp:
				if sl, ok := core.IsLen(x.X); ok {
					if pth, ok := core.RecvFieldLoad(fn, sl); ok && pth == "current" {
						if kk, ok := core.ConstInt(x.Y); ok && kk == 0 && st.empty != 0 {
							isEmpty := st.empty == 1
							switch x.Op {
							case token.EQL:
								return isEmpty, true
							case token.NEQ, token.GTR:
								return !isEmpty, true
							}
						}
					}
				}
			case *ssa.Phi:
				for i, pb := range x.Block().Preds {
					if pb == n.pb {
						return evalB(x.Edges[i])
					}
				}
			}
			return false, false
		}
		stop := false
		for i := n.idx; i < len(n.b.Instrs) && !stop; i++ {
			ins := n.b.Instrs[i]
			switch x := ins.(type) {
			case *ssa.Store:
				if fa, ok := x.Addr.(*ssa.FieldAddr); ok && core.IsRecvParam(fn, fa.X) {
					switch core.FieldOfAddr(fa).Name() {
					case "first":
						if b, ok := evalB(x.Val); ok {
							st.first = b
						}
					case "closed":
						if b, ok := evalB(x.Val); ok {
							st.closed = b
						}
					case "current":
						st.empty = 0
						if core.IsNilConst(x.Val) {
							st.empty = 1
						}
					}
				}
			case *ssa.Call:
				if f := x.Call.StaticCallee(); f != nil && len(x.Call.Args) > 0 && core.IsRecvParam(fn, x.Call.Args[0]) && ex.p.InModule(f) {
					st.empty = 0
				}
			case *ssa.UnOp:
				if x.Op != token.ARROW {
					break
				}
				pth, ok := core.RecvFieldLoad(fn, x.X)
				if !ok || pth != ex.dataField {
					break
				}
				if st.owed {
					ex.report(ins, st, "receives the next batch while the acknowledgement of the previous one is still owed: the assembler is blocked waiting for the acknowledgement, so both goroutines wait forever", hist)
					stop = true
					break
				}
				if st.chanClosed {
					// a closed channel only yields the zero value with ok == false
					if x.CommaOk {
						work = append(work, rsNode{b: n.b, idx: i + 1, pb: n.pb, s: st, oks: okSet(oks, x.Name(), false)})
						stop = true
					}
					break
				}
				if x.CommaOk {
					okS, clS := st, st
					okS.owed, okS.empty = true, 0
					clS.chanClosed = true
					work = append(work, rsNode{b: n.b, idx: i + 1, pb: n.pb, s: okS, oks: okSet(oks, x.Name(), true)})
					work = append(work, rsNode{b: n.b, idx: i + 1, pb: n.pb, s: clS, oks: okSet(oks, x.Name(), false)})
					stop = true
					break
				}
				st.owed = true
			case *ssa.Send:
				if pth, ok := core.RecvFieldLoad(fn, x.Chan); ok && pth == ex.ackField {
					switch {
					case st.chanClosed:
						ex.report(ins, st, "sends an acknowledgement after the channels were closed by ReassemblyComplete: send on closed channel panics", hist)
						stop = true
					case !st.owed:
						ex.report(ins, st, "sends an acknowledgement although none is owed: the consumer blocks on the send while the assembler blocks delivering the next batch", hist)
						stop = true
					default:
						st.owed = false
					}
				}
			case *ssa.Return:
				if len(x.Results) == 2 {
					if a, ok := core.IsLoad(x.Results[1]); ok {
						if g, ok := a.(*ssa.Global); ok && g.Name() == "EOF" {
							if !st.closed {
								ex.report(ins, st, "Read returns io.EOF although the stream is not closed", hist)
							} else if st.empty == 2 {
								ex.report(ins, st, "Read returns io.EOF while delivered bytes are still buffered", hist)
							}
						}
					}
				}
				exits[st] = true
				stop = true
			case *ssa.Panic:
				stop = true
			case *ssa.If:
				if b, ok := evalB(x.Cond); ok {
					k := 1
					if b {
						k = 0
					}
					work = append(work, rsNode{b: n.b.Succs[k], pb: n.b, s: st, oks: oks})
				} else {
					// unknown condition: if it is about len(current), remember the choice
					sT, sF := st, st
					if bo, ok := x.Cond.(*ssa.BinOp); ok {
						if sl, ok := core.IsLen(bo.X); ok {
							if pth, ok := core.RecvFieldLoad(fn, sl); ok && pth == "current" {
								if kk, ok := core.ConstInt(bo.Y); ok && kk == 0 {
									switch bo.Op {
									case token.EQL:
										sT.empty, sF.empty = 1, 2
									case token.NEQ, token.GTR:
										sT.empty, sF.empty = 2, 1
									}
								}
							}
						}
					}
					work = append(work, rsNode{b: n.b.Succs[0], pb: n.b, s: sT, oks: oks}, rsNode{b: n.b.Succs[1], pb: n.b, s: sF, oks: oks})
				}
				stop = true
			case *ssa.Jump:
				work = append(work, rsNode{b: n.b.Succs[0], pb: n.b, s: st, oks: oks})
				stop = true
			}
		}
	}
	return exits
}

func (ex *rsExplorer) report(at ssa.Instruction, st rsState, what string, hist string) {
	k := ex.p.InstrPos(at) + what
	if _, ok := ex.viol[k]; !ok {
		ex.viol[k] = rsViolation{at: at, state: st, what: what, hist: hist}
	}
}

func checkC20(c *core.Ctx) {
	p := c.P
	pkg := "tcpassembly/tcpreader"
	c.Explain = "TSTATE (DESIGN.md 3.8) for tcpreader.ReaderStream: explicit exploration of the product of each consumer method's CFG with the abstract object state {first, closed, ackOwed, channelClosed, len(current)==0}, closed under arbitrary call sequences of Read and Close starting from the state NewReaderStream builds (all reachable exit states are fed back as entry states; 2 methods x at most 48 states). Decides: (R20.1) no receive from the data channel while an acknowledgement is owed, no acknowledgement when none is owed or after the channels were closed; on the assembler side Reassembled performs exactly one send followed by one receive of the acknowledgement; (R20.2) both channels are closed in exactly one function, once each; (R20.3) Read returns io.EOF only with closed set and nothing buffered. Not decided: byte equality of what is read, deadlock freedom against arbitrary assembler behaviour, timing."
	drainToEOF(c, c.Rule("R20.6", "T", "DiscardBytesToEOF returns only after the reader reported io.EOF"))
	stripEmptyPostcondition(c, c.Rule("R20.7", "T", "stripEmpty leaves the queue empty or with a non-empty chunk in front"))
	r1 := c.Rule("R20.1", "T", "ack-owed typestate of the reader/assembler hand-shake over all Read/Close sequences")
	r2 := c.Rule("R20.2", "T", "both channels closed exactly once, in one function")
	r4 := c.Rule("R20.4", "T", "the per-chunk loss flag is cleared whenever a chunk leaves the reader's queue (every r.current = r.current[k:] is followed by lossReported = false)")
	{
		n := 0
		for _, fn := range pkgFunctions(p, "tcpassembly/tcpreader") {
			k := 0
			core.Instrs(fn, func(ins ssa.Instruction) {
				st, ok := ins.(*ssa.Store)
				if !ok {
					return
				}
				fa, ok := st.Addr.(*ssa.FieldAddr)
				if !ok || core.FieldOfAddr(fa).Name() != "current" {
					return
				}
				// the queue shrinks or is dropped: r.current = r.current[k:] (any k) or r.current = nil
				shrinks := false
				if core.IsNilConst(st.Val) {
					shrinks = true
				}
				if sl, ok := st.Val.(*ssa.Slice); ok && sl.Low != nil {
					if _, ok := core.LoadsField(sl.X, "current"); ok {
						if lo, isK := core.ConstInt(sl.Low); !isK || lo >= 1 {
							shrinks = true
						}
					}
				}
				if !shrinks {
					return
				}
				// dropping the queue while marking the reader closed ends the stream: nothing is delivered afterwards
				terminal := false
				core.Instrs(fn, func(i2 ssa.Instruction) {
					if s2, ok := i2.(*ssa.Store); ok {
						if f2, ok := s2.Addr.(*ssa.FieldAddr); ok && core.FieldOfAddr(f2).Name() == "closed" {
							if b, ok := core.ConstBool(s2.Val); ok && b {
								terminal = true
							}
						}
					}
				})
				if terminal && core.IsNilConst(st.Val) {
					return
				}
				n++
				k++
				key := fmt.Sprintf("%s/pop#%d", core.FnKey(fn), k)
				esc := core.ForwardSearch(fn, ins, func(i ssa.Instruction) bool { _, isRet := i.(*ssa.Return); return isRet }, func(i ssa.Instruction) bool {
					s2, ok := i.(*ssa.Store)
					if !ok {
						return false
					}
					f2, ok := s2.Addr.(*ssa.FieldAddr)
					if !ok || core.FieldOfAddr(f2).Name() != "lossReported" {
						return false
					}
					b, ok := core.ConstBool(s2.Val)
					return ok && !b
				})
				r4.Check(esc == nil, key, p.InstrPos(ins), "lossReported is cleared on every path after the chunk is dropped", "a chunk is dropped from the queue without clearing lossReported: the gap in front of the next chunk is then delivered silently although LossErrors asks for a DataLost error per gap")
			})
		}
		if n < 1 {
			r4.Missing("tcpreader/queue pops", "no r.current = r.current[k:] found")
		}
	}
	r5 := c.Rule("R20.5", "T", "Reassembled hands every batch to the reader: no return without the send on the batch channel and the wait for the acknowledgement")
	if fn := p.Func("tcpassembly/tcpreader", "ReaderStream.Reassembled"); fn == nil {
		r5.Missing("tcpreader.Reassembled", "not found")
	} else {
		isSend := func(i ssa.Instruction) bool {
			sd, ok := i.(*ssa.Send)
			if !ok {
				return false
			}
			_, ok = core.LoadsField(sd.Chan, "reassembled")
			return ok
		}
		isAckRecv := func(i ssa.Instruction) bool {
			u, ok := i.(*ssa.UnOp)
			if !ok || u.Op != token.ARROW {
				return false
			}
			_, ok = core.LoadsField(u.X, "done")
			return ok
		}
		isRet := func(i ssa.Instruction) bool { _, ok := i.(*ssa.Return); return ok }
		e1 := core.ForwardSearch(fn, nil, isRet, isSend)
		e2 := core.ForwardSearch(fn, nil, isRet, isAckRecv)
		r5.Check(e1 == nil && e2 == nil, "tcpreader.(*ReaderStream).Reassembled/always-hands-over", p.Pos(fn.Pos()), "every return is preceded by the send and the acknowledgement receive", "Reassembled can return without handing the batch to the reader (or without waiting for its acknowledgement): the bytes of such a batch are never returned by Read, with no error or loss indication")
	}
	r3 := c.Rule("R20.3", "T", "io.EOF only when closed and drained")

	read := p.Func(pkg, "ReaderStream.Read")
	cls := p.Func(pkg, "ReaderStream.Close")
	rea := p.Func(pkg, "ReaderStream.Reassembled")
	cmp := p.Func(pkg, "ReaderStream.ReassemblyComplete")
	ctor := p.Func(pkg, "NewReaderStream")
	if read == nil || cls == nil || rea == nil || cmp == nil || ctor == nil {
		r1.Missing("ReaderStream", "Read/Close/Reassembled/ReassemblyComplete/NewReaderStream not all found")
		return
	}
	// assembler side: which channel is sent on, which is received from
	dataF, ackF := "", ""
	var sendIns, recvIns ssa.Instruction
	nSend, nRecv := 0, 0
	core.Instrs(rea, func(ins ssa.Instruction) {
		switch x := ins.(type) {
		case *ssa.Send:
			if pth, ok := core.RecvFieldLoad(rea, x.Chan); ok {
				dataF = pth
				sendIns = ins
				nSend++
			}
		case *ssa.UnOp:
			if x.Op == token.ARROW {
				if pth, ok := core.RecvFieldLoad(rea, x.X); ok {
					ackF = pth
					recvIns = ins
					nRecv++
				}
			}
		}
	})
	key := "tcpreader.(*ReaderStream)."
	if nSend != 1 || nRecv != 1 || dataF == ackF {
		r1.Violate(key+"Reassembled/handshake", p.Pos(rea.Pos()), fmt.Sprintf("Reassembled must send the batch once and then wait once for the acknowledgement (found %d sends, %d receives)", nSend, nRecv), nil)
		return
	}
	order := core.Dominates(sendIns, recvIns)
	loop := core.ForwardSearch(rea, sendIns, func(i ssa.Instruction) bool { return i == sendIns }, nil) != nil
	// the receive follows the send on every path to return
	esc := core.ForwardSearch(rea, sendIns, func(i ssa.Instruction) bool { _, ok := i.(*ssa.Return); return ok }, func(i ssa.Instruction) bool { return i == recvIns })
	r1.Check(order && !loop && esc == nil, key+"Reassembled/handshake", p.InstrPos(sendIns), "send batch on "+dataF+", then wait for "+ackF, "Reassembled does not send exactly one batch and then wait for exactly one acknowledgement: the assembler is released before (or never after) the consumer has read the data")

	// initial state from the constructor
	init := rsState{}
	core.Instrs(ctor, func(ins ssa.Instruction) {
		st, ok := ins.(*ssa.Store)
		if !ok {
			return
		}
		fa, ok := st.Addr.(*ssa.FieldAddr)
		if !ok {
			return
		}
		b, isB := core.ConstBool(st.Val)
		switch core.FieldOfAddr(fa).Name() {
		case "first":
			if isB {
				init.first = b
			}
		case "closed":
			if isB {
				init.closed = b
			}
		}
	})
	init.empty = 1
	ex := &rsExplorer{p: p, dataField: dataF, ackField: ackF, viol: map[string]rsViolation{}}
	// closure over call sequences
	states := map[rsState]string{init: "new"}
	work := []rsState{init}
	nRuns := 0
	for len(work) > 0 && nRuns < 400 {
		s := work[0]
		work = work[1:]
		for _, m := range []*ssa.Function{read, cls} {
			nRuns++
			hist := states[s] + " -> " + m.Name() + s.String()
			if len(hist) > 300 {
				hist = "..." + hist[len(hist)-300:]
			}
			for e := range ex.run(m, s, hist) {
				// between calls, more data may or may not be buffered: keep `empty` as computed
				if _, ok := states[e]; !ok {
					states[e] = states[s] + " -> " + m.Name()
					if len(states[e]) > 200 {
						states[e] = "..." + states[e][len(states[e])-200:]
					}
					work = append(work, e)
				}
			}
		}
	}
	c.Counts["object_states_reached"] = len(states)
	c.Counts["method_runs"] = nRuns
	c.Counts["exploration_steps"] = ex.steps
	var vk []string
	for k := range ex.viol {
		vk = append(vk, k)
	}
	sort.Strings(vk)
	eofBad := false
	for _, k := range vk {
		v := ex.viol[k]
		fn := v.at.Parent()
		rule := r1
		kind := "handshake"
		if strings.Contains(v.what, "io.EOF") {
			rule, kind, eofBad = r3, "eof", true
		}
		what := "recv"
		if _, isSend := v.at.(*ssa.Send); isSend {
			what = "ack"
		}
		rule.Violate(key+fn.Name()+"/"+kind+":"+what, p.InstrPos(v.at), "in state "+v.state.String()+" (reached by "+v.hist+") "+fn.Name()+" "+v.what, map[string]any{"state": v.state.String(), "call_sequence": v.hist})
	}
	nHS := 0
	for _, v := range ex.viol {
		if !strings.Contains(v.what, "io.EOF") {
			nHS++
		}
	}
	if nHS == 0 {
		r1.OK(key+"consumer-protocol", p.Pos(read.Pos()), fmt.Sprintf("%d object states, %d method runs: no receive while an acknowledgement is owed, no spurious or late acknowledgement", len(states), nRuns))
	}
	if !eofBad {
		r3.OK(key+"Read/eof", p.Pos(read.Pos()), "io.EOF only in states with closed set and nothing buffered")
	}

	// ---- R20.2
	for _, f := range []string{dataF, ackF} {
		n := 0
		for _, fn := range pkgFunctions(p, pkg) {
			core.Instrs(fn, func(ins ssa.Instruction) {
				nm, cc := core.BuiltinCall(ins)
				if nm != "close" {
					return
				}
				if pth, ok := core.RecvFieldLoad(fn, cc.Args[0]); ok && pth == f {
					n++
					inLoop := core.ForwardSearch(fn, ins, func(i ssa.Instruction) bool { return i == ins }, nil) != nil
					r2.Check(fn == cmp && !inLoop, key+fn.Name()+"/close:"+f, p.InstrPos(ins), "closed once in ReassemblyComplete", "channel "+f+" is closed outside ReassemblyComplete or repeatedly: close of closed channel panics")
				}
			})
		}
		if n != 1 {
			r2.Violate(key+"close-count:"+f, p.Pos(cmp.Pos()), fmt.Sprintf("channel %s is closed at %d sites, expected exactly one (consumers waiting on it never wake up / double close)", f, n), nil)
		}
	}
}

// drainToEOF (R20.6): DiscardBytesToEOF is the helper consumers use to release
// the assembler; it must not return before the reader reported io.EOF: every
// return is dominated by a successful test of the error against io.EOF.
func drainToEOF(c *core.Ctx, r *core.Rule) {
	p := c.P
	fn := p.Func("tcpassembly/tcpreader", "DiscardBytesToEOF")
	if fn == nil || len(fn.Blocks) == 0 {
		r.Missing("tcpreader.DiscardBytesToEOF", "not found")
		return
	}
	isEOFTest := func(v ssa.Value) (bool, bool) { // recognised, polarity (true = holds when error is EOF)
		switch x := v.(type) {
		case *ssa.BinOp:
			if x.Op == token.EQL || x.Op == token.NEQ {
				for _, s := range []ssa.Value{x.X, x.Y} {
					if ld, ok := s.(*ssa.UnOp); ok && ld.Op == token.MUL {
						if g, ok := ld.X.(*ssa.Global); ok && g.Name() == "EOF" {
							return true, x.Op == token.EQL
						}
					}
				}
			}
		case *ssa.Call:
			if f := x.Call.StaticCallee(); f != nil && f.String() == "errors.Is" {
				return true, true
			}
		}
		return false, false
	}
	bad := 0
	for i, ret := range core.Returns(fn) {
		ok := false
		for _, dc := range core.DomConds(ret.Block()) {
			if rec, pol := isEOFTest(dc.V); rec && pol == dc.Truth {
				ok = true
			}
		}
		key := fmt.Sprintf("%s/return#%d/only-at-EOF", core.FnKey(fn), i+1)
		if ok {
			r.OK(key, p.InstrPos(ret), "dominated by err == io.EOF")
		} else {
			bad++
			r.Violate(key, p.InstrPos(ret), "DiscardBytesToEOF can return although the reader has not reported io.EOF (another condition also ends the loop): a consumer that relies on it to drain the stream leaves a delivered batch unacknowledged, and the assembler stays blocked in Reassembled", nil)
		}
	}
}

// stripEmptyPostcondition (R20.7): stripEmpty leaves the queue empty or with a
// non-empty chunk in front — Read relies on that to tell "no data yet" from
// data.  Its loop may therefore be left only by its own length tests; any
// other exit leaves an empty chunk in front, which Read neither consumes nor
// acknowledges.
func stripEmptyPostcondition(c *core.Ctx, r *core.Rule) {
	p := c.P
	fn := p.Func("tcpassembly/tcpreader", "ReaderStream.stripEmpty")
	if fn == nil || len(fn.Blocks) == 0 {
		r.Missing("tcpreader.(*ReaderStream).stripEmpty", "not found")
		return
	}
	// the loop
	var h *ssa.BasicBlock
	inLoop := map[*ssa.BasicBlock]bool{}
	for _, cand := range fn.Blocks {
		var work []*ssa.BasicBlock
		for _, pr := range cand.Preds {
			if cand.Dominates(pr) {
				work = append(work, pr)
			}
		}
		if len(work) == 0 {
			continue
		}
		h = cand
		inLoop = map[*ssa.BasicBlock]bool{cand: true}
		for len(work) > 0 {
			x := work[len(work)-1]
			work = work[:len(work)-1]
			if inLoop[x] {
				continue
			}
			inLoop[x] = true
			work = append(work, x.Preds...)
		}
		break
	}
	key := core.FnKey(fn) + "/leaves-front-non-empty"
	if h == nil {
		r.Undecided(key, p.Pos(fn.Pos()), "no loop found")
		return
	}
	var bad ssa.Instruction
	for b := range inLoop {
		iff, ok := b.Instrs[len(b.Instrs)-1].(*ssa.If)
		exits := false
		for _, s := range b.Succs {
			if !inLoop[s] {
				exits = true
			}
		}
		if !exits {
			continue
		}
		lenTest := false
		if ok {
			if bo, isB := iff.Cond.(*ssa.BinOp); isB {
				if _, l := core.IsLen(bo.X); l {
					lenTest = true
				}
				if _, l := core.IsLen(bo.Y); l {
					lenTest = true
				}
			}
		}
		if !lenTest {
			bad = b.Instrs[len(b.Instrs)-1]
		}
	}
	r.Check(bad == nil, key, p.Pos(fn.Pos()), "the loop is left only by its length tests", "stripEmpty can stop with an empty chunk still at the front of the queue"+func() string {
		if bad != nil {
			return " (exit at " + p.InstrPos(bad) + ")"
		}
		return ""
	}()+": Read then returns (0, nil) for ever — it neither consumes the chunk nor acknowledges the batch — so the stream never reaches EOF and the assembler stays blocked")
}
