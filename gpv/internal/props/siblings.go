package props

import (
	"fmt"
	"go/token"
	"sort"
	"strings"

	"golang.org/x/tools/go/ssa"

	"gpv/internal/core"
)

// condAtoms: the atomic comparisons `recv.F op const` that decide branches in
// fn, per receiver field path.  go/ssa lowers && and || to separate branches,
// so each atom is one If condition.
func condAtoms(fn *ssa.Function) map[string]map[string]bool {
	out := map[string]map[string]bool{}
	if fn == nil {
		return out
	}
	for _, b := range fn.Blocks {
		if len(b.Instrs) == 0 {
			continue
		}
		iff, ok := b.Instrs[len(b.Instrs)-1].(*ssa.If)
		if !ok {
			continue
		}
		bo, ok := iff.Cond.(*ssa.BinOp)
		if !ok {
			continue
		}
		op := bo.Op
		var fld ssa.Value
		var k int64
		if kk, ok := core.ConstInt(bo.Y); ok {
			fld, k = bo.X, kk
		} else if kk, ok := core.ConstInt(bo.X); ok {
			fld, k = bo.Y, kk
			switch op {
			case token.LSS:
				op = token.GTR
			case token.GTR:
				op = token.LSS
			case token.LEQ:
				op = token.GEQ
			case token.GEQ:
				op = token.LEQ
			}
		} else {
			continue
		}
		pth, ok := core.RecvFieldLoad(fn, fld)
		if !ok {
			continue
		}
		// normalise: != k is the same test as == k; <= k is < k+1; >= k is > k-1
		var atom string
		switch op {
		case token.EQL, token.NEQ:
			atom = fmt.Sprintf("==%d", k)
		case token.LSS:
			atom = fmt.Sprintf("<%d", k)
		case token.LEQ:
			atom = fmt.Sprintf("<%d", k+1)
		case token.GTR:
			atom = fmt.Sprintf("<%d", k+1) // x > k  ==  !(x < k+1)
		case token.GEQ:
			atom = fmt.Sprintf("<%d", k)
		default:
			continue
		}
		if out[pth] == nil {
			out[pth] = map[string]bool{}
		}
		out[pth][atom] = true
	}
	return out
}

func atomList(m map[string]bool) string {
	var s []string
	for k := range m {
		s = append(s, k)
	}
	sort.Strings(s)
	return strings.Join(s, ",")
}

// writesThroughParam: f stores through (a re-slice of) its i-th parameter.
func writesThroughParam(f *ssa.Function, i int, depth int) bool {
	if f == nil || i >= len(f.Params) || len(f.Blocks) == 0 || depth > 2 {
		return false
	}
	pa := f.Params[i]
	found := false
	core.Instrs(f, func(ins ssa.Instruction) {
		if found {
			return
		}
		if writesThrough(ins, pa, depth) {
			found = true
		}
	})
	return found
}

func sliceRootOf(v ssa.Value) ssa.Value {
	for i := 0; i < 12; i++ {
		switch x := v.(type) {
		case *ssa.Slice:
			v = x.X
		case *ssa.ChangeType:
			v = x.X
		case *ssa.Phi:
			// a phi all of whose edges have one root
			var r ssa.Value
			for _, e := range x.Edges {
				if e == ssa.Value(x) {
					continue
				}
				er := sliceRootOf(e)
				if r == nil {
					r = er
				} else if r != er {
					return v
				}
			}
			if r == nil {
				return v
			}
			return r
		default:
			return v
		}
	}
	return v
}

// writesThrough: ins writes memory reachable through slice value root.
func writesThrough(ins ssa.Instruction, root ssa.Value, depth int) bool {
	switch x := ins.(type) {
	case *ssa.Store:
		if ia, ok := x.Addr.(*ssa.IndexAddr); ok && mayBeRootedAt(ia.X, root) {
			return true
		}
	case *ssa.Call:
		if nm, cc := core.BuiltinCall(x); nm == "copy" && mayBeRootedAt(cc.Args[0], root) {
			return true
		}
		f := x.Call.StaticCallee()
		if f == nil {
			return false
		}
		if f.Pkg != nil && f.Pkg.Pkg.Path() == "encoding/binary" && strings.HasPrefix(f.Name(), "Put") && len(x.Call.Args) >= 2 && mayBeRootedAt(x.Call.Args[1], root) {
			return true
		}
		if f.Pkg != nil && strings.HasPrefix(f.Pkg.Pkg.Path(), core.Mod) {
			for i, a := range x.Call.Args {
				if core.IsByteSlice(a.Type()) && mayBeRootedAt(a, root) && writesThroughParam(f, i, depth+1) {
					return true
				}
			}
		}
	}
	return false
}

// sliceRootSet: all values a slice may be a re-slice of (through phis).
func sliceRootSet(v ssa.Value, out map[ssa.Value]bool, depth int) {
	if depth > 12 || out[v] {
		return
	}
	switch x := v.(type) {
	case *ssa.Slice:
		sliceRootSet(x.X, out, depth+1)
	case *ssa.ChangeType:
		sliceRootSet(x.X, out, depth+1)
	case *ssa.Phi:
		out[v] = true
		for _, e := range x.Edges {
			sliceRootSet(e, out, depth+1)
		}
	default:
		out[v] = true
	}
}

func mayBeRootedAt(v, root ssa.Value) bool {
	m := map[ssa.Value]bool{}
	sliceRootSet(v, m, 0)
	return m[root]
}
