package props

import (
	"fmt"
	"go/token"
	"go/types"
	"regexp"
	"sort"
	"strings"

	"golang.org/x/tools/go/ssa"

	"gpv/internal/assign"
	"gpv/internal/core"
)

func init() { register("C17", checkC17) }

// ---- terms: a tiny symbolic language for values built from parameter fields

// termOf renders v as a term over the function's parameters:
//
//	P            scalar parameter
//	P.f          field of a struct parameter (through its spill alloc)
//	len(P)       length of a slice parameter
//	P.f[:P.g]    slice of an array field
//	op(t1,t2)    binary operation (commutative ones with sorted operands)
//	call(f,..)   static call
func termOf(fn *ssa.Function, v ssa.Value, depth int) string {
	if depth > 12 {
		return "?"
	}
	switch x := v.(type) {
	case *ssa.Const:
		if x.Value == nil {
			return "const:nil"
		}
		return "const:" + x.Value.String()
	case *ssa.Parameter:
		return x.Name()
	case *ssa.Convert:
		return termOf(fn, x.X, depth+1)
	case *ssa.ChangeType:
		return termOf(fn, x.X, depth+1)
	case *ssa.UnOp:
		if x.Op == token.MUL {
			return addrTerm(fn, x.X, depth+1)
		}
		return x.Op.String() + "(" + termOf(fn, x.X, depth+1) + ")"
	case *ssa.Field:
		return termOf(fn, x.X, depth+1) + "." + core.FieldOfVal(x).Name()
	case *ssa.Slice:
		s := addrTermOrVal(fn, x.X, depth+1) + "["
		if x.Low != nil {
			s += termOf(fn, x.Low, depth+1)
		}
		s += ":"
		if x.High != nil {
			s += termOf(fn, x.High, depth+1)
		}
		return s + "]"
	case *ssa.BinOp:
		a, b := termOf(fn, x.X, depth+1), termOf(fn, x.Y, depth+1)
		switch x.Op {
		case token.ADD, token.MUL, token.XOR, token.AND, token.OR, token.EQL, token.NEQ:
			if b < a {
				a, b = b, a
			}
		}
		return x.Op.String() + "(" + a + "," + b + ")"
	case *ssa.Extract:
		return termOf(fn, x.Tuple, depth+1) + fmt.Sprintf("#%d", x.Index)
	case *ssa.Phi:
		var parts []string
		for _, e := range x.Edges {
			if e == ssa.Value(x) {
				continue
			}
			parts = append(parts, termOf(fn, e, depth+1))
		}
		sort.Strings(parts)
		return "phi(" + strings.Join(parts, "|") + ")"
	case *ssa.MakeInterface:
		return termOf(fn, x.X, depth+1)
	case *ssa.Call:
		if x.Call.IsInvoke() {
			var as []string
			for _, a := range x.Call.Args {
				as = append(as, termOf(fn, a, depth+1))
			}
			return "invoke:" + x.Call.Method.Name() + "(" + termOf(fn, x.Call.Value, depth+1) + strings.Join(append([]string{""}, as...), ",") + ")"
		}
		if bi, ok := x.Call.Value.(*ssa.Builtin); ok {
			var as []string
			for _, a := range x.Call.Args {
				as = append(as, termOf(fn, a, depth+1))
			}
			return bi.Name() + "(" + strings.Join(as, ",") + ")"
		}
		if f := x.Call.StaticCallee(); f != nil {
			var as []string
			for _, a := range x.Call.Args {
				as = append(as, termOf(fn, a, depth+1))
			}
			return "call:" + f.Name() + "(" + strings.Join(as, ",") + ")"
		}
	}
	return "?"
}

func addrTermOrVal(fn *ssa.Function, v ssa.Value, depth int) string {
	if _, ok := v.Type().Underlying().(*types.Pointer); ok {
		return addrTerm(fn, v, depth)
	}
	return termOf(fn, v, depth)
}

// addrTerm: the term of the content at address a (parameter spill fields).
func addrTerm(fn *ssa.Function, a ssa.Value, depth int) string {
	switch x := a.(type) {
	case *ssa.FieldAddr:
		return addrTerm(fn, x.X, depth+1) + "." + core.FieldOfAddr(x).Name()
	case *ssa.Alloc:
		// spill of a parameter: single whole-value store of a Parameter
		var src ssa.Value
		n := 0
		for _, ref := range *x.Referrers() {
			if st, ok := ref.(*ssa.Store); ok && st.Addr == ssa.Value(x) {
				src = st.Val
				n++
			}
		}
		if n == 1 {
			if p, ok := src.(*ssa.Parameter); ok {
				return p.Name()
			}
		}
		return fmt.Sprintf("local:%s", x.Comment)
	case *ssa.Parameter:
		return "*" + x.Name()
	}
	return "?"
}

// structResult: for the i-th result of fn, if it is a struct built in a local
// (composite literal or named result), the map field -> term on the (single)
// return that is not an error return.  copy(dst.f[:], P) becomes "bytes(P)".
func structResult(fn *ssa.Function, idx int) (map[string]string, *ssa.Return, bool) {
	var ret *ssa.Return
	for _, r := range core.Returns(fn) {
		if len(r.Results) <= idx {
			continue
		}
		if c, ok := r.Results[idx].(*ssa.Const); ok && c.Value == nil {
			continue // zero value on the error path
		}
		if ret != nil {
			return nil, nil, false
		}
		ret = r
	}
	if ret == nil {
		return nil, nil, false
	}
	a, ok := core.IsLoad(ret.Results[idx])
	if !ok {
		return nil, nil, false
	}
	al, ok := a.(*ssa.Alloc)
	if !ok {
		return nil, nil, false
	}
	st, ok := al.Type().Underlying().(*types.Pointer).Elem().Underlying().(*types.Struct)
	if !ok {
		return nil, nil, false
	}
	out := map[string]string{}
	for i := 0; i < st.NumFields(); i++ {
		out[st.Field(i).Name()] = "zero"
	}
	for _, ref := range *al.Referrers() {
		fa, ok := ref.(*ssa.FieldAddr)
		if !ok {
			if s, ok := ref.(*ssa.Store); ok && s.Addr == ssa.Value(al) {
				return nil, nil, false // whole-value store: not a field-wise construction
			}
			continue
		}
		name := core.FieldOfAddr(fa).Name()
		for _, r2 := range *fa.Referrers() {
			switch y := r2.(type) {
			case *ssa.Store:
				if y.Addr == ssa.Value(fa) {
					if out[name] != "zero" {
						out[name] = "multiple"
					} else {
						out[name] = termOf(fn, y.Val, 0)
					}
				}
			case *ssa.Slice:
				// copy(dst.f[:], src)
				for _, r3 := range *y.Referrers() {
					if nm, cc := core.BuiltinCall(r3); nm == "copy" && cc.Args[0] == ssa.Value(y) {
						full := y.Low == nil && y.High == nil
						if out[name] != "zero" || !full {
							out[name] = "multiple"
						} else {
							out[name] = "bytes(" + termOf(fn, cc.Args[1], 0) + ")"
						}
					} else if _, isStore := r3.(*ssa.Store); isStore {
						out[name] = "multiple"
					}
				}
			case *ssa.IndexAddr:
				out[name] = "multiple"
			}
		}
	}
	return out, ret, true
}

// substitute replaces occurrences of "P.f" in term by m[f] for every f.
func substitute(term, param string, m map[string]string) string {
	// longest field names first to avoid prefix clashes
	var fs []string
	for f := range m {
		fs = append(fs, f)
	}
	sort.Slice(fs, func(i, j int) bool { return len(fs[i]) > len(fs[j]) })
	// two-phase to avoid re-substitution
	for i, f := range fs {
		term = regexp.MustCompile(regexp.QuoteMeta(param+"."+f)+`\b`).ReplaceAllString(term, fmt.Sprintf("\x00%d\x00", i))
	}
	for i, f := range fs {
		term = strings.ReplaceAll(term, fmt.Sprintf("\x00%d\x00", i), m[f])
	}
	return term
}

func checkC17(c *core.Ctx) {
	p := c.P
	c.Explain = "Structural clauses of 'flows and endpoints are faithful, hashable, direction-symmetric values' decided on flows.go and on every per-layer flow constructor: (R17.0) Endpoint and Flow are comparable structs of integers and byte arrays only; (R17.1) their fields are written only by the five constructors/transformers; (R17.2) NewEndpoint/NewFlow start from the zero value, store len(arg) as the length paired with the array the same argument is copied into, copy each argument exactly once into the whole array, and reject lengths above the array size before copying (zero padding beyond len, which is what makes == and map keys mean equality); the algebraic laws are checked by composing the field maps extracted from the SSA: Reverse∘Reverse = id, FlowFromEndpoints∘Endpoints = id, Endpoints∘NewFlow = (NewEndpoint, NewEndpoint); (R17.3) Flow.FastHash is syntactically invariant under the Reverse substitution modulo commutativity, Endpoint.FastHash hashes raw[:len] and typ; (R17.4) LessThan is evaluated abstractly over all 9 orderings of (typ, bytes) and must be the lexicographic strict order; (R17.5) no per-layer *Flow() passes a destination field as source or vice versa, and each decode assigns the private port slices and the exported port numbers from the same byte range (R17.6). Not decided: the laws as statements about all runtime values beyond what the field maps imply; FNV mixing quality."
	r0 := c.Rule("R17.0", "T", "Endpoint/Flow are comparable plain values")
	r1 := c.Rule("R17.1", "T", "only constructors/transformers write Endpoint/Flow fields")
	r2 := c.Rule("R17.2", "T", "constructors: zero value, len paired with its array, single full copy, oversize rejected first; laws by field-map composition")
	r3 := c.Rule("R17.3", "T", "hash symmetry under Reverse")
	r4 := c.Rule("R17.4", "T", "LessThan is the lexicographic strict order (all 9 abstract orderings)")
	r5 := c.Rule("R17.5", "D", "per-layer flows: source before destination")
	r6 := c.Rule("R17.6", "D", "private port slices and exported port numbers come from the same bytes")

	// ---- R17.7 / R17.8
	r7 := c.Rule("R17.7", "T", "per-layer flow accessors compute the flow from the layer's current fields on every call (no stored flow is returned)")
	r8 := c.Rule("R17.8", "T", "endpoint and flow constructors write no package-level variable")
	{
		nAcc := 0
		for _, fn := range pkgFunctions(p, "layers") {
			if fn.Signature.Recv() == nil || fn.Signature.Results().Len() != 1 || !core.NamedIs(fn.Signature.Results().At(0).Type(), "Flow") || !strings.HasSuffix(fn.Name(), "Flow") {
				continue
			}
			nAcc++
			key := core.FnKey(fn) + "/returns"
			bad := ""
			for _, ret := range core.Returns(fn) {
				v := core.RetOperand(ret, 0)
				var check func(v ssa.Value, d int)
				check = func(v ssa.Value, d int) {
					if d > 4 || bad != "" {
						return
					}
					switch x := v.(type) {
					case *ssa.Call:
						// NewFlow(...) or another accessor / constructor
					case *ssa.Phi:
						for _, e := range x.Edges {
							check(e, d+1)
						}
					case *ssa.UnOp:
						if pth, base := core.FieldPath(x.X); pth != "" && x.Op == token.MUL {
							if _, isParam := base.(*ssa.Parameter); isParam {
								bad = "the flow stored in field " + pth
							}
						}
					case *ssa.Field:
						bad = "a stored flow"
					}
				}
				check(v, 0)
			}
			r7.Check(bad == "", key, p.Pos(fn.Pos()), "every return is a freshly built flow", "returns "+bad+" instead of a flow built from the layer's current address fields: after the layer object is decoded into again the accessor can report the previous packet's flow")
		}
		flowComposition(c, c.Rule("R17.9", "T", "per-layer flow accessors build the flow with an endpoint type fixed by the layer (a constant), never one chosen from the address value"))
		if nAcc < 8 {
			r7.Missing("layers/flow accessors", fmt.Sprintf("only %d flow accessors found", nAcc))
		}
		// constructors: exported functions returning Endpoint or Flow, and what they call inside the module
		var seeds []*ssa.Function
		for _, pk := range []string{"", "layers"} {
			for _, fn := range pkgFunctions(p, pk) {
				if pk == "" && core.FnPkg(fn).Path() != core.Mod {
					continue
				}
				if fn.Signature.Recv() != nil || fn.Signature.Results().Len() != 1 || fn.Parent() != nil {
					continue
				}
				rt := fn.Signature.Results().At(0).Type()
				if core.NamedIs(rt, "Endpoint") || core.NamedIs(rt, "Flow") {
					seeds = append(seeds, fn)
				}
			}
		}
		for _, fn := range core.SortedFns(p.AllFns) {
			if core.FnPkg(fn) != nil && core.FnPkg(fn).Path() == core.Mod && fn.Signature.Recv() == nil && fn.Parent() == nil && len(fn.Blocks) > 0 && fn.Signature.Results().Len() == 1 {
				rt := fn.Signature.Results().At(0).Type()
				if core.NamedIs(rt, "Endpoint") || core.NamedIs(rt, "Flow") {
					seeds = append(seeds, fn)
				}
			}
		}
		reach := p.Reach(p.CG(false), seeds)
		nC := 0
		for _, fn := range core.SortedFns(reach) {
			if !p.InModule(fn) || len(fn.Blocks) == 0 || strings.HasSuffix(p.Pos(fn.Pos()), "_test.go") {
				continue
			}
			nC++
			globalRoot := func(v ssa.Value) *ssa.Global {
				for i := 0; i < 8; i++ {
					switch x := v.(type) {
					case *ssa.Global:
						return x
					case *ssa.Slice:
						v = x.X
					case *ssa.IndexAddr:
						v = x.X
					case *ssa.FieldAddr:
						v = x.X
					default:
						return nil
					}
				}
				return nil
			}
			k := 0
			core.Instrs(fn, func(ins ssa.Instruction) {
				var g *ssa.Global
				switch x := ins.(type) {
				case *ssa.Store:
					g = globalRoot(x.Addr)
				case *ssa.Call:
					if nm, cc := core.BuiltinCall(x); nm == "copy" {
						g = globalRoot(cc.Args[0])
					} else if f := x.Call.StaticCallee(); f != nil && f.Pkg != nil && f.Pkg.Pkg.Path() == "encoding/binary" && strings.HasPrefix(f.Name(), "Put") && len(x.Call.Args) >= 2 {
						g = globalRoot(x.Call.Args[1])
					}
				}
				if g == nil {
					return
				}
				k++
				r8.Violate(fmt.Sprintf("%s/writes-global:%s#%d", core.FnKey(fn), g.Name(), k), p.InstrPos(ins), "a constructor of endpoint/flow values writes package-level variable "+g.Name()+": two goroutines building values at the same time get each other's bytes (the value no longer equals the one decoding gives for the same port/address)", nil)
			})
		}
		c.Counts["constructor_reach"] = nC
		if nC < 10 {
			r8.Missing("constructors", fmt.Sprintf("only %d functions reachable from endpoint/flow constructors", nC))
		} else {
			r8.OK("constructors/scan", "", fmt.Sprintf("%d functions reachable from endpoint/flow constructors scanned", nC))
		}
	}

	// ---- R17.0
	for _, name := range []string{"Endpoint", "Flow"} {
		n := p.NamedType("", name)
		if n == nil {
			r0.Missing(name, "type not found")
			continue
		}
		st, ok := n.Underlying().(*types.Struct)
		good := ok && types.Comparable(n)
		if ok {
			for i := 0; i < st.NumFields(); i++ {
				switch t := st.Field(i).Type().Underlying().(type) {
				case *types.Basic:
					if t.Info()&types.IsInteger == 0 {
						good = false
					}
				case *types.Array:
					if b, ok := t.Elem().Underlying().(*types.Basic); !ok || b.Kind() != types.Uint8 {
						good = false
					}
				default:
					good = false
				}
			}
		}
		r0.Check(good, "gopacket."+name, p.Pos(n.Obj().Pos()), "comparable struct of integers and byte arrays", name+" is no longer a plain comparable value (== / map keys would not be byte-wise over typ, len, raw)")
	}

	// ---- R17.1 ownership
	writers := map[string]bool{"NewEndpoint": true, "NewFlow": true, "FlowFromEndpoints": true, "Endpoints": true, "Reverse": true}
	nW := 0
	for _, fn := range core.SortedFns(p.AllFns) {
		if !p.InModule(fn) {
			continue
		}
		core.Instrs(fn, func(ins ssa.Instruction) {
			fa, ok := ins.(*ssa.FieldAddr)
			if !ok {
				return
			}
			if !core.NamedIs(fa.X.Type(), "Endpoint") && !core.NamedIs(fa.X.Type(), "Flow") {
				return
			}
			written := false
			for _, ref := range *fa.Referrers() {
				switch y := ref.(type) {
				case *ssa.Store:
					if y.Addr == ssa.Value(fa) {
						written = true
					}
				case *ssa.Slice:
					for _, r3 := range *y.Referrers() {
						if nm, cc := core.BuiltinCall(r3); (nm == "copy" && cc.Args[0] == ssa.Value(y)) || nm == "append" {
							written = true
						}
						if _, isSt := r3.(*ssa.Store); isSt {
							written = true
						}
					}
				case *ssa.IndexAddr:
					for _, r3 := range *y.Referrers() {
						if s, isSt := r3.(*ssa.Store); isSt && s.Addr == ssa.Value(y) {
							written = true
						}
					}
				}
			}
			if !written {
				return
			}
			nW++
			r1.Check(writers[fn.Name()], core.FnKey(fn)+"/writes:"+core.FieldOfAddr(fa).Name(), p.InstrPos(ins), "constructor/transformer", "a field of Endpoint/Flow is written outside the constructors: the zero-padding invariant behind == and map keys is no longer guaranteed")
		})
	}
	if nW < 10 {
		r1.Missing("writers", "fewer field writes found than the constructors need")
	}

	// ---- R17.2 constructors and laws
	get := func(name string, idx int) map[string]string {
		fn := p.Func("", name)
		if fn == nil {
			r2.Missing(name, "function not found")
			return nil
		}
		m, _, ok := structResult(fn, idx)
		if !ok {
			r2.Violate("gopacket."+name+"/field-map", p.Pos(fn.Pos()), "result is not built field by field from the arguments (cannot extract its field map)", nil)
			return nil
		}
		return m
	}
	ne := get("NewEndpoint", 0)
	nf := get("NewFlow", 0)
	rev := get("Flow.Reverse", 0)
	ffe := get("FlowFromEndpoints", 0)
	eps := get("Flow.Endpoints", 0)
	epd := get("Flow.Endpoints", 1)
	fnName := func(n string) *ssa.Function { return p.Func("", n) }
	if ne != nil {
		fn := fnName("NewEndpoint")
		pn := fn.Params[1].Name()
		ok := ne["typ"] == fn.Params[0].Name() && ne["len"] == "len("+pn+")" && ne["raw"] == "bytes("+pn+")"
		r2.Check(ok, "gopacket.NewEndpoint/fields", p.Pos(fn.Pos()), fmt.Sprintf("%v", ne), fmt.Sprintf("NewEndpoint must build {typ: typ, len: len(raw), raw: zero-padded copy of raw}, found %v", ne))
		checkOversizeGuard(c, r2, fn, []string{pn})
	}
	if nf != nil {
		fn := fnName("NewFlow")
		s, d := fn.Params[1].Name(), fn.Params[2].Name()
		ok := nf["typ"] == fn.Params[0].Name() && nf["slen"] == "len("+s+")" && nf["dlen"] == "len("+d+")" && nf["src"] == "bytes("+s+")" && nf["dst"] == "bytes("+d+")"
		r2.Check(ok, "gopacket.NewFlow/fields", p.Pos(fn.Pos()), fmt.Sprintf("%v", nf), fmt.Sprintf("NewFlow must pair each argument's length with the array it is copied into (slen/src, dlen/dst), found %v", nf))
		checkOversizeGuard(c, r2, fn, []string{s, d})
	}
	if rev != nil {
		fn := fnName("Flow.Reverse")
		recv := fn.Params[0].Name()
		twice := map[string]string{}
		for f, t := range rev {
			twice[f] = substitute(t, recv, rev)
		}
		ok := true
		for f, t := range twice {
			if t != recv+"."+f {
				ok = false
			}
		}
		swapped := rev["src"] == recv+".dst" && rev["dst"] == recv+".src" && rev["slen"] == recv+".dlen" && rev["dlen"] == recv+".slen" && rev["typ"] == recv+".typ"
		r2.Check(ok && swapped, "gopacket.Flow.Reverse/involution", p.Pos(fn.Pos()), "Reverse∘Reverse = id and it swaps (src,slen) with (dst,dlen)", fmt.Sprintf("Reverse is not the swap of (src,slen) and (dst,dlen): %v", rev))
	}
	if ffe != nil && eps != nil && epd != nil {
		fn := fnName("FlowFromEndpoints")
		ef := fnName("Flow.Endpoints")
		recv := ef.Params[0].Name()
		a, b := fn.Params[0].Name(), fn.Params[1].Name()
		ok := true
		detail := ""
		for f, t := range ffe {
			t2 := substitute(substitute(t, a, eps), b, epd)
			if t2 != recv+"."+f {
				ok = false
				detail += fmt.Sprintf(" %s<-%s", f, t2)
			}
		}
		r2.Check(ok, "gopacket.FlowFromEndpoints∘Endpoints", p.Pos(fn.Pos()), "joining the endpoints of a flow gives the flow back", "FlowFromEndpoints(f.Endpoints()) != f:"+detail)
		// type mismatch is rejected
		guard := false
		for _, r := range core.Returns(fn) {
			if len(r.Results) == 2 && provablyNonNilErr(r.Results[1], r.Block()) {
				for _, dc := range core.DomConds(r.Block()) {
					x, y := a+".typ", b+".typ"
					if y < x {
						x, y = y, x
					}
					if t := termOf(fn, dc.V, 0); (t == "!=("+x+","+y+")" && dc.Truth) || (t == "==("+x+","+y+")" && !dc.Truth) {
						guard = true
					}
				}
			}
		}
		r2.Check(guard, "gopacket.FlowFromEndpoints/type-mismatch", p.Pos(fn.Pos()), "endpoints of different types are rejected", "endpoints of different types are joined into one flow")
	}
	if nf != nil && eps != nil && epd != nil && ne != nil {
		ef := fnName("Flow.Endpoints")
		recv := ef.Params[0].Name()
		nff, nef := fnName("NewFlow"), fnName("NewEndpoint")
		t, s, d := nff.Params[0].Name(), nff.Params[1].Name(), nff.Params[2].Name()
		et, er := nef.Params[0].Name(), nef.Params[1].Name()
		want := func(arg string) map[string]string {
			out := map[string]string{}
			for f, tm := range ne {
				tm = regexp.MustCompile(`\b`+regexp.QuoteMeta(er)+`\b`).ReplaceAllString(tm, arg)
				tm = regexp.MustCompile(`\b`+regexp.QuoteMeta(et)+`\b`).ReplaceAllString(tm, t)
				out[f] = tm
			}
			return out
		}
		ok := true
		for f, tm := range eps {
			if substitute(tm, recv, nf) != want(s)[f] {
				ok = false
			}
		}
		for f, tm := range epd {
			if substitute(tm, recv, nf) != want(d)[f] {
				ok = false
			}
		}
		r2.Check(ok, "gopacket.Endpoints∘NewFlow", p.Pos(ef.Pos()), "NewFlow(t,s,d).Endpoints() = NewEndpoint(t,s), NewEndpoint(t,d)", "the endpoints of NewFlow(t,s,d) are not NewEndpoint(t,s) and NewEndpoint(t,d)")
	}
	// Raw() = raw[:len]
	if fn := fnName("Endpoint.Raw"); fn != nil {
		recv := fn.Params[0].Name()
		ok := false
		for _, r := range core.Returns(fn) {
			ok = termOf(fn, r.Results[0], 0) == recv+".raw[:"+recv+".len]"
		}
		r2.Check(ok, "gopacket.Endpoint.Raw", p.Pos(fn.Pos()), "Raw() = raw[:len]", "Raw() is not raw[:len]")
	}

	// ---- R17.3
	if fn := fnName("Flow.FastHash"); fn == nil {
		r3.Missing("Flow.FastHash", "not found")
	} else if rev != nil {
		recv := fn.Params[0].Name()
		rets := core.Returns(fn)
		if len(rets) != 1 {
			r3.Violate("gopacket.Flow.FastHash", p.Pos(fn.Pos()), "more than one return", nil)
		} else {
			t := retTerm(fn, rets[0])
			// apply the Reverse substitution, then re-normalise commutative operands
			t2 := normalizeTerm(substitute(t, recv, rev))
			t1 := normalizeTerm(t)
			dep := strings.Contains(t1, recv+".src") && strings.Contains(t1, recv+".dst") && strings.Contains(t1, recv+".slen") && strings.Contains(t1, recv+".dlen") && strings.Contains(t1, recv+".typ")
			r3.Check(t1 == t2 && !strings.Contains(t1, "?"), "gopacket.Flow.FastHash/symmetric", p.Pos(fn.Pos()), "hash term is invariant under (src,slen)<->(dst,dlen)", "Flow.FastHash is not invariant under reversing the flow: "+t1+" vs "+t2)
			r3.Check(dep, "gopacket.Flow.FastHash/depends", p.Pos(fn.Pos()), "hash depends on typ and on src[:slen], dst[:dlen]", "Flow.FastHash ignores part of the flow (typ, src[:slen] or dst[:dlen])")
			// the slices hashed are f.src[:f.slen] and f.dst[:f.dlen]
			pair := strings.Contains(t1, recv+".src[:"+recv+".slen]") && strings.Contains(t1, recv+".dst[:"+recv+".dlen]")
			r3.Check(pair, "gopacket.Flow.FastHash/pairing", p.Pos(fn.Pos()), "src hashed up to slen, dst up to dlen", "FastHash pairs an address array with the other address's length")
		}
	}
	if fn := fnName("Endpoint.FastHash"); fn != nil {
		recv := fn.Params[0].Name()
		rets := core.Returns(fn)
		if len(rets) == 1 {
			t := retTerm(fn, rets[0])
			ok := strings.Contains(t, recv+".raw[:"+recv+".len]") && strings.Contains(t, recv+".typ")
			r3.Check(ok, "gopacket.Endpoint.FastHash", p.Pos(fn.Pos()), "hashes raw[:len] and typ", "Endpoint.FastHash does not hash exactly raw[:len] and typ")
		}
	}

	// ---- R17.4
	checkLessThan(c, r4)

	// ---- R17.5 per-layer flows
	nfFn := fnName("NewFlow")
	srcRe := regexp.MustCompile(`^(Src|src|Source|source|s[A-Z])`)
	dstRe := regexp.MustCompile(`^(Dst|dst|Dest|dest|Target|d[A-Z])`)
	nFlows := 0
	for _, fn := range core.SortedFns(p.AllFns) {
		if core.FnPkg(fn) == nil || core.FnPkg(fn).Path() != core.Mod+"/layers" || fn.Signature.Recv() == nil {
			continue
		}
		core.Instrs(fn, func(ins ssa.Instruction) {
			cc := core.CallCommonOf(ins)
			if cc == nil || cc.StaticCallee() != nfFn || len(cc.Args) != 3 {
				return
			}
			rootField := func(v ssa.Value) string {
				for depth := 0; depth < 8; depth++ {
					switch x := v.(type) {
					case *ssa.Convert:
						v = x.X
					case *ssa.ChangeType:
						v = x.X
					case *ssa.Slice:
						v = x.X
					case *ssa.UnOp:
						if fa, ok := x.X.(*ssa.FieldAddr); ok {
							return core.FieldOfAddr(fa).Name()
						}
						return ""
					case *ssa.Field:
						return core.FieldOfVal(x).Name()
					default:
						return ""
					}
				}
				return ""
			}
			a, b := rootField(cc.Args[1]), rootField(cc.Args[2])
			if a == "" && b == "" {
				return
			}
			nFlows++
			key := core.FnKey(fn) + "/NewFlow"
			swapped := (a != "" && dstRe.MatchString(a) && !srcRe.MatchString(a)) || (b != "" && srcRe.MatchString(b) && !dstRe.MatchString(b))
			if swapped {
				r5.Violate(key, p.InstrPos(ins), fmt.Sprintf("flow built with source=%s destination=%s: the two directions of a conversation no longer give mutually reversed flows", a, b), nil)
			} else if (a == "" || srcRe.MatchString(a)) && (b == "" || dstRe.MatchString(b)) {
				r5.OK(key, p.InstrPos(ins), "NewFlow(_, "+a+", "+b+")")
			} else {
				r5.Undecided(key, p.InstrPos(ins), "field names "+a+"/"+b+" carry no direction")
			}
		})
	}
	c.Counts["layer_flow_constructors"] = nFlows

	// ---- R17.6 port slices
	checkPortSlices(c, r6)
	flowFieldsReset(c, c.Rule("R17.12", "T", "the fields a layer's flow accessor reads are assigned on every successful decode path"))
	transportEndpointTypesDistinct(c, c.Rule("R17.11", "T", "no two layer types build their transport flow with the same endpoint type"))
	noBufferViewInFlowFields(c, c.Rule("R17.10", "T", "no slice of a SerializeBuffer is stored into a layer field a flow accessor reads: the buffer's memory is rewritten by the next serialization"))
}

// retTerm follows a named result spilled to an alloc: the term of the last store.
func retTerm(fn *ssa.Function, r *ssa.Return) string {
	return termOf(fn, r.Results[0], 0)
}

// normalizeTerm re-sorts the operands of commutative operators bottom-up.
func normalizeTerm(t string) string {
	// parse op(a,b) recursively
	var parse func(s string) string
	parse = func(s string) string {
		i := strings.Index(s, "(")
		if i < 0 || !strings.HasSuffix(s, ")") {
			return s
		}
		head := s[:i]
		body := s[i+1 : len(s)-1]
		// split top-level commas
		var args []string
		depth, start := 0, 0
		for j, ch := range body {
			switch ch {
			case '(', '[':
				depth++
			case ')', ']':
				depth--
			case ',':
				if depth == 0 {
					args = append(args, body[start:j])
					start = j + 1
				}
			}
		}
		args = append(args, body[start:])
		for k := range args {
			args[k] = parse(args[k])
		}
		switch head {
		case "+", "*", "^", "&", "|", "==", "!=":
			sort.Strings(args)
		}
		return head + "(" + strings.Join(args, ",") + ")"
	}
	return parse(t)
}

// checkOversizeGuard: a panic under len(arg) > cap-of-array dominates the copies.
func checkOversizeGuard(c *core.Ctx, r *core.Rule, fn *ssa.Function, args []string) {
	p := c.P
	var pan *ssa.Panic
	core.Instrs(fn, func(ins ssa.Instruction) {
		if x, ok := ins.(*ssa.Panic); ok {
			pan = x
		}
	})
	key := "gopacket." + fn.Name() + "/oversize-rejected"
	if pan == nil {
		r.Violate(key, p.Pos(fn.Pos()), "addresses longer than MaxEndpointSize are silently truncated instead of rejected", nil)
		return
	}
	// every copy must be unreachable when some len(arg) > 16: remove the false edges of `len > K` tests; copies must become unreachable
	arrLen := int64(16)
	if n := p.NamedType("", "Endpoint"); n != nil {
		if st, ok := n.Underlying().(*types.Struct); ok {
			for i := 0; i < st.NumFields(); i++ {
				if a, ok := st.Field(i).Type().Underlying().(*types.Array); ok {
					arrLen = a.Len()
				}
			}
		}
	}
	tested := map[string]bool{}
	isGuard := func(b *ssa.BasicBlock) (string, bool) {
		iff := blockIf(b)
		if iff == nil {
			return "", false
		}
		bo, ok := iff.Cond.(*ssa.BinOp)
		if !ok {
			return "", false
		}
		k, okK := core.ConstInt(bo.Y)
		if !okK {
			return "", false
		}
		t := termOf(fn, bo.X, 0)
		// local named-result field holding len(arg)
		for _, a := range args {
			if t == "len("+a+")" || strings.HasPrefix(t, "local:") {
				if (bo.Op == token.GTR && k == arrLen) || (bo.Op == token.GEQ && k == arrLen+1) {
					return a, true
				}
			}
		}
		return "", false
	}
	nGuards := 0
	for _, b := range fn.Blocks {
		if a, ok := isGuard(b); ok {
			tested[a] = true
			nGuards++
		}
	}
	reach := edgeFilteredReach(fn, func(b *ssa.BasicBlock, i int) bool {
		if _, ok := isGuard(b); ok && i == 1 {
			return true
		}
		return true
	})
	_ = reach
	// each copy is dominated by the false edges of all guards: i.e. copy block is not reachable via any true edge
	viaTrue := edgeFilteredReach(fn, func(b *ssa.BasicBlock, i int) bool {
		if _, ok := isGuard(b); ok {
			return i == 0 // follow only the "too long" edge out of guards
		}
		return true
	})
	_ = viaTrue
	bad := false
	core.Instrs(fn, func(ins ssa.Instruction) {
		if nm, _ := core.BuiltinCall(ins); nm == "copy" {
			// the copy must not be reachable from any guard's true successor
			for _, b := range fn.Blocks {
				if _, ok := isGuard(b); ok {
					if reachesInstr(b.Succs[0], ins) {
						bad = true
					}
				}
			}
		}
	})
	if nGuards < len(args) || bad {
		r.Violate(key, p.InstrPos(pan), "not every argument's length is tested against the array size before it is copied (an oversize address would be truncated and compare equal to a different one)", nil)
		return
	}
	r.OK(key, p.InstrPos(pan), "panic on len > array size precedes the copies")
}

// checkLessThan evaluates Endpoint.LessThan abstractly under the 9 orderings.
func checkLessThan(c *core.Ctx, r *core.Rule) {
	p := c.P
	fn := p.Func("", "Endpoint.LessThan")
	if fn == nil {
		r.Missing("Endpoint.LessThan", "not found")
		return
	}
	a, b := fn.Params[0].Name(), fn.Params[1].Name()
	names := map[int]string{-1: "<", 0: "=", 1: ">"}
	for _, ot := range []int{-1, 0, 1} {
		for _, ob := range []int{-1, 0, 1} {
			key := fmt.Sprintf("gopacket.Endpoint.LessThan/typ%sbytes%s", names[ot], names[ob])
			res, ok := absEvalLess(fn, a, b, ot, ob)
			want := ot < 0 || (ot == 0 && ob < 0)
			if !ok {
				r.Violate(key, p.Pos(fn.Pos()), "LessThan uses its operands other than through comparisons of typ and of raw[:len]; cannot evaluate it over the finite set of orderings", nil)
				continue
			}
			r.Check(res == want, key, p.Pos(fn.Pos()), fmt.Sprintf("typ %s, bytes %s => %v", names[ot], names[ob], res), fmt.Sprintf("with a.typ %s b.typ and a.raw[:a.len] %s b.raw[:b.len] LessThan returns %v, the lexicographic order requires %v", names[ot], names[ob], res, want))
		}
	}
}

type absV struct {
	kind string // "bool","int","typ","bytes"
	b    bool
	i    int64
	who  string // for typ/bytes: which operand
}

func absEvalLess(fn *ssa.Function, a, b string, ot, ob int) (bool, bool) {
	env := map[ssa.Value]absV{}
	var eval func(v ssa.Value) (absV, bool)
	eval = func(v ssa.Value) (absV, bool) {
		if x, ok := env[v]; ok {
			return x, true
		}
		switch x := v.(type) {
		case *ssa.Const:
			if bv, ok := core.ConstBool(x); ok {
				return absV{kind: "bool", b: bv}, true
			}
			if iv, ok := core.ConstInt(x); ok {
				return absV{kind: "int", i: iv}, true
			}
		case *ssa.Convert:
			return eval(x.X)
		}
		t := termOf(fn, v, 0)
		switch t {
		case a + ".typ":
			return absV{kind: "typ", who: "a"}, true
		case b + ".typ":
			return absV{kind: "typ", who: "b"}, true
		case a + ".raw[:" + a + ".len]":
			return absV{kind: "bytes", who: "a"}, true
		case b + ".raw[:" + b + ".len]":
			return absV{kind: "bytes", who: "b"}, true
		}
		return absV{}, false
	}
	cmp := func(op token.Token, d int) bool {
		switch op {
		case token.LSS:
			return d < 0
		case token.LEQ:
			return d <= 0
		case token.GTR:
			return d > 0
		case token.GEQ:
			return d >= 0
		case token.EQL:
			return d == 0
		case token.NEQ:
			return d != 0
		}
		return false
	}
	blk := fn.Blocks[0]
	var pred *ssa.BasicBlock
	for steps := 0; steps < 64; steps++ {
		for _, ins := range blk.Instrs {
			switch x := ins.(type) {
			case *ssa.Phi:
				for i, pb := range blk.Preds {
					if pb == pred {
						v, ok := eval(x.Edges[i])
						if !ok {
							return false, false
						}
						env[x] = v
					}
				}
			case *ssa.BinOp:
				l, ok1 := eval(x.X)
				rr, ok2 := eval(x.Y)
				if !ok1 || !ok2 {
					continue // may be unused
				}
				switch {
				case l.kind == "typ" && rr.kind == "typ":
					d := 0
					if l.who != rr.who {
						d = ot
						if l.who == "b" {
							d = -ot
						}
					}
					env[x] = absV{kind: "bool", b: cmp(x.Op, d)}
				case l.kind == "int" && rr.kind == "int":
					d := 0
					if l.i < rr.i {
						d = -1
					} else if l.i > rr.i {
						d = 1
					}
					env[x] = absV{kind: "bool", b: cmp(x.Op, d)}
				case l.kind == "bool" && rr.kind == "bool":
					switch x.Op {
					case token.EQL:
						env[x] = absV{kind: "bool", b: l.b == rr.b}
					case token.NEQ:
						env[x] = absV{kind: "bool", b: l.b != rr.b}
					case token.AND, token.LAND:
						env[x] = absV{kind: "bool", b: l.b && rr.b}
					case token.OR, token.LOR:
						env[x] = absV{kind: "bool", b: l.b || rr.b}
					}
				}
			case *ssa.UnOp:
				if x.Op == token.NOT {
					if v, ok := eval(x.X); ok && v.kind == "bool" {
						env[x] = absV{kind: "bool", b: !v.b}
					}
				}
			case *ssa.Call:
				name := core.StaticName(&x.Call)
				if (name == "bytes.Compare" || name == "bytes.Equal") && len(x.Call.Args) == 2 {
					l, ok1 := eval(x.Call.Args[0])
					rr, ok2 := eval(x.Call.Args[1])
					if ok1 && ok2 && l.kind == "bytes" && rr.kind == "bytes" {
						d := 0
						if l.who != rr.who {
							d = ob
							if l.who == "b" {
								d = -ob
							}
						}
						if name == "bytes.Compare" {
							env[x] = absV{kind: "int", i: int64(d)}
						} else {
							env[x] = absV{kind: "bool", b: d == 0}
						}
					}
				}
			case *ssa.If:
				v, ok := eval(x.Cond)
				if !ok || v.kind != "bool" {
					return false, false
				}
				pred = blk
				if v.b {
					blk = blk.Succs[0]
				} else {
					blk = blk.Succs[1]
				}
				goto next
			case *ssa.Jump:
				pred = blk
				blk = blk.Succs[0]
				goto next
			case *ssa.Return:
				v, ok := eval(x.Results[0])
				if !ok || v.kind != "bool" {
					return false, false
				}
				return v.b, true
			}
		}
		return false, false
	next:
	}
	return false, false
}

// checkPortSlices: in each DecodeFromBytes that stores fields sPort/dPort, the
// slice stored and the number stored into SrcPort/DstPort come from the same
// constant byte range of data.
func checkPortSlices(c *core.Ctx, r *core.Rule) {
	p := c.P
	roots := p.Roots()
	pairs := [][2]string{{"sPort", "SrcPort"}, {"dPort", "DstPort"}}
	n := 0
	for _, d := range roots.Dec {
		if d.Kind != "DecodeFromBytes" {
			continue
		}
		fn := d.Fn
		rng := map[string]string{}
		core.Instrs(fn, func(ins ssa.Instruction) {
			st, ok := ins.(*ssa.Store)
			if !ok {
				return
			}
			fa, ok := st.Addr.(*ssa.FieldAddr)
			if !ok || !core.IsRecvParam(fn, fa.X) {
				return
			}
			name := core.FieldOfAddr(fa).Name()
			switch name {
			case "sPort", "dPort", "SrcPort", "DstPort":
				if sl := findDataSlice(st.Val, d.Data, 0); sl != "" {
					rng[name] = sl
				} else {
					rng[name] = "?"
				}
			}
		})
		for _, pr := range pairs {
			a, okA := rng[pr[0]]
			b, okB := rng[pr[1]]
			if !okA || !okB {
				continue
			}
			n++
			key := core.FnKey(fn) + "/" + pr[0] + "~" + pr[1]
			if a == "?" || b == "?" {
				r.Undecided(key, p.Pos(fn.Pos()), "byte ranges not constant")
				continue
			}
			r.Check(a == b, key, p.Pos(fn.Pos()), pr[0]+" and "+pr[1]+" both from data"+a, fmt.Sprintf("%s is taken from data%s but %s from data%s: the transport flow no longer carries the layer's %s", pr[0], a, pr[1], b, pr[1]))
		}
		// the pair is assigned together: once the exported number is stored, the private slice
		// is stored before the function can return (error returns included — the half-decoded
		// layer is still added to the packet and asked for its flow)
		for _, pr := range pairs {
			var numSt, slSt []*ssa.Store
			core.Instrs(fn, func(ins ssa.Instruction) {
				st, ok := ins.(*ssa.Store)
				if !ok {
					return
				}
				fa, ok := st.Addr.(*ssa.FieldAddr)
				if !ok || !core.IsRecvParam(fn, fa.X) {
					return
				}
				switch core.FieldOfAddr(fa).Name() {
				case pr[1]:
					numSt = append(numSt, st)
				case pr[0]:
					slSt = append(slSt, st)
				}
			})
			if len(numSt) == 0 || len(slSt) == 0 {
				continue
			}
			var esc ssa.Instruction
			for _, ns := range numSt {
				// a slice store before the number store on every path also pairs them
				if e := core.ForwardSearch(fn, ns, func(i ssa.Instruction) bool { _, isRet := i.(*ssa.Return); return isRet }, func(i ssa.Instruction) bool {
					for _, s2 := range slSt {
						if i == ssa.Instruction(s2) {
							return true
						}
					}
					return false
				}); e != nil {
					before := true
					for _, s2 := range slSt {
						_ = s2
					}
					// accept when some slice store dominates the number store
					before = false
					for _, s2 := range slSt {
						if core.Dominates(s2, ns) {
							before = true
						}
					}
					if !before {
						esc = e
					}
				}
			}
			key := core.FnKey(fn) + "/" + pr[0] + "-with-" + pr[1]
			r.Check(esc == nil, key, p.Pos(fn.Pos()), pr[0]+" is stored on every path on which "+pr[1]+" is", fmt.Sprintf("%s is stored but a return is reachable before %s is: a segment rejected in between (bad data offset, options cut off by the snap length) is still added to the packet as its transport layer, and its TransportFlow() is empty — or, on a reused layer, the previous packet's ports — while %s holds this packet's port", pr[1], pr[0], pr[1]))
		}
		if s, ok := rng["sPort"]; ok && s != "?" && s == rng["dPort"] {
			r.Violate(core.FnKey(fn)+"/sPort=dPort", p.Pos(fn.Pos()), "source and destination port slices alias the same bytes "+s, nil)
		}
	}
	c.Counts["port_slice_pairs"] = n
}

// findDataSlice: v is (a conversion of a Uint16 of) data[a:b] with constant bounds.
func findDataSlice(v ssa.Value, data *ssa.Parameter, depth int) string {
	if depth > 6 {
		return ""
	}
	switch x := v.(type) {
	case *ssa.Convert:
		return findDataSlice(x.X, data, depth+1)
	case *ssa.ChangeType:
		return findDataSlice(x.X, data, depth+1)
	case *ssa.Call:
		if len(x.Call.Args) > 0 {
			return findDataSlice(x.Call.Args[len(x.Call.Args)-1], data, depth+1)
		}
	case *ssa.Slice:
		if x.X == ssa.Value(data) {
			lo, hi := int64(0), int64(-1)
			if x.Low != nil {
				k, ok := core.ConstInt(x.Low)
				if !ok {
					return ""
				}
				lo = k
			}
			if x.High != nil {
				k, ok := core.ConstInt(x.High)
				if !ok {
					return ""
				}
				hi = k
			}
			if hi < 0 {
				return fmt.Sprintf("[%d:]", lo)
			}
			return fmt.Sprintf("[%d:%d]", lo, hi)
		}
	}
	return ""
}

// flowComposition (R17.9): the flow a layer reports must carry exactly the
// layer's addresses, so its endpoint type is a property of the layer, not of
// the address bytes.  Every value returned by a *Flow accessor is resolved to
// NewFlow(K, …) with constant K, to FlowFromEndpoints(NewEndpoint(K, …),
// NewEndpoint(K, …)) with the same constant, to a package-level flow, or to
// another accessor; an endpoint constructor that picks the type from the value
// (NewIPEndpoint: To4 first) re-types IPv4-mapped IPv6 addresses and makes the
// join fail when only one side is mapped.
func flowComposition(c *core.Ctx, r *core.Rule) {
	p := c.P
	nf, ffe, ne := p.Func("", "NewFlow"), p.Func("", "FlowFromEndpoints"), p.Func("", "NewEndpoint")
	n := 0
	for _, fn := range pkgFunctions(p, "layers") {
		if fn.Signature.Recv() == nil || fn.Signature.Results().Len() != 1 || !core.NamedIs(fn.Signature.Results().At(0).Type(), "Flow") || !strings.HasSuffix(fn.Name(), "Flow") {
			continue
		}
		n++
		key := core.FnKey(fn) + "/composition"
		bad, und := "", ""
		var check func(v ssa.Value, d int)
		endpointType := func(v ssa.Value) (string, string) {
			cl, ok := v.(*ssa.Call)
			if !ok || cl.Call.StaticCallee() == nil {
				return "", "an endpoint that is not built by a constructor call"
			}
			f := cl.Call.StaticCallee()
			if f != ne {
				return "", "an endpoint built by " + f.Name() + ", which chooses the endpoint type from the address value"
			}
			k, ok := layerTypeName(cl.Call.Args[0])
			if !ok {
				return "", "an endpoint whose type is not a constant or registered endpoint type of the package"
			}
			return k, ""
		}
		check = func(v ssa.Value, d int) {
			if d > 4 || bad != "" {
				return
			}
			switch x := v.(type) {
			case *ssa.Phi:
				for _, e := range x.Edges {
					check(e, d+1)
				}
			case *ssa.UnOp:
				if _, isG := x.X.(*ssa.Global); !isG {
					und = "value loaded from memory"
				}
			case *ssa.Extract:
				cl, ok := x.Tuple.(*ssa.Call)
				if !ok || cl.Call.StaticCallee() != ffe {
					und = "tuple result of an unrecognised call"
					return
				}
				t1, b1 := endpointType(cl.Call.Args[0])
				t2, b2 := endpointType(cl.Call.Args[1])
				switch {
				case b1 != "":
					bad = "FlowFromEndpoints over " + b1
				case b2 != "":
					bad = "FlowFromEndpoints over " + b2
				case t1 != t2:
					bad = "FlowFromEndpoints over endpoints of different types"
				}
			case *ssa.Call:
				f := x.Call.StaticCallee()
				switch {
				case f == nf:
					if _, ok := layerTypeName(x.Call.Args[0]); !ok {
						bad = "NewFlow with an endpoint type that is not a constant or registered endpoint type of the package"
					}
				case f != nil && f.Signature.Recv() != nil && strings.HasSuffix(f.Name(), "Flow"):
					// another accessor, checked on its own
				default:
					und = "flow produced by an unrecognised call"
				}
			default:
				und = "unrecognised flow value"
			}
		}
		for _, ret := range core.Returns(fn) {
			check(core.RetOperand(ret, 0), 0)
		}
		switch {
		case bad != "":
			r.Violate(key, p.Pos(fn.Pos()), "the accessor returns "+bad+": the reported flow no longer carries exactly this layer's source and destination addresses with the layer's endpoint type (an IPv4-mapped IPv6 address becomes a 4-byte IPv4 endpoint, and a join of differently typed endpoints fails, leaving the zero flow for both directions)", nil)
		case und != "":
			r.Undecided(key, p.Pos(fn.Pos()), und)
		default:
			r.OK(key, p.Pos(fn.Pos()), "flow type is a constant of the layer")
		}
	}
	if n < 8 {
		r.Missing("layers/flow accessors", fmt.Sprintf("only %d flow accessors found", n))
	}
}

// layerTypeName names an endpoint type that does not depend on packet bytes:
// a constant or a package-level variable (the registered Endpoint* types).
func layerTypeName(v ssa.Value) (string, bool) {
	switch x := v.(type) {
	case *ssa.Const:
		return x.Value.ExactString(), true
	case *ssa.UnOp:
		if g, ok := x.X.(*ssa.Global); ok && x.Op == token.MUL {
			return g.Name(), true
		}
	}
	return "", false
}

// noBufferViewInFlowFields (R17.10): the slice fields the per-layer flow
// accessors read (addresses, private port slices) must keep the bytes of the
// packet the layer describes.  Storing a window of a SerializeBuffer (the
// result of PrependBytes/AppendBytes/Bytes) into such a field makes the
// reported flow change when the buffer is cleared and reused.
func noBufferViewInFlowFields(c *core.Ctx, r *core.Rule) {
	p := c.P
	// fields read by flow accessors
	flowFields := map[*types.Var]bool{}
	for _, fn := range pkgFunctions(p, "layers") {
		if fn.Signature.Recv() == nil || fn.Signature.Results().Len() != 1 || !core.NamedIs(fn.Signature.Results().At(0).Type(), "Flow") || !strings.HasSuffix(fn.Name(), "Flow") {
			continue
		}
		core.Instrs(fn, func(ins ssa.Instruction) {
			if fa, ok := ins.(*ssa.FieldAddr); ok {
				if f := core.FieldOfAddr(fa); f != nil {
					if _, isSl := f.Type().Underlying().(*types.Slice); isSl {
						flowFields[f] = true
					}
				}
			}
		})
	}
	c.Counts["flow_slice_fields"] = len(flowFields)
	if len(flowFields) < 8 {
		r.Missing("layers/flow slice fields", fmt.Sprintf("only %d found", len(flowFields)))
		return
	}
	var fromView func(v ssa.Value, d int) bool
	fromView = func(v ssa.Value, d int) bool {
		if d > 8 {
			return false
		}
		switch x := v.(type) {
		case *ssa.Slice:
			return fromView(x.X, d+1)
		case *ssa.ChangeType:
			return fromView(x.X, d+1)
		case *ssa.Convert:
			return fromView(x.X, d+1)
		case *ssa.Phi:
			for _, e := range x.Edges {
				if fromView(e, d+1) {
					return true
				}
			}
		case *ssa.Extract:
			if cl, ok := x.Tuple.(*ssa.Call); ok && x.Index == 0 {
				return fromView(cl, d+1)
			}
		case *ssa.Call:
			if x.Call.IsInvoke() && core.NamedIs(x.Call.Value.Type(), "SerializeBuffer") {
				switch x.Call.Method.Name() {
				case "PrependBytes", "AppendBytes", "Bytes":
					return true
				}
			}
		}
		return false
	}
	nStores := 0
	for _, fn := range pkgFunctions(p, "layers") {
		k := 0
		core.Instrs(fn, func(ins ssa.Instruction) {
			st, ok := ins.(*ssa.Store)
			if !ok {
				return
			}
			fa, ok := st.Addr.(*ssa.FieldAddr)
			if !ok {
				return
			}
			f := core.FieldOfAddr(fa)
			if f == nil || !flowFields[f] {
				return
			}
			nStores++
			if fromView(st.Val, 0) {
				k++
				r.Violate(fmt.Sprintf("%s/buffer-view-stored:%s#%d", core.FnKey(fn), f.Name(), k), p.InstrPos(st), "field "+f.Name()+", from which the layer's flow is built, is set to a window of the SerializeBuffer: once the buffer is cleared and reused for another packet the layer reports that packet's bytes as its own source/destination", nil)
			}
		})
	}
	c.Counts["flow_field_stores"] = nStores
	if nStores < 15 {
		r.Missing("layers/flow field stores", fmt.Sprintf("only %d stores found", nStores))
	} else {
		r.OK("layers/flow-fields-not-buffer-views", "", fmt.Sprintf("%d stores into %d flow-source slice fields, none of a SerializeBuffer window", nStores, len(flowFields)))
	}
}

// flowFieldsReset (R17.12): the fields a layer's flow accessor reads are
// assigned by DecodeFromBytes on every successful path (must-reset, as R5.1,
// but for every layer type with a flow accessor, not only the common stack):
// a field assigned only under a condition keeps the previous packet's address
// on a reused layer object, and the flow then reports an address that is not
// in the packet.
func flowFieldsReset(c *core.Ctx, r *core.Rule) {
	p := c.P
	an := assign.New(provablyNonNilErr)
	n := 0
	for _, d := range p.Roots().Dec {
		if d.Kind != "DecodeFromBytes" || d.Fn.Signature.Recv() == nil {
			continue
		}
		rt := d.Fn.Signature.Recv().Type()
		// fields read by this type's flow accessors
		read := map[string]bool{}
		for _, nm := range []string{"LinkFlow", "NetworkFlow", "TransportFlow"} {
			acc := methodOf(p, rt, nm)
			if acc == nil || len(acc.Blocks) == 0 || acc.Synthetic != "" {
				continue
			}
			core.Instrs(acc, func(ins ssa.Instruction) {
				if ld, ok := ins.(*ssa.UnOp); ok && ld.Op == token.MUL {
					if pth, ok := core.RecvFieldAddrPath(acc, ld.X); ok {
						read[pth] = true
					}
				}
			})
		}
		if len(read) == 0 {
			continue
		}
		res := an.Analyze(d.Fn)
		bad := map[string]ssa.Instruction{}
		for _, f := range res.NotReset {
			if read[f.Field] {
				bad[f.Field] = f.Set
			}
		}
		for _, f := range res.Stale {
			if read[f.Field] {
				bad[f.Field] = f.At
			}
		}
		var fs []string
		for f := range read {
			fs = append(fs, f)
		}
		sort.Strings(fs)
		for _, f := range fs {
			if _, may := res.MaySet[f]; !may {
				continue
			}
			n++
			key := core.FnKey(d.Fn) + "/flow-field-reset:" + f
			if at, isBad := bad[f]; isBad {
				r.Violate(key, p.InstrPos(at), "field "+f+", from which this layer's flow is built, is assigned by DecodeFromBytes only on some successful paths: when a layer object is reused (DecodingLayerParser) and the next packet takes another path, the flow reports the previous packet's address, which is not in this packet", nil)
			} else {
				r.OK(key, p.Pos(d.Fn.Pos()), "assigned on every successful path")
			}
		}
	}
	c.Counts["flow_fields_checked"] = n
	if n < 10 {
		r.Missing("layers/flow fields", fmt.Sprintf("only %d found", n))
	}
}

// transportEndpointTypesDistinct (R17.11): two different layer types do not
// build their TransportFlow with the same endpoint type: flows are equal, and
// collide as map keys, exactly when type and bytes are equal, so a UDP-Lite
// flow typed as UDP is the same value as an unrelated UDP flow on those ports.
func transportEndpointTypesDistinct(c *core.Ctx, r *core.Rule) {
	p := c.P
	nf := p.Func("", "NewFlow")
	byType := map[string][]string{}
	n := 0
	for _, fn := range pkgFunctions(p, "layers") {
		if fn.Name() != "TransportFlow" || fn.Signature.Recv() == nil {
			continue
		}
		core.Instrs(fn, func(ins ssa.Instruction) {
			cc := core.CallCommonOf(ins)
			if cc == nil || cc.StaticCallee() == nil {
				return
			}
			var typ ssa.Value
			if cc.StaticCallee() == nf && len(cc.Args) == 3 {
				typ = cc.Args[0]
			} else if w := cc.StaticCallee(); len(w.Blocks) == 1 && w.Signature.Recv() == nil {
				// a plain forwarding wrapper: return NewFlow(param_i, …)
				core.Instrs(w, func(j ssa.Instruction) {
					c2 := core.CallCommonOf(j)
					if c2 == nil || c2.StaticCallee() != nf || len(c2.Args) != 3 {
						return
					}
					for i, pa := range w.Params {
						if c2.Args[0] == ssa.Value(pa) && i < len(cc.Args) {
							typ = cc.Args[i]
						}
					}
				})
			}
			if typ == nil {
				return
			}
			if k, ok := layerTypeName(typ); ok {
				n++
				byType[k] = append(byType[k], recvTypeName(fn))
			}
		})
	}
	var ks []string
	for k := range byType {
		ks = append(ks, k)
	}
	sort.Strings(ks)
	for _, k := range ks {
		sort.Strings(byType[k])
		key := "layers/TransportFlow/endpoint-type:" + k
		if len(byType[k]) == 1 {
			r.OK(key, "", "used by "+byType[k][0]+" only")
		} else {
			r.Violate(key, "", "endpoint type "+k+" is used for the transport flows of "+strings.Join(byType[k], " and ")+": flows of two different protocols on the same ports are equal values and collide as map keys, and the endpoints differ from the ones the protocol's own endpoint constructor builds", nil)
		}
	}
	if n < 4 {
		r.Missing("layers/TransportFlow constructors", fmt.Sprintf("only %d found", n))
	}
}
