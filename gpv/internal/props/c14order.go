package props

import (
	"fmt"
	"go/types"
	"os"
	"sort"
	"strings"

	"golang.org/x/tools/go/ssa"

	"gpv/internal/core"
)

// segmentOrder (R14.6): the pcapng packet-block writer emits, and the reader
// consumes, the segments of a block in one order: fixed header, packet data,
// alignment padding, options, trailing length.  Each function's stream
// operations are classified into these segments and the precedence relation
// (A reaches B and B does not reach A) must be the same on both sides.
func segmentOrder(c *core.Ctx, r *core.Rule) {
	p := c.P
	wfn := p.Func("pcapgo", "NgWriter.WritePacketWithOptions")
	rfn := p.Func("pcapgo", "NgReader.ZeroCopyReadPacketDataWithOptions")
	if wfn == nil || rfn == nil {
		r.Missing("pcapgo/ng packet functions", "writer or reader function not found")
		return
	}
	mentionsField := func(v ssa.Value, name string) bool {
		found := false
		var walk func(v ssa.Value, d int)
		walk = func(v ssa.Value, d int) {
			if d > 8 || found {
				return
			}
			if _, ok := core.LoadsField(v, name); ok {
				found = true
				return
			}
			switch x := v.(type) {
			case *ssa.BinOp:
				walk(x.X, d+1)
				walk(x.Y, d+1)
			case *ssa.Convert:
				walk(x.X, d+1)
			case *ssa.Phi:
				for _, e := range x.Edges {
					walk(e, d+1)
				}
			}
		}
		walk(v, 0)
		return found
	}
	var classify func(fn *ssa.Function, writer bool, depth int) map[string][]ssa.Instruction
	classify = func(fn *ssa.Function, writer bool, depth int) map[string][]ssa.Instruction {
		out := map[string][]ssa.Instruction{}
		var dataParam ssa.Value
		for _, pa := range fn.Params {
			if core.IsByteSlice(pa.Type()) {
				dataParam = pa
			}
		}
		core.Instrs(fn, func(ins ssa.Instruction) {
			cc := core.CallCommonOf(ins)
			if cc == nil {
				return
			}
			if _, isDefer := ins.(*ssa.Defer); isDefer {
				return
			}
			name := ""
			if cc.IsInvoke() {
				name = cc.Method.Name()
			} else if f := cc.StaticCallee(); f != nil {
				name = f.Name()
			}
			args := cc.Args
			if !cc.IsInvoke() && cc.StaticCallee() != nil && cc.StaticCallee().Signature.Recv() != nil && len(args) > 0 {
				args = args[1:]
			}
			switch {
			case writer && name == "Write" && len(args) == 1:
				a := args[0]
				if a == dataParam {
					out["DATA"] = append(out["DATA"], ins)
					return
				}
				if sl, ok := a.(*ssa.Slice); ok && sl.High != nil {
					if k, ok := core.ConstFold(sl.High); ok {
						lo := int64(0)
						if sl.Low != nil {
							lo, _ = core.ConstFold(sl.Low)
						}
						if k-lo == 4 {
							out["TRAILER"] = append(out["TRAILER"], ins)
						} else {
							out["HEADER"] = append(out["HEADER"], ins)
						}
					} else {
						out["PAD"] = append(out["PAD"], ins)
					}
				}
			case writer && name == "writeOptions":
				out["OPTS"] = append(out["OPTS"], ins)
			case !writer && name == "readPacketHeader":
				out["HEADER"] = append(out["HEADER"], ins)
			case !writer && name == "readBytes":
				out["DATA"] = append(out["DATA"], ins)
			case !writer && name == "readPacketOptions":
				out["OPTS"] = append(out["OPTS"], ins)
			case !writer && name == "discard" && len(args) == 1:
				if mentionsField(args[0], "length") {
					out["TRAILER"] = append(out["TRAILER"], ins)
				} else {
					out["PAD"] = append(out["PAD"], ins)
				}
			default:
				// a helper of the same type that performs stream operations of exactly one segment kind
				if f := cc.StaticCallee(); f != nil && depth < 2 && f.Signature.Recv() != nil && fn.Signature.Recv() != nil && len(f.Blocks) > 0 && types.Identical(f.Signature.Recv().Type(), fn.Signature.Recv().Type()) {
					sub := classify(f, writer, depth+1)
					if len(sub) == 1 {
						for k := range sub {
							out[k] = append(out[k], ins)
						}
					}
				}
			}
		})
		return out
	}
	wt, rt := classify(wfn, true, 0), classify(rfn, false, 0)
	segs := []string{"HEADER", "DATA", "PAD", "OPTS", "TRAILER"}
	if len(rt["TRAILER"]) == 0 && len(rt["DATA"]) > 0 {
		r.Violate("pcapng/packet-block/trailer-consumed", p.Pos(rfn.Pos()), "the reader hands the packet out without consuming the rest of the block (padding, options, trailing block length) in the same call: from a file cut inside those bytes a packet is returned as if it were complete, and the error surfaces only on the next call", nil)
		return
	}
	for _, s := range segs {
		if len(wt[s]) == 0 || len(rt[s]) == 0 {
			r.Missing("pcapng/segment:"+s, fmt.Sprintf("writer has %d, reader has %d operations classified as %s", len(wt[s]), len(rt[s]), s))
			return
		}
	}
	before := func(fn *ssa.Function, as, bs []ssa.Instruction) string {
		ab, ba := false, false
		for _, a := range as {
			for _, b := range bs {
				if core.ForwardSearch(fn, a, func(i ssa.Instruction) bool { return i == b }, nil) != nil {
					ab = true
				}
				if core.ForwardSearch(fn, b, func(i ssa.Instruction) bool { return i == a }, nil) != nil {
					ba = true
				}
			}
		}
		switch {
		case ab && !ba:
			return "<"
		case ba && !ab:
			return ">"
		case ab && ba:
			return "<>"
		}
		return "||"
	}
	// the reader hands a packet out only after the whole block was consumed: every return that
	// can be reached without passing the trailer discard is entered on some `err != nil` edge
	{
		isTrailer := func(i ssa.Instruction) bool {
			for _, t := range rt["TRAILER"] {
				if t == i {
					return true
				}
			}
			return false
		}
		n := 0
		for _, ret := range core.Returns(rfn) {
			if core.ForwardSearch(rfn, nil, func(i ssa.Instruction) bool { return i == ssa.Instruction(ret) }, isTrailer) == nil {
				continue // only reachable through the trailer discard
			}
			n++
			onErr := false
			for _, dc := range core.DomConds(ret.Block()) {
				if bo, ok := dc.V.(*ssa.BinOp); ok && (core.IsNilConst(bo.X) || core.IsNilConst(bo.Y)) {
					other := bo.X
					if core.IsNilConst(other) {
						other = bo.Y
					}
					if _, isErr := other.Type().Underlying().(interface{ NumMethods() int }); isErr && strings.HasSuffix(other.Type().String(), "error") {
						if (bo.Op.String() == "!=" && dc.Truth) || (bo.Op.String() == "==" && !dc.Truth) {
							onErr = true
						}
					}
				}
			}
			r.Check(onErr, fmt.Sprintf("pcapng/packet-block/early-return#%d", n), p.InstrPos(ret), "returns before the end of the block only with an error", "a return is reachable without the rest of the block (padding, options, trailing length) having been consumed and checked: from a file cut inside those bytes a packet is handed out as if it were complete")
		}
	}

	// scratch freshness: what the writer sends from its scratch buffer was encoded into those bytes after
	// the last call that may have reused the buffer
	for wi, w := range append(append([]ssa.Instruction{}, wt["HEADER"]...), wt["TRAILER"]...) {
		cc := core.CallCommonOf(w)
		if cc == nil || w.Parent() != wfn {
			continue
		}
		args := cc.Args
		sl, ok := args[len(args)-1].(*ssa.Slice)
		if !ok {
			continue
		}
		lo, hi := int64(0), int64(0)
		if sl.Low != nil {
			lo, _ = core.ConstFold(sl.Low)
		}
		hi, _ = core.ConstFold(sl.High)
		// every byte [lo,hi) is put after the last receiver-method call before the write
		covered := map[int64]bool{}
		for _, b := range wfn.Blocks {
			for _, ins := range b.Instrs {
				call, ok := ins.(*ssa.Call)
				if !ok {
					continue
				}
				_, width, put, okB := binaryOrder(call)
				if !okB || !put || len(call.Call.Args) != 3 {
					continue
				}
				// destination: w.buf[a:...] with the same scratch array
				dsl, okD := call.Call.Args[1].(*ssa.Slice)
				if !okD || !addrEq(dsl.X, sl.X, 0) || !core.Dominates(ins, w) {
					continue
				}
				off := int64(0)
				if dsl.Low != nil {
					var okL bool
					off, okL = core.ConstFold(dsl.Low)
					if !okL {
						continue
					}
				}
				// no call of a method of the writer between the put and the write
				clobber := core.ForwardSearch(wfn, ins, func(i ssa.Instruction) bool {
					if i == w {
						return false
					}
					c2 := core.CallCommonOf(i)
					if c2 == nil || c2.StaticCallee() == nil || c2.StaticCallee().Signature.Recv() == nil || len(c2.Args) == 0 {
						return false
					}
					return c2.Args[0] == ssa.Value(wfn.Params[0])
				}, func(i ssa.Instruction) bool { return i == w })
				if clobber != nil {
					if os.Getenv("GPV_DEBUG") != "" {
						fmt.Println("DEBUG clobber", p.InstrPos(ins), "->", p.InstrPos(clobber), clobber)
					}
					continue
				}
				for k := int64(0); k < width; k++ {
					covered[off+k] = true
				}
			}
		}
		fresh := true
		for k := lo; k < hi; k++ {
			if !covered[k] {
				fresh = false
			}
		}
		r.Check(fresh, fmt.Sprintf("pcapng/packet-block/scratch-fresh#%d", wi+1), p.InstrPos(w), "the scratch bytes written were encoded after the last call that may reuse the scratch buffer", "bytes of the writer's scratch buffer are sent that were encoded before a later method call of the writer (which encodes option values into the same scratch bytes): with such options the block's trailing length (or header) carries option bytes, and readers that check it stop there")
	}

	var pairs []string
	for i := 0; i < len(segs); i++ {
		for j := i + 1; j < len(segs); j++ {
			pairs = append(pairs, segs[i]+"/"+segs[j])
		}
	}
	sort.Strings(pairs)
	for _, pr := range pairs {
		ab := strings.Split(pr, "/")
		wo := before(wfn, wt[ab[0]], wt[ab[1]])
		ro := before(rfn, rt[ab[0]], rt[ab[1]])
		key := "pcapng/packet-block/order:" + pr
		r.Check(wo == ro, key, p.InstrPos(wt[ab[1]][0]), "writer and reader agree: "+ab[0]+" "+wo+" "+ab[1], fmt.Sprintf("the writer emits %s %s %s but the reader consumes %s %s %s: whenever both segments are present (options with data whose length is not a multiple of 4) the reader takes the one for the other and the following packets are lost", ab[0], wo, ab[1], ab[0], ro, ab[1]))
	}
}

// readerValueRules: (R14.8) unsigned file fields are not sign-extended; (R14.9) the copying read
// calls hand out no memory owned by the reader.
func readerValueRules(c *core.Ctx, r8, r9 *core.Rule) {
	p := c.P
	n8, n9 := 0, 0
	for _, fn := range pkgFunctions(p, "pcapgo") {
		pos := p.Pos(fn.Pos())
		if strings.HasSuffix(pos, "_test.go") || !(strings.Contains(pos, "read") || strings.Contains(pos, "snoop")) {
			continue
		}
		// ---- R14.8
		core.Instrs(fn, func(ins ssa.Instruction) {
			cv, ok := ins.(*ssa.Convert)
			if !ok {
				return
			}
			from, ok1 := cv.X.Type().Underlying().(*types.Basic)
			to, ok2 := cv.Type().Underlying().(*types.Basic)
			if !ok1 || !ok2 {
				return
			}
			signedSame := (from.Kind() == types.Uint32 && to.Kind() == types.Int32) || (from.Kind() == types.Uint16 && to.Kind() == types.Int16) || (from.Kind() == types.Uint64 && to.Kind() == types.Int64 && false)
			if !signedSame {
				return
			}
			// operand read from the file
			call, isCall := core.StripConv(cv.X).(*ssa.Call)
			if !isCall || !isReaderUint(call) {
				return
			}
			widened := false
			for _, ref := range *cv.Referrers() {
				if c2, ok := ref.(*ssa.Convert); ok {
					if t2, ok := c2.Type().Underlying().(*types.Basic); ok && (t2.Kind() == types.Int64 || t2.Kind() == types.Int) {
						widened = true
					}
				}
			}
			n8++
			r8.Check(!widened, fmt.Sprintf("%s/sign-extension#%d", core.FnKey(fn), n8), p.InstrPos(ins), "not widened", "an unsigned field read from the file is converted to the signed type of the same width and then widened: values with the top bit set come back negative although the writer stores them unsigned (timestamps from 2038 on read back as 1901-1969)")
		})
		// ---- R14.9
		if !strings.HasPrefix(fn.Name(), "ReadPacketData") || fn.Signature.Recv() == nil {
			continue
		}
		recv := fn.Params[0]
		ownedBy := func(v ssa.Value) bool {
			for i := 0; i < 8; i++ {
				switch x := v.(type) {
				case *ssa.Slice:
					v = x.X
					continue
				case *ssa.UnOp:
					v = x.X
					continue
				case *ssa.FieldAddr:
					if x.X == ssa.Value(recv) {
						return true
					}
					v = x.X
					continue
				case *ssa.IndexAddr:
					v = x.X
					continue
				}
				break
			}
			return false
		}
		core.Instrs(fn, func(ins ssa.Instruction) {
			sl, ok := ins.(*ssa.Slice)
			if !ok || !ownedBy(sl.X) {
				return
			}
			// does the slice escape into the results: returned, or stored into a local struct / named result
			esc := false
			for _, ref := range *sl.Referrers() {
				switch x := ref.(type) {
				case *ssa.Return:
					esc = true
				case *ssa.Store:
					if x.Val == ssa.Value(sl) {
						if pth, base := core.FieldPath(x.Addr); pth != "" {
							if _, isAlloc := base.(*ssa.Alloc); isAlloc {
								esc = true
							}
						}
						if _, isAlloc := x.Addr.(*ssa.Alloc); isAlloc {
							esc = true
						}
					}
				}
			}
			if !esc {
				return
			}
			n9++
			r9.Violate(fmt.Sprintf("%s/returns-reader-memory#%d", core.FnKey(fn), n9), p.InstrPos(ins), "the copying read call hands out a slice of memory the reader keeps and overwrites on the next read: packets (capture info) kept by the caller change when later packets are read", nil)
		})
	}
	if n8 == 0 {
		r8.OK("pcapgo/no-sign-extension", "", "no unsigned file field is converted to the same-width signed type")
	}
	if n9 == 0 {
		r9.OK("pcapgo/copying-reads", "", "the copying read calls return no slice of reader-owned memory")
	}
}
