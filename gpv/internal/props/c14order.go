package props

import (
	"go/types"
	"fmt"
	"sort"
	"strings"

	"golang.org/x/tools/go/ssa"

	"gpv/internal/core"
)

// segmentOrder (R14.6): the pcapng packet-block writer emits, and the reader
// consumes, the segments of a block in one order: fixed header, packet data,
// alignment padding, options, trailing length.  Each function's stream
// operations are classified into these segments and the precedence relation
// (A reaches B and B does not reach A) must be the same on both sides.
func segmentOrder(c *core.Ctx, r *core.Rule) {
	p := c.P
	wfn := p.Func("pcapgo", "NgWriter.WritePacketWithOptions")
	rfn := p.Func("pcapgo", "NgReader.ZeroCopyReadPacketDataWithOptions")
	if wfn == nil || rfn == nil {
		r.Missing("pcapgo/ng packet functions", "writer or reader function not found")
		return
	}
	mentionsField := func(v ssa.Value, name string) bool {
		found := false
		var walk func(v ssa.Value, d int)
		walk = func(v ssa.Value, d int) {
			if d > 8 || found {
				return
			}
			if _, ok := core.LoadsField(v, name); ok {
				found = true
				return
			}
			switch x := v.(type) {
			case *ssa.BinOp:
				walk(x.X, d+1)
				walk(x.Y, d+1)
			case *ssa.Convert:
				walk(x.X, d+1)
			case *ssa.Phi:
				for _, e := range x.Edges {
					walk(e, d+1)
				}
			}
		}
		walk(v, 0)
		return found
	}
	var classify func(fn *ssa.Function, writer bool, depth int) map[string][]ssa.Instruction
	classify = func(fn *ssa.Function, writer bool, depth int) map[string][]ssa.Instruction {
		out := map[string][]ssa.Instruction{}
		var dataParam ssa.Value
		for _, pa := range fn.Params {
			if core.IsByteSlice(pa.Type()) {
				dataParam = pa
			}
		}
		core.Instrs(fn, func(ins ssa.Instruction) {
			cc := core.CallCommonOf(ins)
			if cc == nil {
				return
			}
			if _, isDefer := ins.(*ssa.Defer); isDefer {
				return
			}
			name := ""
			if cc.IsInvoke() {
				name = cc.Method.Name()
			} else if f := cc.StaticCallee(); f != nil {
				name = f.Name()
			}
			args := cc.Args
			if !cc.IsInvoke() && cc.StaticCallee() != nil && cc.StaticCallee().Signature.Recv() != nil && len(args) > 0 {
				args = args[1:]
			}
			switch {
			case writer && name == "Write" && len(args) == 1:
				a := args[0]
				if a == dataParam {
					out["DATA"] = append(out["DATA"], ins)
					return
				}
				if sl, ok := a.(*ssa.Slice); ok && sl.High != nil {
					if k, ok := core.ConstFold(sl.High); ok {
						if k == 4 {
							out["TRAILER"] = append(out["TRAILER"], ins)
						} else {
							out["HEADER"] = append(out["HEADER"], ins)
						}
					} else {
						out["PAD"] = append(out["PAD"], ins)
					}
				}
			case writer && name == "writeOptions":
				out["OPTS"] = append(out["OPTS"], ins)
			case !writer && name == "readPacketHeader":
				out["HEADER"] = append(out["HEADER"], ins)
			case !writer && name == "readBytes":
				out["DATA"] = append(out["DATA"], ins)
			case !writer && name == "readPacketOptions":
				out["OPTS"] = append(out["OPTS"], ins)
			case !writer && name == "discard" && len(args) == 1:
				if mentionsField(args[0], "length") {
					out["TRAILER"] = append(out["TRAILER"], ins)
				} else {
					out["PAD"] = append(out["PAD"], ins)
				}
			default:
				// a helper of the same type that performs stream operations of exactly one segment kind
				if f := cc.StaticCallee(); f != nil && depth < 2 && f.Signature.Recv() != nil && fn.Signature.Recv() != nil && len(f.Blocks) > 0 && types.Identical(f.Signature.Recv().Type(), fn.Signature.Recv().Type()) {
					sub := classify(f, writer, depth+1)
					if len(sub) == 1 {
						for k := range sub {
							out[k] = append(out[k], ins)
						}
					}
				}
			}
		})
		return out
	}
	wt, rt := classify(wfn, true, 0), classify(rfn, false, 0)
	segs := []string{"HEADER", "DATA", "PAD", "OPTS", "TRAILER"}
	if len(rt["TRAILER"]) == 0 && len(rt["DATA"]) > 0 {
		r.Violate("pcapng/packet-block/trailer-consumed", p.Pos(rfn.Pos()), "the reader hands the packet out without consuming the rest of the block (padding, options, trailing block length) in the same call: from a file cut inside those bytes a packet is returned as if it were complete, and the error surfaces only on the next call", nil)
		return
	}
	for _, s := range segs {
		if len(wt[s]) == 0 || len(rt[s]) == 0 {
			r.Missing("pcapng/segment:"+s, fmt.Sprintf("writer has %d, reader has %d operations classified as %s", len(wt[s]), len(rt[s]), s))
			return
		}
	}
	before := func(fn *ssa.Function, as, bs []ssa.Instruction) string {
		ab, ba := false, false
		for _, a := range as {
			for _, b := range bs {
				if core.ForwardSearch(fn, a, func(i ssa.Instruction) bool { return i == b }, nil) != nil {
					ab = true
				}
				if core.ForwardSearch(fn, b, func(i ssa.Instruction) bool { return i == a }, nil) != nil {
					ba = true
				}
			}
		}
		switch {
		case ab && !ba:
			return "<"
		case ba && !ab:
			return ">"
		case ab && ba:
			return "<>"
		}
		return "||"
	}
	// the reader hands a packet out only after the whole block was consumed: every return that
	// can be reached without passing the trailer discard is entered on some `err != nil` edge
	{
		isTrailer := func(i ssa.Instruction) bool {
			for _, t := range rt["TRAILER"] {
				if t == i {
					return true
				}
			}
			return false
		}
		n := 0
		for _, ret := range core.Returns(rfn) {
			if core.ForwardSearch(rfn, nil, func(i ssa.Instruction) bool { return i == ssa.Instruction(ret) }, isTrailer) == nil {
				continue // only reachable through the trailer discard
			}
			n++
			onErr := false
			for _, dc := range core.DomConds(ret.Block()) {
				if bo, ok := dc.V.(*ssa.BinOp); ok && (core.IsNilConst(bo.X) || core.IsNilConst(bo.Y)) {
					other := bo.X
					if core.IsNilConst(other) {
						other = bo.Y
					}
					if _, isErr := other.Type().Underlying().(interface{ NumMethods() int }); isErr && strings.HasSuffix(other.Type().String(), "error") {
						if (bo.Op.String() == "!=" && dc.Truth) || (bo.Op.String() == "==" && !dc.Truth) {
							onErr = true
						}
					}
				}
			}
			r.Check(onErr, fmt.Sprintf("pcapng/packet-block/early-return#%d", n), p.InstrPos(ret), "returns before the end of the block only with an error", "a return is reachable without the rest of the block (padding, options, trailing length) having been consumed and checked: from a file cut inside those bytes a packet is handed out as if it were complete")
		}
	}

	var pairs []string
	for i := 0; i < len(segs); i++ {
		for j := i + 1; j < len(segs); j++ {
			pairs = append(pairs, segs[i]+"/"+segs[j])
		}
	}
	sort.Strings(pairs)
	for _, pr := range pairs {
		ab := strings.Split(pr, "/")
		wo := before(wfn, wt[ab[0]], wt[ab[1]])
		ro := before(rfn, rt[ab[0]], rt[ab[1]])
		key := "pcapng/packet-block/order:" + pr
		r.Check(wo == ro, key, p.InstrPos(wt[ab[1]][0]), "writer and reader agree: "+ab[0]+" "+wo+" "+ab[1], fmt.Sprintf("the writer emits %s %s %s but the reader consumes %s %s %s: whenever both segments are present (options with data whose length is not a multiple of 4) the reader takes the one for the other and the following packets are lost", ab[0], wo, ab[1], ab[0], ro, ab[1]))
	}
}
