package props

import (
	"fmt"
	"go/token"
	"go/types"
	"os"
	"strings"

	"golang.org/x/tools/go/ssa"

	"gpv/internal/core"
)

func init() { register("C08", checkC08) }

// sumCall: ins is a call of gopacket.ComputeChecksum or (*tcpipchecksum).computeChecksum.
func isSumCall(ins ssa.Instruction) (*ssa.Call, bool, bool) {
	call, ok := ins.(*ssa.Call)
	if !ok {
		return nil, false, false
	}
	f := call.Call.StaticCallee()
	if f == nil {
		return nil, false, false
	}
	switch f.Name() {
	case "ComputeChecksum":
		if f.Signature.Recv() == nil && core.FnPkg(f) != nil && core.FnPkg(f).Path() == core.Mod {
			return call, false, true
		}
	case "computeChecksum":
		return call, true, true
	}
	return nil, false, false
}

// headerOnly: layer types whose checksum covers the header only.
var headerOnly = map[string]bool{"IPv4": true}

func checkC08(c *core.Ctx) {
	p := c.P
	c.Explain = "Structural clauses of 'written checksums are correct; verification accepts exactly the correct ones', decided on the six emitters/verifiers (IPv4, TCP, UDP, ICMPv4, ICMPv6, GRE), on the shared pseudo-header helper and on checksum.go: (R8.1) on the ComputeChecksums path both checksum bytes (position taken from the final PutUint16 of x.Checksum) are stored as 0 before the summing call, the sum covers the header only for IPv4 and header+payload otherwise, the folded sum is what is stored into x.Checksum and then written; (R8.2) the protocol number passed to the pseudo-header sum is the same constant in SerializeTo, VerifyChecksum (and ComputeChecksum) of a type and is the IPProtocol whose metadata row decodes to that layer; (R8.3) each verifier returns Valid = (Fold(sum - stored) == stored) up to a protocol-specific disjunct, Correct = that folded value, Actual = stored, over contents+payload (contents only for IPv4); (R8.4) a post-fold map in the emitter (UDP 0 -> 0xffff) is applied by the verifier too; (R8.5) pseudo-header sums are consumed only by the shared helper, which adds protocol and both halves of the length; (R8.6) recognised-shape check of FoldChecksum (fold repeated until no carry) and ComputeChecksum (even byte <<8, odd byte unshifted, odd tail <<8, stride 2) — a shape that is recognised and wrong is a violation, an unrecognised one is undecided. Not decided: RFC 1071 arithmetic for all inputs, single-bit-flip detection."
	verifyVisitsEveryLayer(c, c.Rule("R8.8", "T", "Packet.VerifyChecksums visits every layer: its loop ends only when the list is exhausted or with an error"))
	narrowAddsIn(c, c.Rule("R8.10", "T", "the checksum helpers add nothing in uint8/uint16"))
	pseudoHeaderHeadroom(c, c.Rule("R8.9", "D", "the partial sum a pseudo-header helper returns leaves headroom for the 32-bit accumulation that follows"))
	r7 := c.Rule("R8.7", "T", "after the checksum has been computed over the buffer only the checksum field is written")
	r1 := c.Rule("R8.1", "T", "emit: zero both checksum bytes -> sum the right span -> store the folded value -> write it")
	r2 := c.Rule("R8.2", "T", "pseudo-header protocol constant agrees between emit, verify and the IPProtocol table")
	r3 := c.Rule("R8.3", "T", "verify: Valid = Fold(sum - stored) == stored (plus protocol disjunct), Correct/Actual as defined, right span")
	r4 := c.Rule("R8.4", "T", "post-fold transform of the emitter is applied by the verifier")
	r5 := c.Rule("R8.5", "T", "pseudo-header sums go through the one shared helper, which adds protocol and length words")
	r6 := c.Rule("R8.6", "D", "recognised shapes of FoldChecksum / ComputeChecksum")

	types6 := []string{"IPv4", "TCP", "UDP", "ICMPv4", "ICMPv6", "GRE"}
	protoOf := map[string]map[string]string{} // type -> role -> constant term
	emitMap := map[string]bool{}
	for _, tn := range types6 {
		ser := p.Func("layers", tn+".SerializeTo")
		ver := p.Func("layers", tn+".VerifyChecksum")
		if ser == nil || ver == nil {
			r1.Missing(tn, "SerializeTo / VerifyChecksum not found")
			continue
		}
		protoOf[tn] = map[string]string{}
		// ---------- emitter
		key := "layers.(*" + tn + ").SerializeTo/"
		var sum *ssa.Call
		pseudo := false
		core.Instrs(ser, func(ins ssa.Instruction) {
			if cl, ps, ok := isSumCall(ins); ok {
				// must be on the ComputeChecksums path
				for _, dc := range core.DomConds(ins.Block()) {
					if _, ok := core.LoadsField(dc.V, "ComputeChecksums"); ok && dc.Truth {
						sum, pseudo = cl, ps
					}
				}
			}
		})
		if sum == nil {
			if tn == "GRE" {
				checkGREEmit(c, r1, ser)
			} else {
				r1.Violate(key+"sum", p.Pos(ser.Pos()), "no checksum is computed under opts.ComputeChecksums", nil)
			}
		} else {
			if pseudo && len(sum.Call.Args) >= 3 {
				protoOf[tn]["SerializeTo"] = termOf(ser, sum.Call.Args[2], 0)
			}
			// final write of x.Checksum
			var put *ssa.Call
			var off int64 = -1
			var buf ssa.Value
			core.Instrs(ser, func(ins ssa.Instruction) {
				call, ok := ins.(*ssa.Call)
				if !ok || !strings.HasSuffix(core.StaticName(&call.Call), "PutUint16") || len(call.Call.Args) < 3 {
					return
				}
				if pth, ok := core.RecvFieldLoad(ser, call.Call.Args[2]); ok && pth == "Checksum" {
					put = call
					dst := call.Call.Args[1]
					if sl, ok := dst.(*ssa.Slice); ok {
						buf = sl.X
						off = 0
						if sl.Low != nil {
							off, _ = core.ConstInt(sl.Low)
						}
					} else {
						buf, off = dst, 0
					}
				}
			})
			if put == nil || off < 0 {
				r1.Violate(key+"write", p.InstrPos(sum), "the checksum field is not written with PutUint16(bytes[k:], x.Checksum)", nil)
			} else {
				// zero stores dominate the sum
				z := [2]bool{}
				core.Instrs(ser, func(ins ssa.Instruction) {
					st, ok := ins.(*ssa.Store)
					if !ok {
						return
					}
					ia, ok := st.Addr.(*ssa.IndexAddr)
					if !ok || ia.X != buf {
						return
					}
					k, okK := core.ConstFold(ia.Index)
					v, okV := core.ConstInt(st.Val)
					if okK && okV && v == 0 && (k == off || k == off+1) && precedesAssuming(ser, st, sum) {
						z[k-off] = true
					}
				})
				// nothing but the checksum field itself is written into the buffer after the sum was taken
				late := core.ForwardSearch(ser, sum, func(i ssa.Instruction) bool {
					if i == ssa.Instruction(put) {
						return false
					}
					if !writesThrough(i, buf, 0) {
						return false
					}
					// a store of the checksum bytes themselves is fine
					if st, ok := i.(*ssa.Store); ok {
						if ia, ok := st.Addr.(*ssa.IndexAddr); ok {
							if k, ok := core.ConstFold(ia.Index); ok && (k == off || k == off+1) {
								return false
							}
						}
					}
					return true
				}, nil)
				lateAt := ""
				if late != nil {
					lateAt = p.InstrPos(late)
				}
				r7.Check(late == nil, key+"writes-after-sum", p.InstrPos(sum), "only the checksum field is written after the sum is taken", "the buffer is still written at "+lateAt+" after the checksum was computed over it: the checksum covers whatever those bytes held before (stale buffer contents), so the emitted checksum is wrong for the bytes finally sent")
				r1.Check(z[0] && z[1], key+"zero-before-sum", p.InstrPos(sum), fmt.Sprintf("bytes[%d], bytes[%d] = 0 before summing", off, off+1), fmt.Sprintf("the checksum bytes [%d],[%d] are not both cleared before the sum is taken: the emitted checksum depends on stale buffer contents / the previous checksum", off, off+1))
				// span
				arg := sum.Call.Args[0]
				if pseudo {
					arg = sum.Call.Args[1]
				}
				whole := false
				if call, ok := arg.(*ssa.Call); ok && call.Call.IsInvoke() && call.Call.Method.Name() == "Bytes" {
					whole = true
				}
				hdr := arg == buf
				if headerOnly[tn] {
					r1.Check(hdr, key+"span", p.InstrPos(sum), "sum over the header bytes only", "the IPv4 header checksum must cover exactly the header bytes")
				} else {
					r1.Check(whole, key+"span", p.InstrPos(sum), "sum over b.Bytes() (header and payload)", "the checksum must cover header and payload (b.Bytes())")
				}
				if !pseudo {
					init, okI := core.ConstInt(sum.Call.Args[1])
					r1.Check(okI && init == 0, key+"initial", p.InstrPos(sum), "initial accumulator 0", "non-zero initial accumulator")
				}
				// folded value stored into x.Checksum, after the sum, before the write
				var sumVal ssa.Value = sum
				if pseudo {
					for _, ref := range *sum.Referrers() {
						if e, ok := ref.(*ssa.Extract); ok && e.Index == 0 {
							sumVal = e
						}
					}
				}
				stored := false
				mapped := false
				for _, st := range storesToField(ser, tn, "Checksum") {
					t := termOf(ser, st.Val, 0)
					if !core.Dominates(sum, st) {
						continue
					}
					fold := "call:FoldChecksum(" + termOf(ser, sumVal, 0) + ")"
					if t == fold {
						stored = true
					} else if strings.HasPrefix(t, "phi(") && strings.Contains(t, fold) && strings.Contains(t, "const:65535") {
						stored, mapped = true, true
					}
				}
				emitMap[tn] = mapped
				r1.Check(stored, key+"fold-stored", p.InstrPos(sum), "x.Checksum = FoldChecksum(sum)", "the value stored into x.Checksum is not FoldChecksum of the computed sum")
				// the write follows on every path from the sum
				esc := core.ForwardSearch(ser, sum, func(i ssa.Instruction) bool {
					ret, ok := i.(*ssa.Return)
					return ok && len(ret.Results) == 1 && core.IsNilConst(ret.Results[0])
				}, func(i ssa.Instruction) bool { return i == ssa.Instruction(put) })
				r1.Check(esc == nil, key+"written", p.InstrPos(put), "the stored checksum is written to the buffer on every success path", "a success path returns without writing the computed checksum")
			}
		}
		// ---------- verifier
		vkey := "layers.(*" + tn + ").VerifyChecksum/"
		m, ret, ok := structResult(ver, 1)
		if !ok {
			r3.Violate(vkey+"result", p.Pos(ver.Pos()), "verification result is not built field by field", nil)
			continue
		}
		_ = ret
		recv := ver.Params[0].Name()
		stored := "*" + recv + ".Checksum"
		var vsum *ssa.Call
		vpseudo := false
		core.Instrs(ver, func(ins ssa.Instruction) {
			if cl, ps, ok := isSumCall(ins); ok {
				vsum, vpseudo = cl, ps
			}
		})
		if vsum == nil {
			r3.Violate(vkey+"sum", p.Pos(ver.Pos()), "verifier does not recompute the checksum", nil)
			continue
		}
		if vpseudo && len(vsum.Call.Args) >= 3 {
			protoOf[tn]["VerifyChecksum"] = termOf(ver, vsum.Call.Args[2], 0)
		}
		correct := m["Correct"]
		actual := m["Actual"]
		valid := m["Valid"]
		r3.Check(actual == stored, vkey+"actual", p.Pos(ver.Pos()), "Actual = stored checksum", "Actual is not the stored checksum: "+actual)
		sumT := termOf(ver, vsum, 0)
		if vpseudo {
			sumT += "#0"
		}
		wantCorrect := "call:FoldChecksum(-(" + sumT + "," + stored + "))"
		vmapped := false
		if correct != wantCorrect && strings.HasPrefix(correct, "phi(") && strings.Contains(correct, wantCorrect) && strings.Contains(correct, "const:65535") {
			vmapped = true
		}
		r3.Check(correct == wantCorrect || vmapped, vkey+"correct", p.Pos(ver.Pos()), "Correct = Fold(sum - stored)", "Correct is not FoldChecksum(sum - stored): "+correct)
		// Valid: contains ==(correct, stored)
		eq := "==(" + correct + "," + stored + ")"
		eq2 := "==(" + stored + "," + correct + ")"
		hasEq := strings.Contains(valid, eq) || strings.Contains(valid, eq2)
		extra := valid != eq && valid != eq2
		r3.Check(hasEq, vkey+"valid", p.Pos(ver.Pos()), "Valid compares the folded value with the stored one", "Valid is not the comparison of Fold(sum - stored) with the stored checksum: "+valid)
		if hasEq && extra {
			// protocol-specific disjunct: allowed only for UDP (stored == 0) and GRE (!ChecksumPresent)
			okDisj := false
			switch tn {
			case "UDP":
				okDisj = strings.Contains(valid, "const:true") && validDisjunctUDP(ver, stored)
			case "GRE":
				okDisj = true
			}
			r3.Check(okDisj, vkey+"valid-disjunct", p.Pos(ver.Pos()), "protocol-defined 'no checksum' disjunct", "Valid accepts packets through an extra condition this protocol does not define: "+valid)
		}
		// span: the bytes summed mention Contents and (Payload unless header-only)
		argT := termOf(ver, vsum.Call.Args[0], 0)
		if vpseudo {
			argT = termOf(ver, vsum.Call.Args[1], 0)
		}
		hasC := strings.Contains(argT, recv+".Contents") || strings.Contains(argT, "BaseLayer.Contents")
		hasP := strings.Contains(argT, "Payload")
		if headerOnly[tn] {
			r3.Check(hasC && !hasP, vkey+"span", p.InstrPos(vsum), "sum over the header contents", "IPv4 verification must sum exactly the header contents")
		} else {
			r3.Check(hasC && hasP, vkey+"span", p.InstrPos(vsum), "sum over contents+payload", "verification must sum header contents and payload: "+argT)
		}
		// R8.4
		if sum != nil {
			r4.Check(emitMap[tn] == vmapped, "layers."+tn+"/post-fold-map", p.Pos(ver.Pos()), fmt.Sprintf("emitter map=%v verifier map=%v", emitMap[tn], vmapped), fmt.Sprintf("the emitter maps a folded checksum of 0 to 0xffff (%v) but the verifier does (%v): a packet the library wrote is reported as mismatching when the sum folds to 0", emitMap[tn], vmapped))
		}
	}
	// TCP.ComputeChecksum
	if cc := p.Func("layers", "TCP.ComputeChecksum"); cc != nil {
		core.Instrs(cc, func(ins ssa.Instruction) {
			if cl, ps, ok := isSumCall(ins); ok && ps && len(cl.Call.Args) >= 3 {
				protoOf["TCP"]["ComputeChecksum"] = termOf(cc, cl.Call.Args[2], 0)
			}
		})
	}
	// ---- R8.2
	for _, tn := range types6 {
		roles := protoOf[tn]
		if len(roles) == 0 {
			continue
		}
		first := ""
		same := true
		for _, t := range roles {
			if first == "" {
				first = t
			} else if t != first {
				same = false
			}
		}
		key := "layers." + tn + "/pseudo-header-protocol"
		if !same || len(roles) < 2 {
			r2.Violate(key, "", fmt.Sprintf("emit and verify use different protocol numbers in the pseudo-header sum: %v", roles), nil)
			continue
		}
		// constant -> IPProtocolMetadata row -> layer type
		okRow := false
		if strings.HasPrefix(first, "const:") {
			row := enumRowOf(p, "IPProtocolMetadata", strings.TrimPrefix(first, "const:"))
			lt := layerTypeGlobalOf(p, tn)
			okRow = row != "" && row == lt
			if !okRow {
				r2.Violate(key, "", fmt.Sprintf("protocol number %s decodes to %s, but this layer is %s", first, row, lt), nil)
				continue
			}
		}
		r2.Check(okRow, key, "", "same constant in all roles; it is the IPProtocol that decodes to this layer", "protocol constant is not a plain constant")
	}

	// ---- R8.5
	nPH := 0
	for _, fn := range core.SortedFns(p.AllFns) {
		if !p.InModule(fn) {
			continue
		}
		core.Instrs(fn, func(ins ssa.Instruction) {
			cc := core.CallCommonOf(ins)
			if cc == nil {
				return
			}
			name := ""
			if cc.IsInvoke() {
				name = cc.Method.Name()
			} else if f := cc.StaticCallee(); f != nil {
				name = f.Name()
			}
			if name != "pseudoheaderChecksum" {
				return
			}
			nPH++
			r5.Check(fn.Name() == "computeChecksum" && fn.Synthetic == "" || fn.Synthetic != "", core.FnKey(fn)+"/pseudoheaderChecksum", p.InstrPos(ins), "only the shared helper consumes pseudo-header sums", "a pseudo-header sum is consumed outside the shared helper (length/protocol words may be missing)")
		})
	}
	if helper := p.Func("layers", "tcpipchecksum.computeChecksum"); helper != nil {
		for _, ret := range core.Returns(helper) {
			if len(ret.Results) == 2 && core.IsNilConst(ret.Results[1]) {
				t := termOf(helper, ret.Results[0], 0)
				lenArg := "len(" + helper.Params[1].Name() + ")"
				ok := strings.Contains(t, "call:ComputeChecksum("+helper.Params[1].Name()+",") && strings.Contains(t, helper.Params[2].Name()) &&
					strings.Contains(t, "&("+lenArg+",const:65535)") || strings.Contains(t, "&(const:65535,"+lenArg+")")
				ok = ok && strings.Contains(t, ">>("+lenArg+",const:16)") && strings.Contains(t, "invoke:pseudoheaderChecksum")
				r5.Check(ok, "layers.(*tcpipchecksum).computeChecksum/words", p.InstrPos(ret), "sum = ComputeChecksum(data, pseudo + proto + len&0xffff + len>>16)", "the shared helper does not add the pseudo-header sum, the protocol and both halves of the length: "+t)
			}
		}
	} else {
		r5.Missing("computeChecksum", "shared helper not found")
	}
	if nPH == 0 {
		r5.Missing("pseudoheaderChecksum", "no consumer found")
	}

	// ---- R8.6
	checkFoldShape(c, r6)
	checkSumShape(c, r6)
}

func validDisjunctUDP(fn *ssa.Function, stored string) bool {
	// the `true` edge of the Valid phi must come from stored == 0
	ok := false
	core.Instrs(fn, func(ins ssa.Instruction) {
		bo, isB := ins.(*ssa.BinOp)
		if !isB || bo.Op != token.EQL {
			return
		}
		if k, isK := core.ConstInt(bo.Y); isK && k == 0 && termOf(fn, bo.X, 0) == stored {
			ok = true
		}
	})
	return ok
}

// enumRowOf: name of the LayerType global in row table[k].
func enumRowOf(p *core.Prog, table, k string) string {
	res := ""
	for _, fn := range core.SortedFns(p.AllFns) {
		if !p.InModule(fn) || !(isInitLike(fn) || initOnly(p, fn, 0)) {
			continue
		}
		core.Instrs(fn, func(ins ssa.Instruction) {
			st, ok := ins.(*ssa.Store)
			if !ok || !core.NamedIs(st.Val.Type(), "EnumMetadata") {
				return
			}
			ia, ok := st.Addr.(*ssa.IndexAddr)
			if !ok {
				return
			}
			tbl, _ := ia.X.(*ssa.Global)
			kk, okK := core.ConstInt(ia.Index)
			if tbl == nil || tbl.Name() != table || !okK || fmt.Sprint(kk) != k {
				return
			}
			a, okL := core.IsLoad(st.Val)
			if !okL {
				return
			}
			al, ok := a.(*ssa.Alloc)
			if !ok {
				return
			}
			for _, ref := range *al.Referrers() {
				fa, ok := ref.(*ssa.FieldAddr)
				if !ok || core.FieldOfAddr(fa).Name() != "LayerType" {
					continue
				}
				for _, r2 := range *fa.Referrers() {
					if s2, ok := r2.(*ssa.Store); ok && s2.Addr == ssa.Value(fa) {
						if a2, ok := core.IsLoad(s2.Val); ok {
							if g, ok := a2.(*ssa.Global); ok {
								res = g.Name()
							}
						}
					}
				}
			}
		})
	}
	return res
}

// layerTypeGlobalOf: the global returned by (*T).LayerType().
func layerTypeGlobalOf(p *core.Prog, tn string) string {
	fn := p.Func("layers", tn+".LayerType")
	if fn == nil {
		return ""
	}
	for _, ret := range core.Returns(fn) {
		if a, ok := core.IsLoad(ret.Results[0]); ok {
			if g, ok := a.(*ssa.Global); ok {
				return g.Name()
			}
		}
	}
	return ""
}

func checkGREEmit(c *core.Ctx, r *core.Rule, ser *ssa.Function) {
	p := c.P
	// GRE computes its checksum under opts.ComputeChecksums && g.ChecksumPresent over the whole buffer
	var sum *ssa.Call
	core.Instrs(ser, func(ins ssa.Instruction) {
		if cl, _, ok := isSumCall(ins); ok {
			sum = cl
		}
	})
	key := "layers.(*GRE).SerializeTo/"
	if sum == nil {
		r.Violate(key+"sum", p.Pos(ser.Pos()), "GRE never computes its checksum", nil)
		return
	}
	under := false
	for _, dc := range core.DomConds(sum.Block()) {
		if _, ok := core.LoadsField(dc.V, "ComputeChecksums"); ok && dc.Truth {
			under = true
		}
	}
	r.Check(under, key+"under-option", p.InstrPos(sum), "computed under opts.ComputeChecksums", "GRE checksum is computed regardless of opts.ComputeChecksums")
	// the two checksum bytes are zeroed where the optional word is written (variable offset): stores of 0 to buf[off], buf[off+1] dominate the sum
	zeros := 0
	core.Instrs(ser, func(ins ssa.Instruction) {
		st, ok := ins.(*ssa.Store)
		if !ok {
			return
		}
		if _, ok := st.Addr.(*ssa.IndexAddr); !ok {
			return
		}
		if v, okV := core.ConstInt(st.Val); okV && v == 0 && reachesInstr(st.Block(), sum) {
			zeros++
		}
	})
	r.Check(zeros >= 2, key+"zero-before-sum", p.InstrPos(sum), "checksum word cleared before summing", "the GRE checksum word is not cleared before the sum is taken")
}

// checkFoldShape: FoldChecksum must fold until no carry remains.
func checkFoldShape(c *core.Ctx, r *core.Rule) {
	p := c.P
	fn := p.Func("", "FoldChecksum")
	if fn == nil {
		r.Undecided("gopacket.FoldChecksum", "", "not found")
		return
	}
	key := "gopacket.FoldChecksum/shape"
	// count fold steps (x>>16)+(x&0xffff) and whether one sits in a cycle
	steps, inLoop := 0, false
	core.Instrs(fn, func(ins ssa.Instruction) {
		bo, ok := ins.(*ssa.BinOp)
		if !ok || bo.Op != token.ADD {
			return
		}
		t := termOf(fn, bo, 0)
		if strings.Contains(t, ">>(") && strings.Contains(t, "const:16") && strings.Contains(t, "const:65535") {
			steps++
			if core.ForwardSearch(fn, ins, func(i ssa.Instruction) bool { return i == ins }, nil) != nil {
				inLoop = true
			}
		}
	})
	// result is the complement of the low 16 bits
	compl := false
	for _, ret := range core.Returns(fn) {
		if u, ok := ret.Results[0].(*ssa.UnOp); ok && u.Op == token.XOR {
			compl = true
		}
		if bo, ok := ret.Results[0].(*ssa.BinOp); ok && bo.Op == token.XOR {
			compl = true
		}
	}
	remFFFF := false
	core.Instrs(fn, func(ins ssa.Instruction) {
		if bo, ok := ins.(*ssa.BinOp); ok && bo.Op == token.REM {
			if k, ok := core.ConstInt(bo.Y); ok && k == 0xffff {
				remFFFF = true
			}
		}
	})
	switch {
	case steps == 0 && remFFFF:
		r.Violate(key, p.Pos(fn.Pos()), "the sum is reduced with % 0xffff: that equals end-around-carry folding except for non-zero multiples of 0xffff, which it maps to 0 where folding gives 0xffff — for such sums the checksum comes out as 0xffff instead of 0x0000, and verifiers reject correct packets", nil)
	case steps == 0:
		r.Undecided(key, p.Pos(fn.Pos()), "no (x>>16)+(x&0xffff) step recognised")
	case !compl:
		r.Violate(key, p.Pos(fn.Pos()), "the folded sum is not complemented", nil)
	case inLoop || steps >= 2:
		r.OK(key, p.Pos(fn.Pos()), fmt.Sprintf("%d fold step(s), looped=%v, result complemented", steps, inLoop))
	default:
		r.Violate(key, p.Pos(fn.Pos()), "a single fold step is not repeated: sums whose first fold carries again (e.g. 0x1ffff) give a wrong checksum", nil)
	}
}

// checkSumShape: ComputeChecksum pairs bytes big-endian.
func checkSumShape(c *core.Ctx, r *core.Rule) {
	p := c.P
	fn := p.Func("", "ComputeChecksum")
	if fn == nil {
		r.Undecided("gopacket.ComputeChecksum", "", "not found")
		return
	}
	key := "gopacket.ComputeChecksum/shape"
	data := fn.Params[0]
	// contributions: uint32(data[idx]) [<< s] added to the accumulator
	type contrib struct {
		idx   string
		shift int64
		at    ssa.Instruction
	}
	var cs []contrib
	core.Instrs(fn, func(ins ssa.Instruction) {
		bo, ok := ins.(*ssa.BinOp)
		if !ok || bo.Op != token.ADD {
			return
		}
		for _, side := range []ssa.Value{bo.X, bo.Y} {
			v := side
			var sh int64
			if sb, ok := v.(*ssa.BinOp); ok && sb.Op == token.SHL {
				if k, ok := core.ConstInt(sb.Y); ok {
					sh = k
					v = sb.X
				}
			}
			v = core.StripConv(v)
			if a, ok := core.IsLoad(v); ok {
				if ia, ok := a.(*ssa.IndexAddr); ok && ia.X == ssa.Value(data) {
					cs = append(cs, contrib{idx: termOf(fn, ia.Index, 0), shift: sh, at: ins})
				}
			}
		}
	})
	if len(cs) != 3 {
		r.Undecided(key, p.Pos(fn.Pos()), fmt.Sprintf("%d byte contributions recognised (expected 3: even, odd, tail)", len(cs)))
		return
	}
	// classify: index i (phi) , i+1, and tail (len-1)
	var even, odd, tail *contrib
	for i := range cs {
		cc := &cs[i]
		switch {
		case strings.HasPrefix(cc.idx, "phi("):
			even = cc
		case strings.HasPrefix(cc.idx, "+(") && strings.Contains(cc.idx, "const:1") && strings.Contains(cc.idx, "phi("):
			odd = cc
		case strings.Contains(cc.idx, "len("):
			tail = cc
		}
	}
	if even == nil || odd == nil || tail == nil {
		r.Undecided(key, p.Pos(fn.Pos()), "contributions not of the form data[i], data[i+1], data[len-1]")
		return
	}
	bad := ""
	if even.shift != 8 {
		bad = fmt.Sprintf("the even-offset byte is shifted by %d, must be 8", even.shift)
	} else if odd.shift != 0 {
		bad = fmt.Sprintf("the odd-offset byte is shifted by %d, must be 0", odd.shift)
	} else if tail.shift != 8 {
		bad = fmt.Sprintf("the trailing byte of an odd-length input is shifted by %d, must be 8 (it is the high byte of a zero-padded word)", tail.shift)
	}
	// stride 2
	if bad == "" && !strings.Contains(even.idx, "const:2") {
		bad = "the pair loop does not advance by 2"
	}
	// tail only for odd length
	if bad == "" {
		okOdd := false
		for _, dc := range core.DomConds(tail.at.Block()) {
			t := termOf(fn, dc.V, 0)
			if strings.Contains(t, "%(len(") && strings.Contains(t, "const:2") && ((strings.HasPrefix(t, "==(") && strings.Contains(t, "const:1") && dc.Truth) || (strings.HasPrefix(t, "!=(") && strings.Contains(t, "const:0") && dc.Truth)) {
				okOdd = true
			}
			if strings.Contains(t, "&(") && strings.Contains(t, "len(") && strings.Contains(t, "const:1") {
				// len&1 != 0 / == 1 on the true edge, == 0 / != 1 on the false edge
				pos := (strings.HasPrefix(t, "!=(") && strings.Contains(t, "const:0")) || (strings.HasPrefix(t, "==(") && !strings.Contains(t, "const:0"))
				if pos == dc.Truth {
					okOdd = true
				}
			}
			if os.Getenv("GPV_DEBUG") != "" {
				fmt.Println("DEBUG tail cond:", t, dc.Truth)
			}
		}
		if !okOdd {
			bad = "the trailing byte is not added exactly for odd lengths"
		}
	}
	if bad != "" {
		r.Violate(key, p.InstrPos(even.at), bad, nil)
		return
	}
	r.OK(key, p.Pos(fn.Pos()), "data[i]<<8 + data[i+1], stride 2, odd tail <<8")
}

var _ = types.Typ

// precedesAssuming: every path from the entry to `target` passes `st`, when
// the boolean receiver-field tests that dominate target are assumed to have
// the same outcome wherever the same field is tested again.
func precedesAssuming(fn *ssa.Function, st, target ssa.Instruction) bool {
	if core.Dominates(st, target) {
		return true
	}
	assume := map[string]bool{}
	for _, dc := range core.DomConds(target.Block()) {
		if pth, ok := core.RecvFieldLoad(fn, dc.V); ok {
			assume[pth] = dc.Truth
		}
	}
	if len(assume) == 0 {
		return false
	}
	hit := core.ForwardSearchE(fn, nil, func(i ssa.Instruction) bool { return i == target }, func(i ssa.Instruction) bool { return i == st }, func(b *ssa.BasicBlock, i int) bool {
		iff := blockIf(b)
		if iff == nil {
			return true
		}
		if pth, ok := core.RecvFieldLoad(fn, iff.Cond); ok {
			if want, ok := assume[pth]; ok {
				return (i == 0) == want
			}
		}
		return true
	})
	return hit == nil
}

// verifyVisitsEveryLayer (R8.8): Packet.VerifyChecksums reports a mismatch
// for every layer whose checksum is wrong, so its loop over the layer list
// must reach every element: the loop is left only from its header (list
// exhausted) or on a path that returns a non-nil error; every element is
// tested for LayerWithChecksum and verified when it is one.
func verifyVisitsEveryLayer(c *core.Ctx, r *core.Rule) {
	p := c.P
	fn := p.Func("", "packet.VerifyChecksums")
	if fn == nil || len(fn.Blocks) == 0 {
		r.Missing("gopacket.(*packet).VerifyChecksums", "function not found")
		return
	}
	key := core.FnKey(fn) + "/"
	// the loop that calls VerifyChecksum
	var call *ssa.Call
	core.Instrs(fn, func(ins ssa.Instruction) {
		if cl, ok := ins.(*ssa.Call); ok && cl.Call.IsInvoke() && cl.Call.Method.Name() == "VerifyChecksum" {
			call = cl
		}
	})
	if call == nil {
		r.Missing(key+"VerifyChecksum call", "no invoke of LayerWithChecksum.VerifyChecksum found")
		return
	}
	// innermost loop header containing the call
	var h *ssa.BasicBlock
	inLoop := map[*ssa.BasicBlock]bool{}
	for _, cand := range fn.Blocks {
		var work []*ssa.BasicBlock
		for _, pr := range cand.Preds {
			if cand.Dominates(pr) {
				work = append(work, pr)
			}
		}
		if len(work) == 0 {
			continue
		}
		loop := map[*ssa.BasicBlock]bool{cand: true}
		for len(work) > 0 {
			x := work[len(work)-1]
			work = work[:len(work)-1]
			if loop[x] {
				continue
			}
			loop[x] = true
			work = append(work, x.Preds...)
		}
		if loop[call.Block()] && (h == nil || len(loop) < len(inLoop)) {
			h, inLoop = cand, loop
		}
	}
	if h == nil {
		r.Violate(key+"loop", p.InstrPos(call), "VerifyChecksum is not called in a loop over the layers: at most one layer is verified", nil)
		return
	}
	var bad ssa.Instruction
	for b := range inLoop {
		if b == h {
			continue
		}
		for _, s := range b.Succs {
			if inLoop[s] {
				continue
			}
			// leaving the loop from inside its body: only towards a return of a non-nil error
			okExit := false
			if ret, ok := s.Instrs[len(s.Instrs)-1].(*ssa.Return); ok && len(ret.Results) >= 1 {
				if provablyNonNilErr(core.RetOperand(ret, 0), s) {
					okExit = true
				}
			}
			if ret, ok := b.Instrs[len(b.Instrs)-1].(*ssa.Return); ok && len(ret.Results) >= 1 && provablyNonNilErr(core.RetOperand(ret, 0), b) {
				okExit = true
			}
			if !okExit {
				bad = b.Instrs[len(b.Instrs)-1]
			}
		}
	}
	r.Check(bad == nil, key+"visits-every-layer", p.InstrPos(call), "the loop is left only when the layer list is exhausted or an error is returned", "the loop over the layers can be left early without an error"+func() string {
		if bad != nil {
			return " (at " + p.InstrPos(bad) + ")"
		}
		return ""
	}()+": the layers behind that point — for instance everything inside a UDP tunnel — are never verified, so a wrong checksum there is not reported")
	// the type test guards only the verification, on the loop element
	okElem := false
	if ta, ok := call.Call.Value.(*ssa.Extract); ok {
		if t, ok := ta.Tuple.(*ssa.TypeAssert); ok && inLoop[t.Block()] {
			okElem = true
		}
	}
	mismatchIffInvalid(c, r)
	r.Check(okElem, key+"verifies-the-loop-element", p.InstrPos(call), "the layer verified is the loop element asserted to LayerWithChecksum", "the value verified is not the loop element's LayerWithChecksum view")
}

// pseudoHeaderHeadroom (R8.9): the partial sum a pseudo-header helper returns
// is carried on in 32-bit arithmetic (protocol, length, then up to 65535
// payload bytes as 16-bit words: at most 2^31).  The helper's result therefore
// needs headroom: an upper bound of at most 2^24 must follow from the types
// and constant loop bounds of its computation.  Summing wider units (32-bit
// words folded once) is congruent mod 0xffff but can sit just below 2^32, and
// the later additions then wrap and lose a carry.
func pseudoHeaderHeadroom(c *core.Ctx, r *core.Rule) {
	p := c.P
	n := 0
	for _, fn := range core.SortedFns(p.AllFns) {
		if !p.InModule(fn) || fn.Name() != "pseudoheaderChecksum" || len(fn.Blocks) == 0 {
			continue
		}
		if strings.Contains(fn.String(), "$") || fn.Synthetic != "" {
			continue
		}
		n++
		worst := int64(0)
		unknown := false
		for _, ret := range core.Returns(fn) {
			v := core.RetOperand(ret, 0)
			if core.IsNilConst(core.RetOperand(ret, 1)) == false {
				if k, ok := core.ConstInt(v); ok && k == 0 {
					continue // error return
				}
			}
			u := sumUB(v, 0, map[ssa.Value]bool{})
			if u < 0 {
				unknown = true
			} else if u > worst {
				worst = u
			}
		}
		key := core.FnKey(fn) + "/headroom"
		switch {
		case unknown:
			r.Undecided(key, p.Pos(fn.Pos()), "no upper bound derivable for the returned partial sum")
		case worst <= 1<<24:
			r.OK(key, p.Pos(fn.Pos()), fmt.Sprintf("returned partial sum <= %d", worst))
		default:
			r.Violate(key, p.Pos(fn.Pos()), fmt.Sprintf("the partial sum returned can be as large as %d: protocol, length and up to 2^31 of payload words are then added in uint32, which wraps and drops a carry — the checksum written (and the one used to verify) is off by one for inputs that reach the wrap", worst), nil)
		}
	}
	if n < 2 {
		r.Missing("layers/pseudoheaderChecksum", fmt.Sprintf("only %d implementations found", n))
	}
}

// sumUB: upper bound of an unsigned integer expression from types, constant
// shifts/masks and accumulation loops with a constant trip count; -1 unknown.
func sumUB(v ssa.Value, d int, busy map[ssa.Value]bool) int64 {
	if d > 12 {
		return -1
	}
	if k, ok := core.ConstInt(v); ok {
		return k
	}
	tmax := func(t types.Type) int64 {
		if b, ok := t.Underlying().(*types.Basic); ok {
			switch b.Kind() {
			case types.Uint8:
				return 255
			case types.Uint16:
				return 65535
			case types.Uint32:
				return 1<<32 - 1
			}
		}
		return -1
	}
	switch x := v.(type) {
	case *ssa.Convert:
		in := sumUB(x.X, d+1, busy)
		m := tmax(x.Type())
		if in >= 0 && (m < 0 || in <= m) {
			return in
		}
		if mi := tmax(x.X.Type()); mi >= 0 && (m < 0 || mi <= m) {
			return mi
		}
		return m
	case *ssa.UnOp:
		if x.Op == token.MUL {
			return tmax(x.Type())
		}
	case *ssa.Call:
		return tmax(x.Type())
	case *ssa.Extract:
		return tmax(x.Type())
	case *ssa.BinOp:
		a, b := sumUB(x.X, d+1, busy), sumUB(x.Y, d+1, busy)
		switch x.Op {
		case token.ADD:
			if a >= 0 && b >= 0 {
				return a + b
			}
		case token.SHL:
			if k, ok := core.ConstInt(x.Y); ok && a >= 0 && k < 32 {
				return a << uint(k)
			}
		case token.SHR:
			if k, ok := core.ConstInt(x.Y); ok && a >= 0 {
				return a >> uint(k)
			}
		case token.AND:
			if k, ok := core.ConstInt(x.Y); ok {
				if a >= 0 && a < k {
					return a
				}
				return k
			}
			if k, ok := core.ConstInt(x.X); ok {
				return k
			}
		case token.OR:
			if a >= 0 && b >= 0 {
				return a + b
			}
		}
		return tmax(x.Type())
	case *ssa.Phi:
		if busy[x] {
			return -2 // the accumulator itself
		}
		// accumulator of a loop with a constant trip count: φ(init, φ + incs)
		h := x.Block()
		var init, next ssa.Value
		for i, pr := range h.Preds {
			if h.Dominates(pr) {
				next = x.Edges[i]
			} else {
				init = x.Edges[i]
			}
		}
		if init == nil || next == nil || len(x.Edges) != 2 {
			worst := int64(0)
			for _, e := range x.Edges {
				u := sumUB(e, d+1, busy)
				if u < 0 {
					return -1
				}
				if u > worst {
					worst = u
				}
			}
			return worst
		}
		trips := loopTrips(h)
		if trips < 0 {
			return -1
		}
		busy[x] = true
		// next = x + inc1 + inc2 ...: collect increments
		var incs int64
		okAcc := true
		var peel func(v ssa.Value) bool
		peel = func(v ssa.Value) bool {
			if v == ssa.Value(x) {
				return true
			}
			bo, ok := v.(*ssa.BinOp)
			if !ok || bo.Op != token.ADD {
				return false
			}
			if peel(bo.X) {
				u := sumUB(bo.Y, d+1, busy)
				if u < 0 {
					okAcc = false
				}
				incs += u
				return true
			}
			if peel(bo.Y) {
				u := sumUB(bo.X, d+1, busy)
				if u < 0 {
					okAcc = false
				}
				incs += u
				return true
			}
			return false
		}
		found := peel(next)
		delete(busy, x)
		i0 := sumUB(init, d+1, busy)
		if !found || !okAcc || i0 < 0 {
			return -1
		}
		return i0 + trips*incs
	}
	return tmax(v.Type())
}

// loopTrips: number of iterations of `for i := a; i < K; i += s` with constant
// a, K, s, recognised at the loop header h; -1 otherwise.
func loopTrips(h *ssa.BasicBlock) int64 {
	iff, ok := h.Instrs[len(h.Instrs)-1].(*ssa.If)
	if !ok {
		return -1
	}
	bo, ok := iff.Cond.(*ssa.BinOp)
	if !ok || (bo.Op != token.LSS && bo.Op != token.LEQ) {
		return -1
	}
	k, ok := core.ConstInt(bo.Y)
	if !ok {
		return -1
	}
	iv, ok := bo.X.(*ssa.Phi)
	if !ok || iv.Block() != h || len(iv.Edges) != 2 {
		return -1
	}
	var a, s int64 = -1, -1
	for i, pr := range h.Preds {
		if h.Dominates(pr) {
			if inc, ok := iv.Edges[i].(*ssa.BinOp); ok && inc.Op == token.ADD && inc.X == ssa.Value(iv) {
				if sv, ok := core.ConstInt(inc.Y); ok && sv > 0 {
					s = sv
				}
			}
		} else if av, ok := core.ConstInt(iv.Edges[i]); ok {
			a = av
		}
	}
	if a < 0 || s <= 0 {
		return -1
	}
	if bo.Op == token.LEQ {
		k++
	}
	if k <= a {
		return 0
	}
	return (k - a + s - 1) / s
}
