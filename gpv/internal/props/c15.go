package props

import (
	"fmt"
	"go/token"
	"go/types"
	"sort"
	"strings"

	"golang.org/x/tools/go/ssa"

	"gpv/internal/core"
)

func init() { register("C15", checkC15) }

// ---- TAINT: file-derived integers in package pcapgo

type taint struct {
	p      *core.Prog
	fns    []*ssa.Function
	fields map[*types.Var]bool // struct fields that receive file-derived values
	stores map[*types.Var][]*ssa.Store
	memo   map[ssa.Value]bool
}

func isReaderUint(call *ssa.Call) bool {
	if call.Call.IsInvoke() {
		n := call.Call.Method.Name()
		return strings.HasPrefix(n, "Uint") && (n == "Uint16" || n == "Uint32" || n == "Uint64")
	}
	f := call.Call.StaticCallee()
	if f == nil {
		return false
	}
	switch f.Name() {
	case "Uint16", "Uint32", "Uint64":
		return f.Pkg != nil && f.Pkg.Pkg.Path() == "encoding/binary"
	case "getUint16", "getUint32", "getUint64":
		return true
	}
	return false
}

func fieldVarOfAddr(a ssa.Value) *types.Var {
	if fa, ok := a.(*ssa.FieldAddr); ok {
		return core.FieldOfAddr(fa)
	}
	return nil
}

func newTaint(p *core.Prog, fns []*ssa.Function) *taint {
	t := &taint{p: p, fns: fns, fields: map[*types.Var]bool{}, stores: map[*types.Var][]*ssa.Store{}, memo: map[ssa.Value]bool{}}
	for _, fn := range fns {
		core.Instrs(fn, func(ins ssa.Instruction) {
			if st, ok := ins.(*ssa.Store); ok {
				if v := fieldVarOfAddr(st.Addr); v != nil {
					t.stores[v] = append(t.stores[v], st)
				}
			}
		})
	}
	for changed := true; changed; {
		changed = false
		t.memo = map[ssa.Value]bool{}
		for v, sts := range t.stores {
			if t.fields[v] {
				continue
			}
			for _, st := range sts {
				if t.tainted(st.Val, 0) {
					t.fields[v] = true
					changed = true
					break
				}
			}
		}
	}
	return t
}

func isIntType(t types.Type) bool {
	b, ok := t.Underlying().(*types.Basic)
	return ok && b.Info()&types.IsInteger != 0
}

func intWidth(t types.Type) int {
	b, ok := t.Underlying().(*types.Basic)
	if !ok {
		return 64
	}
	switch b.Kind() {
	case types.Int8, types.Uint8:
		return 8
	case types.Int16, types.Uint16:
		return 16
	case types.Int32, types.Uint32:
		return 32
	}
	return 64
}

// tainted: v is an integer derived from file bytes.
func (t *taint) tainted(v ssa.Value, depth int) bool {
	if depth > 10 {
		return false
	}
	if r, ok := t.memo[v]; ok {
		return r
	}
	t.memo[v] = false
	res := false
	switch x := v.(type) {
	case *ssa.Call:
		res = isReaderUint(x)
	case *ssa.Convert:
		res = t.tainted(x.X, depth+1)
	case *ssa.ChangeType:
		res = t.tainted(x.X, depth+1)
	case *ssa.BinOp:
		res = t.tainted(x.X, depth+1) || t.tainted(x.Y, depth+1)
	case *ssa.Phi:
		for _, e := range x.Edges {
			if t.tainted(e, depth+1) {
				res = true
			}
		}
	case *ssa.UnOp:
		if x.Op == token.MUL {
			if fv := fieldVarOfAddr(x.X); fv != nil && isIntType(x.Type()) {
				res = t.fields[fv]
			}
			// byte of a buffer read from the file
			if ia, ok := x.X.(*ssa.IndexAddr); ok && isIntType(x.Type()) {
				_ = ia
				res = true
			}
		} else {
			res = t.tainted(x.X, depth+1)
		}
	case *ssa.Extract:
		res = t.tainted(x.Tuple, depth+1)
	case *ssa.Field:
		res = t.fields[core.FieldOfVal(x)]
	}
	t.memo[v] = res
	return res
}

// atoms: the tainted leaves (field loads / reader calls) of an integer expression, with
// the smallest integer width the value passed through on the way.
type atom struct {
	v         ssa.Value
	field     *types.Var
	width     int
	signedSub bool // reached through a subtraction (may be negative)
}

func (t *taint) atoms(v ssa.Value, width int, sub bool, depth int, out *[]atom) {
	if depth > 10 {
		return
	}
	if w := intWidth(v.Type()); w < width {
		width = w
	}
	switch x := v.(type) {
	case *ssa.Convert:
		t.atoms(x.X, width, sub, depth+1, out)
	case *ssa.ChangeType:
		t.atoms(x.X, width, sub, depth+1, out)
	case *ssa.BinOp:
		switch x.Op {
		case token.AND:
			// masking with a constant bounds the value
			if k, ok := core.ConstFold(x.Y); ok && k >= 0 && k < 1<<16 {
				return
			}
			if k, ok := core.ConstFold(x.X); ok && k >= 0 && k < 1<<16 {
				return
			}
		case token.REM:
			if k, ok := core.ConstFold(x.Y); ok && k > 0 && k < 1<<16 {
				return
			}
		case token.SUB:
			t.atoms(x.X, width, sub, depth+1, out)
			t.atoms(x.Y, width, true, depth+1, out)
			if t.tainted(x.Y, 0) {
				// the minuend side may go negative too
				var tmp []atom
				t.atoms(x.X, width, true, depth+1, &tmp)
				for i := range tmp {
					tmp[i].signedSub = true
				}
				*out = append(*out, tmp...)
			}
			return
		}
		t.atoms(x.X, width, sub, depth+1, out)
		t.atoms(x.Y, width, sub, depth+1, out)
	case *ssa.Phi:
		for _, e := range x.Edges {
			t.atoms(e, width, sub, depth+1, out)
		}
	case *ssa.UnOp:
		if x.Op == token.MUL && t.tainted(x, 0) {
			*out = append(*out, atom{v: x, field: fieldVarOfAddr(x.X), width: width, signedSub: sub})
		}
	case *ssa.Call:
		if isReaderUint(x) {
			*out = append(*out, atom{v: x, width: width, signedSub: sub})
		}
	case *ssa.Field:
		if t.tainted(x, 0) {
			*out = append(*out, atom{v: x, field: core.FieldOfVal(x), width: width, signedSub: sub})
		}
	}
}

// mentions: expression e is derived from atom a (same SSA value, or a load of the same field).
func (t *taint) mentions(e ssa.Value, a atom, depth int) bool {
	if depth > 10 {
		return false
	}
	if e == a.v {
		return true
	}
	switch x := e.(type) {
	case *ssa.Convert:
		return t.mentions(x.X, a, depth+1)
	case *ssa.ChangeType:
		return t.mentions(x.X, a, depth+1)
	case *ssa.BinOp:
		return t.mentions(x.X, a, depth+1) || t.mentions(x.Y, a, depth+1)
	case *ssa.UnOp:
		if x.Op == token.MUL && a.field != nil && fieldVarOfAddr(x.X) == a.field {
			return true
		}
		return false
	case *ssa.Field:
		return a.field != nil && core.FieldOfVal(x) == a.field
	case *ssa.Phi:
		for _, ed := range x.Edges {
			if t.mentions(ed, a, depth+1) {
				return true
			}
		}
	}
	return false
}

// boundKinds: for condition (cond,truth) report whether it bounds atom a from
// above ("hi") and/or below ("lo") by something acceptable.
func (t *taint) boundKinds(cond ssa.Value, truth bool, a atom) (hi, lo bool) {
	bo, ok := cond.(*ssa.BinOp)
	if !ok {
		return
	}
	op := bo.Op
	x, y := bo.X, bo.Y
	am, bm := t.mentions(x, a, 0), t.mentions(y, a, 0)
	if am == bm {
		return
	}
	if bm { // put the atom on the left
		x, y = y, x
		switch op {
		case token.LSS:
			op = token.GTR
		case token.GTR:
			op = token.LSS
		case token.LEQ:
			op = token.GEQ
		case token.GEQ:
			op = token.LEQ
		}
	}
	if !truth {
		switch op {
		case token.LSS:
			op = token.GEQ
		case token.GEQ:
			op = token.LSS
		case token.GTR:
			op = token.LEQ
		case token.LEQ:
			op = token.GTR
		case token.EQL:
			op = token.NEQ
		case token.NEQ:
			op = token.EQL
		}
	}
	switch op {
	case token.LSS, token.LEQ, token.EQL:
		hi = acceptableBound(y) && !t.mayWrapUp(x, a, 0)
		if op == token.EQL {
			lo = hi
		}
	case token.GTR, token.GEQ:
		if k, ok := core.ConstFold(y); ok && k >= -1 {
			lo = true
		}
	}
	return
}

// mayWrapUp: on the way from atom a to expression e something is added,
// multiplied or shifted in a type of at most 32 bits: for large values of the
// atom the expression wraps around to a small number, so `e <= bound` says
// nothing about the atom.
func (t *taint) mayWrapUp(e ssa.Value, a atom, depth int) bool {
	if depth > 10 || !t.mentions(e, a, 0) {
		return false
	}
	switch x := e.(type) {
	case *ssa.Convert:
		return t.mayWrapUp(x.X, a, depth+1)
	case *ssa.ChangeType:
		return t.mayWrapUp(x.X, a, depth+1)
	case *ssa.BinOp:
		switch x.Op {
		case token.ADD, token.MUL, token.SHL:
			if intWidth(x.Type()) <= 32 {
				return true
			}
		}
		return t.mayWrapUp(x.X, a, depth+1) || t.mayWrapUp(x.Y, a, depth+1)
	case *ssa.Phi:
		for _, ed := range x.Edges {
			if t.mayWrapUp(ed, a, depth+1) {
				return true
			}
		}
	}
	return false
}

// acceptableBound: a constant, a declared snap length, the remaining block
// length, or the length/capacity of an existing buffer.
func acceptableBound(v ssa.Value) bool {
	v = core.StripConv(v)
	if _, ok := core.ConstFold(v); ok {
		return true
	}
	switch x := v.(type) {
	case *ssa.Call:
		if nm, _ := core.BuiltinCall(x); nm == "len" || nm == "cap" {
			return true
		}
	case *ssa.UnOp:
		if fv := fieldVarOfAddr(x.X); fv != nil && x.Op == token.MUL {
			n := strings.ToLower(fv.Name())
			// "length" (unexported) is the remaining length of the current block; the exported
			// CaptureInfo.Length is itself taken from the file and bounds nothing
			return strings.Contains(n, "snaplen") || strings.Contains(n, "snaplength") || fv.Name() == "length"
		}
	case *ssa.Field:
		n := strings.ToLower(core.FieldOfVal(x).Name())
		return strings.Contains(n, "snaplen") || core.FieldOfVal(x).Name() == "length"
	case *ssa.BinOp:
		return acceptableBound(x.X) && acceptableBound(x.Y)
	case *ssa.Phi:
		for _, e := range x.Edges {
			if !acceptableBound(e) {
				return false
			}
		}
		return true
	}
	return false
}

func recvNamed(fn *ssa.Function) string {
	if fn.Signature.Recv() == nil {
		return ""
	}
	return recvTypeName(fn)
}

// boundedAt: atom a is bounded (hi, and lo when needLo) at instruction site.
func (t *taint) boundedAt(fn *ssa.Function, site ssa.Instruction, a atom, needLo bool, depth int) (bool, string) {
	if a.width <= 16 {
		return true, fmt.Sprintf("at most %d bits wide", a.width)
	}
	hi, lo := false, false
	for _, dc := range core.DomConds(site.Block()) {
		h, l := t.boundKinds(dc.V, dc.Truth, a)
		hi, lo = hi || h, lo || l
	}
	if hi && (lo || !needLo) {
		return true, "bounded by a dominating comparison"
	}
	// (ii) field: every store of a file-derived value into it, in methods of the same reader type,
	// is followed by a bounding comparison before the function can return successfully
	if a.field == nil || depth > 1 {
		return false, "no dominating bound"
	}
	rt := recvNamed(fn)
	nSt := 0
	for _, st := range t.stores[a.field] {
		sf := st.Parent()
		if recvNamed(sf) != rt || !t.tainted(st.Val, 0) {
			continue
		}
		var ats []atom
		t.atoms(st.Val, 64, false, 0, &ats)
		wide := false
		for _, x := range ats {
			if x.width > 16 {
				wide = true
			}
		}
		if !wide {
			continue
		}
		nSt++
		fa := atom{v: st.Val, field: a.field, width: 64}
		isSuccess := func(i ssa.Instruction) bool {
			ret, ok := i.(*ssa.Return)
			if !ok {
				return false
			}
			if n := len(ret.Results); n > 0 {
				last := core.RetOperand(ret, n-1)
				if types.Identical(last.Type(), errorType) && provablyNonNilErr(last, ret.Block()) {
					return false
				}
			}
			return true
		}
		// every path to a successful return passes an edge that bounds the value from above
		// (and, independently, one that bounds it from below when needed)
		search := func(wantLo bool) ssa.Instruction {
			return core.ForwardSearchE(sf, st, isSuccess, nil, func(b *ssa.BasicBlock, k int) bool {
				if errorEdge(b, k) {
					return false // this edge carries a non-nil error into the returned result
				}
				iff := blockIf(b)
				if iff == nil {
					return true
				}
				h, l := t.boundKinds(iff.Cond, k == 0, fa)
				if wantLo {
					return !l
				}
				return !h
			})
		}
		esc := search(false)
		if esc == nil && needLo {
			esc = search(true)
		}
		if esc != nil {
			return false, fmt.Sprintf("the value stored into %s at %s reaches a successful return without being compared against a bound", a.field.Name(), t.p.InstrPos(st))
		}
	}
	if nSt == 0 {
		return false, "no dominating bound"
	}
	return true, fmt.Sprintf("every store into %s is bounded before its function returns successfully", a.field.Name())
}

func checkC15(c *core.Ctx) {
	p := c.P
	fns := pkgFunctions(p, "pcapgo")
	// reader code only (files read*.go, ngread*.go, snoop.go, pcapng.go)
	var rd []*ssa.Function
	for _, fn := range fns {
		f := p.Pos(fn.Pos())
		if strings.Contains(f, "read") || strings.Contains(f, "snoop") || strings.Contains(f, "pcapng.go") {
			rd = append(rd, fn)
		}
	}
	c.Explain = "TAINT + GUARD over the capture-file readers (pcapgo: read.go, ngread*.go, snoop.go): integers obtained from file bytes (ByteOrder.UintNN / getUintNN / buffer bytes) and the struct fields they are stored into are file-derived. Decides: (R15.1) every make whose size is file-derived and wider than 16 bits is bounded — by a dominating comparison against a constant, a declared snap length, the remaining block length or an existing buffer's len/cap, or because every store into the field it is read from is so compared before its function can return successfully; sizes built with a subtraction also need a lower bound (R15.4); (R15.2) every non-constant divisor is a field all of whose stores are provably non-zero (non-zero constant, 1<<e with e bounded below the word size, a product loop whose trip count is bounded, a quotient under a dominating comparison); (R15.3) every fixed-offset access to the bytes of the current pcapng option is preceded by a sufficient length check (directly or through a helper that returns an error when the value is too short); (R15.5) every Read* method returns data whose length is CaptureLength and passes a CaptureLength<=Length comparison (or assignment) on every successful path; (R15.6) no error from the underlying stream is dropped and only full-read helpers touch it. Not decided: unsigned wrap-around of the remaining block length, behaviour inside compress/gzip and bufio, hangs of the underlying reader."
	r1 := c.Rule("R15.1", "T", "file-derived allocation sizes are bounded (and non-negative)")
	r2 := c.Rule("R15.2", "D", "divisors derived from the file are provably non-zero")
	r3 := c.Rule("R15.3", "D", "option bytes are length-checked before fixed-offset access")
	r5 := c.Rule("R15.5", "T", "CaptureLength <= Length and len(data) == CaptureLength on every successful read")
	r6 := c.Rule("R15.6", "T", "stream errors are propagated; only full-read helpers touch the stream")

	t := newTaint(p, rd)
	c.Counts["file_derived_fields"] = len(t.fields)
	r7 := c.Rule("R15.7", "T", "a slice expression whose high bound comes from the file stays within the capacity of the array or buffer it slices")
	capacityDiscipline(c, r7, t, rd)
	r8 := c.Rule("R15.8", "T", "bytes returned by a stream call together with an error are indexed or sliced only where err == nil is established")
	dataUnderErrNil(c, r8, rd)

	// ---- R15.1 / R15.4
	nMake := 0
	for _, fn := range rd {
		ord := 0
		core.Instrs(fn, func(ins ssa.Instruction) {
			ms, ok := ins.(*ssa.MakeSlice)
			if !ok || !t.tainted(ms.Len, 0) {
				return
			}
			nMake++
			ord++
			key := fmt.Sprintf("%s/make#%d", core.FnKey(fn), ord)
			var ats []atom
			t.atoms(ms.Len, 64, false, 0, &ats)
			bad := ""
			okWhy := ""
			for _, a := range ats {
				// a declared snap length is an allowed size by itself
				if a.field != nil {
					n := strings.ToLower(a.field.Name())
					if strings.Contains(n, "snaplen") {
						continue
					}
				}
				ok, why := t.boundedAt(fn, ins, a, a.signedSub, 0)
				if !ok {
					name := "value"
					if a.field != nil {
						name = a.field.Name()
					}
					kind := "unbounded"
					if a.signedSub {
						kind = "unbounded / possibly negative"
					}
					bad = fmt.Sprintf("allocation size depends on file-derived %s which is %s here (%s): a small hostile file makes the reader allocate gigabytes or panic in makeslice", name, kind, why)
					break
				}
				okWhy = why
			}
			if bad != "" {
				r1.Violate(key, p.InstrPos(ins), bad, nil)
			} else {
				r1.OK(key, p.InstrPos(ins), okWhy)
			}
		})
	}
	c.Counts["tainted_make_sites"] = nMake
	if nMake < 4 {
		r1.Missing("pcapgo/make", "fewer file-sized allocations found than the readers contain")
	}

	// ---- R15.2
	nDiv := 0
	for _, fn := range rd {
		core.Instrs(fn, func(ins ssa.Instruction) {
			bo, ok := ins.(*ssa.BinOp)
			if !ok || (bo.Op != token.QUO && bo.Op != token.REM) || !isIntType(bo.Type()) {
				return
			}
			if _, isK := core.ConstFold(bo.Y); isK {
				return
			}
			d := core.StripConv(bo.Y)
			var fv *types.Var
			switch x := d.(type) {
			case *ssa.UnOp:
				fv = fieldVarOfAddr(x.X)
			case *ssa.Field:
				fv = core.FieldOfVal(x)
			}
			if fv == nil {
				return
			}
			nDiv++
			key := core.FnKey(fn) + "/divisor:" + fv.Name()
			// dominating non-zero test
			for _, dc := range core.DomConds(ins.Block()) {
				if b2, ok := dc.V.(*ssa.BinOp); ok {
					if k, isK := core.ConstInt(b2.Y); isK && k == 0 && t.mentions(b2.X, atom{v: d, field: fv}, 0) && ((b2.Op == token.NEQ && dc.Truth) || (b2.Op == token.EQL && !dc.Truth) || (b2.Op == token.GTR && dc.Truth)) {
						r2.OK(key, p.InstrPos(ins), "dominating non-zero test")
						return
					}
				}
			}
			verdict, why := 1, ""
			for _, st := range t.stores[fv] {
				v, w := nonZeroStore(t, st)
				if v < verdict {
					verdict, why = v, w+" (store at "+p.InstrPos(st)+")"
				}
			}
			switch verdict {
			case 1:
				r2.OK(key, p.InstrPos(ins), "every store into "+fv.Name()+" is provably non-zero")
			case 0:
				r2.Violate(key, p.InstrPos(ins), "division by "+fv.Name()+", which a file can make zero: "+why+" — integer divide by zero panic", nil)
			default:
				r2.Undecided(key, p.InstrPos(ins), why)
			}
		})
	}
	c.Counts["file_derived_divisors"] = nDiv

	// ---- R15.3
	checkOptionBytes(c, r3, rd)

	// ---- R15.5
	checkCapLen(c, r5, t, rd)

	// ---- R15.6
	nIO := decodeErrorDiscipline(c, r6, rd, func(cc *ssa.CallCommon) bool {
		if f := cc.StaticCallee(); f != nil {
			switch f.String() {
			case "io.ReadFull", "(*bufio.Reader).Discard", "(*bufio.Reader).Peek", "(*bufio.Reader).Read", "compress/gzip.NewReader":
				return true
			}
			if p.InModule(f) && core.FnPkg(f).Path() == core.Mod+"/pcapgo" {
				for _, x := range rd {
					if x == f {
						return true
					}
				}
			}
			return false
		}
		return cc.IsInvoke() && cc.Method.Name() == "Read"
	})
	c.Counts["io_call_sites"] = nIO
	// who may call Read on the underlying reader
	for _, fn := range rd {
		core.Instrs(fn, func(ins ssa.Instruction) {
			cc := core.CallCommonOf(ins)
			if cc == nil {
				return
			}
			name := ""
			if cc.IsInvoke() && cc.Method.Name() == "Read" {
				name = "io.Reader.Read"
			} else if f := cc.StaticCallee(); f != nil && f.String() == "(*bufio.Reader).Read" {
				name = f.String()
			}
			if name == "" {
				return
			}
			// allowed only inside a loop that continues until the buffer is full
			inLoop := core.ForwardSearch(fn, ins, func(i ssa.Instruction) bool { return i == ins }, nil) != nil
			r6.Check(inLoop, core.FnKey(fn)+"/raw-read", p.InstrPos(ins), "raw Read only inside a read-until-full loop", "a single raw Read is used for a fixed-size field: a stream that delivers short reads yields garbage instead of an error")
		})
	}
}

// nonZeroStore: 1 provably non-zero, 0 provably may be zero, -1 unknown
func nonZeroStore(t *taint, st *ssa.Store) (int, string) {
	fn := st.Parent()
	v := core.StripConv(st.Val)
	if k, ok := core.ConstFold(v); ok {
		if k != 0 {
			return 1, "constant"
		}
		return -1, "zero constant (initial value)"
	}
	switch x := v.(type) {
	case *ssa.BinOp:
		switch x.Op {
		case token.SHL:
			if k, ok := core.ConstFold(x.X); ok && k != 0 {
				if boundedBelow(t, fn, st, x.Y, int64(intWidth(x.Type()))) {
					return 1, "1<<e with e bounded"
				}
				return 0, "1<<e where e comes from the file with no upper bound below the word size (e >= 64 gives 0)"
			}
		case token.MUL:
			// read-modify-write product step: F = F * K
			selfMul := false
			for _, side := range []ssa.Value{x.X, x.Y} {
				if a, ok := core.IsLoad(core.StripConv(side)); ok && fieldVarOfAddr(a) != nil && fieldVarOfAddr(a) == fieldVarOfAddr(st.Addr) {
					selfMul = true
				}
			}
			if selfMul {
				// enclosing loop header: a dominating block with an If comparing a phi with a limit, on a cycle with the store
				for b := st.Block(); b != nil; b = b.Idom() {
					iff := blockIf(b)
					if iff == nil {
						continue
					}
					bo, ok := iff.Cond.(*ssa.BinOp)
					if !ok {
						continue
					}
					ph, isPhi := core.StripConv(bo.X).(*ssa.Phi)
					if !isPhi || ph.Block() != b {
						continue
					}
					if !reachesInstr(st.Block(), iff) {
						continue
					}
					if loopBounded(t, fn, ph) {
						return 1, "bounded product loop"
					}
					return 0, "product loop (F = F*K) whose trip count comes from the file without a bound: the product wraps, e.g. 10^e for e >= 20, and can become 0 modulo 2^64"
				}
				return -1, "self-multiplication outside a recognised loop"
			}
		case token.QUO:
			// a / K under a dominating a >= K
			if k, ok := core.ConstFold(x.Y); ok && k > 0 {
				for _, dc := range core.DomConds(st.Block()) {
					if b2, ok := dc.V.(*ssa.BinOp); ok {
						if k2, ok := core.ConstFold(b2.Y); ok && k2 == k && ((b2.Op == token.LSS && !dc.Truth) || (b2.Op == token.GEQ && dc.Truth)) {
							return 1, "quotient of a value known to be >= the divisor"
						}
					}
				}
				return -1, "quotient without a dominating lower bound"
			}
		}
	case *ssa.Phi:
		// product loop: phi(c, phi*K)
		prod := false
		for _, e := range x.Edges {
			e = core.StripConv(e)
			if k, ok := core.ConstFold(e); ok && k != 0 {
				continue
			}
			if b, ok := e.(*ssa.BinOp); ok && b.Op == token.MUL {
				prod = true
				continue
			}
			if ph, ok := e.(*ssa.Phi); ok {
				_ = ph
				prod = true
				continue
			}
			return -1, "phi of unrecognised values"
		}
		if prod {
			// the loop's trip count must be bounded so that the product cannot wrap to 0
			if loopBounded(t, fn, x) {
				return 1, "bounded product loop"
			}
			return 0, "product loop whose trip count comes from the file without a bound (10^e wraps; 2^k factors accumulate to 0 mod 2^64)"
		}
	case *ssa.UnOp:
		if x.Op == token.MUL {
			if fv := fieldVarOfAddr(x.X); fv != nil {
				// copy of another field: recurse over its stores
				res := 1
				why := "copy of " + fv.Name()
				for _, s2 := range t.stores[fv] {
					if s2 == st {
						continue
					}
					r, w := nonZeroStore(t, s2)
					if r < res {
						res, why = r, w
					}
				}
				return res, why
			}
			if al, ok := x.X.(*ssa.Alloc); ok {
				_ = al
			}
		}
	}
	return -1, "unrecognised value"
}

// calleeTerm: "recvfield.Method" for a call on a field-derived receiver.
func calleeTerm(v ssa.Value) string {
	v = core.StripConv(v)
	call, ok := v.(*ssa.Call)
	if !ok {
		return ""
	}
	f := call.Call.StaticCallee()
	if f == nil || len(call.Call.Args) == 0 {
		return ""
	}
	pth, _ := core.FieldPath(func() ssa.Value {
		a := call.Call.Args[0]
		if l, ok := core.IsLoad(a); ok {
			return l
		}
		return a
	}())
	return pth + "." + f.Name()
}

// boundedBelow: e (or a call with the same callee term) is compared `> K-1 => error` / `< K` with K <= limit, dominating st.
func boundedBelow(t *taint, fn *ssa.Function, st ssa.Instruction, e ssa.Value, limit int64) bool {
	et := calleeTerm(e)
	for _, dc := range core.DomConds(st.Block()) {
		bo, ok := dc.V.(*ssa.BinOp)
		if !ok {
			continue
		}
		k, isK := core.ConstFold(bo.Y)
		if !isK {
			continue
		}
		same := core.StripConv(bo.X) == core.StripConv(e) || (et != "" && calleeTerm(bo.X) == et)
		if !same {
			continue
		}
		op := bo.Op
		if !dc.Truth {
			switch op {
			case token.GTR:
				op = token.LEQ
			case token.GEQ:
				op = token.LSS
			case token.LSS:
				op = token.GEQ
			case token.LEQ:
				op = token.GTR
			}
		}
		if (op == token.LEQ && k < limit) || (op == token.LSS && k <= limit) {
			return true
		}
	}
	return false
}

// loopBounded: the loop around phi has an exit test `j < N` where N (or a call with the same term) is bounded by a dominating comparison with a constant.
func loopBounded(t *taint, fn *ssa.Function, ph *ssa.Phi) bool {
	hdr := ph.Block()
	iff := blockIf(hdr)
	if iff == nil {
		return false
	}
	bo, ok := iff.Cond.(*ssa.BinOp)
	if !ok {
		return false
	}
	lim := bo.Y
	if _, isPhi := core.StripConv(bo.X).(*ssa.Phi); !isPhi {
		lim = bo.X
	}
	if _, isK := core.ConstFold(lim); isK {
		return true
	}
	lt := calleeTerm(lim)
	// a dominating comparison of the same term against a constant (<= 19 for 10^e in 64 bits)
	for _, dc := range core.DomConds(hdr) {
		b2, ok := dc.V.(*ssa.BinOp)
		if !ok {
			continue
		}
		k, isK := core.ConstFold(b2.Y)
		if !isK {
			continue
		}
		same := core.StripConv(b2.X) == core.StripConv(lim) || (lt != "" && calleeTerm(b2.X) == lt)
		if !same {
			continue
		}
		op := b2.Op
		if !dc.Truth {
			switch op {
			case token.GTR:
				op = token.LEQ
			case token.GEQ:
				op = token.LSS
			}
		}
		if (op == token.LEQ && k <= 19) || (op == token.LSS && k <= 20) {
			return true
		}
	}
	return false
}

// checkOptionBytes: GUARD-like rule for the bytes of the current option.
func checkOptionBytes(c *core.Ctx, r *core.Rule, rd []*ssa.Function) {
	p := c.P
	// helpers that establish len(opt.value) >= arg on their nil-error result
	helper := map[*ssa.Function]bool{}
	for _, fn := range rd {
		if fn.Signature.Params().Len() != 1 || !returnsError(fn.Signature) {
			continue
		}
		okShape := false
		for _, ret := range core.Returns(fn) {
			if !provablyNonNilErr(core.RetOperand(ret, 0), ret.Block()) {
				continue
			}
			for _, dc := range core.DomConds(ret.Block()) {
				if bo, ok := dc.V.(*ssa.BinOp); ok && bo.Op == token.LSS && dc.Truth {
					if s, ok := core.IsLen(bo.X); ok && isOptValue(s) && bo.Y == ssa.Value(fn.Params[1]) {
						okShape = true
					}
				}
			}
		}
		if okShape {
			helper[fn] = true
		}
	}
	n := 0
	for _, fn := range rd {
		ord := map[string]int{}
		core.Instrs(fn, func(ins ssa.Instruction) {
			var sl ssa.Value
			need := int64(-1)
			what := ""
			switch x := ins.(type) {
			case *ssa.IndexAddr:
				if k, ok := core.ConstInt(x.Index); ok {
					sl, need, what = x.X, k+1, fmt.Sprintf("[%d]", k)
				}
			case *ssa.Slice:
				mx := int64(-1)
				capCheck := false
				if x.Low != nil {
					if k, ok := core.ConstInt(x.Low); ok && k > mx {
						mx = k
					}
				}
				if x.High != nil {
					if k, ok := core.ConstInt(x.High); ok && k > mx {
						mx = k
						capCheck = true
					}
				}
				if mx > 0 {
					sl, need, what = x.X, mx, "[..:..]"
					if capCheck {
						what = fmt.Sprintf("[:%d] (checked against capacity only: silently reads stale bytes of the previous option)", mx)
					}
				}
			case *ssa.Call:
				if f := x.Call.StaticCallee(); f != nil && len(x.Call.Args) >= 1 {
					w := int64(0)
					switch f.Name() {
					case "Uint16", "getUint16":
						w = 2
					case "Uint32", "getUint32":
						w = 4
					case "Uint64", "getUint64":
						w = 8
					}
					if w > 0 {
						sl, need, what = x.Call.Args[len(x.Call.Args)-1], w, f.Name()
					}
				}
			case *ssa.BinOp:
				// len(value) - k used as a size
				if x.Op == token.SUB {
					if s, ok := core.IsLen(x.X); ok {
						if k, ok := core.ConstInt(x.Y); ok && k > 0 {
							sl, need, what = s, k, fmt.Sprintf("len-%d", k)
						}
					}
				}
			}
			if sl == nil || !isOptValue(sl) {
				return
			}
			n++
			base := fmt.Sprintf("%s/option-value%s", core.FnKey(fn), strings.Split(what, " ")[0])
			ord[base]++
			key := base
			if ord[base] > 1 {
				key = fmt.Sprintf("%s#%d", base, ord[base])
			}
			have := int64(0)
			for _, dc := range core.DomConds(ins.Block()) {
				// direct: len(value) < K => false edge
				if bo, ok := dc.V.(*ssa.BinOp); ok {
					if s, ok := core.IsLen(bo.X); ok && isOptValue(s) {
						if k, ok := core.ConstInt(bo.Y); ok {
							switch {
							case bo.Op == token.LSS && !dc.Truth, bo.Op == token.GEQ && dc.Truth:
								if k > have {
									have = k
								}
							case bo.Op == token.GTR && dc.Truth, bo.Op == token.LEQ && !dc.Truth:
								if k+1 > have {
									have = k + 1
								}
							}
						}
					}
					// helper: err := checkOptionLength(K); err != nil false edge
					if call, ok := bo.X.(*ssa.Call); ok && core.IsNilConst(bo.Y) {
						if f := call.Call.StaticCallee(); f != nil && helper[f] && len(call.Call.Args) == 2 {
							if (bo.Op == token.NEQ && !dc.Truth) || (bo.Op == token.EQL && dc.Truth) {
								if k, ok := core.ConstInt(call.Call.Args[1]); ok && k > have {
									have = k
								}
							}
						}
					}
				}
			}
			if have >= need {
				r.OK(key, p.InstrPos(ins), fmt.Sprintf("need %d, checked %d", need, have))
			} else {
				r.Violate(key, p.InstrPos(ins), fmt.Sprintf("%s on the current option's value needs %d bytes but only %d are established: an option declared shorter than its fixed-size value makes the reader panic (or parse bytes of the previous option)", what, need, have), nil)
			}
		})
	}
	c.Counts["option_value_sites"] = n
}

// isOptValue: v is (a load of) the value buffer of the current pcapng option.
func isOptValue(v ssa.Value) bool {
	for depth := 0; depth < 4; depth++ {
		if a, ok := core.IsLoad(v); ok {
			pth, _ := core.FieldPath(a)
			return strings.HasSuffix(pth, "currentOption.value")
		}
		if sl, ok := v.(*ssa.Slice); ok {
			// value[k:] keeps the provenance but changes the length: only the unsliced buffer is handled
			_ = sl
			return false
		}
		return false
	}
	return false
}

// checkCapLen: R15.5
func checkCapLen(c *core.Ctx, r *core.Rule, t *taint, rd []*ssa.Function) {
	p := c.P
	isCapLenField := func(v ssa.Value, name string) bool {
		v = core.StripConv(v)
		switch x := v.(type) {
		case *ssa.UnOp:
			if fv := fieldVarOfAddr(x.X); fv != nil {
				return fv.Name() == name
			}
		case *ssa.Field:
			return core.FieldOfVal(x).Name() == name
		}
		return false
	}
	// establishes(ins): a comparison CaptureLength vs Length feeding an If, or a store CaptureLength := Length
	estab := func(ins ssa.Instruction) bool {
		switch x := ins.(type) {
		case *ssa.If:
			if bo, ok := x.Cond.(*ssa.BinOp); ok {
				if (isCapLenField(bo.X, "CaptureLength") && isCapLenField(bo.Y, "Length")) || (isCapLenField(bo.Y, "CaptureLength") && isCapLenField(bo.X, "Length")) {
					return true
				}
			}
		case *ssa.Store:
			if fv := fieldVarOfAddr(x.Addr); fv != nil && fv.Name() == "CaptureLength" && isCapLenField(x.Val, "Length") {
				return true
			}
		}
		return false
	}
	sum := map[*ssa.Function]bool{}
	for changed, iter := true, 0; changed && iter < 5; iter++ {
		changed = false
		for _, fn := range rd {
			if sum[fn] {
				continue
			}
			esc := core.ForwardSearch(fn, nil, func(i ssa.Instruction) bool {
				ret, ok := i.(*ssa.Return)
				if !ok {
					return false
				}
				if n := len(ret.Results); n > 0 {
					last := core.RetOperand(ret, n-1)
					if types.Identical(last.Type(), errorType) && provablyNonNilErr(last, ret.Block()) {
						return false
					}
				}
				return true
			}, func(i ssa.Instruction) bool {
				if estab(i) {
					return true
				}
				if cc := core.CallCommonOf(i); cc != nil {
					if f := cc.StaticCallee(); f != nil && sum[f] {
						return true
					}
				}
				return false
			})
			if esc == nil {
				sum[fn] = true
				changed = true
			}
		}
	}
	n := 0
	for _, fn := range rd {
		if !isExportedAPI(fn) || !strings.Contains(fn.Name(), "ReadPacketData") {
			continue
		}
		n++
		key := core.FnKey(fn)
		r.Check(sum[fn], key+"/caplen<=len", p.Pos(fn.Pos()), "every successful path compares CaptureLength with Length (or assigns it from Length)", "a packet can be returned whose CaptureLength exceeds its Length: the file's values are never compared on some successful path")
	}
	if n < 6 {
		r.Missing("pcapgo/Read*", "fewer than six Read* methods found")
	}
	// returned data has CaptureLength bytes: the []byte result of the innermost reader is make(CaptureLength) or buf[:CaptureLength]
	for _, fn := range rd {
		if !isExportedAPI(fn) || !strings.Contains(fn.Name(), "ReadPacketData") {
			continue
		}
		var datas []ssa.Value
		for _, ret := range core.Returns(fn) {
			if len(ret.Results) >= 2 {
				datas = append(datas, core.RetOperand(ret, 0))
			}
		}
		okLen := false
		delegated := false
		for _, d := range datas {
			switch x := d.(type) {
			case *ssa.MakeSlice:
				okLen = okLen || isCapLenField(x.Len, "CaptureLength")
			case *ssa.Slice:
				if x.High != nil && isCapLenField(x.High, "CaptureLength") {
					okLen = true
				}
			case *ssa.Extract:
				delegated = true
			case *ssa.Phi:
				for _, e := range x.Edges {
					if ms, ok := e.(*ssa.MakeSlice); ok && isCapLenField(ms.Len, "CaptureLength") {
						okLen = true
					}
					if sl, ok := e.(*ssa.Slice); ok && sl.High != nil && isCapLenField(sl.High, "CaptureLength") {
						okLen = true
					}
				}
			}
		}
		if delegated && !okLen {
			continue
		}
		r.Check(okLen, core.FnKey(fn)+"/len(data)==caplen", p.Pos(fn.Pos()), "returned data is make(CaptureLength) / buf[:CaptureLength]", "the returned data is not sized by CaptureLength")
	}
	_ = sort.Strings
}

// errorEdge: the edge from b to its k-th successor feeds a provably non-nil
// error into a phi that is returned as the function's error result.
func errorEdge(b *ssa.BasicBlock, k int) bool {
	s := b.Succs[k]
	idx := -1
	for i, p := range s.Preds {
		if p == b {
			idx = i
		}
	}
	if idx < 0 {
		return false
	}
	for _, ins := range s.Instrs {
		ph, ok := ins.(*ssa.Phi)
		if !ok {
			break
		}
		if !types.Identical(ph.Type(), errorType) || !provablyNonNilErr(ph.Edges[idx], b) {
			continue
		}
		for _, ref := range *ph.Referrers() {
			if _, isRet := ref.(*ssa.Return); isRet {
				return true
			}
		}
	}
	return false
}

// dataUnderErrNil (R15.8): for every call in the readers that returns a slice
// together with an error (bufio Peek, ReadPacketData-style helpers), each
// element access or bounded slice of the returned bytes is dominated by the
// err == nil edge of a test of that very error value.  Testing the error only
// against specific values (err == io.EOF) lets every other failure fall
// through with a short or nil slice.
func dataUnderErrNil(c *core.Ctx, r *core.Rule, rd []*ssa.Function) {
	p := c.P
	n := 0
	for _, fn := range rd {
		ord := 0
		core.Instrs(fn, func(ins ssa.Instruction) {
			call, ok := ins.(*ssa.Call)
			if !ok {
				return
			}
			tup, ok := call.Type().(*types.Tuple)
			if !ok || tup.Len() < 2 || !types.Identical(tup.At(tup.Len()-1).Type(), errorType) {
				return
			}
			var errV ssa.Value
			var datas []*ssa.Extract
			for _, ref := range *call.Referrers() {
				ex, ok := ref.(*ssa.Extract)
				if !ok {
					continue
				}
				if ex.Index == tup.Len()-1 {
					errV = ex
				} else if _, ok := ex.Type().Underlying().(*types.Slice); ok {
					datas = append(datas, ex)
				}
			}
			for _, d := range datas {
				for _, ref := range *d.Referrers() {
					var site ssa.Instruction
					switch x := ref.(type) {
					case *ssa.IndexAddr:
						if x.X == ssa.Value(d) {
							site = x
						}
					case *ssa.Slice:
						if x.X == ssa.Value(d) && (x.Low != nil || x.High != nil) {
							site = x
						}
					}
					if site == nil {
						continue
					}
					n++
					ord++
					key := fmt.Sprintf("%s/data-under-err-nil#%d", core.FnKey(fn), ord)
					name := "?"
					if f := call.Call.StaticCallee(); f != nil {
						name = f.Name()
					} else if call.Call.Method != nil {
						name = call.Call.Method.Name()
					}
					switch {
					case errV == nil:
						r.Violate(key, p.InstrPos(site), "the bytes returned by "+name+" are accessed here but the error returned with them is discarded", nil)
					case core.UnderErrNil(site.Block(), errV):
						r.OK(key, p.InstrPos(site), "access to the result of "+name+" is dominated by err == nil")
					default:
						r.Violate(key, p.InstrPos(site), "the bytes returned by "+name+" are accessed here although no test of the accompanying error against nil dominates the access: a failure other than the ones singled out (for instance a short read with an I/O error) reaches this point with a short or nil slice, so the reader panics or continues on garbage instead of returning the error", nil)
					}
				}
			}
		})
	}
	c.Counts["data_with_error_accesses"] = n
	if n < 2 {
		r.Missing("pcapgo/data-with-error accesses", fmt.Sprintf("only %d accesses found", n))
	}
}
