package props

import (
	"go/types"

	"golang.org/x/tools/go/ssa"

	"gpv/internal/core"
)

func init() { register("C01", checkC01) }

// recoverInfo describes a function that calls the builtin recover directly.
type recoverInfo struct {
	fn        *ssa.Function
	call      *ssa.Call
	skipField string // option field under whose FALSE value recover runs ("" = unconditional)
	badCond   bool   // recover is under some other condition / wrong polarity
}

var skipFlags = map[string]bool{"SkipDecodeRecovery": true, "IgnorePanic": true}

func findRecover(fn *ssa.Function) *recoverInfo {
	var ri *recoverInfo
	core.Instrs(fn, func(ins ssa.Instruction) {
		if name, _ := core.BuiltinCall(ins); name == "recover" {
			if c, ok := ins.(*ssa.Call); ok && ri == nil {
				ri = &recoverInfo{fn: fn, call: c}
			}
		}
	})
	if ri == nil {
		return nil
	}
	for _, dc := range core.DomConds(ri.call.Block()) {
		matched := false
		for f := range skipFlags {
			if _, ok := core.LoadsField(dc.V, f); ok {
				matched = true
				if dc.Truth {
					ri.badCond = true // recover only when skipping is requested: inverted
				} else {
					ri.skipField = f
				}
			}
		}
		if !matched {
			ri.badCond = true
		}
	}
	return ri
}

// isDecodeInvoke: invoke of Decoder.Decode (interface of the gopacket module).
func isDecodeInvoke(ins ssa.Instruction) bool {
	cc := core.CallCommonOf(ins)
	return cc != nil && core.InvokeOn(cc, "Decoder", "Decode")
}

func ifaceHasMethod(i *types.Interface, name string) bool {
	if i == nil {
		return false
	}
	for k := 0; k < i.NumMethods(); k++ {
		if i.Method(k).Name() == name {
			return true
		}
	}
	return false
}

func checkC01(c *core.Ctx) {
	p := c.P
	c.Explain = "Structural clauses of 'decoding is total and crash-free with recovery on': (R1.1) every call that leaves the packet for decoder code is preceded on every path by a defer of a function that calls recover() directly, exactly unless the skip option is set, and that function records the failure; (R1.2) DecodeFailure values are built in one function that adds the layer and sets the error layer, called only from the recovering function or on the err != nil edge after which nothing decodes further; no decoder chains after setting an error layer; (R1.3) no error returned by decode-reachable module code is dropped or swallowed inside decode-reachable code; (R1.4) every decoder adds a layer before chaining; (R1.5) read-only renderers have no definite nil-dereference / index panic on what decoders publish; (R1.6) decode loops make progress; (R1.7) the packet.go accessors are guard-safe. Not decided: value-dependent completeness of error reporting, bounded time of straight-line code, panics inside the standard library."
	r11 := c.Rule("R1.1", "T", "recover-before-decode: a deferred, directly-recovering function precedes every Decode/DecodeFromBytes driver call unless the skip option is set")
	r12 := c.Rule("R1.2", "T", "failure is final: DecodeFailure built only in the final-error function; nothing decodes after it; no NextDecoder after SetErrorLayer")
	bi := p.Iface("", "PacketBuilder")

	// ---- R1.1
	rootPkg := p.SSAPkg("")
	if rootPkg == nil {
		r11.Missing("gopacket", "root package not loaded")
		return
	}
	nDrivers := 0
	var recoverFns []*ssa.Function
	for _, fn := range core.SortedFns(p.AllFns) {
		if core.FnPkg(fn) == nil || core.FnPkg(fn).Path() != core.Mod || len(fn.Blocks) == 0 {
			continue
		}
		if fn.Signature.Recv() != nil && ifaceHasMethod(bi, fn.Name()) {
			continue // PacketBuilder methods run below a driver frame
		}
		if fn.Name() == "Decode" && fn.Signature.Recv() != nil {
			continue // Decoder implementations (LayerType.Decode, DecodeFunc.Decode) are decoders, not drivers
		}
		var sites []ssa.Instruction
		core.Instrs(fn, func(ins ssa.Instruction) {
			if isDecodeInvoke(ins) {
				sites = append(sites, ins)
				return
			}
			// parser driver: call of the stored decode function field
			if call, ok := ins.(*ssa.Call); ok && fieldLoadOf(call.Call.Value, "DecodingLayerParser", "decodeFunc") {
				sites = append(sites, ins)
			}
		})
		for _, site := range sites {
			nDrivers++
			key := core.FnKey(fn) + "/decode-call"
			// defers of recovering functions in fn
			var good []*ssa.Defer
			var info *recoverInfo
			core.Instrs(fn, func(ins ssa.Instruction) {
				d, ok := ins.(*ssa.Defer)
				if !ok {
					return
				}
				callee := d.Call.StaticCallee()
				if callee == nil {
					return
				}
				if ri := findRecover(callee); ri != nil {
					good = append(good, d)
					info = ri
				}
			})
			if len(good) == 0 {
				r11.Violate(key, p.InstrPos(site), "decoder code is called with no deferred function that calls recover() directly: a panicking decoder escapes NewPacket", nil)
				continue
			}
			recoverFns = append(recoverFns, info.fn)
			if info.badCond {
				r11.Violate(key, p.InstrPos(info.call), "recover() in "+core.FnKey(info.fn)+" is guarded by the wrong condition (must run exactly when the skip option is false)", nil)
				continue
			}
			isGood := func(ins ssa.Instruction) bool {
				for _, g := range good {
					if ins == g {
						return true
					}
				}
				return false
			}
			// paths that skip the defer are allowed only through the true-edge of the skip flag
			esc := core.ForwardSearchE(fn, nil, func(ins ssa.Instruction) bool { return ins == site }, isGood, func(b *ssa.BasicBlock, i int) bool {
				for f := range skipFlags {
					if core.IfOnField(b, f) && i == 0 {
						return false
					}
				}
				return true
			})
			if esc != nil {
				r11.Violate(key, p.InstrPos(site), "a path reaches the decode call without the recovering defer although the skip option is false", nil)
				continue
			}
			// recovered value is recorded: after recover() != nil a call or store using it
			rec := false
			for _, ref := range *info.call.Referrers() {
				if bo, ok := ref.(*ssa.BinOp); ok {
					_ = bo
					rec = true
				}
			}
			usesR := false
			core.Instrs(info.fn, func(ins ssa.Instruction) {
				switch x := ins.(type) {
				case *ssa.Store:
					if x.Val == ssa.Value(info.call) {
						usesR = true
					}
				case *ssa.MakeInterface:
					if x.X == ssa.Value(info.call) {
						usesR = true
					}
				}
			})
			if !rec || !usesR {
				r11.Violate(key, p.InstrPos(info.call), "recovered panic value is not tested and recorded", nil)
				continue
			}
			r11.OK(key, p.InstrPos(site), "defer "+core.FnKey(info.fn)+" (recover unless "+info.skipField+") precedes the call on every path")
		}
	}
	if nDrivers < 3 {
		r11.Missing("drivers", "fewer than 3 decode driver call sites found (eager, lazy, parser)")
	}

	// ---- R1.2
	// (a) who allocates DecodeFailure
	var ff *ssa.Function
	var ffAlloc *ssa.Alloc
	for _, fn := range core.SortedFns(p.AllFns) {
		if !p.InModule(fn) {
			continue
		}
		core.Instrs(fn, func(ins ssa.Instruction) {
			al, ok := ins.(*ssa.Alloc)
			if !ok || !core.NamedIs(al.Type(), "DecodeFailure") {
				return
			}
			if ff != nil && ff != fn {
				r12.Violate(core.FnKey(fn)+"/DecodeFailure", p.InstrPos(ins), "a second function constructs DecodeFailure values", nil)
				return
			}
			ff, ffAlloc = fn, al
		})
	}
	if ff == nil {
		r12.Missing("DecodeFailure", "no function constructs DecodeFailure")
		return
	}
	{
		var add, set ssa.Instruction
		core.Instrs(ff, func(ins ssa.Instruction) {
			cc := core.CallCommonOf(ins)
			if cc == nil {
				return
			}
			f := cc.StaticCallee()
			usesAlloc := func() bool {
				for _, a := range cc.Args {
					if mi, ok := a.(*ssa.MakeInterface); ok && mi.X == ssa.Value(ffAlloc) {
						return true
					}
				}
				return false
			}
			if f != nil && f.Name() == "AddLayer" && usesAlloc() {
				add = ins
			}
			if f != nil && f.Name() == "SetErrorLayer" && usesAlloc() {
				set = ins
			}
		})
		okAll := add != nil && set != nil
		if okAll {
			isRet := func(ins ssa.Instruction) bool { _, ok := ins.(*ssa.Return); return ok }
			if core.ForwardSearch(ff, nil, isRet, func(i ssa.Instruction) bool { return i == add }) != nil ||
				core.ForwardSearch(ff, nil, isRet, func(i ssa.Instruction) bool { return i == set }) != nil {
				okAll = false
			}
		}
		r12.Check(okAll, core.FnKey(ff)+"/adds-and-sets", p.Pos(ff.Pos()), "the failure is added as a layer and set as error layer on every path", "the final-error function does not both AddLayer and SetErrorLayer the failure on every path")
		// the error layer setter keeps the first: store to failure only under failure == nil
		if sel := p.Func("", "packet.SetErrorLayer"); sel != nil {
			okFirst := false
			for _, st := range storesToField(sel, "packet", "failure") {
				for _, dc := range core.DomConds(st.Block()) {
					if bo, ok := dc.V.(*ssa.BinOp); ok && (fieldLoadOf(bo.X, "packet", "failure") && core.IsNilConst(bo.Y)) {
						okFirst = true
					}
				}
			}
			r12.Check(okFirst, "gopacket.(*packet).SetErrorLayer/first-wins", p.Pos(sel.Pos()), "failure stored only under failure == nil", "SetErrorLayer does not keep the first error layer")
		}
		// AddLayer appends and updates last
		if al := p.Func("", "packet.AddLayer"); al != nil {
			okL := len(storesToField(al, "packet", "layers")) > 0 && len(storesToField(al, "packet", "last")) > 0
			r12.Check(okL, "gopacket.(*packet).AddLayer/appends", p.Pos(al.Pos()), "stores layers and last", "AddLayer no longer stores both layers and last")
		}
	}
	// (b) callers of ff
	g := p.CG(false)
	if n := g.Nodes[ff]; n != nil {
		for _, e := range n.In {
			caller := e.Caller.Func
			if caller.Synthetic != "" {
				continue // promoted-method wrappers
			}
			key := core.FnKey(caller) + "/final-error-call"
			isRec := false
			for _, rf := range recoverFns {
				if rf == caller {
					isRec = true
				}
			}
			if isRec {
				r12.OK(key, p.InstrPos(e.Site), "called from the recovering function")
				continue
			}
			// must be on the err != nil edge of a decode call in the same function and nothing decodes afterwards
			var errV ssa.Value
			if len(e.Site.Common().Args) >= 2 {
				errV = e.Site.Common().Args[1]
			}
			fromDecode := false
			if call, ok := errV.(*ssa.Call); ok && isDecodeInvoke(call) {
				fromDecode = true
			}
			under := errV != nil && core.UnderErrNonNil(e.Site.Block(), errV)
			after := core.ForwardSearch(caller, e.Site, func(ins ssa.Instruction) bool {
				if isDecodeInvoke(ins) {
					return true
				}
				if st, ok := ins.(*ssa.Store); ok {
					if fa, ok := st.Addr.(*ssa.FieldAddr); ok && core.FieldOfAddr(fa).Name() == "next" && !core.IsNilConst(st.Val) {
						return true
					}
				}
				return false
			}, nil)
			if fromDecode && under && after == nil {
				r12.OK(key, p.InstrPos(e.Site), "on the err != nil edge of the decode call; nothing decodes afterwards")
			} else {
				r12.Violate(key, p.InstrPos(e.Site), "final decode error recorded somewhere other than the err != nil edge of the decode call, or decoding continues after it", nil)
			}
		}
	}
	// the err of each driver's decode call must reach ff: err != nil edge calls ff
	for _, fn := range core.SortedFns(p.AllFns) {
		if core.FnPkg(fn) == nil || core.FnPkg(fn).Path() != core.Mod || len(fn.Blocks) == 0 {
			continue
		}
		if fn.Signature.Recv() != nil && (ifaceHasMethod(bi, fn.Name()) || fn.Name() == "Decode") {
			continue
		}
		core.Instrs(fn, func(ins ssa.Instruction) {
			call, ok := ins.(*ssa.Call)
			if !ok || !isDecodeInvoke(ins) {
				return
			}
			key := core.FnKey(fn) + "/decode-error-recorded"
			found := false
			core.Instrs(fn, func(i2 ssa.Instruction) {
				cc := core.CallCommonOf(i2)
				if cc != nil && cc.StaticCallee() == ff && len(cc.Args) >= 2 && cc.Args[1] == ssa.Value(call) && core.UnderErrNonNil(i2.Block(), call) {
					found = true
				}
			})
			// every path from the err != nil edge to a return passes the ff call
			if found {
				for _, ref := range *call.Referrers() {
					bo, ok := ref.(*ssa.BinOp)
					if !ok || !(core.IsNilConst(bo.X) || core.IsNilConst(bo.Y)) {
						continue
					}
					for _, r2 := range *bo.Referrers() {
						iff, ok := r2.(*ssa.If)
						if !ok {
							continue
						}
						idx := 0
						if bo.Op.String() == "==" {
							idx = 1
						}
						nb := iff.Block().Succs[idx]
						isFF := func(i ssa.Instruction) bool {
							cc := core.CallCommonOf(i)
							return cc != nil && cc.StaticCallee() == ff
						}
						if len(nb.Instrs) > 0 && !isFF(nb.Instrs[0]) {
							if esc := core.ForwardSearch(fn, nb.Instrs[0], func(i ssa.Instruction) bool { _, ok := i.(*ssa.Return); return ok }, isFF); esc != nil {
								found = false
							}
						}
					}
				}
			}
			r12.Check(found, key, p.InstrPos(ins), "a returned decode error becomes the final DecodeFailure", "the error returned by the decoder is not recorded as the packet's error layer")
		})
	}
	// (c) decoders: no NextDecoder after SetErrorLayer
	roots := p.Roots()
	nSet := 0
	for _, fn := range core.SortedFns(roots.DecReach) {
		core.Instrs(fn, func(ins ssa.Instruction) {
			cc := core.CallCommonOf(ins)
			if cc == nil || !core.InvokeOn(cc, "PacketBuilder", "SetErrorLayer") {
				return
			}
			nSet++
			nd := core.ForwardSearch(fn, ins, func(i2 ssa.Instruction) bool {
				c2 := core.CallCommonOf(i2)
				return c2 != nil && core.InvokeOn(c2, "PacketBuilder", "NextDecoder")
			}, nil)
			r12.Check(nd == nil, core.FnKey(fn)+"/SetErrorLayer-then-NextDecoder", p.InstrPos(ins), "no chaining after the error layer", "decoder sets the error layer and keeps decoding: the error layer is not the last layer")
		})
	}
	c.Counts["decoders_setting_error_layer_live"] = nSet

	checkC01Rest(c)
}
