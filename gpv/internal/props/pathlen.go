package props

import (
	"fmt"
	"go/token"
	"go/types"
	"strings"

	"golang.org/x/tools/go/ssa"

	"gpv/internal/core"
)

// PATHLEN — path-concrete bounds (R19.13).  Decoders often keep a running
// `offset` that different branches advance by different constants; at the
// merge the offset is a φ and the dominance-based analysis only knows its
// minimum.  Here the paths of a decode root are walked (NILPATH's walker:
// each block once per path, φ resolved by the edge taken, branch conditions as
// consistent atoms); integer expressions built from constants and resolved φs
// are evaluated; every comparison of len(data) with such a value that the path
// passes gives a lower bound on len(data) for this path.  An index or slice
// bound on `data` that evaluates to a constant on the path and exceeds that
// bound is a definite out-of-range access for an input that is exactly as long
// as the path's checks require — unless the path passed a length-related
// condition that could not be evaluated, in which case nothing is claimed.

type plState struct {
	np      *npState
	lenLB   int
	unknown bool
}

type plWalker struct {
	w         *npWalker
	data      *ssa.Parameter
	reports   map[ssa.Instruction]string
	lenFields map[*types.Var]bool
}

func (pw *plWalker) evalInt(v ssa.Value, st *npState, d int) (int64, bool) {
	if d > 10 {
		return 0, false
	}
	v = pw.w.resolve(v, st)
	if k, ok := core.ConstInt(v); ok {
		return k, true
	}
	switch x := v.(type) {
	case *ssa.Convert:
		return pw.evalInt(x.X, st, d+1)
	case *ssa.BinOp:
		a, ok1 := pw.evalInt(x.X, st, d+1)
		b, ok2 := pw.evalInt(x.Y, st, d+1)
		if !ok1 || !ok2 {
			return 0, false
		}
		switch x.Op {
		case token.ADD:
			return a + b, true
		case token.SUB:
			return a - b, true
		case token.MUL:
			return a * b, true
		case token.SHL:
			if b >= 0 && b < 32 {
				return a << uint(b), true
			}
		}
	}
	return 0, false
}

func (pw *plWalker) isData(v ssa.Value) bool {
	for i := 0; i < 4; i++ {
		if ct, ok := v.(*ssa.ChangeType); ok {
			v = ct.X
			continue
		}
		break
	}
	if v == ssa.Value(pw.data) {
		return true
	}
	// the parameter captured by a closure lives in a cell that is stored once
	if ld, ok := v.(*ssa.UnOp); ok && ld.Op == token.MUL {
		if al, ok := ld.X.(*ssa.Alloc); ok {
			return pw.dataCell(al)
		}
	}
	return false
}

func (pw *plWalker) dataCell(al *ssa.Alloc) bool {
	n, ok := 0, false
	for _, ref := range *al.Referrers() {
		if st, isSt := ref.(*ssa.Store); isSt && st.Addr == ssa.Value(al) {
			n++
			if st.Val == ssa.Value(pw.data) {
				ok = true
			}
		}
	}
	return ok && n == 1
}

// closureGuard: err := g(a0, a1) where g is a local closure of the shape
// `if len(data)-p0 < p1 { return error }; return nil` over the captured data.
func (pw *plWalker) closureGuard(v ssa.Value) (a0, a1 ssa.Value, ok bool) {
	call, isCall := v.(*ssa.Call)
	if !isCall || len(call.Call.Args) != 2 {
		return nil, nil, false
	}
	mc, isMC := call.Call.Value.(*ssa.MakeClosure)
	if !isMC {
		return nil, nil, false
	}
	g, isFn := mc.Fn.(*ssa.Function)
	if !isFn || len(g.Params) != 2 || len(g.Blocks) == 0 {
		return nil, nil, false
	}
	// the captured cell must be the data cell
	capt := false
	for _, b := range mc.Bindings {
		if al, isAl := b.(*ssa.Alloc); isAl && pw.dataCell(al) {
			capt = true
		}
	}
	if !capt {
		return nil, nil, false
	}
	iff, isIf := g.Blocks[0].Instrs[len(g.Blocks[0].Instrs)-1].(*ssa.If)
	if !isIf {
		return nil, nil, false
	}
	bo, isB := iff.Cond.(*ssa.BinOp)
	if !isB || bo.Op != token.LSS || bo.Y != ssa.Value(g.Params[1]) {
		return nil, nil, false
	}
	sub, isSub := bo.X.(*ssa.BinOp)
	if !isSub || sub.Op != token.SUB || sub.Y != ssa.Value(g.Params[0]) {
		return nil, nil, false
	}
	if _, isLen := core.IsLen(sub.X); !isLen {
		return nil, nil, false
	}
	// the true branch returns a non-nil error, the false branch nil
	okShape := false
	if ret, isRet := g.Blocks[0].Succs[1].Instrs[len(g.Blocks[0].Succs[1].Instrs)-1].(*ssa.Return); isRet && len(ret.Results) == 1 && core.IsNilConst(ret.Results[0]) {
		okShape = true
	}
	if !okShape {
		return nil, nil, false
	}
	return call.Call.Args[0], call.Call.Args[1], true
}

func (pw *plWalker) lenOfData(v ssa.Value) bool {
	v = core.StripConv(v)
	if s, ok := core.IsLen(v); ok {
		return pw.isData(s)
	}
	// a field in which the function keeps len(data)
	if ld, ok := v.(*ssa.UnOp); ok && ld.Op == token.MUL {
		if fa, ok := ld.X.(*ssa.FieldAddr); ok {
			if f := core.FieldOfAddr(fa); f != nil && pw.lenFields[f] {
				return true
			}
		}
	}
	return false
}

// mentionsLen: the condition involves len(data) somewhere.
func (pw *plWalker) mentionsLen(v ssa.Value, d int) bool {
	if d > 6 {
		return false
	}
	if pw.lenOfData(v) {
		return true
	}
	switch x := v.(type) {
	case *ssa.BinOp:
		return pw.mentionsLen(x.X, d+1) || pw.mentionsLen(x.Y, d+1)
	case *ssa.UnOp:
		return pw.mentionsLen(x.X, d+1)
	case *ssa.Convert:
		return pw.mentionsLen(x.X, d+1)
	case *ssa.Call:
		for _, a := range x.Call.Args {
			if pw.isData(a) {
				return true // a helper that sees the slice may test its length
			}
		}
	}
	return false
}

// lenFact: what cond==truth says about len(data) on this path.
func (pw *plWalker) lenFact(cond ssa.Value, truth bool, st *plState) {
	for {
		if u, ok := cond.(*ssa.UnOp); ok && u.Op == token.NOT {
			cond, truth = u.X, !truth
			continue
		}
		break
	}
	bo, ok := cond.(*ssa.BinOp)
	if !ok {
		if pw.mentionsLen(cond, 0) {
			st.unknown = true
		}
		return
	}
	if (bo.Op == token.NEQ || bo.Op == token.EQL) && (core.IsNilConst(bo.X) || core.IsNilConst(bo.Y)) {
		ev := bo.X
		if core.IsNilConst(bo.X) {
			ev = bo.Y
		}
		if a0, a1, isG := pw.closureGuard(ev); isG {
			isNil := (bo.Op == token.EQL) == truth
			if isNil {
				v0, k0 := pw.evalInt(a0, st.np, 0)
				v1, k1 := pw.evalInt(a1, st.np, 0)
				if k0 && k1 {
					if int(v0+v1) > st.lenLB {
						st.lenLB = int(v0 + v1)
					}
				} else {
					st.unknown = true
				}
			}
			return
		}
	}
	op := bo.Op
	var other ssa.Value
	switch {
	case pw.lenOfData(bo.X):
		other = bo.Y
	case pw.lenOfData(bo.Y):
		other = bo.X
		switch op { // flip
		case token.LSS:
			op = token.GTR
		case token.LEQ:
			op = token.GEQ
		case token.GTR:
			op = token.LSS
		case token.GEQ:
			op = token.LEQ
		}
	default:
		if pw.mentionsLen(cond, 0) {
			st.unknown = true
		}
		return
	}
	if !truth {
		switch op {
		case token.LSS:
			op = token.GEQ
		case token.LEQ:
			op = token.GTR
		case token.GTR:
			op = token.LEQ
		case token.GEQ:
			op = token.LSS
		case token.EQL:
			op = token.NEQ
		case token.NEQ:
			op = token.EQL
		}
	}
	c, known := pw.evalInt(other, st.np, 0)
	if !known {
		// a symbolic bound: it may establish more than we know
		if op == token.GEQ || op == token.GTR || op == token.EQL {
			st.unknown = true
		}
		return
	}
	switch op {
	case token.GEQ, token.EQL:
		if int(c) > st.lenLB {
			st.lenLB = int(c)
		}
	case token.GTR:
		if int(c)+1 > st.lenLB {
			st.lenLB = int(c) + 1
		}
	case token.NEQ:
		if c == 0 && st.lenLB < 1 {
			st.lenLB = 1
		}
	}
}

func (pw *plWalker) walk(b *ssa.BasicBlock, from *ssa.BasicBlock, st *plState) {
	w := pw.w
	if w.capped {
		return
	}
	w.steps++
	if w.steps > 60000 {
		w.capped = true
		return
	}
	if st.np.seen[b] {
		return
	}
	st.np.seen[b] = true
	if from != nil {
		idx := -1
		for i, p := range b.Preds {
			if p == from {
				idx = i
			}
		}
		for _, ins := range b.Instrs {
			ph, ok := ins.(*ssa.Phi)
			if !ok {
				break
			}
			if idx >= 0 {
				st.np.phi[ph] = w.resolve(ph.Edges[idx], st.np)
			}
		}
	}
	for _, ins := range b.Instrs {
		switch x := ins.(type) {
		case *ssa.UnOp:
			if x.Op == token.MUL {
				w.loadEp[x] = st.np.epoch
			}
		case *ssa.Store:
			st.np.epoch++
		case *ssa.IndexAddr:
			if pw.isData(x.X) {
				if _, isK := core.ConstInt(x.Index); !isK {
					if k, ok := pw.evalInt(x.Index, st.np, 0); ok && !st.unknown && int(k)+1 > st.lenLB {
						if _, dup := pw.reports[ins]; !dup {
							pw.reports[ins] = fmt.Sprintf("index %d with only len >= %d established on this path", k, st.lenLB)
						}
						return
					}
				}
			}
		case *ssa.Slice:
			if pw.isData(x.X) && x.High != nil {
				if _, isK := core.ConstInt(x.High); !isK {
					if k, ok := pw.evalInt(x.High, st.np, 0); ok && !st.unknown && int(k) > st.lenLB {
						if _, dup := pw.reports[ins]; !dup {
							pw.reports[ins] = fmt.Sprintf("slice bound %d with only len >= %d established on this path", k, st.lenLB)
						}
						return
					}
				}
			}
		case ssa.CallInstruction:
			cc := x.Common()
			if _, isB := cc.Value.(*ssa.Builtin); !isB {
				st.np.epoch++
			}
		case *ssa.Panic:
			return
		}
	}
	switch t := b.Instrs[len(b.Instrs)-1].(type) {
	case *ssa.If:
		s1 := &plState{np: st.np.clone(), lenLB: st.lenLB, unknown: st.unknown}
		if w.assume(t.Cond, true, s1.np) {
			pw.lenFact(t.Cond, true, s1)
			pw.walk(b.Succs[0], b, s1)
		}
		if w.assume(t.Cond, false, st.np) {
			pw.lenFact(t.Cond, false, st)
			pw.walk(b.Succs[1], b, st)
		}
	case *ssa.Jump:
		pw.walk(b.Succs[0], b, st)
	}
}

// pathLenScan runs PATHLEN over the DecodeFromBytes roots.
func pathLenScan(c *core.Ctx, r *core.Rule) {
	p := c.P
	nFn, nCap := 0, 0
	for _, d := range p.Roots().Dec {
		fn := d.Fn
		if d.Data == nil || len(fn.Blocks) == 0 || strings.HasSuffix(p.Pos(fn.Pos()), "_test.go") {
			continue
		}
		// only functions that index data with a merged (φ-dependent) offset
		interesting := false
		core.Instrs(fn, func(ins ssa.Instruction) {
			var idx ssa.Value
			switch x := ins.(type) {
			case *ssa.IndexAddr:
				if _, isSl := x.X.Type().Underlying().(*types.Slice); isSl {
					idx = x.Index
				}
			case *ssa.Slice:
				if _, isSl := x.X.Type().Underlying().(*types.Slice); isSl {
					idx = x.High
				}
			}
			if idx == nil {
				return
			}
			var dep func(v ssa.Value, k int) bool
			dep = func(v ssa.Value, k int) bool {
				if k > 6 {
					return false
				}
				switch y := v.(type) {
				case *ssa.Phi:
					return true
				case *ssa.BinOp:
					return dep(y.X, k+1) || dep(y.Y, k+1)
				case *ssa.Convert:
					return dep(y.X, k+1)
				}
				return false
			}
			if dep(idx, 0) {
				interesting = true
			}
		})
		if !interesting {
			continue
		}
		nFn++
		w := &npWalker{fn: fn, loadEp: map[*ssa.UnOp]int{}, reports: map[ssa.Instruction]string{}}
		pw := &plWalker{w: w, data: d.Data, reports: map[ssa.Instruction]string{}, lenFields: map[*types.Var]bool{}}
		core.Instrs(fn, func(ins ssa.Instruction) {
			if st, ok := ins.(*ssa.Store); ok {
				if fa, ok := st.Addr.(*ssa.FieldAddr); ok {
					if sl, isLen := core.IsLen(core.StripConv(st.Val)); isLen && sl == ssa.Value(d.Data) {
						pw.lenFields[core.FieldOfAddr(fa)] = true
					}
				}
			}
		})
		st := &plState{np: &npState{atoms: map[npAtom]bool{}, phi: map[*ssa.Phi]ssa.Value{}, lo: map[string]int64{}, hi: map[string]int64{}, ne: map[string]map[int64]bool{}, seen: map[*ssa.BasicBlock]bool{}}, lenLB: d.MinLen}
		pw.walk(fn.Blocks[0], nil, st)
		key := core.FnKey(fn) + "/path-offsets"
		if w.capped {
			nCap++
			r.Undecided(key, p.Pos(fn.Pos()), "too many paths to enumerate")
			continue
		}
		if len(pw.reports) == 0 {
			r.OK(key, p.Pos(fn.Pos()), "on every enumerated path each access at a path-constant offset lies within the length the path's own tests establish")
			continue
		}
		k := 0
		for _, b := range fn.Blocks {
			for _, ins := range b.Instrs {
				if why, ok := pw.reports[ins]; ok {
					k++
					r.Violate(fmt.Sprintf("%s/path-offset#%d", core.FnKey(fn), k), p.InstrPos(ins), "on a path through this decoder the running offset is a known constant and this access is out of range: "+why+" (the branch that advances the offset this way is not covered by a length test of its own); an input of exactly that length panics here", nil)
				}
			}
		}
	}
	c.Counts["pathlen_functions"] = nFn
	c.Counts["pathlen_capped"] = nCap
	if nFn < 5 {
		r.Missing("decode roots with merged offsets", fmt.Sprintf("only %d found", nFn))
	}
}
