package props

// Selftest is filled in by selftest_run.go
func Selftest(args []string) int { return runSelftest(args) }
