package props

import (
	"fmt"
	"go/token"
	"go/types"
	"strings"

	"golang.org/x/tools/go/ssa"

	"gpv/internal/core"
)

func init() { register("C04", checkC04) }

// sliceRoot walks a slice value back through re-slices / conversions.
func sliceRoot(v ssa.Value) ssa.Value {
	for {
		switch x := v.(type) {
		case *ssa.Slice:
			v = x.X
		case *ssa.ChangeType:
			v = x.X
		case *ssa.Convert:
			v = x.X
		default:
			return v
		}
	}
}

// isPoolGet: v derives from (*sync.Pool).Get(load of global g): *typeassert(...)
func poolGetCall(v ssa.Value) *ssa.Call {
	// v = load (load alloc) ... follow loads of local allocs
	for depth := 0; depth < 6; depth++ {
		switch x := v.(type) {
		case *ssa.UnOp:
			if x.Op != token.MUL {
				return nil
			}
			if al, ok := x.X.(*ssa.Alloc); ok {
				// single store
				var val ssa.Value
				n := 0
				for _, ref := range *al.Referrers() {
					if st, ok := ref.(*ssa.Store); ok && st.Addr == ssa.Value(al) {
						val = st.Val
						n++
					}
				}
				if n != 1 {
					return nil
				}
				v = val
				continue
			}
			v = x.X
		case *ssa.TypeAssert:
			v = x.X
		case *ssa.Call:
			if core.StaticName(&x.Call) == "(*sync.Pool).Get" {
				return x
			}
			// a wrapper all of whose returns are the pool's Get result is the pool's Get
			if f := x.Call.StaticCallee(); f != nil && depth < 3 {
				if inner := pureGetWrapper(f); inner != nil {
					return inner
				}
			}
			return nil
		default:
			return nil
		}
	}
	return nil
}

// pureGetWrapper: every return of f yields (a type assertion of) (*sync.Pool).Get and nothing else.
func pureGetWrapper(f *ssa.Function) *ssa.Call {
	if len(f.Blocks) == 0 || f.Signature.Results().Len() != 1 {
		return nil
	}
	var inner *ssa.Call
	for _, r := range core.Returns(f) {
		g := poolGetCall(core.RetOperand(r, 0))
		if g == nil {
			return nil
		}
		inner = g
	}
	return inner
}

func checkC04(c *core.Ctx) {
	p := c.P
	c.Explain = "Structural clauses of the data-ownership contract, decided on NewPacket/Dispose in packet.go: (R4.1) on every edge where NoCopy is false the bytes stored as the packet's data are rooted at a fresh make or at a pool block, never at the caller's slice, have exactly len(data) bytes, and a copy(dst, data) precedes their use; with NoCopy set the caller's slice itself is used; (R4.2) the pool's Get is called only by NewPacket and Put only by Dispose with the block recorded at construction, which is the block obtained by Get; (R4.3) the length guard of the pooled branch is at most the block size the pool allocates; (R4.4) NoCopy and Pool are read only by NewPacket and the PacketsCtx guard. Not decided: schedules of Get/Put inside sync.Pool, double Dispose by the user, equality of decoded results as values (see C02 for the write-effect side)."
	r1 := c.Rule("R4.1", "T", "copy isolates: on NoCopy=false edges data is a fresh or pooled copy of exactly len(data) bytes; on NoCopy=true the input itself")
	r2 := c.Rule("R4.2", "T", "pool ownership: Get only in NewPacket, Put only in Dispose with the block recorded at construction")
	r3 := c.Rule("R4.3", "T", "pooled-branch length guard ≤ pool block size")
	r4 := c.Rule("R4.4", "T", "who may read NoCopy / Pool")

	inputNeverWritten(c, c.Rule("R4.6", "T", "decode code never writes the bytes it is given (= R2.2): under NoCopy they are the caller's buffer, so a write there — including an append into spare capacity behind the packet — makes NoCopy differ from default decoding"), effects(p))
	r5 := c.Rule("R4.5", "T", "decoders see exactly len(data) bytes: no decode-reachable function extends a byte slice it was given past its length (s[:cap(s)], s[:len(s)+k])")
	noSliceExtension(c, r5)

	np := p.Func("", "NewPacket")
	if np == nil {
		r1.Missing("NewPacket", "not found")
		return
	}
	var dataParam ssa.Value
	for _, pa := range np.Params {
		if pa.Name() == "data" || dataParam == nil && isByteSliceT(pa) {
			dataParam = pa
		}
	}
	// stores into packet.data
	var dataStores []*ssa.Store
	core.Instrs(np, func(ins ssa.Instruction) {
		if st, ok := ins.(*ssa.Store); ok {
			if fa, ok := st.Addr.(*ssa.FieldAddr); ok && core.FieldOfAddr(fa).Name() == "data" && core.NamedIs(fa.X.Type(), "packet") {
				dataStores = append(dataStores, st)
			}
		}
	})
	if len(dataStores) < 2 {
		r1.Missing("NewPacket/packet.data", "expected the data field to be stored for both packet kinds")
	}
	noCopyTruth := func(b *ssa.BasicBlock) (bool, bool) {
		for _, dc := range core.DomConds(b) {
			if _, ok := core.LoadsField(dc.V, "NoCopy"); ok {
				return dc.Truth, true
			}
		}
		return false, false
	}
	var guardConst int64 = -1
	var poolGlobal *ssa.Global
	checked := map[ssa.Value]bool{}
	for _, st := range dataStores {
		v := st.Val
		if checked[v] {
			continue
		}
		checked[v] = true
		ph, ok := v.(*ssa.Phi)
		if !ok {
			// a single value: must be decided by the block's own conditions
			if t, ok := noCopyTruth(st.Block()); ok && !t {
				checkCopyEdge(c, r1, np, st.Block(), v, dataParam, "single", &guardConst, &poolGlobal)
			} else if v == dataParam {
				r1.Violate("gopacket.NewPacket/data-unconditional-alias", p.InstrPos(st), "the packet stores the caller's slice regardless of NoCopy", nil)
			} else {
				r1.Undecided("gopacket.NewPacket/data", p.InstrPos(st), "data value not a phi over the NoCopy branches")
			}
			continue
		}
		for i, e := range ph.Edges {
			pred := ph.Block().Preds[i]
			t, known := noCopyTruth(pred)
			if !known {
				// the edge straight from the block holding the NoCopy test
				if core.IfOnField(pred, "NoCopy") {
					t, known = pred.Succs[0] == ph.Block(), true
				}
			}
			if !known {
				r1.Undecided("gopacket.NewPacket/data-edge", p.InstrPos(st), "edge not under a NoCopy test")
				continue
			}
			if t {
				r1.Check(e == dataParam, "gopacket.NewPacket/nocopy-edge", p.InstrPos(st), "NoCopy: the input slice itself becomes the packet data", "with NoCopy set the packet data is not the caller's slice")
				continue
			}
			name := "fresh"
			if poolGetCall(sliceRoot(e)) != nil {
				name = "pooled"
			}
			checkCopyEdge(c, r1, np, pred, e, dataParam, name, &guardConst, &poolGlobal)
		}
	}

	// ---- R4.2
	if poolGlobal == nil {
		r2.Missing("pool", "no pooled branch found in NewPacket")
	} else {
		nGet, nPut := 0, 0
		disp := p.Func("", "pooledPacket.Dispose")
		for _, fn := range core.SortedFns(p.AllFns) {
			if !p.InModule(fn) {
				continue
			}
			core.Instrs(fn, func(ins ssa.Instruction) {
				cc := core.CallCommonOf(ins)
				if cc == nil {
					return
				}
				name := core.StaticName(cc)
				if name != "(*sync.Pool).Get" && name != "(*sync.Pool).Put" {
					return
				}
				a, ok := core.IsLoad(cc.Args[0])
				if !ok || a != ssa.Value(poolGlobal) {
					return
				}
				if name == "(*sync.Pool).Get" {
					nGet++
					okFn := fn == np
					if !okFn && pureGetWrapper(fn) != nil {
						// a plain wrapper of Get, used by NewPacket only
						okFn = true
						if n := p.CG(false).Nodes[fn]; n != nil {
							for _, e := range n.In {
								if e.Caller.Func != np {
									okFn = false
								}
							}
						}
					}
					r2.Check(okFn, core.FnKey(fn)+"/pool.Get", p.InstrPos(ins), "Get in NewPacket (or in a plain wrapper only NewPacket calls)", "packet pool blocks are taken outside NewPacket")
					return
				}
				nPut++
				if fn != disp {
					r2.Violate(core.FnKey(fn)+"/pool.Put", p.InstrPos(ins), "a block is returned to the packet pool outside Dispose (two live packets may then share it)", nil)
					return
				}
				// arg is MakeInterface(load/field origData of receiver)
				okArg := false
				if mi, ok := cc.Args[1].(*ssa.MakeInterface); ok {
					switch x := mi.X.(type) {
					case *ssa.Field:
						okArg = core.FieldOfVal(x).Name() == "origData"
					case *ssa.UnOp:
						if fa, ok := x.X.(*ssa.FieldAddr); ok {
							okArg = core.FieldOfAddr(fa).Name() == "origData"
						}
					}
				}
				// exactly one Put per Dispose path (no loop, single site)
				again := core.ForwardSearch(fn, ins, func(i ssa.Instruction) bool { return i == ins }, nil) != nil
				r2.Check(okArg && !again, core.FnKey(fn)+"/pool.Put", p.InstrPos(ins), "Dispose puts back the block recorded at construction, once", "Dispose does not put back exactly the block recorded in the packet")
				// once the block is in the pool another goroutine may own it: no byte memory is written afterwards
				late := core.ForwardSearch(fn, ins, func(i ssa.Instruction) bool {
					if i == ins {
						return false
					}
					isBytes := func(v ssa.Value) bool {
						t := v.Type().Underlying()
						if pt, ok := t.(*types.Pointer); ok {
							t = pt.Elem().Underlying()
						}
						switch u := t.(type) {
						case *types.Slice:
							b, ok := u.Elem().Underlying().(*types.Basic)
							return ok && b.Kind() == types.Uint8
						case *types.Array:
							b, ok := u.Elem().Underlying().(*types.Basic)
							return ok && b.Kind() == types.Uint8
						}
						return false
					}
					switch x := i.(type) {
					case *ssa.Store:
						if ia, ok := x.Addr.(*ssa.IndexAddr); ok && isBytes(ia.X) {
							return true
						}
					case ssa.CallInstruction:
						cc2 := x.Common()
						if bi, ok := cc2.Value.(*ssa.Builtin); ok {
							switch bi.Name() {
							case "clear", "copy", "append":
								return len(cc2.Args) > 0 && isBytes(cc2.Args[0])
							}
						}
					}
					return false
				}, nil)
				r2.Check(late == nil, core.FnKey(fn)+"/nothing-written-after-Put", p.InstrPos(ins), "no byte memory is written after the block went back to the pool", "byte memory is written after the block was handed back to the pool: by then another goroutine's NewPacket may already have taken the block and copied its packet into it, so a live packet's bytes are overwritten")
			})
		}
		if nGet == 0 || nPut == 0 {
			r2.Missing("pool Get/Put", "expected one Get and one Put site")
		}
		// origData is stored only from the Get result of this NewPacket call
		nStore := 0
		for _, fn := range core.SortedFns(p.AllFns) {
			if !p.InModule(fn) {
				continue
			}
			for _, st := range storesToField(fn, "pooledPacket", "origData") {
				nStore++
				ok := false
				// inside the deferred closure of NewPacket: value is load of freevar bound to the poolMemory alloc
				if fn.Parent() == np {
					if ld, okL := st.Val.(*ssa.UnOp); okL {
						if fv, okF := ld.X.(*ssa.FreeVar); okF {
							// binding
							for _, ref := range *fnClosureSites(np, fn) {
								for bi, bnd := range ref.Bindings {
									if fn.FreeVars[bi] == fv {
										if al, okA := bnd.(*ssa.Alloc); okA {
											// stores to al: only the Get result
											good := true
											cnt := 0
											for _, r2 := range *al.Referrers() {
												if s2, okS := r2.(*ssa.Store); okS && s2.Addr == ssa.Value(al) {
													cnt++
													if poolGetCall(s2.Val) == nil {
														good = false
													}
												}
											}
											ok = good && cnt >= 1
											// the closure is set up only after the block was taken: every store of the
											// block into the cell dominates the closure's creation
											for _, r2 := range *al.Referrers() {
												if s2, okS := r2.(*ssa.Store); okS && s2.Addr == ssa.Value(al) {
													if !core.Dominates(s2, ref) {
														ok = false
													}
												}
											}
										}
									}
								}
							}
						}
					}
				}
				r2.Check(ok, core.FnKey(fn)+"/origData", p.InstrPos(st), "origData is the block this NewPacket call took from the pool", "origData is not (on every path that builds a pooled packet) the block obtained by this call's pool.Get: a pooled packet can be built with no block, and its Dispose then puts nil into the pool, which the next pooled decode dereferences")
			}
		}
		if nStore == 0 {
			r2.Missing("pooledPacket.origData", "never stored")
		}
	}

	// ---- R4.3
	if poolGlobal != nil && guardConst >= 0 {
		// find MakeSlice in the pool's New closure
		var blockSize int64 = -1
		for _, fn := range core.SortedFns(p.AllFns) {
			if core.FnPkg(fn) == nil || core.FnPkg(fn).Path() != core.Mod || fn.Parent() == nil || fn.Parent().Name() != "init" {
				continue
			}
			// closure stored in a sync.Pool literal assigned to poolGlobal: approximate by "closure of init returning &make([]byte, C)"
			core.Instrs(fn, func(ins ssa.Instruction) {
				if k, ok := constMakeLen(ins); ok && poolNewOf(p, poolGlobal, fn) {
					blockSize = k
				}
			})
		}
		if blockSize < 0 {
			r3.Missing("pool.New", "block size of the packet pool not found")
		} else {
			r3.Check(guardConst <= blockSize, "gopacket.NewPacket/pool-guard", p.Pos(np.Pos()), "len(data) <= guard constant <= block size", "the pooled branch admits inputs larger than the pool's blocks (slice out of range => every such packet becomes a DecodeFailure / panic)")
			c.Counts["pool_guard_const"] = int(guardConst)
			c.Counts["pool_block_size"] = int(blockSize)
		}
	} else {
		r3.Missing("pool guard", "no constant length guard on the pooled branch")
	}

	// ---- R4.4
	pctx := p.Func("", "PacketSource.PacketsCtx")
	for _, name := range []string{"NoCopy", "Pool"} {
		rd := fieldReaders(p, "DecodeOptions", name)
		n := 0
		for _, fn := range core.SortedFns(fnSet(rd)) {
			k := core.FnKey(fn)
			if len(k) > 9 && k[:9] == "examples/" {
				continue
			}
			n++
			ok := fn == np || (name == "NoCopy" && fn == pctx)
			r4.Check(ok, k+"/reads:"+name, p.InstrPos(rd[fn][0]), "designated reader", "DecodeOptions."+name+" is consulted outside NewPacket / the PacketsCtx guard: the decoded result may depend on where the bytes live")
		}
		if n == 0 {
			r4.Missing("DecodeOptions."+name, "no reader found")
		}
	}
}

func isByteSliceT(v ssa.Value) bool {
	return core.IsByteSlice(v.Type())
}

// fnClosureSites returns the MakeClosure instructions in parent creating fn.
func fnClosureSites(parent, fn *ssa.Function) *[]*ssa.MakeClosure {
	var out []*ssa.MakeClosure
	core.Instrs(parent, func(ins ssa.Instruction) {
		if mc, ok := ins.(*ssa.MakeClosure); ok && mc.Fn == ssa.Value(fn) {
			out = append(out, mc)
		}
	})
	return &out
}

// poolNewOf: closure fn is the New field of the sync.Pool stored into global g
// by the package initialiser.
func poolNewOf(p *core.Prog, g *ssa.Global, fn *ssa.Function) bool {
	init := fn.Parent()
	found := false
	core.Instrs(init, func(ins ssa.Instruction) {
		st, ok := ins.(*ssa.Store)
		if !ok {
			return
		}
		fa, ok := st.Addr.(*ssa.FieldAddr)
		if !ok || core.FieldOfAddr(fa).Name() != "New" {
			return
		}
		fnv := st.Val
		if mc, ok := fnv.(*ssa.MakeClosure); ok {
			fnv = mc.Fn
		}
		if fnv != ssa.Value(fn) {
			return
		}
		// fa.X (the pool alloc) is stored into g
		for _, ref := range *fa.X.Referrers() {
			if s2, ok := ref.(*ssa.Store); ok && s2.Addr == ssa.Value(g) && s2.Val == fa.X {
				found = true
			}
		}
	})
	return found
}

// checkCopyEdge: value e reaches packet.data on an edge where NoCopy is false.
func checkCopyEdge(c *core.Ctx, r *core.Rule, np *ssa.Function, pred *ssa.BasicBlock, e, dataParam ssa.Value, name string, guardConst *int64, poolGlobal **ssa.Global) {
	checkCopyEdgeDst(c, r, np, pred, e, e, dataParam, name, guardConst, poolGlobal)
}

// checkCopyEdgeDst: e is the buffer on this edge; copyDst is the value the
// copy(dst, data) call may name (e itself, or a phi merging e with the other buffer kind).
func checkCopyEdgeDst(c *core.Ctx, r *core.Rule, np *ssa.Function, pred *ssa.BasicBlock, e, copyDst, dataParam ssa.Value, name string, guardConst *int64, poolGlobal **ssa.Global) {
	p := c.P
	if ph, ok := e.(*ssa.Phi); ok && e != dataParam {
		// the two buffer kinds are merged before the copy: check each incoming buffer
		for i, inner := range ph.Edges {
			nm := "fresh"
			if poolGetCall(sliceRoot(inner)) != nil {
				nm = "pooled"
			}
			checkCopyEdgeDst(c, r, np, ph.Block().Preds[i], inner, ph, dataParam, nm, guardConst, poolGlobal)
		}
		return
	}
	key := "gopacket.NewPacket/copy-edge:" + name
	site := p.Pos(np.Pos())
	if len(pred.Instrs) > 0 {
		site = p.InstrPos(pred.Instrs[len(pred.Instrs)-1])
	}
	root := sliceRoot(e)
	if root == dataParam || e == dataParam {
		r.Violate(key, site, "with NoCopy unset the packet keeps the caller's slice: later writes to the input change the packet", nil)
		return
	}
	lenOK := false
	switch x := root.(type) {
	case *ssa.MakeSlice:
		if s, ok := core.IsLen(x.Len); ok && s == dataParam {
			lenOK = true
		}
	default:
		if call := poolGetCall(root); call != nil {
			if a, ok := core.IsLoad(call.Call.Args[0]); ok {
				if g, ok := a.(*ssa.Global); ok {
					*poolGlobal = g
				}
			}
			if sl, ok := e.(*ssa.Slice); ok && sl.Low == nil && sl.High != nil {
				if s, ok := core.IsLen(sl.High); ok && s == dataParam {
					lenOK = true
				}
			}
			// the guard constant: a dominating len(data) <= C
			for _, dc := range core.DomConds(pred) {
				if bo, ok := dc.V.(*ssa.BinOp); ok && dc.Truth {
					if s, ok := core.IsLen(bo.X); ok && s == dataParam {
						if k, ok := core.ConstInt(bo.Y); ok {
							switch bo.Op {
							case token.LEQ:
								*guardConst = k
							case token.LSS:
								*guardConst = k - 1
							}
						}
					}
				}
			}
			if *guardConst < 0 {
				r.Violate(key+"/guard", site, "pooled copy is not guarded by a constant bound on len(data)", nil)
			}
		} else {
			r.Violate(key, site, "copy destination is neither a fresh make nor a pool block", nil)
			return
		}
	}
	if !lenOK {
		r.Violate(key+"/length", site, "the copy does not have exactly len(data) bytes", nil)
		return
	}
	// copy(e, data) dominates the edge
	copied := false
	core.Instrs(np, func(ins ssa.Instruction) {
		if nm, cc := core.BuiltinCall(ins); nm == "copy" && (cc.Args[0] == e || cc.Args[0] == copyDst) && cc.Args[1] == dataParam {
			if ins.Block() == pred || ins.Block().Dominates(pred) {
				copied = true
			}
			// a copy into the merged buffer: it must lie on every path from the merge to the packet construction
			if cc.Args[0] == copyDst && copyDst != e {
				if ph, ok := copyDst.(*ssa.Phi); ok && (ins.Block() == ph.Block() || ph.Block().Dominates(ins.Block())) && storesDominatedBy(np, ins) {
					copied = true
				}
			}
		}
	})
	if !copied {
		r.Violate(key+"/copied", site, "the bytes are not copied into the packet's own buffer before use", nil)
		return
	}
	r.OK(key, site, "data := "+name+" buffer of len(data) bytes, filled by copy(dst, data)")
}

// constMakeLen: ins creates a []byte of constant length (make([]byte, C) is
// lowered by go/ssa to new [C]byte + slice when C is constant).
func constMakeLen(ins ssa.Instruction) (int64, bool) {
	switch x := ins.(type) {
	case *ssa.MakeSlice:
		if isByteSliceT(x) {
			return core.ConstInt(x.Len)
		}
	case *ssa.Slice:
		if al, ok := x.X.(*ssa.Alloc); ok && al.Comment == "makeslice" && isByteSliceT(x) {
			if x.High != nil {
				return core.ConstInt(x.High)
			}
		}
	}
	return 0, false
}

// storesDominatedBy: every store of the packet's data field in np is dominated by ins
// or lies on a NoCopy edge (handled separately by the edge analysis: the stored value is a phi).
func storesDominatedBy(np *ssa.Function, ins ssa.Instruction) bool {
	ok := true
	core.Instrs(np, func(i ssa.Instruction) {
		st, isSt := i.(*ssa.Store)
		if !isSt {
			return
		}
		fa, isF := st.Addr.(*ssa.FieldAddr)
		if !isF || core.FieldOfAddr(fa).Name() != "data" {
			return
		}
		// the stored value mentions the copied buffer only through a phi whose other edge is the NoCopy input;
		// the copy must dominate the phi's incoming edge block for the copied buffer
		if ph, isPhi := st.Val.(*ssa.Phi); isPhi {
			for k, e := range ph.Edges {
				if _, isInner := e.(*ssa.Phi); isInner || e != nil {
					pred := ph.Block().Preds[k]
					cc := core.CallCommonOf(ins)
					if cc != nil && len(cc.Args) > 0 && e == cc.Args[0] {
						if !(ins.Block() == pred || ins.Block().Dominates(pred)) {
							ok = false
						}
					}
				}
			}
		}
	})
	return ok
}

// noSliceExtension (R4.5 = R2.8): no decode-reachable function re-slices a
// byte slice it did not make itself up to its capacity or beyond its length;
// the bound is followed through conversions, additions and merges.
func noSliceExtension(c *core.Ctx, r5 *core.Rule) {
	p := c.P
	{
		roots := p.Roots()
		nSl, nPos := 0, 0
		for _, fn := range core.SortedFns(roots.DecReach) {
			if fn.Pkg == nil || strings.HasSuffix(p.Pos(fn.Pos()), "_test.go") {
				continue
			}
			k := 0
			core.Instrs(fn, func(ins ssa.Instruction) {
				sl, ok := ins.(*ssa.Slice)
				if !ok || !core.IsByteSlice(sl.X.Type()) {
					return
				}
				nSl++
				if sl.High == nil {
					return
				}
				beyond := ""
				var scan func(v ssa.Value, d int)
				scan = func(v ssa.Value, d int) {
					if d > 6 {
						return
					}
					switch x := v.(type) {
					case *ssa.Convert:
						scan(x.X, d+1)
					case *ssa.Phi:
						for _, e := range x.Edges {
							scan(e, d+1)
						}
					case *ssa.BinOp:
						if x.Op == token.ADD {
							for _, pair := range [][2]ssa.Value{{x.X, x.Y}, {x.Y, x.X}} {
								if of, isL := core.IsLen(pair[0]); isL && of == sl.X {
									if kk, ok := core.ConstFold(pair[1]); !ok || kk > 0 {
										beyond = "len(s)+k"
									}
								}
							}
						}
						scan(x.X, d+1)
						scan(x.Y, d+1)
					case *ssa.Call:
						if nm, cc := core.BuiltinCall(x); nm == "cap" && core.IsByteSlice(cc.Args[0].Type()) {
							beyond = "cap(s)"
						}
					}
				}
				scan(sl.High, 0)
				if beyond == "" {
					return
				}
				// provenance: a slice the function made itself is its own to extend
				root := sl.X
				for i := 0; i < 8; i++ {
					switch y := root.(type) {
					case *ssa.Slice:
						root = y.X
						continue
					case *ssa.ChangeType:
						root = y.X
						continue
					}
					break
				}
				switch root.(type) {
				case *ssa.MakeSlice, *ssa.Alloc:
					return
				}
				nPos++
				k++
				key := core.FnKey(fn) + "/extends-slice"
				if k > 1 {
					key += "#" + string(rune('0'+k))
				}
				r5.Violate(key, p.InstrPos(ins), "the slice is re-sliced up to "+beyond+": bytes behind the packet in the caller's buffer (NoCopy) or stale bytes of the pool block (Pool) take part in decoding, so the result differs from default decoding of the same bytes; elements behind a reused layer's slice likewise expose an earlier packet's values", nil)
			})
		}
		c.Counts["decode_reachable_byte_slices"] = nSl
		if nSl < 500 {
			r5.Missing("decode/slices", fmt.Sprintf("only %d byte-slice expressions seen in decode-reachable code", nSl))
		}
		if nPos == 0 {
			r5.OK("decode/no-extension", "", fmt.Sprintf("%d byte-slice expressions in decode-reachable code, none extends past len", nSl))
		}
	}
}
