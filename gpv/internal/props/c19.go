package props

import (
	"fmt"
	"sort"
	"strings"

	"golang.org/x/tools/go/ssa"

	"gpv/internal/core"
	"gpv/internal/guard"
)

func init() { register("C19", checkC19) }

// siteKey: rule-independent, line-free identifier of a site.
func siteKey(p *core.Prog, s *guard.Site, ord int) string {
	sl := "v"
	if pa, ok := s.Slice.(*ssa.Parameter); ok {
		sl = pa.Name()
	} else if pa, ok := s.Root.(*ssa.Parameter); ok {
		sl = pa.Name() + "…"
	}
	k := fmt.Sprintf("%s/%s%s", core.FnKey(s.Fn), sl, s.What)
	if ord > 1 {
		k += fmt.Sprintf("#%d", ord)
	}
	return k
}

// guardOverRoots runs GUARD on every decode root and reports definite sites.
func guardOverRoots(c *core.Ctx, r *core.Rule) {
	p := c.P
	roots := p.Roots()
	classCount := map[string]int{}
	nFns := 0
	for _, d := range roots.Dec {
		nFns++
		sites := guard.Analyze(d.Fn, &guard.RootInfo{Data: d.Data, MinLen: d.MinLen})
		sort.SliceStable(sites, func(i, j int) bool { return sites[i].Ins.Pos() < sites[j].Ins.Pos() })
		seen := map[string]int{}
		for i := range sites {
			s := &sites[i]
			cls := s.Class
			if strings.HasPrefix(cls, "UNK") || strings.HasPrefix(cls, "CAND") {
				classCount["unknown"]++
			} else {
				classCount[cls]++
			}
			base := siteKey(p, s, 1)
			seen[base]++
			key := siteKey(p, s, seen[base])
			switch {
			case s.Class == "SAFE":
				r.OK(key, p.InstrPos(s.Ins), fmt.Sprintf("need len>=%d, have >=%d", s.Need, s.Have))
			case s.Class == "DEF":
				wl := s.Have
				if wl < d.MinLen {
					wl = d.MinLen
				}
				r.Violate(key, p.InstrPos(s.Ins), fmt.Sprintf("%s needs len >= %d but the dominating guards only establish >= %d (%s); an input of %d bytes reaching this site panics", s.What, s.Need, s.Have, s.Why, wl),
					map[string]any{"need_len": s.Need, "have_len": s.Have, "guards_on_path": s.Guards, "root": d.Kind, "witness_len": wl,
						"how_to_see_it": "call " + core.FnKey(d.Fn) + " (directly, or NewPacket with SkipDecodeRecovery) on an input of witness_len bytes that satisfies the content conditions on the path to " + p.InstrPos(s.Ins)})
			default:
				r.Undecided(key, p.InstrPos(s.Ins), s.Class+": "+s.Why)
			}
		}
	}
	c.Counts["decode_roots"] = nFns
	for k, v := range classCount {
		c.Counts["sites_"+k] = v
	}
}

func checkC19(c *core.Ctx) {
	c.Explain = "GUARD (DESIGN.md 3.2) over every decode root (DecodeFromBytes of each DecodingLayer and every function converted to DecodeFunc; `data` arbitrary, minimum length 0, or 1 for decoders only ever chained through NextDecoder): each constant-offset index, slice and binary.UintNN site on bytes descending from `data` is classified safe / definite / unknown from the dominating length guards (constant and symbolic, with load value-numbering, integer lower bounds and loop phis); only *definite* sites — complete knowledge of the guards and a minimum reachable length below the requirement — are violations, each with a witness length. Decides: no fixed-offset read of packet bytes without a sufficient dominating length check. Does not decide: sites classified unknown (count in coverage.counts), variable-offset arithmetic, panics inside the standard library, loop termination beyond R19.3."
	r1 := c.Rule("R19.1", "D", "no definite out-of-range constant-offset access to attacker-chosen bytes in a decode root")
	guardOverRoots(c, r1)
}
