package props

import (
	"fmt"
	"sort"
	"strings"

	"golang.org/x/tools/go/ssa"

	"gpv/internal/core"
	"gpv/internal/guard"
)

func init() { register("C19", checkC19) }

// siteKey: rule-independent, line-free identifier of a site.
func siteKey(p *core.Prog, s *guard.Site, ord int) string {
	sl := "v"
	if pa, ok := s.Slice.(*ssa.Parameter); ok {
		sl = pa.Name()
	} else if pa, ok := s.Root.(*ssa.Parameter); ok {
		sl = pa.Name() + "…"
	}
	k := fmt.Sprintf("%s/%s%s", core.FnKey(s.Fn), sl, s.What)
	if ord > 1 {
		k += fmt.Sprintf("#%d", ord)
	}
	return k
}

// guardOverRoots runs GUARD on every decode root and reports definite sites.
func guardOverRoots(c *core.Ctx, r *core.Rule) {
	p := c.P
	roots := p.Roots()
	classCount := map[string]int{}
	nFns := 0
	for _, d := range roots.Dec {
		nFns++
		sites := guard.Analyze(d.Fn, &guard.RootInfo{Data: d.Data, MinLen: d.MinLen})
		sort.SliceStable(sites, func(i, j int) bool { return sites[i].Ins.Pos() < sites[j].Ins.Pos() })
		seen := map[string]int{}
		for i := range sites {
			s := &sites[i]
			cls := s.Class
			if strings.HasPrefix(cls, "UNK") || strings.HasPrefix(cls, "CAND") {
				classCount["unknown"]++
			} else {
				classCount[cls]++
			}
			base := siteKey(p, s, 1)
			seen[base]++
			key := siteKey(p, s, seen[base])
			switch {
			case s.Class == "SAFE":
				r.OK(key, p.InstrPos(s.Ins), fmt.Sprintf("need len>=%d, have >=%d", s.Need, s.Have))
			case s.Class == "DEF":
				wl := s.Have
				if wl < d.MinLen {
					wl = d.MinLen
				}
				msg := fmt.Sprintf("%s needs len >= %d but the dominating guards only establish >= %d (%s); an input of %d bytes reaching this site panics", s.What, s.Need, s.Have, s.Why, wl)
				if strings.Contains(s.What, "offset") {
					msg = fmt.Sprintf("%s: %s; an input that ends exactly where the guard is satisfied panics here", s.What, s.Why)
				}
				r.Violate(key, p.InstrPos(s.Ins), msg,
					map[string]any{"need_len": s.Need, "have_len": s.Have, "guards_on_path": s.Guards, "root": d.Kind, "witness_len": wl,
						"how_to_see_it": "call " + core.FnKey(d.Fn) + " (directly, or NewPacket with SkipDecodeRecovery) on an input of witness_len bytes that satisfies the content conditions on the path to " + p.InstrPos(s.Ins)})
			default:
				r.Undecided(key, p.InstrPos(s.Ins), s.Class+": "+s.Why)
			}
		}
	}
	c.Counts["decode_roots"] = nFns
	for k, v := range classCount {
		c.Counts["sites_"+k] = v
	}
}

// guardHelpers (R19.2): a helper's requirement on its byte-slice parameter
// becomes an obligation of its callers.  A helper is analysed with the
// smallest length any caller can pass, provided every call site passes bytes
// whose provenance is arbitrary and completely understood.
func guardHelpers(c *core.Ctx, r *core.Rule) {
	p := c.P
	roots := p.Roots()
	g := p.CG(false)
	type pinfo struct {
		data *ssa.Parameter
		min  int
		ok   bool
		path string
	}
	info := map[*ssa.Function]*pinfo{}
	for i := range roots.Dec {
		d := &roots.Dec[i]
		info[d.Fn] = &pinfo{data: d.Data, min: d.MinLen, ok: true, path: core.FnKey(d.Fn)}
	}
	nHelpers, nSites := 0, 0
	for round := 0; round < 3; round++ {
		for _, fn := range core.SortedFns(roots.DecReach) {
			if info[fn] != nil || len(fn.Blocks) == 0 || fn.Synthetic != "" {
				continue
			}
			var q *ssa.Parameter
			qi := -1
			for i, pa := range fn.Params {
				if core.IsByteSlice(pa.Type()) {
					q, qi = pa, i
					break
				}
			}
			if q == nil {
				continue
			}
			n := g.Nodes[fn]
			if n == nil || len(n.In) == 0 {
				continue
			}
			min := 1 << 30
			all := true
			path := ""
			for _, e := range n.In {
				ci := info[e.Caller.Func]
				if ci == nil || !ci.ok || e.Site == nil {
					all = false
					break
				}
				cc := e.Site.Common()
				args := cc.Args
				if cc.IsInvoke() {
					all = false
					break
				}
				if qi >= len(args) {
					all = false
					break
				}
				have, arb := guard.ArgInfo(e.Caller.Func, &guard.RootInfo{Data: ci.data, MinLen: ci.min}, args[qi], e.Site.Block())
				if !arb {
					all = false
					break
				}
				if have < min {
					min = have
					path = ci.path + " -> " + core.FnKey(fn) + " (called at " + p.InstrPos(e.Site) + " with >= " + fmt.Sprint(have) + " bytes)"
				}
			}
			if !all {
				continue
			}
			info[fn] = &pinfo{data: q, min: min, ok: true, path: path}
			nHelpers++
			sites := guard.Analyze(fn, &guard.RootInfo{Data: q, MinLen: min})
			sort.SliceStable(sites, func(i, j int) bool { return sites[i].Ins.Pos() < sites[j].Ins.Pos() })
			seen := map[string]int{}
			for i := range sites {
				s := &sites[i]
				nSites++
				base := siteKey(p, s, 1)
				seen[base]++
				key := siteKey(p, s, seen[base])
				switch s.Class {
				case "SAFE":
					r.OK(key, p.InstrPos(s.Ins), fmt.Sprintf("need len>=%d, have >=%d", s.Need, s.Have))
				case "DEF":
					r.Violate(key, p.InstrPos(s.Ins), fmt.Sprintf("%s needs len >= %d but callers pass as few as %d bytes and no guard inside the helper establishes more (%s); call path: %s", s.What, s.Need, s.Have, s.Why, path), map[string]any{"need_len": s.Need, "have_len": s.Have, "call_path": path})
				default:
					r.Undecided(key, p.InstrPos(s.Ins), s.Class+": "+s.Why)
				}
			}
		}
	}
	c.Counts["helpers_with_arbitrary_callers"] = nHelpers
	c.Counts["helper_sites"] = nSites
	// functions whose callers are not all understood: only what follows from the function's own
	// length test is reported (the test covers a proper prefix of what is then accessed)
	nB := 0
	for _, fn := range core.SortedFns(roots.DecReach) {
		if info[fn] != nil || len(fn.Blocks) == 0 || fn.Synthetic != "" || !p.InModule(fn) {
			continue
		}
		var q *ssa.Parameter
		for _, pa := range fn.Params {
			if core.IsByteSlice(pa.Type()) {
				q = pa
				break
			}
		}
		if q == nil {
			continue
		}
		k := 0
		for _, s := range guard.Analyze(fn, &guard.RootInfo{Data: q, MinLen: 0}) {
			if s.Class == "DEF" && s.Belief {
				nB++
				k++
				r.Violate(fmt.Sprintf("%s/own-guard-covers-prefix#%d", core.FnKey(fn), k), p.InstrPos(s.Ins), s.What+": "+s.Why+"; the function itself tests the length, so it does not rely on its callers for it", nil)
			}
		}
	}
	c.Counts["belief_sites"] = nB
}

// loopProgress (R19.3): a loop over packet bytes whose per-iteration advance is
// taken from the packet and may be zero re-parses the same bytes forever.
func loopProgress(c *core.Ctx, r *core.Rule) {
	p := c.P
	roots := p.Roots()
	n := 0
	for _, fn := range core.SortedFns(roots.DecReach) {
		if len(fn.Blocks) == 0 || fn.Synthetic != "" || core.FnPkg(fn) == nil || core.FnPkg(fn).Path() != core.Mod+"/layers" {
			continue
		}
		var ri *guard.RootInfo
		if d := roots.DecByFn[fn]; d != nil {
			ri = &guard.RootInfo{Data: d.Data, MinLen: d.MinLen}
		}
		seen := map[string]int{}
		for _, a := range guard.LoopAdvances(fn, ri) {
			n++
			base := core.FnKey(fn) + "/loop-advance:" + a.Kind
			seen[base]++
			key := base
			if seen[base] > 1 {
				key = fmt.Sprintf("%s#%d", base, seen[base])
			}
			switch {
			case a.LB >= 1:
				r.OK(key, p.InstrPos(a.At), fmt.Sprintf("advances by at least %d per iteration", a.LB))
			case a.Taint && a.LB <= 0 && a.LBNoWrap >= 1 && a.WrappedGuard && !a.WideGuard:
				r.Violate(key, p.InstrPos(a.At), "the loop advances by a sum computed in a narrow unsigned type, which wraps to 0 for the largest field values, and the only length test in front of it compares the wrapped sum itself, so it lets the wrapped case through: the same bytes are parsed again on every iteration and decoding never returns", nil)
			case a.Taint && a.LB <= 0 && a.LBNoWrap >= 1:
				r.Undecided(key, p.InstrPos(a.At), "positive unless narrow arithmetic wraps; whether a wrapping value can pass the dominating guards is not decided")
			case a.Taint && a.LB <= 0 && a.LB > -1<<30 && exitsIndependent(a) == false:
				r.Violate(key, p.InstrPos(a.At), "the loop advances by a value taken from the packet that may be 0 (no guard establishes >= 1): an input with that field zero is re-parsed forever — decoding never returns (and appends to the layer until memory is exhausted)", nil)
			default:
				r.Undecided(key, p.InstrPos(a.At), "advance not proven positive")
			}
		}
	}
	c.Counts["loop_advances"] = n
}

// exitsIndependent: conservative placeholder — true when the loop may leave on
// a condition that changes although the cursor does not (iteration counters).
func exitsIndependent(a guard.Advance) bool {
	// a second loop-carried integer in the same header that advances by a constant
	// (a counter compared with a limit) terminates the loop regardless of the cursor
	hdr := a.Phi.Block()
	for _, ins := range hdr.Instrs {
		ph, ok := ins.(*ssa.Phi)
		if !ok {
			break
		}
		if ph == a.Phi {
			continue
		}
		for i, e := range ph.Edges {
			if !hdr.Dominates(hdr.Preds[i]) {
				continue
			}
			if bo, ok := e.(*ssa.BinOp); ok {
				if _, isK := core.ConstInt(bo.Y); isK && (bo.X == ssa.Value(ph)) {
					return true
				}
			}
		}
	}
	return false
}

func checkC19(c *core.Ctx) {
	c.Explain = "GUARD (DESIGN.md 3.2) over every decode root (DecodeFromBytes of each DecodingLayer and every function converted to DecodeFunc; `data` arbitrary, minimum length 0, or 1 for decoders only ever chained through NextDecoder): each constant-offset index, slice and binary.UintNN site on bytes descending from `data` is classified safe / definite / unknown from the dominating length guards (constant and symbolic, with load value-numbering, integer lower bounds and loop phis); only *definite* sites — complete knowledge of the guards and a minimum reachable length below the requirement — are violations, each with a witness length. Decides: no fixed-offset read of packet bytes without a sufficient dominating length check. Does not decide: sites classified unknown (count in coverage.counts), variable-offset arithmetic, panics inside the standard library, loop termination beyond R19.3."
	r1 := c.Rule("R19.1", "D", "no definite out-of-range constant-offset access to attacker-chosen bytes in a decode root")
	guardOverRoots(c, r1)
	r2 := c.Rule("R19.2", "D", "helpers: a requirement on a byte-slice parameter is met by every caller")
	guardHelpers(c, r2)
	r3 := c.Rule("R19.3", "D", "decode loops advance: a packet-chosen step has a proven lower bound >= 1")
	loopProgress(c, r3)
	r6 := c.Rule("R19.6", "D", "progress: a decoder that hands data[n:] to the next decoder has n >= 1 (same decision as R1.6: without it eager decoding recurses until the stack overflows, which no recover can catch)")
	payloadProgress(c, r6)
	r7 := c.Rule("R19.7", "D", "fixed-size tables indexed by a decoded enum value have an entry for every value decode code can produce")
	tableIndexRange(c, r7)
	r8 := c.Rule("R19.8", "D", "a fixed-length window of the input is not re-sliced by a packet value that can exceed the window's length")
	{
		p := c.P
		roots := p.Roots()
		n := 0
		for _, fn := range core.SortedFns(roots.DecReach) {
			if fn.Pkg == nil || len(fn.Blocks) == 0 || strings.HasSuffix(p.Pos(fn.Pos()), "_test.go") {
				continue
			}
			var ri *guard.RootInfo
			if d := roots.DecByFn[fn]; d != nil {
				ri = &guard.RootInfo{Data: d.Data, MinLen: d.MinLen}
			}
			for i, w := range guard.WindowReslices(fn, ri) {
				n++
				r8.Violate(fmt.Sprintf("%s/window-reslice#%d", core.FnKey(fn), i+1), p.InstrPos(w.At), fmt.Sprintf("a %d-byte window of the input is re-sliced up to a packet value that can be as large as %d: the bound is checked against the window's capacity only, so a packet that ends with the window makes the slice expression panic (and a longer one silently includes bytes after the window)", w.Window, w.UB), nil)
			}
		}
		if n == 0 {
			r8.OK("decode/window-reslices", "", "no fixed-length window of the input is re-sliced by an unbounded packet value")
		}
	}
	r9 := c.Rule("R19.9", "D", "slices indexed by a caller-supplied signed layer type in decode-reachable code are guarded on both sides, strictly (= R5.5)")
	{
		reach := c.P.Roots().DecReach
		signedIndexRule(c, r9, func(fn *ssa.Function) bool {
			return reach[fn] && core.FnPkg(fn) != nil && core.FnPkg(fn).Path() == core.Mod
		})
	}
	r10 := c.Rule("R19.10", "D", "DecodeFromBytes reads no integer/bool field of its receiver before storing it in the same call: a stale value from an earlier packet is not covered by this call's length checks (= R5.9)")
	staleFieldReads(c, r10)
	nilPathScan(c, c.Rule("R19.11", "D", "no consistent path through decode-reachable code dereferences a pointer that the path's own nil test found nil (= R1.8)"), core.SortedFns(c.P.Roots().DecReach))
	passThroughCycles(c, c.Rule("R19.12", "D", "a layer that passes its whole input on as payload never names a layer type as next that it decodes itself (= R1.9: unrecoverable stack overflow)"))
	pathLenScan(c, c.Rule("R19.13", "D", "on every path of a decoder, accesses at an offset that is constant on that path lie within the length the path's own tests establish"))
	nestedFlagAgreement(c, c.Rule("R19.14", "T", "a length-validating helper and the decoder that calls it nest the presence flags of the object in the same way"))
	r5 := c.Rule("R19.5", "D", "length arithmetic on packet values is not done in uint8/uint16 where it can wrap before the result is used as a slice bound, index or length test")
	narrowLengths(c, r5)
	r4 := c.Rule("R19.4", "D", "cursor helpers: constant reads through a *[]byte cursor are covered by a length guard on the cursor's current contents, in the helper or at every call site")
	cursorSites(c, r4)
}

func narrowLengths(c *core.Ctx, r *core.Rule) {
	p := c.P
	roots := p.Roots()
	n := 0
	for _, fn := range core.SortedFns(roots.DecReach) {
		if fn.Pkg == nil || len(fn.Blocks) == 0 || strings.HasSuffix(p.Pos(fn.Pos()), "_test.go") {
			continue
		}
		var ri *guard.RootInfo
		if d := roots.DecByFn[fn]; d != nil {
			ri = &guard.RootInfo{Data: d.Data, MinLen: d.MinLen}
		}
		k := 0
		for _, s := range guard.NarrowLengthOps(fn, ri) {
			n++
			k++
			key := fmt.Sprintf("%s/narrow-%s#%d", core.FnKey(fn), s.At.Op.String(), k)
			if s.Definite {
				r.Violate(key, p.InstrPos(s.At), fmt.Sprintf("the slice's high bound is computed in %s and wraps: %s, so the slice expression panics (slice bounds out of range) whatever the length of the packet", s.At.Type().String(), s.Witness), nil)
			} else {
				r.Undecided(key, p.InstrPos(s.At), fmt.Sprintf("%s is evaluated in %s, where it can wrap for large field values, and the result is used as a %s at %s; whether other checks make the wrapped value harmless is not decided", s.At.Op.String(), s.At.Type().String(), s.What, p.InstrPos(s.Use)))
			}
		}
	}
	c.Counts["narrow_length_ops"] = n
	if n == 0 {
		r.OK("decode/narrow-length-ops", "", "no wrapping 8/16-bit length arithmetic found in decode-reachable code")
	}
}
