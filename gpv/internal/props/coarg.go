package props

import (
	"fmt"
	"go/token"
	"go/types"
	"sort"
	"strings"

	"golang.org/x/tools/go/ssa"

	"gpv/internal/core"
)

// coArgumentAgreement (R6.8 = R7.8): serialization is two passes over the same
// object — a sizing pass and a writing pass, in different functions taking the
// same *T.  Where a call in one pass is given field F of the object together
// with the result of accessor method M of the same object (a name and the
// metadata saying how its labels were spelled, a value and its length), the
// other pass must pair F with the same accessor: otherwise the bytes reserved
// and the bytes written for F differ, and the output is cut short, overwritten
// by the next record or written out of range.
func coArgumentAgreement(c *core.Ctx, r *core.Rule) {
	p := c.P
	roots := p.Roots()
	type pairs map[string]map[string]bool // field path -> accessor names
	byType := map[string][]*ssa.Function{}
	collected := map[*ssa.Function]pairs{}
	for _, fn := range core.SortedFns(roots.SerReach) {
		if !p.InModule(fn) || len(fn.Blocks) == 0 || len(fn.Params) == 0 || strings.HasSuffix(p.Pos(fn.Pos()), "_test.go") {
			continue
		}
		obj := fn.Params[0]
		pt, ok := obj.Type().Underlying().(*types.Pointer)
		if !ok {
			continue
		}
		nt, ok := pt.Elem().(*types.Named)
		if !ok {
			continue
		}
		if _, isStruct := nt.Underlying().(*types.Struct); !isStruct {
			continue
		}
		ps := pairs{}
		core.Instrs(fn, func(ins ssa.Instruction) {
			cc := core.CallCommonOf(ins)
			if cc == nil || cc.IsInvoke() {
				return
			}
			var fields, accs []string
			for _, a := range cc.Args {
				a = core.StripConv(a)
				if ld, ok := a.(*ssa.UnOp); ok && ld.Op == token.MUL {
					if pth, base := core.FieldPath(ld.X); pth != "" && base == ssa.Value(obj) {
						fields = append(fields, pth)
					}
				}
				if cl, ok := a.(*ssa.Call); ok {
					if f := cl.Call.StaticCallee(); f != nil && f.Signature.Recv() != nil && len(cl.Call.Args) == 1 && cl.Call.Args[0] == ssa.Value(obj) {
						accs = append(accs, f.Name())
					}
				}
			}
			for _, f := range fields {
				for _, a := range accs {
					if ps[f] == nil {
						ps[f] = map[string]bool{}
					}
					ps[f][a] = true
				}
			}
		})
		if len(ps) > 0 {
			collected[fn] = ps
			byType[nt.String()] = append(byType[nt.String()], fn)
		}
	}
	n := 0
	var tns []string
	for tn := range byType {
		tns = append(tns, tn)
	}
	sort.Strings(tns)
	for _, tn := range tns {
		fns := byType[tn]
		if len(fns) < 2 {
			continue
		}
		for i := 0; i < len(fns); i++ {
			for j := i + 1; j < len(fns); j++ {
				a, b := collected[fns[i]], collected[fns[j]]
				var fs []string
				for f := range a {
					if _, ok := b[f]; ok {
						fs = append(fs, f)
					}
				}
				sort.Strings(fs)
				for _, f := range fs {
					n++
					names := func(m map[string]bool) string {
						var s []string
						for k := range m {
							s = append(s, k)
						}
						sort.Strings(s)
						return strings.Join(s, ",")
					}
					key := fmt.Sprintf("%s~%s/co-argument:%s", core.FnKey(fns[i]), core.FnKey(fns[j]), f)
					if names(a[f]) == names(b[f]) {
						r.OK(key, p.Pos(fns[i].Pos()), "field "+f+" is paired with "+names(a[f])+" in both passes")
					} else {
						r.Violate(key, p.Pos(fns[i].Pos()), fmt.Sprintf("%s passes field %s together with %s() of the same object, %s passes it together with %s(): the sizing pass and the writing pass describe the field by different metadata, so the bytes reserved for it and the bytes written differ (truncated or overwritten output, or a write out of range)", core.FnKey(fns[i]), f, names(a[f]), core.FnKey(fns[j]), names(b[f])), nil)
					}
				}
			}
		}
	}
	c.Counts["co_argument_pairs"] = n
	if n < 5 {
		r.Missing("serialize/co-argument pairs", fmt.Sprintf("only %d found", n))
	}
}

// currentFieldInConditions (R6.9 = R7.9): a SerializeTo that stores into a
// field of its receiver (FixLengths-style updates, flags switched on while
// writing extension headers) and also branches on that field must branch on
// the value the field has at the branch, not on a copy loaded before the
// store: the copy describes the layer as it was, the bytes written describe
// the layer as it is now.
func currentFieldInConditions(c *core.Ctx, r *core.Rule) {
	p := c.P
	n := 0
	for _, ser := range p.Roots().Ser {
		if ser.Signature.Recv() == nil || len(ser.Blocks) == 0 {
			continue
		}
		stores := map[string][]*ssa.Store{}
		core.Instrs(ser, func(ins ssa.Instruction) {
			if st, ok := ins.(*ssa.Store); ok {
				if pth, ok := core.RecvFieldAddrPath(ser, st.Addr); ok {
					stores[pth] = append(stores[pth], st)
				}
			}
		})
		if len(stores) == 0 {
			continue
		}
		k := 0
		for _, b := range ser.Blocks {
			iff, ok := b.Instrs[len(b.Instrs)-1].(*ssa.If)
			if !ok {
				continue
			}
			// loads of receiver fields the condition is computed from
			var loads []*ssa.UnOp
			seen := map[ssa.Value]bool{}
			var walk func(v ssa.Value, d int)
			walk = func(v ssa.Value, d int) {
				if d > 8 || seen[v] {
					return
				}
				seen[v] = true
				switch x := v.(type) {
				case *ssa.BinOp:
					walk(x.X, d+1)
					walk(x.Y, d+1)
				case *ssa.Phi:
					for _, e := range x.Edges {
						walk(e, d+1)
					}
					// a merged bool (a || b || c) also depends on the tests that chose the edge:
					// the branches between the φ's immediate dominator and its block
					pb := x.Block()
					idom := pb.Idom()
					reg := map[*ssa.BasicBlock]bool{}
					work := append([]*ssa.BasicBlock{}, pb.Preds...)
					for len(work) > 0 {
						y := work[len(work)-1]
						work = work[:len(work)-1]
						if reg[y] {
							continue
						}
						reg[y] = true
						if y == idom || idom == nil {
							continue
						}
						work = append(work, y.Preds...)
					}
					// only a short-circuit diamond: a bool φ whose region holds nothing but the tests
					pure := true
					if bt, ok := x.Type().Underlying().(*types.Basic); !ok || bt.Kind() != types.Bool {
						pure = false
					}
					for y := range reg {
						if y == idom {
							continue
						}
						for _, ins := range y.Instrs {
							switch ins.(type) {
							case *ssa.UnOp, *ssa.BinOp, *ssa.FieldAddr, *ssa.If, *ssa.Jump, *ssa.Convert, *ssa.DebugRef:
							default:
								pure = false
							}
						}
					}
					if pure {
						for y := range reg {
							if i2, ok := y.Instrs[len(y.Instrs)-1].(*ssa.If); ok {
								walk(i2.Cond, d+1)
							}
						}
					}
				case *ssa.Convert:
					walk(x.X, d+1)
				case *ssa.UnOp:
					if x.Op == token.MUL {
						if _, ok := core.RecvFieldAddrPath(ser, x.X); ok {
							loads = append(loads, x)
						}
						return
					}
					walk(x.X, d+1)
				}
			}
			walk(iff.Cond, 0)
			for _, ld := range loads {
				pth, _ := core.RecvFieldAddrPath(ser, ld.X)
				sts := stores[pth]
				if len(sts) == 0 {
					continue
				}
				n++
				var stale *ssa.Store
				for _, st := range sts {
					// store reachable from the load, and the branch reachable from the store
					if core.ForwardSearch(ser, ld, func(i ssa.Instruction) bool { return i == ssa.Instruction(st) }, func(i ssa.Instruction) bool { return i == ssa.Instruction(iff) }) != nil &&
						core.ForwardSearch(ser, st, func(i ssa.Instruction) bool { return i == ssa.Instruction(iff) }, func(i ssa.Instruction) bool { return i == ssa.Instruction(ld) }) != nil {
						stale = st
					}
				}
				k++
				key := fmt.Sprintf("%s/current-field-in-condition:%s#%d", core.FnKey(ser), pth, k)
				if stale == nil {
					r.OK(key, p.InstrPos(iff), "the field is read after the last store that can precede the branch")
				} else {
					r.Violate(key, p.InstrPos(iff), "this branch is decided by the value field "+pth+" had at "+p.InstrPos(ld)+", but "+p.InstrPos(stale)+" stores the field between that read and the branch: the layout chosen here describes the layer before the update while the bytes written around it describe the layer after it (the first serialization of a hand-built layer differs from the second, and from what the decoder expects)", nil)
				}
			}
		}
	}
	c.Counts["conditions_on_stored_receiver_fields"] = n
	if n < 3 {
		r.Missing("serialize/conditions on stored receiver fields", fmt.Sprintf("only %d found", n))
	}
}

// sizerMeasuresWhatWriterEmits (R7.10): where a package has, over the same
// *T, one function returning the number of bytes (a sizer) and one function
// returning the bytes themselves in a slice it makes (a writer), the length
// the writer allocates must be computed from the same inputs as the sizer's
// result: every field of T (and every callee) the writer's length depends on
// is one the sizer's result depends on.  Only the *inputs* are compared, not
// the formulas, so rewriting either computation is not reported; a writer that
// starts to emit a field the sizer does not measure is.
func sizerMeasuresWhatWriterEmits(c *core.Ctx, r *core.Rule) {
	p := c.P
	roots := p.Roots()
	type info struct {
		fn     *ssa.Function
		leaves map[string]bool
	}
	sizers := map[string][]*info{}
	writers := map[string][]*info{}
	for _, fn := range core.SortedFns(roots.SerReach) {
		if !p.InModule(fn) || len(fn.Blocks) == 0 || len(fn.Params) != 1 || strings.HasSuffix(p.Pos(fn.Pos()), "_test.go") {
			continue
		}
		obj := fn.Params[0]
		pt, ok := obj.Type().Underlying().(*types.Pointer)
		if !ok {
			continue
		}
		nt, ok := pt.Elem().(*types.Named)
		if !ok {
			continue
		}
		if _, isStruct := nt.Underlying().(*types.Struct); !isStruct {
			continue
		}
		res := fn.Signature.Results()
		if res.Len() != 1 {
			continue
		}
		leaves := map[string]bool{}
		seen := map[ssa.Value]bool{}
		var walk func(v ssa.Value, d int)
		walk = func(v ssa.Value, d int) {
			if d > 14 || seen[v] {
				return
			}
			seen[v] = true
			switch x := v.(type) {
			case *ssa.Const:
			case *ssa.BinOp:
				walk(x.X, d+1)
				walk(x.Y, d+1)
			case *ssa.Convert:
				walk(x.X, d+1)
			case *ssa.ChangeType:
				walk(x.X, d+1)
			case *ssa.Slice:
				walk(x.X, d+1)
				if x.Low != nil {
					walk(x.Low, d+1)
				}
				if x.High != nil {
					walk(x.High, d+1)
				}
			case *ssa.Phi:
				for _, e := range x.Edges {
					walk(e, d+1)
				}
				// the tests that choose the edge
				pb := x.Block()
				for y := pb.Idom(); y != nil; y = nil {
					if iff, ok := y.Instrs[len(y.Instrs)-1].(*ssa.If); ok {
						walk(iff.Cond, d+1)
					}
				}
			case *ssa.UnOp:
				if x.Op == token.MUL {
					if pth, base := core.FieldPath(x.X); pth != "" && base == ssa.Value(obj) {
						leaves["field:"+pth] = true
						return
					}
					if ia, ok := x.X.(*ssa.IndexAddr); ok {
						walk(ia.X, d+1)
						return
					}
					if fa, ok := x.X.(*ssa.FieldAddr); ok {
						walk(fa.X, d+1)
						return
					}
					leaves["mem"] = true
					return
				}
				walk(x.X, d+1)
			case *ssa.IndexAddr:
				walk(x.X, d+1)
			case *ssa.FieldAddr:
				if pth, base := core.FieldPath(x); pth != "" && base == ssa.Value(obj) {
					leaves["field:"+pth] = true
					return
				}
				walk(x.X, d+1)
			case *ssa.Call:
				if bi, ok := x.Call.Value.(*ssa.Builtin); ok {
					for _, a := range x.Call.Args {
						walk(a, d+1)
					}
					_ = bi
					return
				}
				if f := x.Call.StaticCallee(); f != nil {
					leaves["call:"+f.Name()] = true
				} else {
					leaves["call:?"] = true
				}
				for _, a := range x.Call.Args {
					walk(a, d+1)
				}
			case *ssa.Extract:
				walk(x.Tuple, d+1)
			case *ssa.Parameter:
			default:
				leaves["other"] = true
			}
		}
		t := res.At(0).Type()
		if bt, ok := t.Underlying().(*types.Basic); ok && bt.Info()&types.IsInteger != 0 {
			for _, ret := range core.Returns(fn) {
				walk(core.RetOperand(ret, 0), 0)
			}
			sizers[nt.String()] = append(sizers[nt.String()], &info{fn, leaves})
		} else if core.IsByteSlice(t) {
			okAll := true
			for _, ret := range core.Returns(fn) {
				ms, ok := core.RetOperand(ret, 0).(*ssa.MakeSlice)
				if !ok {
					okAll = false
					continue
				}
				walk(ms.Len, 0)
			}
			if okAll {
				writers[nt.String()] = append(writers[nt.String()], &info{fn, leaves})
			}
		}
	}
	n := 0
	var tns []string
	for tn := range writers {
		tns = append(tns, tn)
	}
	sort.Strings(tns)
	for _, tn := range tns {
		if len(sizers[tn]) != 1 || len(writers[tn]) != 1 {
			continue
		}
		sz, wr := sizers[tn][0], writers[tn][0]
		n++
		var missing []string
		for l := range wr.leaves {
			if !sz.leaves[l] && l != "call:"+wr.fn.Name() && l != "call:"+sz.fn.Name() {
				missing = append(missing, strings.TrimPrefix(l, "field:"))
			}
		}
		sort.Strings(missing)
		key := fmt.Sprintf("%s~%s/length-inputs", core.FnKey(sz.fn), core.FnKey(wr.fn))
		if len(missing) == 0 {
			r.OK(key, p.Pos(wr.fn.Pos()), "the length of the slice the writer returns depends only on inputs the sizer's result depends on")
		} else {
			r.Violate(key, p.Pos(wr.fn.Pos()), fmt.Sprintf("the number of bytes %s produces depends on %s, which the result of %s — the function callers use to reserve the space — does not depend on: whenever that input matters the bytes written and the bytes reserved differ (a write out of range, or a tail that is never written and keeps stale buffer contents)", core.FnKey(wr.fn), strings.Join(missing, ", "), core.FnKey(sz.fn)), nil)
		}
	}
	c.Counts["sizer_writer_pairs"] = n
	if n < 1 {
		r.Missing("serialize/sizer-writer pairs", "no unambiguous sizer/writer pair over one struct type found")
	}
}

// conditionalLayoutAgreement (R6.10): where DecodeFromBytes reads a field at a
// running offset and SerializeTo writes the same field at a running offset,
// the offset of the field is the sum of the advances made before it, each
// under some presence flags of the layer.  The set of flag combinations that
// guard the advances in the definition chain of the offset must be the same
// on both sides: a field that the serializer writes before an optional part
// the decoder expects in front of it lands at another position whenever that
// part is present.
func conditionalLayoutAgreement(c *core.Ctx, r *core.Rule) {
	p := c.P
	roots := p.Roots()
	n := 0
	for _, d := range roots.Dec {
		if d.Kind != "DecodeFromBytes" || d.Fn.Signature.Recv() == nil || d.Data == nil {
			continue
		}
		ser := methodOf(p, d.Fn.Signature.Recv().Type(), "SerializeTo")
		if ser == nil || len(ser.Blocks) == 0 || ser.Synthetic != "" {
			continue
		}
		guardOf := func(fn *ssa.Function, b *ssa.BasicBlock) string {
			var fs []string
			for _, dc := range core.DomConds(b) {
				var walk func(v ssa.Value, k int)
				walk = func(v ssa.Value, k int) {
					if k > 6 {
						return
					}
					switch x := v.(type) {
					case *ssa.UnOp:
						if x.Op == token.MUL {
							if pth, ok := core.RecvFieldAddrPath(fn, x.X); ok {
								if bt, isB := x.Type().Underlying().(*types.Basic); isB && bt.Kind() == types.Bool {
									fs = append(fs, pth)
								}
							}
							return
						}
						walk(x.X, k+1)
					case *ssa.BinOp:
						walk(x.X, k+1)
						walk(x.Y, k+1)
					case *ssa.Phi:
						for _, e := range x.Edges {
							walk(e, k+1)
						}
						// short-circuit: the tests that chose the edge
						if idom := x.Block().Idom(); idom != nil {
							if iff, ok := idom.Instrs[len(idom.Instrs)-1].(*ssa.If); ok {
								walk(iff.Cond, k+1)
							}
						}
					}
				}
				walk(dc.V, 0)
			}
			sort.Strings(fs)
			var u []string
			for i, f := range fs {
				if i == 0 || fs[i-1] != f {
					u = append(u, f)
				}
			}
			return strings.Join(u, "|")
		}
		chainGuards := func(fn *ssa.Function, idx ssa.Value) (map[string]bool, bool) {
			out := map[string]bool{}
			seen := map[ssa.Value]bool{}
			hasPhi := false
			var walk func(v ssa.Value, k int)
			walk = func(v ssa.Value, k int) {
				if k > 40 || seen[v] {
					return
				}
				seen[v] = true
				switch x := v.(type) {
				case *ssa.Phi:
					hasPhi = true
					for _, e := range x.Edges {
						walk(e, k+1)
					}
				case *ssa.BinOp:
					if x.Op == token.ADD {
						if g := guardOf(fn, x.Block()); g != "" {
							out[g] = true
						}
						walk(x.X, k+1)
						walk(x.Y, k+1)
					}
				case *ssa.Convert:
					walk(x.X, k+1)
				}
			}
			walk(idx, 0)
			return out, hasPhi
		}
		isData := func(v ssa.Value) bool {
			if v == ssa.Value(d.Data) {
				return true
			}
			// a parameter captured by a closure lives in a cell
			if ld, ok := v.(*ssa.UnOp); ok && ld.Op == token.MUL {
				if al, ok := ld.X.(*ssa.Alloc); ok {
					for _, ref := range *al.Referrers() {
						if st, ok := ref.(*ssa.Store); ok && st.Addr == ssa.Value(al) && st.Val == ssa.Value(d.Data) {
							return true
						}
					}
				}
			}
			return false
		}
		// decode: field <- data[idx...]
		decG := map[string]map[string]bool{}
		core.Instrs(d.Fn, func(ins ssa.Instruction) {
			st, ok := ins.(*ssa.Store)
			if !ok {
				return
			}
			pth, ok := core.RecvFieldAddrPath(d.Fn, st.Addr)
			if !ok {
				return
			}
			// the value comes from data at a φ-dependent index
			var idx ssa.Value
			var find func(v ssa.Value, k int)
			find = func(v ssa.Value, k int) {
				if k > 6 || idx != nil {
					return
				}
				switch x := v.(type) {
				case *ssa.Convert:
					find(x.X, k+1)
				case *ssa.ChangeType:
					find(x.X, k+1)
				case *ssa.Call:
					if _, _, put, ok := binaryOrder(x); ok && !put && len(x.Call.Args) == 2 {
						find(x.Call.Args[1], k+1)
					}
				case *ssa.Slice:
					if isData(x.X) && x.Low != nil {
						idx = x.Low
					}
				case *ssa.UnOp:
					if x.Op == token.MUL {
						if ia, ok := x.X.(*ssa.IndexAddr); ok && isData(ia.X) {
							idx = ia.Index
						}
					}
				case *ssa.BinOp:
					find(x.X, k+1)
					find(x.Y, k+1)
				}
			}
			find(st.Val, 0)
			if idx == nil {
				return
			}
			if g, phi := chainGuards(d.Fn, idx); phi {
				if decG[pth] == nil {
					decG[pth] = g
				}
			}
		})
		if len(decG) == 0 {
			continue
		}
		// serialize: PutUintN(buf[idx:...], conv(field)) / buf[idx] = conv(field)
		serG := map[string]map[string]bool{}
		fieldOf := func(v ssa.Value) string {
			v = core.StripConv(v)
			if ld, ok := v.(*ssa.UnOp); ok && ld.Op == token.MUL {
				if pth, ok := core.RecvFieldAddrPath(ser, ld.X); ok {
					return pth
				}
			}
			return ""
		}
		core.Instrs(ser, func(ins ssa.Instruction) {
			switch x := ins.(type) {
			case *ssa.Call:
				if _, _, put, ok := binaryOrder(x); ok && put && len(x.Call.Args) == 3 {
					f := fieldOf(x.Call.Args[2])
					sl, isSl := x.Call.Args[1].(*ssa.Slice)
					if f == "" || !isSl || sl.Low == nil {
						return
					}
					if g, phi := chainGuards(ser, sl.Low); phi && serG[f] == nil {
						serG[f] = g
					}
				}
			case *ssa.Store:
				if ia, ok := x.Addr.(*ssa.IndexAddr); ok {
					if f := fieldOf(x.Val); f != "" {
						if g, phi := chainGuards(ser, ia.Index); phi && serG[f] == nil {
							serG[f] = g
						}
					}
				}
			}
		})
		var fs []string
		for f := range decG {
			if _, ok := serG[f]; ok {
				fs = append(fs, f)
			}
		}
		sort.Strings(fs)
		tn := recvTypeName(d.Fn)
		for _, f := range fs {
			n++
			names := func(m map[string]bool) string {
				var s []string
				for k := range m {
					s = append(s, "{"+k+"}")
				}
				sort.Strings(s)
				return strings.Join(s, " ")
			}
			key := "layers." + tn + "." + f + "/conditional-offset"
			if names(decG[f]) == names(serG[f]) {
				r.OK(key, p.Pos(ser.Pos()), "the advances before "+f+" are guarded by "+names(decG[f])+" on both sides")
			} else {
				r.Violate(key, p.Pos(ser.Pos()), fmt.Sprintf("DecodeFromBytes reads %s after advances guarded by %s, SerializeTo writes it after advances guarded by %s: when the optional parts that differ are present the field is written at another position than the one it is read from, so the bytes written do not decode back to this layer", f, names(decG[f]), names(serG[f])), nil)
			}
		}
	}
	c.Counts["conditional_offset_fields"] = n
	if n < 2 {
		r.Missing("layers/conditional offsets", fmt.Sprintf("only %d fields with a running offset on both sides found", n))
	}
}

// nestedFlagAgreement (R19.14): a decoder that validates a length with a
// helper H(x *T, …) and then reads the optional parts of x itself walks the
// same decision tree over the presence flags of T as the helper does: "under
// flag M, flag m chooses the wide form".  The sets of (outer flag → inner
// flag) nestings over bool fields of T must be equal in the helper and in its
// caller; a helper that consults another flag than the reader does validates
// one layout while another is read.
func nestedFlagAgreement(c *core.Ctx, r *core.Rule) {
	p := c.P
	roots := p.Roots()
	pairs := func(fn *ssa.Function, t *types.Named) map[string]bool {
		type tst struct {
			f   string
			blk *ssa.BasicBlock
			tru *ssa.BasicBlock
		}
		var tests []tst
		for _, b := range fn.Blocks {
			iff, ok := b.Instrs[len(b.Instrs)-1].(*ssa.If)
			if !ok {
				continue
			}
			cond := iff.Cond
			pol := true
			for {
				if u, ok := cond.(*ssa.UnOp); ok && u.Op == token.NOT {
					cond, pol = u.X, !pol
					continue
				}
				break
			}
			ld, ok := cond.(*ssa.UnOp)
			if !ok || ld.Op != token.MUL {
				continue
			}
			fa, ok := ld.X.(*ssa.FieldAddr)
			if !ok {
				continue
			}
			pt, ok := fa.X.Type().Underlying().(*types.Pointer)
			if !ok || !types.Identical(pt.Elem(), t) {
				continue
			}
			ts := b.Succs[0]
			if !pol {
				ts = b.Succs[1]
			}
			tests = append(tests, tst{core.FieldOfAddr(fa).Name(), b, ts})
		}
		out := map[string]bool{}
		for _, o := range tests {
			for _, i := range tests {
				if o.blk == i.blk {
					continue
				}
				if len(o.tru.Preds) == 1 && (o.tru == i.blk || o.tru.Dominates(i.blk)) {
					out[o.f+"→"+i.f] = true
				}
			}
		}
		return out
	}
	n := 0
	cg := p.CG(false)
	for _, h := range core.SortedFns(roots.DecReach) {
		if !p.InModule(h) || len(h.Blocks) == 0 || len(h.Params) == 0 {
			continue
		}
		res := h.Signature.Results()
		if res.Len() != 1 {
			continue
		}
		if bt, ok := res.At(0).Type().Underlying().(*types.Basic); !ok || bt.Info()&(types.IsInteger|types.IsBoolean) == 0 {
			continue
		}
		var t *types.Named
		for _, pa := range h.Params {
			if pt, ok := pa.Type().Underlying().(*types.Pointer); ok {
				if nt, ok := pt.Elem().(*types.Named); ok {
					if _, isS := nt.Underlying().(*types.Struct); isS {
						t = nt
					}
				}
			}
		}
		if t == nil {
			continue
		}
		hp := pairs(h, t)
		if len(hp) == 0 {
			continue
		}
		node := cg.Nodes[h]
		if node == nil {
			continue
		}
		seen := map[*ssa.Function]bool{}
		for _, e := range node.In {
			f := e.Caller.Func
			if seen[f] || !roots.DecReach[f] {
				continue
			}
			seen[f] = true
			fp := pairs(f, t)
			if len(fp) == 0 {
				continue
			}
			n++
			names := func(m map[string]bool) string {
				var s []string
				for k := range m {
					s = append(s, k)
				}
				sort.Strings(s)
				return strings.Join(s, ", ")
			}
			key := fmt.Sprintf("%s~%s/nested-flags:%s", core.FnKey(h), core.FnKey(f), t.Obj().Name())
			if names(hp) == names(fp) {
				r.OK(key, p.Pos(h.Pos()), "both nest the flags of "+t.Obj().Name()+" as "+names(hp))
			} else {
				r.Violate(key, p.Pos(h.Pos()), fmt.Sprintf("%s nests the flags of %s as {%s}, but %s, which relies on it to validate the length before reading the optional parts, nests them as {%s}: for the flag combinations on which the two differ a length is accepted that does not cover what is then read (slice bounds out of range), or a correct one is rejected", core.FnKey(h), t.Obj().Name(), names(hp), core.FnKey(f), names(fp)), nil)
			}
		}
	}
	c.Counts["nested_flag_pairs"] = n
	if n < 1 {
		r.Missing("decode/validator-reader flag nestings", "no helper/caller pair nesting bool fields of one struct found (TCP MPTCP DSS was confirmed by reading)")
	}
}
