package props

import (
	"fmt"
	"go/token"
	"go/types"
	"strconv"
	"strings"

	"golang.org/x/tools/go/ssa"

	"gpv/internal/core"
)

func init() { register("C13", checkC13) }

// deletesFrom: fn (or a module callee, depth 1) deletes from the map field `field`.
func deletesFrom(p *core.Prog, ins ssa.Instruction, field string) bool {
	isDel := func(i ssa.Instruction) bool {
		nm, cc := core.BuiltinCall(i)
		if nm != "delete" {
			return false
		}
		_, ok := core.LoadsField(cc.Args[0], field)
		return ok
	}
	if isDel(ins) {
		return true
	}
	cc := core.CallCommonOf(ins)
	if cc == nil {
		return false
	}
	f := cc.StaticCallee()
	if f == nil || !p.InModule(f) {
		return false
	}
	found := false
	core.Instrs(f, func(i ssa.Instruction) {
		if isDel(i) {
			found = true
		}
	})
	return found
}

func checkC13(c *core.Ctx) {
	p := c.P
	c.Explain = "Structural clauses of IP defragmentation (ip4defrag, ip6defrag): (R13.1) a fragment's payload length is never computed as Length minus a literal (it must come from IHL or len(Payload)), and sibling computations agree; (R13.2) every path that returns a datagram rebuilt from the fragment list first deletes that flow's map entry; (R13.3) the Length stored in the rebuilt IPv4 header depends on the header length; fragmentation fields are cleared; (R13.4) rebuilding is attempted only when the final fragment was seen and highest == current; (R13.5) in the build loop bytes are appended only on the 'contiguous' or 'overlapping' branch of the offset comparison, the 'hole' branch returns an error, and in the overlapping branch the running offset advances by an amount that depends on what was trimmed; (R13.6) duplicates (equal offset) return without touching the counters; unfragmented packets are returned as the same object. Not decided: permutation invariance, overlap policy, byte equality of the rebuilt payload."
	duplicateTestFirst(c, c.Rule("R13.12", "T", "ip6defrag links a fragment behind a list element only after the duplicate test against that element failed"))
	noVacuousRangeTests(c, c.Rule("R13.13", "T", "no size check of the defragmenters compares a narrow unsigned value with a constant it cannot exceed"))
	lastSeenWithEveryFragment(c, c.Rule("R13.14", "T", "ip4defrag refreshes LastSeen for every fragment it counts"))
	assemblyStopsAtFinal(c, c.Rule("R13.15", "T", "ip6defrag concatenates payloads only up to the fragment whose More flag is clear"))
	flagsThroughMasks(c, c.Rule("R13.9", "T", "ip4defrag tests the IPv4 Flags field only through masks"))
	listsOnlyFromTheMap(c, c.Rule("R13.10", "T", "the list a fragment is inserted into comes from the map under the packet's key (or is new and stored there)"))
	adjacencyIsEquality(c, c.Rule("R13.11", "T", "completeness walks compare a fragment's end with the next offset for equality"))
	r1 := c.Rule("R13.1", "T", "fragment payload length is never Length minus a literal")
	r2 := c.Rule("R13.2", "T", "a completed flow is forgotten before its datagram is returned")
	r3 := c.Rule("R13.3", "T", "rebuilt header: Length depends on the header length; fragmentation fields cleared")
	r4 := c.Rule("R13.4", "T", "rebuild only when final fragment seen and highest == current")
	r5 := c.Rule("R13.5", "T", "build loop: append only on contiguous/overlap branches, hole is an error, overlap advance depends on the trim")
	r6 := c.Rule("R13.6", "T", "duplicates ignored; unfragmented packets passed through unchanged")

	// ---- R13.7: the fragment-list key
	r7 := c.Rule("R13.7", "T", "fragment lists are keyed by the (source, destination) flow itself together with the identification, never by the identification alone or by a hash of the flow")
	for _, pkg := range []string{"ip4defrag", "ip6defrag"} {
		nMaps := 0
		for _, mem := range p.PkgScopeNames(pkg) {
			tn, ok := mem.(*types.TypeName)
			if !ok || !strings.HasSuffix(tn.Name(), "Defragmenter") {
				continue
			}
			st, ok := tn.Type().Underlying().(*types.Struct)
			if !ok {
				continue
			}
			for i := 0; i < st.NumFields(); i++ {
				mt, ok := st.Field(i).Type().Underlying().(*types.Map)
				if !ok {
					continue
				}
				nMaps++
				key := pkg + "." + tn.Name() + "." + st.Field(i).Name() + "/key"
				hasFlow, hasID := false, false
				if ks, ok := mt.Key().Underlying().(*types.Struct); ok {
					for j := 0; j < ks.NumFields(); j++ {
						ft := ks.Field(j).Type()
						if core.NamedIs(ft, "Flow") {
							hasFlow = true
						} else if b, ok := ft.Underlying().(*types.Basic); ok && b.Info()&types.IsInteger != 0 {
							hasID = true
						}
					}
				}
				switch {
				case hasFlow && hasID:
					r7.OK(key, "", "key type "+mt.Key().String()+" holds the flow and the identification")
				case !hasFlow:
					r7.Violate(key, p.TypePos(tn), "the map of fragment lists is keyed by "+mt.Key().String()+", which does not contain the source/destination flow: fragments of different datagrams that share an identification (other hosts, or the reply direction) are merged into one list, and one datagram is returned with another's bytes or never returned", nil)
				default:
					r7.Violate(key, p.TypePos(tn), "the key "+mt.Key().String()+" has no identification field", nil)
				}
			}
		}
		if nMaps == 0 {
			r7.Missing(pkg+"/fragment map", "no map field in a *Defragmenter type")
		}
	}

	// ---- R13.8: no stale list head
	r8 := c.Rule("R13.8", "T", "a list head read from the fragment map is not used after the same map entry may have been replaced (re-read instead)")
	{
		nL := 0
		for _, pkg := range []string{"ip4defrag", "ip6defrag"} {
			for _, fn := range pkgFunctions(p, pkg) {
				var lookups []*ssa.Lookup
				var updates []*ssa.MapUpdate
				core.Instrs(fn, func(ins ssa.Instruction) {
					switch x := ins.(type) {
					case *ssa.Lookup:
						if _, isMap := x.X.Type().Underlying().(*types.Map); isMap {
							lookups = append(lookups, x)
						}
					case *ssa.MapUpdate:
						updates = append(updates, x)
					}
				})
				var sameVal func(a, b ssa.Value, d int) bool
				sameVal = func(a, b ssa.Value, d int) bool {
					if a == b {
						return true
					}
					if d > 6 {
						return false
					}
					la, okA := core.IsLoad(a)
					lb, okB := core.IsLoad(b)
					if okA && okB {
						if la == lb {
							return true
						}
						fa, ok1 := la.(*ssa.FieldAddr)
						fb, ok2 := lb.(*ssa.FieldAddr)
						return ok1 && ok2 && fa.Field == fb.Field && sameVal(fa.X, fb.X, d+1)
					}
					return false
				}
				sameMap := func(a, b ssa.Value) bool { return sameVal(a, b, 0) }
				sameKey := func(a, b ssa.Value) bool { return sameVal(a, b, 0) }
				for li, lk := range lookups {
					nL++
					// the looked-up element value (plain or comma-ok form)
					var elem ssa.Value = lk
					if lk.CommaOk {
						elem = nil
						for _, r := range *lk.Referrers() {
							if e, ok := r.(*ssa.Extract); ok && e.Index == 0 {
								elem = e
							}
						}
					}
					key := fmt.Sprintf("%s/lookup#%d", core.FnKey(fn), li+1)
					if elem == nil || elem.Referrers() == nil {
						r8.OK(key, p.InstrPos(lk), "result not used as a value")
						continue
					}
					var bad ssa.Instruction
					for _, up := range updates {
						if !sameMap(up.Map, lk.X) || !sameKey(up.Key, lk.Index) {
							continue
						}
						if core.ForwardSearch(fn, lk, func(i ssa.Instruction) bool { return i == ssa.Instruction(up) }, nil) == nil {
							continue // the update cannot follow this lookup
						}
						// a direct field access through the looked-up pointer reachable from the update without a fresh lookup
						hit := core.ForwardSearch(fn, up, func(i ssa.Instruction) bool {
							if fa, ok := i.(*ssa.FieldAddr); ok && fa.X == elem {
								return true
							}
							return false
						}, func(i ssa.Instruction) bool {
							l2, ok := i.(*ssa.Lookup)
							return ok && l2 != lk && sameMap(l2.X, lk.X) && sameKey(l2.Index, lk.Index)
						})
						if hit != nil {
							bad = hit
						}
					}
					if bad == nil {
						r8.OK(key, p.InstrPos(lk), "not used after a replacement of the entry")
					} else {
						r8.Violate(key, p.InstrPos(lk), "the list head read here is still used at "+p.InstrPos(bad)+" after the map entry may have been replaced by a fragment inserted in front: the completeness check then starts at the old head and a complete datagram is not returned", nil)
					}
				}
			}
		}
		if nL < 3 {
			r8.Missing("defrag/lookups", fmt.Sprintf("only %d map lookups found", nL))
		}
	}

	// ---- R13.1
	n1 := 0
	for _, fn := range pkgFunctions(p, "ip4defrag") {
		ord := 0
		core.Instrs(fn, func(ins ssa.Instruction) {
			bo, ok := ins.(*ssa.BinOp)
			if !ok || bo.Op != token.SUB {
				return
			}
			fa, ok := core.LoadsField(bo.X, "Length")
			if !ok || !core.NamedIs(fa.X.Type(), "IPv4") {
				return
			}
			n1++
			ord++
			key := core.FnKey(fn) + "/Length-minus#" + string(rune('0'+ord))
			if k, isK := core.ConstFold(bo.Y); isK {
				r1.Violate(key, p.InstrPos(ins), "payload length computed as Length - "+itoa(k)+": wrong for every datagram whose header carries options (IHL > 5) — such datagrams are never (or wrongly) reassembled", nil)
				return
			}
			t := termOf(fn, bo.Y, 0)
			if !strings.Contains(t, ".IHL") {
				r1.Violate(key, p.InstrPos(ins), "payload length is Length minus something that is not the header length: "+t, nil)
				return
			}
			// the header length must be that of the same datagram object whose Length is used
			same := false
			var walk func(v ssa.Value, d int)
			walk = func(v ssa.Value, d int) {
				if d > 8 || same {
					return
				}
				if f2, ok := core.LoadsField(v, "IHL"); ok && f2.X == fa.X {
					same = true
					return
				}
				switch y := v.(type) {
				case *ssa.BinOp:
					walk(y.X, d+1)
					walk(y.Y, d+1)
				case *ssa.Convert:
					walk(y.X, d+1)
				case *ssa.Phi:
					for _, e := range y.Edges {
						walk(e, d+1)
					}
				}
			}
			walk(bo.Y, 0)
			r1.Check(same, key, p.InstrPos(ins), "Length - IHL*4 of the same fragment", "a fragment's payload length is its Length minus the header length of a different object ("+t+"): fragments of one datagram may carry different options (options not copied on fragmentation), so bytes are trimmed or a hole is reported")
		})
	}
	if n1 == 0 {
		// acceptable alternative: len(Payload) everywhere
		r1.OK("ip4defrag/payload-length", "", "no Length-based computation (len(Payload) used)")
	}

	// ---- R13.2 (IPv4)
	if fn := p.Func("ip4defrag", "IPv4Defragmenter.DefragIPv4WithTimestamp"); fn == nil {
		r2.Missing("ip4defrag.DefragIPv4WithTimestamp", "not found")
	} else {
		var built ssa.Value
		core.Instrs(fn, func(ins ssa.Instruction) {
			if call, ok := ins.(*ssa.Call); ok {
				if f := call.Call.StaticCallee(); f != nil && f.Name() == "insert" {
					for _, ref := range *call.Referrers() {
						if e, ok := ref.(*ssa.Extract); ok && e.Index == 0 {
							built = e
						}
					}
				}
			}
		})
		if built == nil {
			r2.Missing("ip4defrag/insert", "call of insert not found")
		} else {
			n := 0
			for _, ret := range core.Returns(fn) {
				if len(ret.Results) != 2 || ret.Results[0] != built {
					continue
				}
				// only when built != nil
				nonNil := false
				for _, dc := range core.DomConds(ret.Block()) {
					if bo, ok := dc.V.(*ssa.BinOp); ok && (bo.X == built || bo.Y == built) && ((bo.Op == token.NEQ && dc.Truth) || (bo.Op == token.EQL && !dc.Truth)) {
						nonNil = true
					}
				}
				if !nonNil {
					continue
				}
				n++
				esc := core.ForwardSearch(fn, built.(ssa.Instruction), func(i ssa.Instruction) bool { return i == ssa.Instruction(ret) }, func(i ssa.Instruction) bool { return deletesFrom(p, i, "ipFlows") })
				r2.Check(esc == nil, core.FnKey(fn)+"/forget-completed", p.InstrPos(ret), "flow entry deleted before the rebuilt datagram is returned", "a rebuilt datagram is returned while its fragment list stays in the map: the next datagram with the same (src,dst,id) is mixed with stale fragments, and memory grows")
			}
			if n == 0 {
				r2.Violate(core.FnKey(fn)+"/returns-built", p.Pos(fn.Pos()), "the rebuilt datagram is never returned", nil)
			}
		}
		// pass-through
		okPass := false
		dd := p.Func("ip4defrag", "IPv4Defragmenter.dontDefrag")
		for _, ret := range core.Returns(fn) {
			if len(ret.Results) == 2 && isParam(fn, ret.Results[0]) && core.IsNilConst(ret.Results[1]) {
				for _, dc := range core.DomConds(ret.Block()) {
					if call, ok := dc.V.(*ssa.Call); ok && call.Call.StaticCallee() == dd && dc.Truth {
						okPass = true
					}
				}
			}
		}
		r6.Check(okPass, core.FnKey(fn)+"/pass-through", p.Pos(fn.Pos()), "unfragmented packets are returned as the same object", "packets that need no defragmentation are not passed through unchanged")
	}
	// ---- R13.2 (IPv6)
	if fn := p.Func("ip6defrag", "IPv6Defragmenter.DefragIPv6"); fn == nil {
		r2.Missing("ip6defrag.DefragIPv6", "not found")
	} else {
		n := 0
		for _, ret := range core.Returns(fn) {
			if len(ret.Results) != 1 || core.IsNilConst(core.RetOperand(ret, 0)) {
				continue
			}
			n++
			esc := core.ForwardSearch(fn, nil, func(i ssa.Instruction) bool { return i == ssa.Instruction(ret) }, func(i ssa.Instruction) bool { return deletesFrom(p, i, "container") })
			r2.Check(esc == nil, core.FnKey(fn)+"/forget-completed", p.InstrPos(ret), "entry deleted before the rebuilt datagram is returned", "the rebuilt IPv6 datagram is returned while its fragments stay in the map: the first fragment of the next datagram with the same identification returns the old datagram again")
		}
		if n == 0 {
			r2.Violate(core.FnKey(fn)+"/returns-built", p.Pos(fn.Pos()), "no rebuilt datagram is returned", nil)
		}
	}

	// ---- R13.3 / R13.5 in build
	build := p.Func("ip4defrag", "fragmentList.build")
	insert := p.Func("ip4defrag", "fragmentList.insert")
	if build == nil || insert == nil {
		r3.Missing("ip4defrag.build/insert", "not found")
		return
	}
	{
		m := map[string]string{}
		core.Instrs(build, func(ins ssa.Instruction) {
			st, ok := ins.(*ssa.Store)
			if !ok {
				return
			}
			fa, ok := st.Addr.(*ssa.FieldAddr)
			if !ok || !core.NamedIs(fa.X.Type(), "IPv4") {
				return
			}
			if _, isAlloc := fa.X.(*ssa.Alloc); !isAlloc {
				return
			}
			m[core.FieldOfAddr(fa).Name()] = termOf(build, st.Val, 0)
		})
		key := core.FnKey(build) + "/out."
		lt, ok := m["Length"]
		if !ok {
			r3.Violate(key+"Length", p.Pos(build.Pos()), "the rebuilt header's Length is not set", nil)
		} else {
			r3.Check(strings.Contains(lt, ".IHL") || strings.Contains(lt, "len("), key+"Length", p.Pos(build.Pos()), "Length = header length + payload length ("+lt+")", "the rebuilt datagram's Length is "+lt+", which does not include the header length: re-decoding the result truncates the payload")
		}
		r3.Check(m["Flags"] == "const:0" && m["FragOffset"] == "const:0", key+"fragmentation-cleared", p.Pos(build.Pos()), "Flags = 0, FragOffset = 0", "the rebuilt datagram still carries fragmentation fields")
		// the header length counted in Length is that of the header actually copied (same source object)
		baseOf := func(term, field string) string {
			i := strings.Index(term, "."+field)
			if i < 0 {
				return ""
			}
			j := i
			for j > 0 && !strings.ContainsRune("(,", rune(term[j-1])) {
				j--
			}
			return term[j:i]
		}
		if lt, ok := m["Length"]; ok && strings.Contains(lt, ".IHL") && strings.HasSuffix(m["IHL"], ".IHL") {
			bl, bi, bo := baseOf(lt, "IHL"), baseOf(m["IHL"], "IHL"), baseOf(m["Options"], "Options")
			r3.Check(bl == bi && (bo == "" || bo == bi), key+"Length-same-header", p.Pos(build.Pos()), "Length counts the header that is copied ("+bi+")", "the rebuilt header takes IHL/Options from "+bi+" but Length counts the header length of "+bl+": when the fragments carry different options (options not copied on fragmentation) Length disagrees with IHL*4 + payload")
		}
		r3.Check(strings.HasSuffix(m["IHL"], ".IHL") && strings.HasSuffix(m["Options"], ".Options"), key+"header-copied", p.Pos(build.Pos()), "IHL and Options copied together", "IHL and Options of the rebuilt header are not both taken from the fragment")
	}
	// build loop branches
	{
		// the running offset is the phi that is compared with frag.FragOffset*8
		nApp := 0
		core.Instrs(build, func(ins ssa.Instruction) {
			nm, cc := core.BuiltinCall(ins)
			if nm != "append" || !core.IsByteSlice(cc.Args[0].Type()) {
				return
			}
			nApp++
			rels := offsetRels(build, ins.Block())
			key := core.FnKey(build) + "/append#" + string(rune('0'+nApp))
			okBranch := false
			overlap := false
			for _, r := range rels {
				if r == "==" {
					okBranch = true
				}
				if r == "<" {
					okBranch, overlap = true, true
				}
			}
			r5.Check(okBranch, key+"/branch", p.InstrPos(ins), "bytes appended only when the fragment starts at or before the running offset", "fragment bytes are appended on a branch that is neither 'contiguous' nor 'overlapping': a hole would be closed up silently")
			if overlap {
				// the appended slice is Payload[s:]; the offset update in this block must depend on s
				var trim ssa.Value
				if sl, ok := cc.Args[1].(*ssa.Slice); ok && sl.Low != nil {
					trim = sl.Low
				}
				dep := false
				if trim != nil {
					core.Instrs(build, func(i2 ssa.Instruction) {
						bo, ok := i2.(*ssa.BinOp)
						if !ok || i2.Block() != ins.Block() || (bo.Op != token.ADD && bo.Op != token.SUB) {
							return
						}
						// feeds the running-offset phi?
						for _, ref := range *bo.Referrers() {
							if _, isPhi := ref.(*ssa.Phi); isPhi && dependsOn(bo, core.StripConv(trim), 0) {
								dep = true
							}
						}
					})
				}
				r5.Check(dep, key+"/overlap-advance", p.InstrPos(ins), "the running offset advances by an amount that depends on the trimmed prefix", "in the overlapping branch the running offset does not advance by the number of bytes actually appended (it ignores how much was trimmed): later fragments are placed at the wrong offset and a hole can be hidden")
			}
		})
		if nApp < 2 {
			r5.Missing(core.FnKey(build)+"/appends", "expected a contiguous and an overlapping append")
		}
		// hole branch returns an error: some return with non-nil error under offset ">" relation
		okHole := false
		for _, ret := range core.Returns(build) {
			if len(ret.Results) == 2 && provablyNonNilErr(ret.Results[1], ret.Block()) {
				for _, r := range offsetRels(build, ret.Block()) {
					if r == ">" {
						okHole = true
					}
				}
			}
		}
		r5.Check(okHole, core.FnKey(build)+"/hole-is-error", p.Pos(build.Pos()), "a fragment starting beyond the running offset makes build fail", "a hole between fragments does not make the rebuild fail")
	}
	// ---- R13.4
	{
		var site ssa.Instruction
		core.Instrs(insert, func(ins ssa.Instruction) {
			if cc := core.CallCommonOf(ins); cc != nil && cc.StaticCallee() == build {
				site = ins
			}
		})
		if site == nil {
			r4.Missing(core.FnKey(insert)+"/build", "call of build not found")
		} else {
			final, equal := false, false
			for _, dc := range core.DomConds(site.Block()) {
				if _, ok := core.LoadsField(dc.V, "FinalReceived"); ok && dc.Truth {
					final = true
				}
				if bo, ok := dc.V.(*ssa.BinOp); ok && ((bo.Op == token.EQL && dc.Truth) || (bo.Op == token.NEQ && !dc.Truth)) {
					a, b := termOf(insert, bo.X, 0), termOf(insert, bo.Y, 0)
					if (strings.HasSuffix(a, ".Highest") && strings.HasSuffix(b, ".Current")) || (strings.HasSuffix(b, ".Highest") && strings.HasSuffix(a, ".Current")) {
						equal = true
					}
				}
			}
			r4.Check(final && equal, core.FnKey(insert)+"/build-when-complete", p.InstrPos(site), "build only under FinalReceived && Highest == Current", "the datagram is rebuilt although the final fragment was not seen or the byte count does not match the highest offset")
		}
		// duplicates: the equal-offset branch returns nil,nil
		dup := false
		for _, ret := range core.Returns(insert) {
			if len(ret.Results) == 2 && core.IsNilConst(ret.Results[0]) && core.IsNilConst(ret.Results[1]) {
				for _, dc := range core.DomConds(ret.Block()) {
					if bo, ok := dc.V.(*ssa.BinOp); ok && bo.Op == token.EQL && dc.Truth {
						a, b := termOf(insert, bo.X, 0), termOf(insert, bo.Y, 0)
						if strings.HasSuffix(a, ".FragOffset") && strings.HasSuffix(b, ".FragOffset") {
							dup = true
						}
					}
				}
			}
		}
		r6.Check(dup, core.FnKey(insert)+"/duplicate-ignored", p.Pos(insert.Pos()), "a fragment with an offset already present is dropped before the counters change", "duplicate fragments are counted again: Current overshoots Highest and the datagram never completes (or completes early)")
		// counters: Current += fragLength, Highest = max(...) with the same fragLength
		var cur, hi string
		core.Instrs(insert, func(ins ssa.Instruction) {
			st, ok := ins.(*ssa.Store)
			if !ok {
				return
			}
			fa, ok := st.Addr.(*ssa.FieldAddr)
			if !ok || !core.IsRecvParam(insert, fa.X) {
				return
			}
			switch core.FieldOfAddr(fa).Name() {
			case "Current":
				cur = termOf(insert, st.Val, 0)
			case "Highest":
				hi = termOf(insert, st.Val, 0)
			}
		})
		okCnt := strings.HasPrefix(cur, "+(") && strings.Contains(cur, ".Current") && strings.HasPrefix(hi, "+(") && strings.Contains(hi, ".FragOffset")
		r4.Check(okCnt, core.FnKey(insert)+"/counters", p.Pos(insert.Pos()), "Current += len, Highest = offset + len", "the completeness counters are not updated as Current += fragment length and Highest = offset + fragment length: "+cur+" / "+hi)
	}
	_ = types.Typ
}

func itoa(k int64) string { return strconv.FormatInt(k, 10) }

// offsetRels: relations (frag.FragOffset*8 REL runningOffset) that dominate block b.
func offsetRels(fn *ssa.Function, b *ssa.BasicBlock) []string {
	var out []string
	for _, dc := range core.DomConds(b) {
		bo, ok := dc.V.(*ssa.BinOp)
		if !ok {
			continue
		}
		aOff := isFragOff(bo.X)
		bOff := isFragOff(bo.Y)
		if aOff == bOff {
			continue
		}
		op := bo.Op
		if bOff { // normalise to FragOffset on the left
			switch op {
			case token.LSS:
				op = token.GTR
			case token.GTR:
				op = token.LSS
			case token.LEQ:
				op = token.GEQ
			case token.GEQ:
				op = token.LEQ
			}
		}
		if !dc.Truth {
			switch op {
			case token.EQL:
				op = token.NEQ
			case token.NEQ:
				op = token.EQL
			case token.LSS:
				op = token.GEQ
			case token.GEQ:
				op = token.LSS
			case token.GTR:
				op = token.LEQ
			case token.LEQ:
				op = token.GTR
			}
		}
		out = append(out, op.String())
	}
	// derive ">" from "!=" and ">="
	has := map[string]bool{}
	for _, r := range out {
		has[r] = true
	}
	if has["!="] && has[">="] {
		out = append(out, ">")
	}
	if has["!="] && has["<="] {
		out = append(out, "<")
	}
	return out
}

func dependsOn(v ssa.Value, target ssa.Value, depth int) bool {
	if depth > 8 {
		return false
	}
	v = core.StripConv(v)
	if v == target {
		return true
	}
	switch x := v.(type) {
	case *ssa.BinOp:
		return dependsOn(x.X, target, depth+1) || dependsOn(x.Y, target, depth+1)
	case *ssa.UnOp:
		return dependsOn(x.X, target, depth+1)
	case *ssa.Call:
		for _, a := range x.Call.Args {
			if dependsOn(a, target, depth+1) {
				return true
			}
		}
	}
	return false
}

// isFragOff: v is frag.FragOffset or frag.FragOffset*8 (a load, possibly scaled).
func isFragOff(v ssa.Value) bool {
	v = core.StripConv(v)
	if bo, ok := v.(*ssa.BinOp); ok && (bo.Op == token.MUL || bo.Op == token.SHL) {
		if _, isK := core.ConstInt(bo.Y); isK {
			v = core.StripConv(bo.X)
		} else if _, isK := core.ConstInt(bo.X); isK {
			v = core.StripConv(bo.Y)
		}
	}
	_, ok := core.LoadsField(v, "FragOffset")
	return ok
}

// flagsThroughMasks (R13.9): in ip4defrag the IPv4 Flags field is a bit set
// (reserved, DF, MF): every comparison on it goes through a mask with a
// constant.  A raw `Flags == 0` treats a packet with only the reserved bit set
// as a fragment.
func flagsThroughMasks(c *core.Ctx, r *core.Rule) {
	p := c.P
	n := 0
	for _, fn := range pkgFunctions(p, "ip4defrag") {
		k := 0
		core.Instrs(fn, func(ins ssa.Instruction) {
			bo, ok := ins.(*ssa.BinOp)
			if !ok {
				return
			}
			switch bo.Op {
			case token.EQL, token.NEQ, token.LSS, token.GTR, token.LEQ, token.GEQ:
			default:
				return
			}
			isFlags := func(v ssa.Value) (raw, masked bool) {
				v = core.StripConv(v)
				if a, ok := v.(*ssa.BinOp); ok && a.Op == token.AND {
					for _, s := range []ssa.Value{a.X, a.Y} {
						if ld, ok := core.StripConv(s).(*ssa.UnOp); ok && ld.Op == token.MUL {
							if fa, ok := ld.X.(*ssa.FieldAddr); ok && core.FieldOfAddr(fa).Name() == "Flags" {
								return false, true
							}
						}
					}
				}
				if ld, ok := v.(*ssa.UnOp); ok && ld.Op == token.MUL {
					if fa, ok := ld.X.(*ssa.FieldAddr); ok && core.FieldOfAddr(fa).Name() == "Flags" {
						return true, false
					}
				}
				return false, false
			}
			for _, s := range []ssa.Value{bo.X, bo.Y} {
				raw, masked := isFlags(s)
				if !raw && !masked {
					continue
				}
				n++
				k++
				key := fmt.Sprintf("%s/flags-test#%d", core.FnKey(fn), k)
				if masked {
					r.OK(key, p.InstrPos(ins), "Flags tested through a mask")
				} else {
					r.Violate(key, p.InstrPos(ins), "the IPv4 Flags field is compared as a whole instead of through the More-Fragments / Don't-Fragment mask: a packet that is not a fragment but carries another flag bit (the reserved bit) is taken for a fragment — it is swallowed as a duplicate of a pending datagram's first fragment, or handed back as a rebuilt, different layer", nil)
				}
			}
		})
	}
	c.Counts["ip4_flags_tests"] = n
	if n < 3 {
		r.Missing("ip4defrag/Flags tests", fmt.Sprintf("only %d found", n))
	}
}

// listsOnlyFromTheMap (R13.10): the fragment list a defragmenter inserts into
// is the one found in its map under the packet's key, or a new list that it
// stores into the map under that key — never a list remembered elsewhere
// (a "last used" field): flush and DiscardOlderThan delete from the map, and
// a remembered list survives them.
func listsOnlyFromTheMap(c *core.Ctx, r *core.Rule) {
	p := c.P
	n := 0
	for _, pkg := range []string{"ip4defrag", "ip6defrag"} {
		for _, fn := range pkgFunctions(p, pkg) {
			core.Instrs(fn, func(ins ssa.Instruction) {
				call, ok := ins.(*ssa.Call)
				if !ok {
					return
				}
				f := call.Call.StaticCallee()
				if f == nil || f.Name() != "insert" || f.Signature.Recv() == nil || len(call.Call.Args) == 0 {
					return
				}
				n++
				bad := ""
				seen := map[ssa.Value]bool{}
				var walk func(v ssa.Value, d int)
				walk = func(v ssa.Value, d int) {
					if d > 8 || seen[v] || bad != "" {
						return
					}
					seen[v] = true
					switch x := v.(type) {
					case *ssa.Phi:
						for _, e := range x.Edges {
							walk(e, d+1)
						}
					case *ssa.Extract:
						walk(x.Tuple, d+1)
					case *ssa.Lookup:
						// map lookup: fine
					case *ssa.Alloc:
						// a new list: must be stored into a map
						stored := false
						for _, ref := range *x.Referrers() {
							if mu, ok := ref.(*ssa.MapUpdate); ok && mu.Value == ssa.Value(x) {
								stored = true
							}
						}
						if !stored {
							bad = "a new list that is not stored into the map"
						}
					case *ssa.Const:
					case *ssa.UnOp:
						if x.Op == token.MUL {
							if fa, ok := x.X.(*ssa.FieldAddr); ok {
								bad = "the list remembered in field " + core.FieldOfAddr(fa).Name()
								return
							}
						}
						bad = "a list loaded from memory"
					default:
						bad = "a list that is not the result of a map lookup"
					}
				}
				walk(call.Call.Args[0], 0)
				key := core.FnKey(fn) + "/insert-target"
				if bad == "" {
					r.OK(key, p.InstrPos(ins), "the list comes from the map (or is new and stored into it)")
				} else {
					r.Violate(key, p.InstrPos(ins), "the fragment is inserted into "+bad+": the functions that forget a datagram (flush, DiscardOlderThan) delete it from the map only, so a later fragment with the same key is added to the forgotten list — a discarded datagram is completed after all, or a new datagram that reuses the id is mixed with its bytes", nil)
				}
			})
		}
	}
	if n < 1 {
		r.Missing("defrag/insert calls", "none found")
	}
}

// adjacencyIsEquality (R13.11): where the end of a fragment (offset + length)
// is compared with the offset of the next fragment to decide whether the list
// is complete, the comparison is an equality: `end < next.offset` accepts
// overlapping fragments as adjacent and the payloads are concatenated whole.
func adjacencyIsEquality(c *core.Ctx, r *core.Rule) {
	p := c.P
	n := 0
	for _, pkg := range []string{"ip4defrag", "ip6defrag"} {
		for _, fn := range pkgFunctions(p, pkg) {
			k := 0
			core.Instrs(fn, func(ins ssa.Instruction) {
				bo, ok := ins.(*ssa.BinOp)
				if !ok {
					return
				}
				switch bo.Op {
				case token.EQL, token.NEQ, token.LSS, token.GTR, token.LEQ, token.GEQ:
				default:
					return
				}
				// one side: load of .offset of a value loaded from .next ; other side: an ADD with a load of .offset
				nextOffset := func(v ssa.Value) bool {
					ld, ok := core.StripConv(v).(*ssa.UnOp)
					if !ok || ld.Op != token.MUL {
						return false
					}
					fa, ok := ld.X.(*ssa.FieldAddr)
					if !ok || core.FieldOfAddr(fa).Name() != "offset" {
						return false
					}
					l2, ok := fa.X.(*ssa.UnOp)
					if !ok || l2.Op != token.MUL {
						return false
					}
					f2, ok := l2.X.(*ssa.FieldAddr)
					return ok && core.FieldOfAddr(f2).Name() == "next"
				}
				endExpr := func(v ssa.Value) bool {
					a, ok := core.StripConv(v).(*ssa.BinOp)
					if !ok || a.Op != token.ADD {
						return false
					}
					for _, s := range []ssa.Value{a.X, a.Y} {
						if ld, ok := core.StripConv(s).(*ssa.UnOp); ok && ld.Op == token.MUL {
							if fa, ok := ld.X.(*ssa.FieldAddr); ok && core.FieldOfAddr(fa).Name() == "offset" {
								return true
							}
						}
					}
					return false
				}
				if !(nextOffset(bo.X) && endExpr(bo.Y) || nextOffset(bo.Y) && endExpr(bo.X)) {
					return
				}
				n++
				k++
				key := fmt.Sprintf("%s/adjacency#%d", core.FnKey(fn), k)
				if bo.Op == token.EQL || bo.Op == token.NEQ {
					r.OK(key, p.InstrPos(ins), "end of a fragment is compared with the next offset for equality")
				} else {
					r.Violate(key, p.InstrPos(ins), "the end of a fragment is compared with the next fragment's offset by an ordering instead of for equality: fragments that overlap are accepted as adjacent, the list is declared complete and the payloads are concatenated whole — the datagram returned is longer than the original and has bytes at wrong offsets", nil)
				}
			})
		}
	}
	c.Counts["adjacency_tests"] = n
	if n < 1 {
		r.Missing("defrag/adjacency tests", "no comparison of offset+length with next.offset found (ip6defrag was confirmed by reading)")
	}
}
