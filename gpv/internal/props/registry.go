// Package props holds one file per property: the structural rules of
// DESIGN.md section 4, expressed over the engines.
package props

import "gpv/internal/core"

// Registry maps property id to its check.
var Registry = map[string]func(*core.Ctx){}

func register(id string, f func(*core.Ctx)) { Registry[id] = f }
