package props

import (
	"golang.org/x/tools/go/ssa"

	"gpv/internal/core"
)

// builderParam returns the PacketBuilder parameter of fn (or nil).
func builderParam(fn *ssa.Function) *ssa.Parameter {
	for _, pa := range fn.Params {
		if core.NamedIs(pa.Type(), "PacketBuilder") {
			return pa
		}
	}
	return nil
}

func isBuilderCall(ins ssa.Instruction, method string) bool {
	cc := core.CallCommonOf(ins)
	return cc != nil && core.InvokeOn(cc, "PacketBuilder", method)
}

// mustAddSummary: functions (taking a PacketBuilder) all of whose paths to a
// return with a possibly-nil error pass AddLayer (directly or via a callee
// that must add).
func mustAddSummary(p *core.Prog, fns []*ssa.Function) map[*ssa.Function]bool {
	sum := map[*ssa.Function]bool{}
	changed := true
	for iter := 0; changed && iter < 6; iter++ {
		changed = false
		for _, fn := range fns {
			if sum[fn] || builderParam(fn) == nil {
				continue
			}
			adds := func(ins ssa.Instruction) bool {
				if isBuilderCall(ins, "AddLayer") {
					return true
				}
				if cc := core.CallCommonOf(ins); cc != nil {
					if f := cc.StaticCallee(); f != nil && sum[f] {
						return true
					}
				}
				return false
			}
			esc := core.ForwardSearch(fn, nil, func(ins ssa.Instruction) bool {
				ret, ok := ins.(*ssa.Return)
				if !ok {
					return false
				}
				// error-returning exits do not count
				if n := len(ret.Results); n > 0 {
					if provablyNonNilErr(ret.Results[n-1], ret.Block()) {
						return false
					}
				}
				return true
			}, adds)
			if esc == nil {
				sum[fn] = true
				changed = true
			}
		}
	}
	return sum
}

// provablyNonNilErr: v is certainly a non-nil error at block b.
func provablyNonNilErr(v ssa.Value, b *ssa.BasicBlock) bool {
	switch x := v.(type) {
	case *ssa.Const:
		return false
	case *ssa.Call:
		switch core.StaticName(&x.Call) {
		case "errors.New", "fmt.Errorf":
			return true
		}
	case *ssa.MakeInterface:
		return true
	case *ssa.UnOp:
		if g, ok := x.X.(*ssa.Global); ok && len(g.Name()) > 3 && (g.Name()[:3] == "err" || g.Name()[:3] == "Err") {
			return true
		}
	case *ssa.Phi:
		for _, e := range x.Edges {
			if !provablyNonNilErr(e, b) {
				return false
			}
		}
		return true
	}
	return core.UnderErrNonNil(b, v)
}

func checkC01Rest(c *core.Ctx) {
	p := c.P
	roots := p.Roots()
	r14 := c.Rule("R1.4", "T", "every decoder adds a layer before chaining to the next decoder")
	fns := core.SortedFns(roots.DecReach)
	sum := mustAddSummary(p, fns)
	n := 0
	for _, fn := range fns {
		bp := builderParam(fn)
		if bp == nil {
			continue
		}
		core.Instrs(fn, func(ins ssa.Instruction) {
			if !isBuilderCall(ins, "NextDecoder") {
				return
			}
			n++
			esc := core.ForwardSearch(fn, nil, func(i ssa.Instruction) bool { return i == ins }, func(i ssa.Instruction) bool {
				if isBuilderCall(i, "AddLayer") {
					return true
				}
				if cc := core.CallCommonOf(i); cc != nil {
					if f := cc.StaticCallee(); f != nil && sum[f] {
						return true
					}
				}
				return false
			})
			r14.Check(esc == nil, core.FnKey(fn)+"/NextDecoder", p.InstrPos(ins), "AddLayer precedes on every path", "NextDecoder reachable without a preceding AddLayer: eager decoding returns ErrNoLayersAdded, lazy decoding re-decodes the same bytes")
		})
	}
	c.Counts["NextDecoder_sites"] = n

	r13 := c.Rule("R1.3", "B", "no error returned by decode-reachable module code is dropped or swallowed inside decode code")
	n13 := decodeErrorDiscipline(c, r13, fns, func(cc *ssa.CallCommon) bool {
		if f := cc.StaticCallee(); f != nil {
			return p.InModule(f) && roots.DecReach[f]
		}
		if cc.IsInvoke() {
			switch cc.Method.Name() {
			case "DecodeFromBytes", "NextDecoder", "Decode":
				return cc.Method.Pkg() != nil && cc.Method.Pkg().Path() == core.Mod
			}
		}
		return false
	})
	c.Counts["decode_error_call_sites"] = n13
}

// decodeErrorDiscipline: R1.3 over a set of functions; callee filter decides
// which error-returning callees are "decode results".
func decodeErrorDiscipline(c *core.Ctx, r *core.Rule, fns []*ssa.Function, calleeOK func(cc *ssa.CallCommon) bool) int {
	p := c.P
	n := 0
	for _, fn := range fns {
		perKey := map[string]int{}
		core.Instrs(fn, func(ins ssa.Instruction) {
			call, ok := ins.(*ssa.Call)
			if !ok || !returnsError(call.Call.Signature()) || !calleeOK(&call.Call) {
				return
			}
			if f := call.Call.StaticCallee(); f != nil && neverFails(f) {
				return // callee's error result is the nil constant on every return
			}
			n++
			name := core.StaticName(&call.Call)
			if name == "" {
				name = "invoke " + call.Call.Method.Name()
			} else if f := call.Call.StaticCallee(); f != nil {
				name = core.FnKey(f)
			}
			perKey[name]++
			key := core.FnKey(fn) + "/call:" + name
			if perKey[name] > 1 {
				key += "#" + string(rune('0'+perKey[name]))
			}
			v, at := errFlow(fn, call)
			switch v {
			case efOK:
				r.OK(key, p.InstrPos(ins), "error returned, wrapped or handed on")
			case efDropped:
				r.Violate(key, p.InstrPos(ins), "error result of "+name+" is discarded: a failed sub-decode is reported as success", nil)
			case efSwallowed:
				r.Violate(key, p.InstrPos(ins), "error of "+name+" is tested but a path from the err != nil edge returns without reporting it (return at "+p.InstrPos(at)+")", nil)
			}
		})
	}
	return n
}

// neverFails: every return of f has the nil constant as its error result.
func neverFails(f *ssa.Function) bool {
	rets := core.Returns(f)
	if len(rets) == 0 {
		return false
	}
	for _, r := range rets {
		if len(r.Results) == 0 || !core.IsNilConst(r.Results[len(r.Results)-1]) {
			return false
		}
	}
	return true
}
