package props

import (
	"fmt"
	"go/token"
	"go/types"
	"os"
	"sort"
	"strings"

	"golang.org/x/tools/go/ssa"

	"gpv/internal/core"
	"gpv/internal/guard"
)

// builderParam returns the PacketBuilder parameter of fn (or nil).
func builderParam(fn *ssa.Function) *ssa.Parameter {
	for _, pa := range fn.Params {
		if core.NamedIs(pa.Type(), "PacketBuilder") {
			return pa
		}
	}
	return nil
}

func isBuilderCall(ins ssa.Instruction, method string) bool {
	cc := core.CallCommonOf(ins)
	return cc != nil && core.InvokeOn(cc, "PacketBuilder", method)
}

// mustAddSummary: functions (taking a PacketBuilder) all of whose paths to a
// return with a possibly-nil error pass AddLayer (directly or via a callee
// that must add).
func mustAddSummary(p *core.Prog, fns []*ssa.Function) map[*ssa.Function]bool {
	sum := map[*ssa.Function]bool{}
	changed := true
	for iter := 0; changed && iter < 6; iter++ {
		changed = false
		for _, fn := range fns {
			if sum[fn] || builderParam(fn) == nil {
				continue
			}
			adds := func(ins ssa.Instruction) bool {
				if isBuilderCall(ins, "AddLayer") {
					return true
				}
				if cc := core.CallCommonOf(ins); cc != nil {
					if f := cc.StaticCallee(); f != nil && sum[f] {
						return true
					}
				}
				return false
			}
			esc := core.ForwardSearch(fn, nil, func(ins ssa.Instruction) bool {
				ret, ok := ins.(*ssa.Return)
				if !ok {
					return false
				}
				// error-returning exits do not count
				if n := len(ret.Results); n > 0 {
					if provablyNonNilErr(core.RetOperand(ret, n-1), ret.Block()) {
						return false
					}
				}
				return true
			}, adds)
			if esc == nil {
				sum[fn] = true
				changed = true
			}
		}
	}
	return sum
}

// provablyNonNilErr: v is certainly a non-nil error at block b.
func provablyNonNilErr(v ssa.Value, b *ssa.BasicBlock) bool {
	switch x := v.(type) {
	case *ssa.Const:
		return false
	case *ssa.Call:
		switch core.StaticName(&x.Call) {
		case "errors.New", "fmt.Errorf":
			return true
		}
	case *ssa.MakeInterface:
		return true
	case *ssa.UnOp:
		if g, ok := x.X.(*ssa.Global); ok && types.Identical(x.Type(), errorType) {
			n := g.Name()
			if n == "EOF" || (len(n) > 3 && (n[:3] == "err" || n[:3] == "Err")) {
				return true
			}
		}
	case *ssa.Phi:
		for _, e := range x.Edges {
			if !provablyNonNilErr(e, b) {
				return false
			}
		}
		return true
	}
	return core.UnderErrNonNil(b, v)
}

func checkC01Rest(c *core.Ctx) {
	p := c.P
	roots := p.Roots()
	r14 := c.Rule("R1.4", "T", "every decoder adds a layer before chaining to the next decoder")
	fns := core.SortedFns(roots.DecReach)
	addLayerBeforeChaining(c, r14)

	r13 := c.Rule("R1.3", "B", "no error returned by decode-reachable module code is dropped or swallowed inside decode code")
	n13 := decodeErrorDiscipline(c, r13, fns, func(cc *ssa.CallCommon) bool {
		if f := cc.StaticCallee(); f != nil {
			return p.InModule(f) && roots.DecReach[f]
		}
		if cc.IsInvoke() {
			switch cc.Method.Name() {
			case "DecodeFromBytes", "NextDecoder", "Decode":
				return cc.Method.Pkg() != nil && cc.Method.Pkg().Path() == core.Mod
			}
		}
		return false
	})
	c.Counts["decode_error_call_sites"] = n13
	// errors built in decode code are used: a value of errors.New / fmt.Errorf (or any
	// call returning just an error) that nothing refers to was meant for a return that
	// no longer carries it (named result overwritten by an explicit `return x, nil`)
	nBuilt := 0
	for _, fn := range fns {
		k := 0
		core.Instrs(fn, func(ins ssa.Instruction) {
			call, ok := ins.(*ssa.Call)
			if !ok || !types.Identical(call.Type(), errorType) {
				return
			}
			f := call.Call.StaticCallee()
			if f == nil || f.Pkg == nil || !(f.Pkg.Pkg.Path() == "errors" && f.Name() == "New" || f.Pkg.Pkg.Path() == "fmt" && f.Name() == "Errorf") {
				return
			}
			nBuilt++
			used := false
			for _, ref := range *call.Referrers() {
				if _, dbg := ref.(*ssa.DebugRef); !dbg {
					used = true
				}
			}
			if !used {
				k++
				r13.Violate(fmt.Sprintf("%s/built-error-unused#%d", core.FnKey(fn), k), p.InstrPos(ins), "an error is built here but no return, store or call receives it: the failure it describes is reported as success (a named error result assigned before a break/goto is overwritten by an explicit nil in the return that follows)", nil)
			}
		})
	}
	c.Counts["errors_built_in_decode_code"] = nBuilt
	if nBuilt < 300 {
		r13.Missing("decode/built errors", fmt.Sprintf("only %d error constructions found", nBuilt))
	} else {
		r13.OK("decode/built-errors-used", "", fmt.Sprintf("%d error values built by errors.New/fmt.Errorf in decode-reachable code; every one is referred to", nBuilt))
	}

	r16 := c.Rule("R1.6", "D", "progress: a decoder that hands data[n:] to the next decoder has n >= 1 proven (or at least not refuted)")
	payloadProgress(c, r16)

	{
		r18 := c.Rule("R1.8", "D", "no consistent path through a decoder or renderer dereferences a pointer that the path's own nil test found nil")
		set := map[*ssa.Function]bool{}
		for fn := range roots.DecReach {
			set[fn] = true
		}
		for fn := range roots.AccReach {
			set[fn] = true
		}
		nilPathScan(c, r18, core.SortedFns(set))
	}
	passThroughCycles(c, c.Rule("R1.9", "D", "a layer that passes its whole input on as payload never names a layer type as next that it decodes itself"))
	loopProgress(c, c.Rule("R1.10", "D", "decode loops advance (= R19.3): a loop whose step can be 0 never returns, which no recovery can end"))
	r15 := c.Rule("R1.5", "D", "renderers are total on what decoders publish: no unguarded dereference of a pointer field decoders may leave nil")
	unset := nilDerefScan(c, r15)

	r17 := c.Rule("R1.7", "D", "renderers are total on what decoders publish: in read-only API code, a constant index / slice bound / binary.UintN on a byte-slice field is dominated by a length guard on that same slice")
	nR := 0
	for _, fn := range core.SortedFns(roots.AccReach) {
		if roots.DecReach[fn] || strings.HasSuffix(p.Pos(fn.Pos()), "_test.go") {
			continue
		}
		perKey := map[string]int{}
		for _, s := range guard.Analyze(fn, nil) {
			if !core.IsByteSlice(s.Slice.Type()) {
				continue
			}
			// the slice must come from memory (a field), not from a parameter or a local make
			if s.Class != "SAFE" && s.Class != "CAND-load" {
				continue
			}
			if s.Class == "SAFE" && !guard.ViaLoad(s.Slice) {
				continue
			}
			nR++
			perKey[s.What]++
			key := core.FnKey(fn) + "/index" + s.What
			if perKey[s.What] > 1 {
				key += "#" + string(rune('0'+perKey[s.What]))
			}
			fname := ""
			if ld, ok := s.Root.(*ssa.UnOp); ok && ld.Op == token.MUL {
				if fa, ok := ld.X.(*ssa.FieldAddr); ok {
					fname = fa.X.Type().Underlying().(*types.Pointer).Elem().String() + "." + core.FieldOfAddr(fa).Name()
				}
			}
			if s.Class == "SAFE" {
				r17.OK(key, p.InstrPos(s.Ins), "length guard dominates")
			} else if !unset[fname] {
				r17.Undecided(key, p.InstrPos(s.Ins), fmt.Sprintf("%s needs %d bytes of %s, %d established here; whether decoders always publish enough is not decided (no decode-side creation leaves the field unset)", s.What, s.Need, fname, s.Have))
			} else {
				r17.Violate(key, p.InstrPos(s.Ins), fmt.Sprintf("%s needs %d bytes of a slice loaded from a field but only %d are established by dominating guards on that slice: and decode code creates values of that type without setting the field ("+fname+"): a half-decoded value published before an error return makes this read-only call panic outside any recovery", s.What, s.Need, s.Have), nil)
			}
		}
	}
	c.Counts["renderer_index_sites"] = nR
}

// decodeErrorDiscipline: R1.3 over a set of functions; callee filter decides
// which error-returning callees are "decode results".
func decodeErrorDiscipline(c *core.Ctx, r *core.Rule, fns []*ssa.Function, calleeOK func(cc *ssa.CallCommon) bool) int {
	p := c.P
	n := 0
	for _, fn := range fns {
		perKey := map[string]int{}
		core.Instrs(fn, func(ins ssa.Instruction) {
			call, ok := ins.(*ssa.Call)
			if !ok || !returnsError(call.Call.Signature()) || !calleeOK(&call.Call) {
				return
			}
			if f := call.Call.StaticCallee(); f != nil && neverFails(f) {
				return // callee's error result is the nil constant on every return
			}
			n++
			name := core.StaticName(&call.Call)
			if name == "" {
				name = "invoke " + call.Call.Method.Name()
			} else if f := call.Call.StaticCallee(); f != nil {
				name = core.FnKey(f)
			}
			perKey[name]++
			key := core.FnKey(fn) + "/call:" + name
			if perKey[name] > 1 {
				key += "#" + string(rune('0'+perKey[name]))
			}
			v, at := errFlow(fn, call)
			switch v {
			case efOK:
				r.OK(key, p.InstrPos(ins), "error returned, wrapped or handed on")
			case efDropped:
				r.Violate(key, p.InstrPos(ins), "error result of "+name+" is discarded: a failed sub-decode is reported as success", nil)
			case efSwallowed:
				r.Violate(key, p.InstrPos(ins), "error of "+name+" is tested but a path from the err != nil edge returns without reporting it (return at "+p.InstrPos(at)+")", nil)
			}
		})
	}
	return n
}

// neverFails: every return of f has the nil constant as its error result.
func neverFails(f *ssa.Function) bool {
	rets := core.Returns(f)
	if len(rets) == 0 {
		return false
	}
	for _, r := range rets {
		if len(r.Results) == 0 || !core.IsNilConst(core.RetOperand(r, len(r.Results)-1)) {
			return false
		}
	}
	return true
}

// nilDerefScan (R1.5, pointer part): in read-only API code, a pointer loaded
// from a struct field is dereferenced with no dominating nil test of that
// field, while decode code creates values of that struct type without setting
// the field (so nil is a state decoders can publish).
func nilDerefScan(c *core.Ctx, r *core.Rule) map[string]bool {
	p := c.P
	roots := p.Roots()
	// fields that some decode-reachable composite creation leaves unset: type -> field index -> true
	// (a literal T{...} lowers to Alloc + field stores; zero-value appends likewise)
	unset := map[string]bool{}
	for _, fn := range core.SortedFns(roots.DecReach) {
		core.Instrs(fn, func(ins ssa.Instruction) {
			al, ok := ins.(*ssa.Alloc)
			if !ok {
				return
			}
			st, ok := al.Type().Underlying().(*types.Pointer).Elem().Underlying().(*types.Struct)
			if !ok {
				return
			}
			set := map[int]bool{}
			whole := false
			for _, ref := range *al.Referrers() {
				switch x := ref.(type) {
				case *ssa.FieldAddr:
					for _, r2 := range *x.Referrers() {
						if s, ok := r2.(*ssa.Store); ok && s.Addr == ssa.Value(x) && s.Block() == al.Block() {
							set[x.Field] = true
						}
					}
				case *ssa.Store:
					if x.Addr == ssa.Value(al) {
						whole = true
					}
				}
			}
			if whole {
				return
			}
			tn := al.Type().Underlying().(*types.Pointer).Elem().String()
			for i := 0; i < st.NumFields(); i++ {
				_, isPtr := st.Field(i).Type().Underlying().(*types.Pointer)
				if (isPtr || core.IsByteSlice(st.Field(i).Type())) && !set[i] {
					unset[tn+"."+st.Field(i).Name()] = true
				}
			}
		})
	}
	n := 0
	for _, fn := range core.SortedFns(roots.AccReach) {
		perKey := map[string]int{}
		core.Instrs(fn, func(ins ssa.Instruction) {
			var base ssa.Value
			switch x := ins.(type) {
			case *ssa.FieldAddr:
				base = x.X
			case *ssa.UnOp:
				if x.Op == token.MUL {
					base = x.X
				}
			default:
				return
			}
			ld, ok := base.(*ssa.UnOp)
			if !ok || ld.Op != token.MUL {
				return
			}
			if _, ok := ld.Type().Underlying().(*types.Pointer); !ok {
				return
			}
			fa, ok := ld.X.(*ssa.FieldAddr)
			if !ok {
				return
			}
			fld := core.FieldOfAddr(fa)
			tn := fa.X.Type().Underlying().(*types.Pointer).Elem().String()
			n++
			key := core.FnKey(fn) + "/deref:" + fld.Name()
			perKey[key]++
			if perKey[key] > 1 {
				return // one obligation per (function, field)
			}
			// dominating nil test on a load of the same field of the same base
			guarded := false
			for _, dc := range core.DomConds(ins.Block()) {
				bo, ok := dc.V.(*ssa.BinOp)
				if !ok {
					continue
				}
				for _, side := range [][2]ssa.Value{{bo.X, bo.Y}, {bo.Y, bo.X}} {
					if !core.IsNilConst(side[1]) {
						continue
					}
					if l2, ok := side[0].(*ssa.UnOp); ok && l2.Op == token.MUL {
						if f2, ok := l2.X.(*ssa.FieldAddr); ok && f2.Field == fa.Field && types.Identical(f2.X.Type(), fa.X.Type()) {
							if (bo.Op == token.NEQ && dc.Truth) || (bo.Op == token.EQL && !dc.Truth) {
								guarded = true
							}
						}
					}
				}
			}
			switch {
			case guarded:
				r.OK(key, p.InstrPos(ins), "dominated by a nil test of the field")
			case unset[tn+"."+fld.Name()]:
				r.Violate(key, p.InstrPos(ins), "pointer field "+fld.Name()+" of "+tn+" is dereferenced with no nil test although decode code creates "+tn+" values without setting it (a decoder that returns early publishes the nil): rendering the packet panics", nil)
			default:
				r.Undecided(key, p.InstrPos(ins), "no nil test; no decode-side creation leaving the field unset was found")
			}
		})
	}
	c.Counts["pointer_field_derefs_in_accessors"] = n
	return unset
}

// payloadProgress: shared by R1.6 and R19.6.
func payloadProgress(c *core.Ctx, r16 *core.Rule) {
	p := c.P
	roots := p.Roots()
	nPA := 0
	var paFns []*ssa.Function
	for fn := range roots.DecReach {
		if fn.Pkg != nil && len(fn.Blocks) > 0 && !strings.HasSuffix(p.Pos(fn.Pos()), "_test.go") {
			paFns = append(paFns, fn)
		}
	}
	sort.Slice(paFns, func(i, j int) bool { return core.FnKey(paFns[i]) < core.FnKey(paFns[j]) })
	for _, fn := range paFns {
		for _, prm := range fn.Params {
			if !core.IsByteSlice(prm.Type()) {
				continue
			}
			seen := 0
			for _, pa := range guard.PayloadAdvances(fn, prm) {
				nPA++
				seen++
				key := core.FnKey(fn) + "/payload-advance"
				if seen > 1 {
					key += "#" + string(rune('0'+seen))
				}
				switch {
				case pa.LB >= 1:
					r16.OK(key, p.InstrPos(pa.At), "payload starts at an offset >= 1")
				case pa.Taint && pa.LB <= 0 && pa.LB > -1<<30 && !pa.AltArith && !pa.Loop:
					why := "no guard establishes n >= 1"
					if pa.LBNoWrap >= 1 {
						why = "n is computed in a narrow unsigned type and wraps to 0 for large field values, and the dominating guards test the wrapped value itself"
					}
					// a zero advance only matters if the same bytes can come back to this decoder
					dg := getDecGraph(p)
					starts, selves := dg.decoderSelves(fn)
					cyc, known := false, len(starts) > 0
					for _, s := range starts {
						y, k := dg.mayChainToSelf(s, selves)
						cyc = cyc || y
						known = known && k
					}
					if os.Getenv("GPV_DEBUG_DEC") != "" {
						fmt.Println("DEBUG DEC", core.FnKey(fn), "starts", len(starts), "cyc", cyc, "known", known)
						for _, s := range starts {
							n := dg.nextOf(s)
							fmt.Print("   start ", core.FnKey(s), " unknown=", n.unknown, " next:")
							for f := range n.set {
								fmt.Print(" ", f.Name())
							}
							fmt.Println()
						}
						fmt.Print("   selves:")
						for f := range selves {
							fmt.Print(" ", core.FnKey(f))
						}
						fmt.Println()
					}
					if !cyc && (known || pa.Merged) {
						reason := "n may be 0, but the decoders that can follow this one were resolved and none of them is this decoder: no cycle on the same bytes found"
						if !known {
							reason = "n may be 0 on one side of a merge and the decoders that can follow are not all resolved"
						}
						r16.Undecided(key, p.InstrPos(pa.At), reason)
						break
					}
					r16.Violate(key, p.InstrPos(pa.At), "the bytes handed to the next decoder start at data[n:] with n taken from the packet and possibly 0 ("+why+"): the same bytes are decoded again and again — eager decoding recurses until the stack overflows (not recoverable), lazy decoding never finishes", nil)
				default:
					r16.Undecided(key, p.InstrPos(pa.At), "n >= 1 not proven")
				}
			}
		}
	}
	c.Counts["payload_advance_sites"] = nPA
}

// addLayerBeforeChaining (R1.4 = R3.4): on every path to a NextDecoder call
// the decoder has added a layer (directly or through a helper that always
// does).  Without it eager decoding returns ErrNoLayersAdded where lazy
// decoding, whose NextDecoder only stores, decodes the same bytes again.
func addLayerBeforeChaining(c *core.Ctx, r14 *core.Rule) {
	p := c.P
	roots := p.Roots()
	fns := core.SortedFns(roots.DecReach)
	sum := mustAddSummary(p, fns)
	n := 0
	for _, fn := range fns {
		bp := builderParam(fn)
		if bp == nil {
			continue
		}
		core.Instrs(fn, func(ins ssa.Instruction) {
			if !isBuilderCall(ins, "NextDecoder") {
				return
			}
			n++
			esc := core.ForwardSearch(fn, nil, func(i ssa.Instruction) bool { return i == ins }, func(i ssa.Instruction) bool {
				if isBuilderCall(i, "AddLayer") {
					return true
				}
				if cc := core.CallCommonOf(i); cc != nil {
					if f := cc.StaticCallee(); f != nil && sum[f] {
						return true
					}
				}
				return false
			})
			r14.Check(esc == nil, core.FnKey(fn)+"/NextDecoder", p.InstrPos(ins), "AddLayer precedes on every path", "NextDecoder reachable without a preceding AddLayer: eager decoding returns ErrNoLayersAdded, lazy decoding re-decodes the same bytes")
		})
	}
	c.Counts["NextDecoder_sites"] = n
}
