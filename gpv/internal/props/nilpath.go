package props

import (
	"fmt"
	"go/constant"
	"go/token"
	"go/types"
	"strings"

	"golang.org/x/tools/go/ssa"

	"gpv/internal/core"
)

// NILPATH — path-consistent nil dereferences (R1.8 = R19.11).
//
// A function that compares a pointer with nil believes it can be nil.  The
// rule walks the function's paths from the entry (each block at most once per
// path), keeping (a) for every φ the operand chosen by the edge taken, (b) a
// truth value for every branch condition, normalised to an atom over
// structural keys of its operands so that `c == 0` and `c != 0`, or two
// occurrences of `s.p` with no store in between, are the same atom, and (c)
// an interval per integer key compared with constants.  A path that would
// need an atom to be both true and false, or an empty interval, is dropped.
// A dereference of P (load, field address, store, element address of *array)
// is reported when on some consistent path P resolves to the nil constant or
// the atom key(P) == nil is true.  Paths are capped; a capped function is
// left undecided.  The dominance-based nilness pass of x/tools cannot see
// these (the dereference is not dominated by the nil edge): `if p == nil &&
// c == 0 { return }; use(*p)`.

type npAtom struct {
	rel  string // "eq" | "lt" | "b"
	x, y string
}

type npState struct {
	atoms map[npAtom]bool
	phi   map[*ssa.Phi]ssa.Value
	lo    map[string]int64
	hi    map[string]int64
	ne    map[string]map[int64]bool
	epoch int
	seen  map[*ssa.BasicBlock]bool
}

func (s *npState) clone() *npState {
	n := &npState{atoms: map[npAtom]bool{}, phi: map[*ssa.Phi]ssa.Value{}, lo: map[string]int64{}, hi: map[string]int64{}, ne: map[string]map[int64]bool{}, epoch: s.epoch, seen: map[*ssa.BasicBlock]bool{}}
	for k, v := range s.atoms {
		n.atoms[k] = v
	}
	for k, v := range s.phi {
		n.phi[k] = v
	}
	for k, v := range s.lo {
		n.lo[k] = v
	}
	for k, v := range s.hi {
		n.hi[k] = v
	}
	for k, v := range s.ne {
		m := map[int64]bool{}
		for a, b := range v {
			m[a] = b
		}
		n.ne[k] = m
	}
	for k, v := range s.seen {
		n.seen[k] = v
	}
	return n
}

type npWalker struct {
	fn      *ssa.Function
	steps   int
	capped  bool
	loadEp  map[*ssa.UnOp]int // epoch at which a load executed on the current path (set while walking)
	reports map[ssa.Instruction]string
}

func (w *npWalker) resolve(v ssa.Value, st *npState) ssa.Value {
	for i := 0; i < 8; i++ {
		switch x := v.(type) {
		case *ssa.Phi:
			if e, ok := st.phi[x]; ok {
				v = e
				continue
			}
		case *ssa.ChangeType:
			v = x.X
			continue
		}
		break
	}
	return v
}

func (w *npWalker) key(v ssa.Value, st *npState, d int) string {
	v = w.resolve(v, st)
	if d > 8 {
		return fmt.Sprintf("%p", v)
	}
	switch x := v.(type) {
	case *ssa.Const:
		if x.Value == nil {
			return "nil"
		}
		return "k:" + x.Value.ExactString()
	case *ssa.Parameter:
		return "p:" + x.Name()
	case *ssa.Field:
		return fmt.Sprintf("F(%s,%d)", w.key(x.X, st, d+1), x.Field)
	case *ssa.Extract:
		return fmt.Sprintf("X(%s,%d)", w.key(x.Tuple, st, d+1), x.Index)
	case *ssa.Convert:
		return w.key(x.X, st, d+1)
	case *ssa.BinOp:
		return fmt.Sprintf("(%s%s%s)", w.key(x.X, st, d+1), x.Op, w.key(x.Y, st, d+1))
	case *ssa.UnOp:
		if x.Op == token.MUL {
			ep, ok := w.loadEp[x]
			if !ok {
				ep = -1
			}
			return fmt.Sprintf("L(%s)@%d", w.addrKey(x.X, st, d+1), ep)
		}
		return fmt.Sprintf("%s(%s)", x.Op, w.key(x.X, st, d+1))
	}
	return fmt.Sprintf("%p", v)
}

func (w *npWalker) addrKey(v ssa.Value, st *npState, d int) string {
	switch x := v.(type) {
	case *ssa.FieldAddr:
		return fmt.Sprintf("%s.%d", w.addrKey(x.X, st, d+1), x.Field)
	case *ssa.IndexAddr:
		return fmt.Sprintf("%s[%s]", w.addrKey(x.X, st, d+1), w.key(x.Index, st, d+1))
	}
	return w.key(v, st, d)
}

// assume records cond == truth; false when inconsistent with the state.
func (w *npWalker) assume(cond ssa.Value, truth bool, st *npState) bool {
	for {
		if u, ok := cond.(*ssa.UnOp); ok && u.Op == token.NOT {
			cond, truth = u.X, !truth
			continue
		}
		break
	}
	cond = w.resolve(cond, st)
	if k, ok := cond.(*ssa.Const); ok && k.Value != nil && k.Value.Kind() == constant.Bool {
		return constant.BoolVal(k.Value) == truth
	}
	bo, ok := cond.(*ssa.BinOp)
	if !ok {
		a := npAtom{"b", w.key(cond, st, 0), ""}
		if t, ok := st.atoms[a]; ok {
			return t == truth
		}
		st.atoms[a] = truth
		return true
	}
	kx, ky := w.key(bo.X, st, 0), w.key(bo.Y, st, 0)
	rx, ry := w.resolve(bo.X, st), w.resolve(bo.Y, st)
	// definite nil-ness of resolved operands
	nonNil := func(v ssa.Value) bool {
		switch v.(type) {
		case *ssa.Alloc, *ssa.FieldAddr, *ssa.IndexAddr, *ssa.MakeSlice, *ssa.MakeMap, *ssa.MakeChan, *ssa.MakeClosure, *ssa.MakeInterface, *ssa.Function, *ssa.Global:
			return true
		}
		return false
	}
	var a npAtom
	switch bo.Op {
	case token.EQL, token.NEQ:
		if bo.Op == token.NEQ {
			truth = !truth
		}
		if (kx == "nil" && nonNil(ry)) || (ky == "nil" && nonNil(rx)) {
			return !truth
		}
		if kx == ky {
			return truth
		}
		if kx > ky {
			kx, ky = ky, kx
			rx, ry = ry, rx
		}
		a = npAtom{"eq", kx, ky}
		// intervals for key-vs-constant
		cv, isK, vk := int64(0), false, ""
		if c, ok := core.ConstInt(rx); ok {
			cv, isK, vk = c, true, ky
		} else if c, ok := core.ConstInt(ry); ok {
			cv, isK, vk = c, true, kx
		}
		if isK {
			if truth {
				if !w.bound(st, vk, cv, cv) || (st.ne[vk] != nil && st.ne[vk][cv]) {
					return false
				}
			} else {
				if lo, ok1 := st.lo[vk]; ok1 {
					if hi, ok2 := st.hi[vk]; ok2 && lo == cv && hi == cv {
						return false
					}
				}
				if st.ne[vk] == nil {
					st.ne[vk] = map[int64]bool{}
				}
				st.ne[vk][cv] = true
			}
		}
		// same pair ordering atoms
		if truth {
			if st.atoms[npAtom{"lt", kx, ky}] || st.atoms[npAtom{"lt", ky, kx}] {
				return false
			}
		}
	case token.LSS, token.GEQ, token.GTR, token.LEQ:
		if bo.Op == token.GEQ || bo.Op == token.LEQ {
			truth = !truth
		}
		if bo.Op == token.GTR || bo.Op == token.LEQ {
			kx, ky = ky, kx
			rx, ry = ry, rx
		}
		// now: (kx < ky) == truth
		if kx == ky {
			return !truth
		}
		a = npAtom{"lt", kx, ky}
		if truth {
			if st.atoms[npAtom{"lt", ky, kx}] {
				return false
			}
			e := npAtom{"eq", kx, ky}
			if kx > ky {
				e = npAtom{"eq", ky, kx}
			}
			if st.atoms[e] {
				return false
			}
		}
		if c, ok := core.ConstInt(ry); ok { // x < c  /  x >= c
			if truth {
				if !w.bound(st, kx, -1<<62, c-1) {
					return false
				}
			} else if !w.bound(st, kx, c, 1<<62) {
				return false
			}
		} else if c, ok := core.ConstInt(rx); ok { // c < y  /  c >= y
			if truth {
				if !w.bound(st, ky, c+1, 1<<62) {
					return false
				}
			} else if !w.bound(st, ky, -1<<62, c) {
				return false
			}
		}
	default:
		a = npAtom{"b", w.key(cond, st, 0), ""}
	}
	if t, ok := st.atoms[a]; ok {
		return t == truth
	}
	st.atoms[a] = truth
	return true
}

func (w *npWalker) bound(st *npState, k string, lo, hi int64) bool {
	if cur, ok := st.lo[k]; !ok || lo > cur {
		st.lo[k] = lo
	}
	if cur, ok := st.hi[k]; !ok || hi < cur {
		st.hi[k] = hi
	}
	return st.lo[k] <= st.hi[k]
}

func (w *npWalker) isNil(p ssa.Value, st *npState) bool {
	r := w.resolve(p, st)
	if k, ok := r.(*ssa.Const); ok && k.Value == nil {
		return true
	}
	k := w.key(p, st, 0)
	a := npAtom{"eq", k, "nil"}
	if k > "nil" {
		a = npAtom{"eq", "nil", k}
	}
	return st.atoms[a]
}

func (w *npWalker) walk(b *ssa.BasicBlock, from *ssa.BasicBlock, st *npState) {
	if w.capped {
		return
	}
	w.steps++
	if w.steps > 40000 {
		w.capped = true
		return
	}
	if st.seen[b] {
		return
	}
	st.seen[b] = true
	// φ resolution
	if from != nil {
		idx := -1
		for i, p := range b.Preds {
			if p == from {
				idx = i
			}
		}
		for _, ins := range b.Instrs {
			ph, ok := ins.(*ssa.Phi)
			if !ok {
				break
			}
			if idx >= 0 {
				st.phi[ph] = w.resolve(ph.Edges[idx], st)
			}
		}
	}
	for _, ins := range b.Instrs {
		var p ssa.Value
		switch x := ins.(type) {
		case *ssa.UnOp:
			if x.Op == token.MUL {
				w.loadEp[x] = st.epoch
				p = x.X
			}
		case *ssa.FieldAddr:
			p = x.X
		case *ssa.IndexAddr:
			if _, isPtr := x.X.Type().Underlying().(*types.Pointer); isPtr {
				p = x.X
			}
		case *ssa.Store:
			p = x.Addr
			st.epoch++
		case *ssa.MapUpdate:
			st.epoch++
		case ssa.CallInstruction:
			cc := x.Common()
			if _, isB := cc.Value.(*ssa.Builtin); !isB {
				st.epoch++
			}
			// a call that never returns ends the path
			if f := cc.StaticCallee(); f != nil && (f.Name() == "panic" || f.String() == "os.Exit") {
				return
			}
		case *ssa.Panic:
			return
		}
		if p != nil {
			if _, isPtr := p.Type().Underlying().(*types.Pointer); isPtr && w.isNil(p, st) {
				if _, dup := w.reports[ins]; !dup {
					w.reports[ins] = w.describe(st)
				}
				return // the path ends in the panic
			}
		}
	}
	switch t := b.Instrs[len(b.Instrs)-1].(type) {
	case *ssa.If:
		s1 := st.clone()
		if w.assume(t.Cond, true, s1) {
			w.walk(b.Succs[0], b, s1)
		}
		s2 := st
		if w.assume(t.Cond, false, s2) {
			w.walk(b.Succs[1], b, s2)
		}
	case *ssa.Jump:
		w.walk(b.Succs[0], b, st)
	}
}

func (w *npWalker) describe(st *npState) string {
	var parts []string
	for a, t := range st.atoms {
		if a.rel == "eq" && (a.x == "nil" || a.y == "nil") && t {
			parts = append(parts, "a nil test of the pointer succeeded")
		}
	}
	if len(parts) == 0 {
		return "the pointer is the nil constant on this path"
	}
	return parts[0]
}

// nilPathScan runs NILPATH over fns; only functions that compare some pointer
// with nil (or merge a nil constant into a pointer φ) are walked.
func nilPathScan(c *core.Ctx, r *core.Rule, fns []*ssa.Function) {
	p := c.P
	nFn, nCap := 0, 0
	for _, fn := range fns {
		if !p.InModule(fn) || len(fn.Blocks) == 0 || strings.HasSuffix(p.Pos(fn.Pos()), "_test.go") {
			continue
		}
		interesting := false
		core.Instrs(fn, func(ins ssa.Instruction) {
			switch x := ins.(type) {
			case *ssa.BinOp:
				if x.Op == token.EQL || x.Op == token.NEQ {
					for _, side := range [][2]ssa.Value{{x.X, x.Y}, {x.Y, x.X}} {
						if core.IsNilConst(side[1]) {
							if _, isPtr := side[0].Type().Underlying().(*types.Pointer); isPtr {
								interesting = true
							}
						}
					}
				}
			case *ssa.Phi:
				if _, isPtr := x.Type().Underlying().(*types.Pointer); isPtr {
					for _, e := range x.Edges {
						if core.IsNilConst(e) {
							interesting = true
						}
					}
				}
			}
		})
		if !interesting {
			continue
		}
		nFn++
		w := &npWalker{fn: fn, loadEp: map[*ssa.UnOp]int{}, reports: map[ssa.Instruction]string{}}
		st := &npState{atoms: map[npAtom]bool{}, phi: map[*ssa.Phi]ssa.Value{}, lo: map[string]int64{}, hi: map[string]int64{}, ne: map[string]map[int64]bool{}, seen: map[*ssa.BasicBlock]bool{}}
		w.walk(fn.Blocks[0], nil, st)
		key := core.FnKey(fn) + "/nil-paths"
		if w.capped {
			nCap++
			r.Undecided(key, p.Pos(fn.Pos()), "too many paths to enumerate")
			continue
		}
		if len(w.reports) == 0 {
			r.OK(key, p.Pos(fn.Pos()), "no consistent path dereferences a pointer that the path's own conditions make nil")
			continue
		}
		k := 0
		for _, b := range fn.Blocks {
			for _, ins := range b.Instrs {
				if why, ok := w.reports[ins]; ok {
					k++
					r.Violate(fmt.Sprintf("%s/nil-deref#%d", core.FnKey(fn), k), p.InstrPos(ins), "a pointer is dereferenced here on a path on which "+why+": the function itself tests this pointer for nil, and the branches between that test and this use let the nil case through (the test is combined with another condition, or the case that handled it was removed), so the call panics with a nil pointer dereference", nil)
				}
			}
		}
	}
	c.Counts["nilpath_functions"] = nFn
	c.Counts["nilpath_capped"] = nCap
	if nFn < 3 {
		r.Missing("nil-testing functions", fmt.Sprintf("only %d found", nFn))
	}
}
