package props

import (
	"fmt"
	"go/types"
	"strings"

	"golang.org/x/tools/go/ssa"

	"gpv/internal/core"
	"gpv/internal/guard"
)

// tableIndexRange (R19.7): a fixed-size table indexed by a value of a named
// small integer type (an enum decoded from the packet) is large enough for
// every value decode code can give that type.
func tableIndexRange(c *core.Ctx, r *core.Rule) {
	p := c.P
	roots := p.Roots()
	namedInt := func(t types.Type) *types.Named {
		n, ok := t.(*types.Named)
		if !ok {
			return nil
		}
		b, ok := n.Underlying().(*types.Basic)
		if !ok || b.Info()&types.IsInteger == 0 {
			return nil
		}
		if n.Obj().Pkg() == nil || !strings.HasPrefix(n.Obj().Pkg().Path(), core.Mod) {
			return nil
		}
		return n
	}
	// type range: the largest value decode-reachable code converts into the type
	type rng struct {
		ub      int
		at      ssa.Instruction
		tainted bool
	}
	ranges := map[*types.Named]*rng{}
	for _, fn := range core.SortedFns(roots.DecReach) {
		if fn.Pkg == nil || len(fn.Blocks) == 0 || strings.HasSuffix(p.Pos(fn.Pos()), "_test.go") {
			continue
		}
		core.Instrs(fn, func(ins ssa.Instruction) {
			var to types.Type
			var from ssa.Value
			switch x := ins.(type) {
			case *ssa.Convert:
				to, from = x.Type(), x.X
			case *ssa.ChangeType:
				to, from = x.Type(), x.X
			default:
				return
			}
			n := namedInt(to)
			if n == nil || types.Identical(from.Type(), to) {
				return
			}
			if _, isK := from.(*ssa.Const); isK {
				return
			}
			ub := guard.UpperBound(fn, from, ins.Block())
			if ub < 0 {
				ub = 1 << 62
			}
			cur := ranges[n]
			if cur == nil || ub > cur.ub {
				ranges[n] = &rng{ub: ub, at: ins, tainted: guard.Tainted(from)}
			}
		})
	}
	nSites := 0
	scan := map[*ssa.Function]bool{}
	for fn := range roots.DecReach {
		scan[fn] = true
	}
	for fn := range roots.AccReach {
		scan[fn] = true
	}
	for _, fn := range core.SortedFns(scan) {
		if fn.Pkg == nil || len(fn.Blocks) == 0 || strings.HasSuffix(p.Pos(fn.Pos()), "_test.go") {
			continue
		}
		k := 0
		core.Instrs(fn, func(ins ssa.Instruction) {
			var idx ssa.Value
			var alen int64
			switch x := ins.(type) {
			case *ssa.IndexAddr:
				pt, ok := x.X.Type().Underlying().(*types.Pointer)
				if !ok {
					return
				}
				at, ok := pt.Elem().Underlying().(*types.Array)
				if !ok {
					return
				}
				idx, alen = x.Index, at.Len()
			case *ssa.Index:
				at, ok := x.X.Type().Underlying().(*types.Array)
				if !ok {
					return
				}
				idx, alen = x.Index, at.Len()
			default:
				return
			}
			if _, isK := idx.(*ssa.Const); isK {
				return
			}
			// the named type the index comes from
			var nt *types.Named
			for v, d := idx, 0; d < 6; d++ {
				if n := namedInt(v.Type()); n != nil {
					nt = n
					break
				}
				switch y := v.(type) {
				case *ssa.Convert:
					v = y.X
					continue
				case *ssa.ChangeType:
					v = y.X
					continue
				}
				break
			}
			if nt == nil {
				return
			}
			nSites++
			k++
			key := fmt.Sprintf("%s/table-index:%s#%d", core.FnKey(fn), nt.Obj().Name(), k)
			local := guard.UpperBound(fn, idx, ins.Block())
			if local >= 0 && int64(local) < alen {
				r.OK(key, p.InstrPos(ins), fmt.Sprintf("index bounded by %d here, table has %d entries", local, alen))
				return
			}
			rg := ranges[nt]
			switch {
			case rg == nil:
				r.Undecided(key, p.InstrPos(ins), "no decode-side conversion into "+nt.Obj().Name()+" found; values come from elsewhere")
			case int64(rg.ub) < alen:
				r.OK(key, p.InstrPos(ins), fmt.Sprintf("decode code produces %s values <= %d, table has %d entries", nt.Obj().Name(), rg.ub, alen))
			case rg.tainted:
				r.Violate(key, p.InstrPos(ins), fmt.Sprintf("the table has %d entries but decode code gives %s values up to %d (at %s, straight from packet bytes) and nothing bounds the index here: a packet carrying the value %d makes this index panic (index out of range)", alen, nt.Obj().Name(), rg.ub, p.InstrPos(rg.at), alen), nil)
			default:
				r.Undecided(key, p.InstrPos(ins), fmt.Sprintf("table of %d entries indexed by %s, whose decode-side range is not bounded below that", alen, nt.Obj().Name()))
			}
		})
	}
	c.Counts["enum_table_index_sites"] = nSites
	if nSites < 3 {
		r.Missing("decode/table index sites", fmt.Sprintf("only %d found", nSites))
	}
}
