package props

// PCOVER: path-sensitive concrete coverage of variable-size buffer requests.
//
// COVER (c07.go) decides requests of constant size.  Most serializers compute
// the size from flags and lengths first.  Here every entry→success path of
// SerializeTo is walked once with (a) a memo of "free" conditions — tests of a
// boolean or pointer field of the layer or of the options, which a caller can
// set independently — kept consistent along the path, (b) concrete integer
// evaluation (constants, phis, arithmetic; len() of a layer field is 0: the
// scenario "all variable-length fields empty"), (c) the set of bytes of each
// request written so far.  Loop bodies are not re-entered (zero further
// iterations).  A path that ends successfully with a byte of a request
// unwritten, all of whose conditions were free or concretely evaluated, is a
// concrete feasible scenario with a hole: a definite finding.  Anything the
// walk cannot evaluate makes the path (or the request) undecided, never a
// finding.

import (
	"fmt"
	"go/constant"
	"go/token"
	"go/types"
	"sort"
	"strings"

	"golang.org/x/tools/go/ssa"

	"gpv/internal/core"
)

type pcBuf struct {
	req int
	off int64
	n   int64 // length; -1 unknown
}

type pcReq struct {
	call    *ssa.Call
	size    int64
	written map[int64]bool
	may     bool
}

type pcState struct {
	conds    map[string]bool
	order    []string
	ints     map[ssa.Value]int64
	bufs     map[ssa.Value]pcBuf
	reqs     []*pcReq
	reqErr   map[ssa.Value]bool      // err results of buffer requests (nil on the path we follow)
	alias    map[ssa.Value]ssa.Value // phi -> the value it carries on this path
	slen     map[ssa.Value]int64     // slices of known length that are not views of a request
	errKnown map[ssa.Value]int       // error values known nil (+1) / non-nil (-1) from an evaluated callee
	free     bool
	visited  map[*ssa.BasicBlock]bool
}

func (s *pcState) clone() *pcState {
	n := &pcState{conds: map[string]bool{}, ints: map[ssa.Value]int64{}, bufs: map[ssa.Value]pcBuf{}, reqErr: map[ssa.Value]bool{}, alias: map[ssa.Value]ssa.Value{}, slen: map[ssa.Value]int64{}, free: s.free, visited: map[*ssa.BasicBlock]bool{}}
	for k, v := range s.slen {
		n.slen[k] = v
	}
	if s.errKnown != nil {
		n.errKnown = map[ssa.Value]int{}
		for k, v := range s.errKnown {
			n.errKnown[k] = v
		}
	}
	for k, v := range s.alias {
		n.alias[k] = v
	}
	for k, v := range s.conds {
		n.conds[k] = v
	}
	n.order = append(n.order, s.order...)
	for k, v := range s.ints {
		n.ints[k] = v
	}
	for k, v := range s.bufs {
		n.bufs[k] = v
	}
	for k, v := range s.reqErr {
		n.reqErr[k] = v
	}
	for k, v := range s.visited {
		n.visited[k] = v
	}
	for _, r := range s.reqs {
		c := &pcReq{call: r.call, size: r.size, may: r.may, written: map[int64]bool{}}
		for k := range r.written {
			c.written[k] = true
		}
		n.reqs = append(n.reqs, c)
	}
	return n
}

// PCHole is a hole found on one concrete path.
type PCHole struct {
	Call  *ssa.Call
	Size  int64
	Bytes []int64
	Conds string
}

type helperAlt struct {
	val    int64
	ok     bool
	errNil int // +1 the error result is the nil constant, -1 it is not nil, 0 unknown / no error result
	conds  map[string]bool
	order  []string
	free   bool
}

type pcover struct {
	keyPrefix string
	depth     int
	rets      *[]helperAlt
	fn        *ssa.Function
	helper    func(*ssa.Function) (byteSet, bool)
	holes     map[*ssa.Call]*PCHole
	okPaths   map[*ssa.Call]int // successful fully-written free paths per request
	undec     map[*ssa.Call]string
	nPaths    int
	limit     int
}

// freeKey: v is a test a caller can set independently: a bool field of a
// parameter (receiver, options), or such a pointer field compared with nil.
func (pc *pcover) freeKey(v ssa.Value, st *pcState) (string, bool, bool) {
	neg := false
	for {
		if u, ok := v.(*ssa.UnOp); ok && u.Op == token.NOT {
			v, neg = u.X, !neg
			continue
		}
		break
	}
	fieldKey := func(x ssa.Value) (string, bool) {
		if al, ok := st.alias[x]; ok {
			x = al
		}
		a, ok := core.IsLoad(x)
		if !ok {
			// a field of a by-value struct parameter (opts)
			if f, ok := x.(*ssa.Field); ok {
				if _, isP := f.X.(*ssa.Parameter); isP {
					return "opts." + core.FieldOfVal(f).Name(), true
				}
			}
			return "", false
		}
		pth, base := core.FieldPath(a)
		if pth == "" {
			return "", false
		}
		switch b := base.(type) {
		case *ssa.Parameter:
			if fnOf := b.Parent(); fnOf != nil && fnOf.Signature.Recv() != nil && len(fnOf.Params) > 0 && fnOf.Params[0] == b {
				return pc.keyPrefix + "recv." + pth, true
			}
			return pc.keyPrefix + b.Name() + "." + pth, true
		case *ssa.Alloc:
			// a spilled by-value parameter (value receiver, opts)
			for _, r := range *b.Referrers() {
				if st, ok := r.(*ssa.Store); ok && st.Addr == ssa.Value(b) {
					if pa, ok := st.Val.(*ssa.Parameter); ok {
						return pa.Name() + "." + pth, true
					}
				}
			}
		}
		return "", false
	}
	if b, ok := v.Type().Underlying().(*types.Basic); ok && b.Kind() == types.Bool {
		if k, ok := fieldKey(v); ok {
			return k, neg, true
		}
	}
	if bo, ok := v.(*ssa.BinOp); ok && (bo.Op == token.EQL || bo.Op == token.NEQ) {
		var other ssa.Value
		if core.IsNilConst(bo.Y) {
			other = bo.X
		} else if core.IsNilConst(bo.X) {
			other = bo.Y
		}
		if other != nil {
			if _, isPtr := other.Type().Underlying().(*types.Pointer); isPtr {
				if k, ok := fieldKey(other); ok {
					// key is "field is nil"
					return "nil:" + k, neg != (bo.Op == token.NEQ), true
				}
			}
		}
	}
	return "", false, false
}

func maskTo(t types.Type, v int64) int64 {
	b, ok := t.Underlying().(*types.Basic)
	if !ok {
		return v
	}
	switch b.Kind() {
	case types.Uint8:
		return v & 0xff
	case types.Uint16:
		return v & 0xffff
	case types.Uint32:
		return v & 0xffffffff
	case types.Int8:
		return int64(int8(v))
	case types.Int16:
		return int64(int16(v))
	case types.Int32:
		return int64(int32(v))
	}
	return v
}

func (pc *pcover) intOf(v ssa.Value, st *pcState) (int64, bool) {
	if c, ok := v.(*ssa.Const); ok {
		if c.Value != nil && c.Value.Kind() == constant.Int {
			i, ok := constant.Int64Val(c.Value)
			return i, ok
		}
		return 0, false
	}
	x, ok := st.ints[v]
	return x, ok
}

// step interprets one non-control instruction.
func (pc *pcover) step(ins ssa.Instruction, pred *ssa.BasicBlock, st *pcState) {
	switch x := ins.(type) {
	case *ssa.Phi:
		if pred == nil {
			return
		}
		for i, p := range x.Block().Preds {
			if p != pred {
				continue
			}
			e := x.Edges[i]
			if a, ok := st.alias[e]; ok {
				st.alias[x] = a
			} else {
				st.alias[x] = e
			}
			if k, ok := pc.intOf(e, st); ok {
				st.ints[x] = k
			} else {
				delete(st.ints, x)
			}
			if b, ok := st.bufs[e]; ok {
				st.bufs[x] = b
			} else {
				delete(st.bufs, x)
			}
		}
	case *ssa.BinOp:
		a, okA := pc.intOf(x.X, st)
		b, okB := pc.intOf(x.Y, st)
		if !okA || !okB {
			return
		}
		var r int64
		switch x.Op {
		case token.ADD:
			r = a + b
		case token.SUB:
			r = a - b
		case token.MUL:
			r = a * b
		case token.QUO:
			if b == 0 {
				return
			}
			r = a / b
		case token.REM:
			if b == 0 {
				return
			}
			r = a % b
		case token.AND:
			r = a & b
		case token.OR:
			r = a | b
		case token.XOR:
			r = a ^ b
		case token.SHL:
			if b < 0 || b > 62 {
				return
			}
			r = a << uint(b)
		case token.SHR:
			if b < 0 || b > 62 {
				return
			}
			r = a >> uint(b)
		case token.AND_NOT:
			r = a &^ b
		default:
			return // comparisons are evaluated at the If
		}
		st.ints[x] = maskTo(x.Type(), r)
	case *ssa.Convert:
		if k, ok := pc.intOf(x.X, st); ok {
			st.ints[x] = maskTo(x.Type(), k)
		}
	case *ssa.ChangeType:
		if k, ok := pc.intOf(x.X, st); ok {
			st.ints[x] = k
		}
		if b, ok := st.bufs[x.X]; ok {
			st.bufs[x] = b
		}
	case *ssa.Slice:
		b, ok := st.bufs[x.X]
		if !ok {
			// length of a re-slice with known bounds
			base := int64(-1)
			if pt, ok := x.X.Type().Underlying().(*types.Pointer); ok {
				if at, ok := pt.Elem().Underlying().(*types.Array); ok {
					base = at.Len()
				}
			} else if n, ok := st.slen[x.X]; ok {
				base = n
			} else if pc.isLayerData(x.X) {
				base = 0
			}
			lo, hi := int64(0), base
			okL := true
			if x.Low != nil {
				lo, okL = pc.intOf(x.Low, st)
			}
			if x.High != nil {
				if k, ok := pc.intOf(x.High, st); ok {
					hi = k
				} else {
					hi = -1
				}
			}
			if okL && hi >= 0 && hi >= lo {
				st.slen[x] = hi - lo
			}
			return
		}
		lo, hi := int64(0), b.n
		okB := true
		if x.Low != nil {
			if k, ok := pc.intOf(x.Low, st); ok {
				lo = k
			} else {
				okB = false
			}
		}
		if x.High != nil {
			if k, ok := pc.intOf(x.High, st); ok {
				hi = k
			} else {
				hi = -1
			}
		}
		if !okB {
			// unknown position inside the request: later writes through it are may-writes
			st.bufs[x] = pcBuf{req: b.req, off: -1, n: -1}
			return
		}
		n := int64(-1)
		if hi >= 0 {
			n = hi - lo
		}
		st.bufs[x] = pcBuf{req: b.req, off: b.off + lo, n: n}
	case *ssa.Extract:
		if call, ok := x.Tuple.(*ssa.Call); ok {
			for ri, r := range st.reqs {
				if r.call == call {
					if x.Index == 0 {
						st.bufs[x] = pcBuf{req: ri, off: 0, n: r.size}
					} else {
						st.reqErr[x] = true
					}
				}
			}
		}
	case *ssa.Store:
		if ia, ok := x.Addr.(*ssa.IndexAddr); ok {
			if b, ok := st.bufs[ia.X]; ok {
				r := st.reqs[b.req]
				if k, ok := pc.intOf(ia.Index, st); ok && b.off >= 0 {
					r.written[b.off+k] = true
				} else {
					r.may = true
				}
			}
		}
		// a store to a field a free condition was read from invalidates the memo
		if pth, base := core.FieldPath(x.Addr); pth != "" {
			if pa, ok := base.(*ssa.Parameter); ok {
				delete(st.conds, pa.Name()+"."+pth)
				delete(st.conds, "nil:"+pa.Name()+"."+pth)
			}
		}
	case *ssa.Call:
		pc.call(x, st)
	}
}

func (pc *pcover) call(x *ssa.Call, st *pcState) {
	cc := &x.Call
	if cc.IsInvoke() {
		switch cc.Method.Name() {
		case "PrependBytes", "AppendBytes":
			if core.NamedIs(cc.Value.Type(), "SerializeBuffer") {
				n, ok := pc.intOf(cc.Args[0], st)
				if !ok || n < 0 || n > 1<<16 {
					pc.undec[x] = "request size not evaluable on some path"
					n = -1
				}
				st.reqs = append(st.reqs, &pcReq{call: x, size: n, written: map[int64]bool{}})
			}
		}
		// passing a buffer view to an unknown method: may write
		for _, a := range cc.Args {
			if b, ok := st.bufs[a]; ok {
				st.reqs[b.req].may = true
			}
		}
		return
	}
	if nm, bc := core.BuiltinCall(x); nm != "" {
		switch nm {
		case "len":
			a := bc.Args[0]
			if b, ok := st.bufs[a]; ok && b.n >= 0 {
				st.ints[x] = b.n
				return
			}
			if n, ok := st.slen[a]; ok {
				st.ints[x] = n
				return
			}
			if c, ok := a.(*ssa.Const); ok && c.Value != nil && c.Value.Kind() == constant.String {
				st.ints[x] = int64(len(constant.StringVal(c.Value)))
				return
			}
			// scenario: variable-length data of the layer is empty
			if pc.isLayerData(a) {
				st.ints[x] = 0
			}
			// len(*p) of a pointer parameter to a list of the layer
			if ld, ok := a.(*ssa.UnOp); ok && ld.Op == token.MUL {
				if _, isParam := ld.X.(*ssa.Parameter); isParam && pc.depth > 0 {
					if _, isSl := a.Type().Underlying().(*types.Slice); isSl {
						st.ints[x] = 0
					}
				}
			}
		case "copy":
			if b, ok := st.bufs[bc.Args[0]]; ok {
				r := st.reqs[b.req]
				srcN := int64(-1)
				if sb, ok := st.bufs[bc.Args[1]]; ok {
					srcN = sb.n
				} else if n, ok := st.slen[bc.Args[1]]; ok {
					srcN = n
				} else if c, ok := bc.Args[1].(*ssa.Const); ok && c.Value != nil && c.Value.Kind() == constant.String {
					srcN = int64(len(constant.StringVal(c.Value)))
				} else if pc.isLayerData(bc.Args[1]) {
					srcN = 0
				}
				if b.off < 0 || srcN < 0 {
					r.may = true
					return
				}
				n := srcN
				if b.n >= 0 && b.n < n {
					n = b.n
				}
				for i := int64(0); i < n; i++ {
					r.written[b.off+i] = true
				}
			}
		}
		return
	}
	f := cc.StaticCallee()
	if f != nil && f.Pkg != nil && f.Pkg.Pkg.Path() == "encoding/binary" && strings.HasPrefix(f.Name(), "Put") && len(cc.Args) >= 2 {
		if b, ok := st.bufs[cc.Args[1]]; ok {
			r := st.reqs[b.req]
			w := int64(0)
			switch f.Name() {
			case "PutUint16":
				w = 2
			case "PutUint32":
				w = 4
			case "PutUint64":
				w = 8
			}
			if b.off < 0 || w == 0 {
				r.may = true
				return
			}
			for i := int64(0); i < w; i++ {
				r.written[b.off+i] = true
			}
		}
		return
	}
	// other calls receiving a view of a request
	for ai, a := range cc.Args {
		b, ok := st.bufs[a]
		if !ok {
			continue
		}
		r := st.reqs[b.req]
		if f != nil && ai == firstByteSliceParam(f) && pc.helper != nil && b.off >= 0 {
			if hs, ok := pc.helper(f); ok {
				for k := range hs {
					r.written[b.off+k] = true
				}
				continue
			}
		}
		r.may = true
	}
}

func firstByteSliceParam(f *ssa.Function) int {
	for i, p := range f.Params {
		if core.IsByteSlice(p.Type()) {
			return i
		}
	}
	return -1
}

// isLayerData: v is a slice or string loaded from a field reachable from a parameter.
func (pc *pcover) isLayerData(v ssa.Value) bool {
	switch v.Type().Underlying().(type) {
	case *types.Slice:
	case *types.Basic:
		if v.Type().Underlying().(*types.Basic).Kind() != types.String {
			return false
		}
	default:
		return false
	}
	a, ok := core.IsLoad(v)
	if !ok {
		return false
	}
	pth, base := core.FieldPath(a)
	if pth == "" {
		return false
	}
	_, isParam := base.(*ssa.Parameter)
	return isParam
}

func (pc *pcover) walk(b *ssa.BasicBlock, pred *ssa.BasicBlock, st *pcState) {
	if pc.nPaths > pc.limit {
		return
	}
	if st.visited[b] {
		return // zero further loop iterations: the path that re-enters is not followed
	}
	st.visited[b] = true
	pc.walkFrom(b, 0, pred, st)
}

func (pc *pcover) walkFrom(b *ssa.BasicBlock, from int, pred *ssa.BasicBlock, st *pcState) {
	for idx := from; idx < len(b.Instrs); idx++ {
		ins := b.Instrs[idx]
		// a method of the same layer object whose integer result is needed (size helpers): evaluate it
		if call, ok := ins.(*ssa.Call); ok && pc.depth < 2 {
			if alts, ok := pc.evalHelper(call, st); ok {
				if len(alts) == 1 {
					pc.applyAlt(call, alts[0], st)
					continue
				}
				for _, a := range alts {
					s2 := st.clone()
					pc.applyAlt(call, a, s2)
					pc.walkFrom(b, idx+1, pred, s2)
				}
				return
			}
		}
		switch x := ins.(type) {
		case *ssa.If:
			pc.branch(b, x, st)
			return
		case *ssa.Jump:
			pc.walk(b.Succs[0], b, st)
			return
		case *ssa.Return:
			pc.finish(x, st)
			return
		case *ssa.Panic:
			pc.nPaths++
			return
		default:
			pc.step(ins, pred, st)
		}
	}
}

func (pc *pcover) branch(b *ssa.BasicBlock, iff *ssa.If, st *pcState) {
	follow := func(truth bool, s *pcState) {
		i := 1
		if truth {
			i = 0
		}
		pc.walk(b.Succs[i], b, s)
	}
	cond := iff.Cond
	// the error of a buffer request: follow success only
	if bo, ok := cond.(*ssa.BinOp); ok && (bo.Op == token.NEQ || bo.Op == token.EQL) {
		var e ssa.Value
		if core.IsNilConst(bo.Y) {
			e = bo.X
		} else if core.IsNilConst(bo.X) {
			e = bo.Y
		}
		if e != nil && st.reqErr[e] {
			follow(bo.Op == token.EQL, st)
			return
		}
		if e != nil && st.errKnown != nil && st.errKnown[e] != 0 {
			isNil := st.errKnown[e] > 0
			follow((bo.Op == token.EQL) == isNil, st)
			return
		}
		// concrete comparison
	}
	if bo, ok := cond.(*ssa.BinOp); ok {
		a, okA := pc.intOf(bo.X, st)
		c, okB := pc.intOf(bo.Y, st)
		if okA && okB {
			var t bool
			switch bo.Op {
			case token.EQL:
				t = a == c
			case token.NEQ:
				t = a != c
			case token.LSS:
				t = a < c
			case token.LEQ:
				t = a <= c
			case token.GTR:
				t = a > c
			case token.GEQ:
				t = a >= c
			default:
				goto unknown
			}
			follow(t, st)
			return
		}
	}
unknown:
	if k, neg, ok := pc.freeKey(cond, st); ok {
		if v, seen := st.conds[k]; seen {
			follow(v != neg, st)
			return
		}
		for _, v := range []bool{false, true} {
			s2 := st.clone()
			s2.conds[k] = v
			s2.order = append(s2.order, fmt.Sprintf("%s=%v", k, v))
			follow(v != neg, s2)
		}
		return
	}
	// not a free condition: both sides, but the path is no longer a witness
	for _, t := range []bool{true, false} {
		s2 := st.clone()
		s2.free = false
		follow(t, s2)
	}
}

func (pc *pcover) finish(ret *ssa.Return, st *pcState) {
	pc.nPaths++
	if pc.rets != nil {
		a := helperAlt{conds: map[string]bool{}, order: append([]string(nil), st.order...), free: st.free}
		for k, v := range st.conds {
			a.conds[k] = v
		}
		if len(ret.Results) > 0 {
			if v, ok := pc.intOf(core.RetOperand(ret, 0), st); ok {
				a.val, a.ok = v, true
			}
			last := core.RetOperand(ret, len(ret.Results)-1)
			if _, isIface := last.Type().Underlying().(*types.Interface); isIface {
				switch {
				case core.IsNilConst(last):
					a.errNil = +1
				case isFreshError(last):
					a.errNil = -1
				}
			}
		}
		*pc.rets = append(*pc.rets, a)
		return
	}
	// successful return: the error result is the nil constant
	if len(ret.Results) > 0 {
		last := core.RetOperand(ret, len(ret.Results)-1)
		if !core.IsNilConst(last) {
			return
		}
	}
	for _, r := range st.reqs {
		if r.size < 0 {
			continue
		}
		var missing []int64
		for i := int64(0); i < r.size; i++ {
			if !r.written[i] {
				missing = append(missing, i)
			}
		}
		if len(missing) == 0 {
			if st.free {
				pc.okPaths[r.call]++
			}
			continue
		}
		if r.may {
			if pc.undec[r.call] == "" {
				pc.undec[r.call] = "some bytes are covered only by writes of unknown extent"
			}
			continue
		}
		if !st.free {
			if pc.undec[r.call] == "" {
				pc.undec[r.call] = "a hole appears only on paths with conditions that are not independent field tests"
			}
			continue
		}
		if _, have := pc.holes[r.call]; !have {
			conds := append([]string(nil), st.order...)
			sort.Strings(conds)
			pc.holes[r.call] = &PCHole{Call: r.call, Size: r.size, Bytes: missing, Conds: strings.Join(conds, ", ")}
		}
	}
}

// PCover runs the walk over fn.
func PCover(fn *ssa.Function, helper func(*ssa.Function) (byteSet, bool)) *pcover {
	pc := &pcover{fn: fn, helper: helper, holes: map[*ssa.Call]*PCHole{}, okPaths: map[*ssa.Call]int{}, undec: map[*ssa.Call]string{}, limit: 20000}
	if len(fn.Blocks) == 0 {
		return pc
	}
	st := &pcState{conds: map[string]bool{}, ints: map[ssa.Value]int64{}, bufs: map[ssa.Value]pcBuf{}, reqErr: map[ssa.Value]bool{}, alias: map[ssa.Value]ssa.Value{}, slen: map[ssa.Value]int64{}, free: true, visited: map[*ssa.BasicBlock]bool{}}
	pc.walk(fn.Blocks[0], nil, st)
	return pc
}

// canBeNilError: e is the error result of a static call to a module function
// that has a return with the nil error constant.
func canBeNilError(e ssa.Value) bool {
	if _, ok := e.Type().Underlying().(*types.Interface); !ok {
		return false
	}
	var call *ssa.Call
	switch x := e.(type) {
	case *ssa.Call:
		call = x
	case *ssa.Extract:
		call, _ = x.Tuple.(*ssa.Call)
	}
	if call == nil {
		return false
	}
	f := call.Call.StaticCallee()
	if f == nil || len(f.Blocks) == 0 {
		return false
	}
	for _, r := range core.Returns(f) {
		if len(r.Results) > 0 && core.IsNilConst(core.RetOperand(r, len(r.Results)-1)) {
			return true
		}
	}
	return false
}

// evalHelper: call is a static call of a method on the same receiver object
// as the function being walked, returning an integer first result: walk it
// with the same condition memo and return its possible results.
func (pc *pcover) evalHelper(call *ssa.Call, st *pcState) ([]helperAlt, bool) {
	f := call.Call.StaticCallee()
	if f == nil || len(f.Blocks) == 0 || f.Pkg == nil || !strings.HasPrefix(f.Pkg.Pkg.Path(), core.Mod) || pc.fn.Signature.Recv() == nil {
		return nil, false
	}
	res := f.Signature.Results()
	if res.Len() == 0 {
		return nil, false
	}
	intFirst := false
	if bt, ok := res.At(0).Type().Underlying().(*types.Basic); ok && bt.Info()&types.IsInteger != 0 {
		intFirst = true
	}
	errLast := false
	if _, ok := res.At(res.Len() - 1).Type().Underlying().(*types.Interface); ok && res.At(res.Len()-1).Type().String() == "error" {
		errLast = true
	}
	if !intFirst && !errLast {
		return nil, false
	}
	if call.Referrers() == nil || len(*call.Referrers()) == 0 {
		return nil, false
	}
	// the callee must not receive a view of a buffer request (those are handled as writers)
	for _, a := range call.Call.Args {
		if _, isBuf := st.bufs[a]; isBuf {
			return nil, false
		}
	}
	var rets []helperAlt
	sub := &pcover{fn: f, helper: pc.helper, holes: map[*ssa.Call]*PCHole{}, okPaths: map[*ssa.Call]int{}, undec: map[*ssa.Call]string{}, limit: 2000, depth: pc.depth + 1, rets: &rets, keyPrefix: fmt.Sprintf("%scall@%d:", pc.keyPrefix, call.Pos())}
	s2 := &pcState{conds: map[string]bool{}, ints: map[ssa.Value]int64{}, bufs: map[ssa.Value]pcBuf{}, reqErr: map[ssa.Value]bool{}, alias: map[ssa.Value]ssa.Value{}, slen: map[ssa.Value]int64{}, free: st.free, visited: map[*ssa.BasicBlock]bool{}}
	for k, v := range st.conds {
		s2.conds[k] = v
	}
	s2.order = append(s2.order, st.order...)
	sameRecv := false
	for i, pa := range f.Params {
		if i >= len(call.Call.Args) {
			break
		}
		arg := call.Call.Args[i]
		if v, ok := pc.intOf(arg, st); ok {
			s2.ints[pa] = v
		}
		if n, ok := st.slen[arg]; ok {
			s2.slen[pa] = n
		}
		if al, ok := st.alias[arg]; ok {
			arg = al
		}
		if i == 0 && f.Signature.Recv() != nil && arg == ssa.Value(pc.fn.Params[0]) && pc.depth == 0 {
			sameRecv = true
		}
		// a slice or string taken from the layer is empty in the scenario
		if pc.isLayerData(arg) {
			s2.slen[pa] = 0
		}
	}
	if sameRecv {
		sub.keyPrefix = pc.keyPrefix // the callee's receiver is the same object: its field tests are the caller's
	}
	sub.walk(f.Blocks[0], nil, s2)
	if len(rets) == 0 || len(rets) > 32 {
		return nil, false
	}
	return rets, true
}

// isFreshError: v is the result of errors.New / fmt.Errorf (certainly not nil).
func isFreshError(v ssa.Value) bool {
	if mi, ok := v.(*ssa.MakeInterface); ok {
		v = mi.X
	}
	c, ok := v.(*ssa.Call)
	if !ok {
		return false
	}
	f := c.Call.StaticCallee()
	if f == nil || f.Pkg == nil {
		return false
	}
	return (f.Pkg.Pkg.Path() == "errors" && f.Name() == "New") || (f.Pkg.Pkg.Path() == "fmt" && f.Name() == "Errorf")
}

func (pc *pcover) applyAlt(call *ssa.Call, a helperAlt, st *pcState) {
	for k, v := range a.conds {
		st.conds[k] = v
	}
	st.order = a.order
	if !a.free {
		st.free = false
	}
	// the error result
	if a.errNil != 0 {
		var ev ssa.Value
		if tup, isTuple := call.Type().(*types.Tuple); isTuple {
			for _, r := range *call.Referrers() {
				if e, ok := r.(*ssa.Extract); ok && e.Index == tup.Len()-1 {
					ev = e
				}
			}
		} else {
			ev = call
		}
		if ev != nil {
			if st.errKnown == nil {
				st.errKnown = map[ssa.Value]int{}
			}
			st.errKnown[ev] = a.errNil
		}
	}
	// the result value: plain or first of a tuple
	if a.ok {
		if _, isTuple := call.Type().(*types.Tuple); isTuple {
			for _, r := range *call.Referrers() {
				if e, ok := r.(*ssa.Extract); ok && e.Index == 0 {
					st.ints[e] = a.val
				}
			}
		} else {
			st.ints[call] = a.val
		}
	}
}
