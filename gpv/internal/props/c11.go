package props

import (
	"fmt"
	"go/token"
	"go/types"
	"os"
	"strings"

	"golang.org/x/tools/go/ssa"

	"gpv/internal/core"
)

func init() { register("C11", checkC11) }

type lifePkg struct {
	pkg      string
	closeFn  *ssa.Function
	closers  map[*ssa.Function]bool // functions that may set closed (transitively call closeFn)
	notClose map[string]int         // memo for notClosedAtEntry: 0 unknown,1 yes,2 no
}

func isPagePtr(t types.Type) bool {
	pt, ok := t.(*types.Pointer)
	if !ok {
		return false
	}
	n, ok := pt.Elem().(*types.Named)
	return ok && n.Obj().Name() == "page"
}

// closedTestOn: cond tests field `closed` of object obj; returns the truth value of "closed".
func closedTestOn(cond ssa.Value, truth bool, obj ssa.Value) (bool, bool) {
	v := cond
	if u, ok := v.(*ssa.UnOp); ok && u.Op == token.NOT {
		v, truth = u.X, !truth
	}
	a, ok := core.IsLoad(v)
	if !ok {
		return false, false
	}
	fa, ok := a.(*ssa.FieldAddr)
	if !ok || core.FieldOfAddr(fa).Name() != "closed" {
		return false, false
	}
	if !sameObject(fa.X, obj) {
		return false, false
	}
	return truth, true
}

func sameObject(a, b ssa.Value) bool {
	if a == b {
		return true
	}
	fa, ok1 := a.(*ssa.FieldAddr)
	fb, ok2 := b.(*ssa.FieldAddr)
	if ok1 && ok2 && fa.Field == fb.Field {
		return sameObject(fa.X, fb.X)
	}
	return false
}

func (lp *lifePkg) mayClose(ins ssa.Instruction) bool {
	cc := core.CallCommonOf(ins)
	if cc == nil {
		return false
	}
	f := cc.StaticCallee()
	return f != nil && lp.closers[f]
}

// siteNotClosed: at call site `site` in fn, argument value obj is known to be
// not closed.  Forward must-dataflow of the fact "obj.closed == false":
// generated on the edges of tests of obj.closed, killed by calls that may
// close; at function entry it holds iff obj is a parameter for which every
// caller establishes it.
func (lp *lifePkg) siteNotClosed(p *core.Prog, fn *ssa.Function, site ssa.Instruction, obj ssa.Value, depth int) bool {
	entry := false
	if depth < 4 {
		for i, pa := range fn.Params {
			if ssa.Value(pa) == obj {
				entry = lp.notClosedAtEntry(p, fn, i, depth+1)
			}
		}
	}
	in := map[*ssa.BasicBlock]bool{}
	for _, b := range fn.Blocks {
		in[b] = true // optimistic
	}
	in[fn.Blocks[0]] = entry
	outEdge := func(b *ssa.BasicBlock, succIdx int) bool {
		f := in[b]
		for _, ins := range b.Instrs {
			if lp.mayClose(ins) {
				f = false // also the site itself: on the way around a loop it has run
			}
			// a store of false/true to obj.closed
			if st, ok := ins.(*ssa.Store); ok {
				if fa, ok := st.Addr.(*ssa.FieldAddr); ok && core.FieldOfAddr(fa).Name() == "closed" && sameObject(fa.X, obj) {
					if bv, ok := core.ConstBool(st.Val); ok {
						f = !bv
					}
				}
			}
		}
		if iff := blockIf(b); iff != nil {
			if closed, ok := closedTestOn(iff.Cond, succIdx == 0, obj); ok {
				f = !closed
			}
		}
		return f
	}
	for changed, iter := true, 0; changed && iter < 50; iter++ {
		changed = false
		for _, b := range fn.Blocks {
			if b == fn.Blocks[0] {
				continue
			}
			v := true
			for _, pr := range b.Preds {
				idx := 0
				for k, s := range pr.Succs {
					if s == b {
						idx = k
					}
				}
				// a predecessor with both edges to b: take the weaker
				if !outEdge(pr, idx) {
					v = false
				}
			}
			if len(b.Preds) == 0 {
				v = false
			}
			if in[b] != v {
				in[b] = v
				changed = true
			}
		}
	}
	f := in[site.Block()]
	for _, ins := range site.Block().Instrs {
		if ins == site {
			break
		}
		if lp.mayClose(ins) {
			f = false
		}
	}
	return f
}

func (lp *lifePkg) notClosedAtEntry(p *core.Prog, fn *ssa.Function, param int, depth int) bool {
	key := fmt.Sprintf("%s#%d", fn.String(), param)
	if v, ok := lp.notClose[key]; ok {
		return v == 1
	}
	lp.notClose[key] = 2 // cycles: assume no
	n := p.CG(false).Nodes[fn]
	if n == nil || len(n.In) == 0 {
		return false
	}
	for _, e := range n.In {
		if e.Site == nil {
			return false
		}
		args := e.Site.Common().Args
		if param >= len(args) {
			return false
		}
		if !lp.siteNotClosed(p, e.Caller.Func, e.Site, args[param], depth) {
			if os.Getenv("GPV_DEBUG") != "" {
				fmt.Println("DBG notClosedAtEntry fails", fn, param, "caller", e.Caller.Func, p.InstrPos(e.Site))
			}
			return false
		}
	}
	lp.notClose[key] = 1
	return true
}

func checkC11(c *core.Ctx) {
	p := c.P
	c.Explain = "Structural clauses of 'assembler stream lifecycle and buffering are bounded and leak-free' for packages reassembly and tcpassembly: (R11.1) the completion callback is invoked only in the close function, after closed is stored true (and, in reassembly, only when both directions are closed), and every call path into the close function establishes closed == false on that object by a dominating test with no intervening call that may close it (interprocedural, depth 4) — so completion happens at most once and nothing is delivered afterwards; delivery functions are entered only under the same fact; (R11.3) the close function releases every page list headed by a *page field of the closed object (each list is walked to the page cache); (R11.4) every insertion into the out-of-order queue is followed on every path by the evaluation of the page-limit condition; (R11.5) a connection is removed from the pool only after its completion callback was invoked (reassembly: on its true result or for connections with both directions closed), and FlushAll leaves each visited connection closed. Not decided: the numeric page bound, age cut-off semantics, leak-freedom as a count."
	r1 := c.Rule("R11.1", "T", "closed-typestate: completion only in the close function, exactly-once by construction of its callers")
	r3 := c.Rule("R11.3", "T", "close releases every page list of the closed object")
	r4 := c.Rule("R11.4", "T", "the page-limit condition is evaluated after every queue insertion")
	r5 := c.Rule("R11.5", "T", "pool removal only for completed connections; FlushAll closes everything it visits")

	r6 := c.Rule("R11.6", "T", "no use after release: once a page is handed back to the page cache, fields the cache overwrites (or any field, when the cache is a shared pool) are not read again in that function")
	r8 := c.Rule("R11.8", "T", "functions that take pages from the cache report the number taken by counting them")
	r9c := c.Rule("R11.9", "T", "a recycled connection carries nothing over (= R9.12/R10.12): in particular the last-seen time by which an age-based flush decides, and the queue and page counters by which close releases pages")
	for _, pk := range []string{"tcpassembly", "reassembly"} {
		checkConnReset(c, r9c, pk)
	}
	checkCoherentTriples(c, c.Rule("R11.12", "T", "a connection is returned together with its own two halves (= R9.14): otherwise a stream obtained from the factory gets data but never its completion"))
	timeParamsUsed(c, c.Rule("R11.14", "T", "each of the two cut-off times handed to a flush helper is used"))
	limitPairing(c, c.Rule("R11.11", "T", "each page limit is compared with the counter it limits"))
	{
		r10 := c.Rule("R11.10", "T", "page queue links are stored in pairs (= R9.11/R10.11): a page that drops out of the forward list is never delivered and never returned to the cache")
		checkPairedLinks(c, r10, "tcpassembly")
		checkPairedLinks(c, r10, "reassembly")
	}
	releaseCountsPages(c, c.Rule("R11.13", "T", "package reassembly keeps its page counter in step: pages taken by convertToPages are added, pages given back by release are subtracted"))
	r7 := c.Rule("R11.7", "T", "free-list discipline: a connection is pushed on the pool's free list only when it was found in the live map, or only from the once-per-connection close function")
	for _, pkg := range []string{"reassembly", "tcpassembly"} {
		lp := &lifePkg{pkg: pkg, closers: map[*ssa.Function]bool{}, notClose: map[string]int{}}
		fns := pkgFunctions(p, pkg)
		// the close function: stores true into a field named closed
		for _, fn := range fns {
			core.Instrs(fn, func(ins ssa.Instruction) {
				st, ok := ins.(*ssa.Store)
				if !ok {
					return
				}
				fa, ok := st.Addr.(*ssa.FieldAddr)
				if !ok || core.FieldOfAddr(fa).Name() != "closed" {
					return
				}
				if b, ok := core.ConstBool(st.Val); ok && b {
					if lp.closeFn != nil && lp.closeFn != fn {
						r1.Violate(core.FnKey(fn)+"/second-closer", p.InstrPos(ins), "closed is set in a second function", nil)
					}
					lp.closeFn = fn
				}
			})
		}
		if lp.closeFn == nil {
			r1.Missing(pkg+"/close", "no function sets closed = true")
			continue
		}
		// transitive callers = may-close
		g := p.CG(false)
		lp.closers[lp.closeFn] = true
		for changed := true; changed; {
			changed = false
			for _, fn := range fns {
				if lp.closers[fn] {
					continue
				}
				if n := g.Nodes[fn]; n != nil {
					for _, e := range n.Out {
						if lp.closers[e.Callee.Func] {
							lp.closers[fn] = true
							changed = true
						}
					}
				}
			}
		}
		cf := lp.closeFn
		ckey := core.FnKey(cf) + "/"
		// completion callback sites
		nRC := 0
		for _, fn := range fns {
			core.Instrs(fn, func(ins ssa.Instruction) {
				cc := core.CallCommonOf(ins)
				if cc == nil || !cc.IsInvoke() || cc.Method.Name() != "ReassemblyComplete" || !core.NamedIs(cc.Value.Type(), "Stream") {
					return
				}
				nRC++
				if fn != cf {
					r1.Violate(core.FnKey(fn)+"/completion-outside-close", p.InstrPos(ins), "ReassemblyComplete is invoked outside the close function: the stream can be completed twice", nil)
					return
				}
				// closed=true store on every path before, or directly after with nothing in between (tcpassembly stores after the callback, under the same lock)
				var st ssa.Instruction
				core.Instrs(cf, func(i ssa.Instruction) {
					if s, ok := i.(*ssa.Store); ok {
						if fa, ok := s.Addr.(*ssa.FieldAddr); ok && core.FieldOfAddr(fa).Name() == "closed" {
							st = i
						}
					}
				})
				okOrder := st != nil && (core.Dominates(st, ins) || (core.Dominates(ins, st) && core.ForwardSearch(cf, ins, func(i ssa.Instruction) bool {
					_, isRet := i.(*ssa.Return)
					return isRet
				}, func(i ssa.Instruction) bool { return i == st }) == nil))
				r1.Check(okOrder, ckey+"closed-set-with-completion", p.InstrPos(ins), "closed is stored on every path through the completion callback", "the completion callback can run on a path that does not mark the object closed: a later flush completes the stream again")
				if pkg == "reassembly" {
					both := 0
					for _, dc := range core.DomConds(ins.Block()) {
						if a, ok := core.IsLoad(dc.V); ok && dc.Truth {
							if fa, ok := a.(*ssa.FieldAddr); ok && core.FieldOfAddr(fa).Name() == "closed" {
								both++
							}
						}
					}
					r1.Check(both >= 2, ckey+"completion-when-both-closed", p.InstrPos(ins), "completion only when both directions are closed", "ReassemblyComplete is not guarded by both directions being closed")
				}
				// once per call: not in a loop
				loop := core.ForwardSearch(cf, ins, func(i ssa.Instruction) bool { return i == ins }, nil) != nil
				r1.Check(!loop, ckey+"completion-once-per-close", p.InstrPos(ins), "single call", "completion callback inside a loop")
			})
		}
		if nRC == 0 {
			r1.Violate(pkg+"/no-completion", p.Pos(cf.Pos()), "ReassemblyComplete is never invoked", nil)
		}
		// callers of the close function and of the delivery function establish closed == false
		objIdx := -1
		for i, pa := range cf.Params {
			tn := pa.Type().String()
			if (pkg == "reassembly" && strings.HasSuffix(tn, "halfconnection")) || (pkg == "tcpassembly" && strings.HasSuffix(tn, "connection") && !strings.HasSuffix(tn, "halfconnection")) {
				objIdx = i
			}
		}
		if objIdx < 0 {
			r1.Missing(ckey+"object", "closed object parameter not found")
		} else if n := g.Nodes[cf]; n != nil {
			for _, e := range n.In {
				if e.Site == nil {
					continue
				}
				caller := e.Caller.Func
				ok := lp.siteNotClosed(p, caller, e.Site, e.Site.Common().Args[objIdx], 0)
				r1.Check(ok, core.FnKey(caller)+"/close-only-when-open", p.InstrPos(e.Site), "every path into the close function has established closed == false", "the close function can be reached for an object that is already closed (no dominating closed == false test survives to this call): the completion callback would run twice")
			}
		}
		// delivery: sendToConnection entered only when not closed
		if send := p.Func(pkg, "Assembler.sendToConnection"); send != nil {
			idx := -1
			for i, pa := range send.Params {
				tn := pa.Type().String()
				if (pkg == "reassembly" && strings.HasSuffix(tn, "halfconnection")) || (pkg == "tcpassembly" && strings.HasSuffix(tn, ".connection")) {
					idx = i
				}
			}
			if idx >= 0 {
				if n := g.Nodes[send]; n != nil {
					for _, e := range n.In {
						if e.Site == nil {
							continue
						}
						ok := lp.siteNotClosed(p, e.Caller.Func, e.Site, e.Site.Common().Args[idx], 0)
						r1.Check(ok, core.FnKey(e.Caller.Func)+"/deliver-only-when-open", p.InstrPos(e.Site), "delivery only to an open stream", "data can be delivered to a stream whose direction is already closed (after its completion callback)")
					}
				}
			}
		} else {
			r1.Missing(pkg+".sendToConnection", "delivery function not found")
		}

		// ---- R11.3
		objT := cf.Params[objIdx].Type().Underlying().(*types.Pointer).Elem().Underlying().(*types.Struct)
		// list heads: *page fields that are walked forward (X = X.next) somewhere in the package
		heads := map[string]bool{}
		for i := 0; i < objT.NumFields(); i++ {
			if isPagePtr(objT.Field(i).Type()) {
				name := objT.Field(i).Name()
				if walkedForward(fns, name) {
					heads[name] = true
				}
			}
		}
		// the close function and the helpers it hands the closed object to (extracted release loops)
		scan := []*ssa.Function{cf}
		objPT := cf.Params[objIdx].Type()
		for i := 0; i < len(scan) && i < 6; i++ {
			core.Instrs(scan[i], func(ins ssa.Instruction) {
				cc := core.CallCommonOf(ins)
				if cc == nil || cc.StaticCallee() == nil {
					return
				}
				g := cc.StaticCallee()
				if core.FnPkg(g) == nil || core.FnPkg(g) != core.FnPkg(cf) || len(g.Blocks) == 0 {
					return
				}
				takes := false
				for _, a := range cc.Args {
					if types.Identical(a.Type(), objPT) {
						takes = true
					}
				}
				if !takes {
					return
				}
				for _, have := range scan {
					if have == g {
						return
					}
				}
				scan = append(scan, g)
			})
		}
		for h := range heads {
			released := false
			for _, sf := range scan {
				sf := sf
				core.Instrs(sf, func(ins ssa.Instruction) {
					cc := core.CallCommonOf(ins)
					if cc == nil {
						return
					}
					f := cc.StaticCallee()
					if f == nil || (f.Name() != "replace" && f.Name() != "release") {
						return
					}
					for _, a := range cc.Args {
						if isPagePtr(a.Type()) && startsAtField(a, h, 0, map[ssa.Value]bool{}) {
							// must be a loop
							if core.ForwardSearch(sf, ins, func(i ssa.Instruction) bool { return i == ins }, nil) != nil {
								released = true
							}
						}
					}
				})
			}
			r3.Check(released, ckey+"releases:"+h, p.Pos(cf.Pos()), "the list headed by "+h+" is walked to the page cache", "closing does not return the pages of the list headed by ."+h+" to the page cache: they stay counted as used forever")
		}
		if len(heads) == 0 {
			r3.Missing(ckey+"lists", "no page lists found on the closed object")
		}

		// ---- R11.4
		var insFn *ssa.Function
		var insSite ssa.Instruction
		switch pkg {
		case "tcpassembly":
			insFn = p.Func(pkg, "Assembler.insertIntoConn")
			if insFn != nil {
				core.Instrs(insFn, func(i ssa.Instruction) {
					if cc := core.CallCommonOf(i); cc != nil && cc.StaticCallee() != nil && cc.StaticCallee().Name() == "pushBetween" {
						insSite = i
					}
				})
			}
		case "reassembly":
			insFn = p.Func(pkg, "Assembler.handleBytes")
			if insFn != nil {
				core.Instrs(insFn, func(i ssa.Instruction) {
					if cc := core.CallCommonOf(i); cc != nil && cc.StaticCallee() != nil && cc.StaticCallee().Name() == "checkOverlap" && len(cc.Args) >= 3 {
						if b, ok := core.ConstBool(cc.Args[2]); ok && b {
							insSite = i
						}
					}
				})
			}
		}
		if insFn == nil || insSite == nil {
			r4.Missing(pkg+"/queue-insert", "queue insertion site not found")
		} else {
			esc := core.ForwardSearch(insFn, insSite, func(i ssa.Instruction) bool { _, ok := i.(*ssa.Return); return ok }, func(i ssa.Instruction) bool {
				iff, ok := i.(*ssa.If)
				return ok && readsLimit(iff.Cond, 0)
			})
			r4.Check(esc == nil, core.FnKey(insFn)+"/limit-after-insert", p.InstrPos(insSite), "every path after the insertion evaluates the page limit", "a path returns after queueing without evaluating the page limit: the buffer can grow past MaxBufferedPages*")
		}

		// ---- R11.5
		rm := p.Func(pkg, "StreamPool.remove")
		if rm == nil {
			r5.Missing(pkg+".remove", "not found")
		} else if n := g.Nodes[rm]; n != nil {
			for _, e := range n.In {
				if e.Site == nil {
					continue
				}
				caller := e.Caller.Func
				key := core.FnKey(caller) + "/remove"
				ok := false
				why := ""
				if caller == cf {
					// after the completion callback (reassembly: on its true result)
					core.Instrs(cf, func(i ssa.Instruction) {
						cc := core.CallCommonOf(i)
						if cc != nil && cc.IsInvoke() && cc.Method.Name() == "ReassemblyComplete" && core.Dominates(i, e.Site) {
							ok = true
							why = "after the completion callback"
							if call, isCall := i.(*ssa.Call); isCall && call.Type().String() == "bool" {
								ok = false
								for _, dc := range core.DomConds(e.Site.Block()) {
									if dc.V == ssa.Value(call) && dc.Truth {
										ok = true
										why = "on the true result of the completion callback"
									}
								}
							}
						}
					})
				} else {
					// only for connections with both directions closed
					nClosed := closedCondsFeeding(e.Site)
					ok = nClosed >= 2
					why = "for a connection whose both directions are closed"
				}
				r5.Check(ok, key, p.InstrPos(e.Site), why, "a connection is removed from the pool although its stream was not completed (or did not accept removal): its later packets start a new stream and the old one never completes")
			}
		}
		// ---- R11.6: use after release
		{
			rel := map[*ssa.Function]int{}              // releasing function -> index of the released *page parameter
			relW := map[*ssa.Function]map[string]bool{} // fields of the page it writes; "*" = handed to a shared pool
			for changed := true; changed; {
				changed = false
				for _, fn := range fns {
					if _, ok := rel[fn]; ok {
						continue
					}
					for pi, pa := range fn.Params {
						if !isPagePtr(pa.Type()) {
							continue
						}
						hit := false
						w := map[string]bool{}
						core.Instrs(fn, func(ins ssa.Instruction) {
							if st, ok := ins.(*ssa.Store); ok {
								if fa, ok := st.Addr.(*ssa.FieldAddr); ok && fa.X == ssa.Value(pa) {
									w[core.FieldOfAddr(fa).Name()] = true
								}
							}
							cc := core.CallCommonOf(ins)
							if cc != nil {
								if f := cc.StaticCallee(); f != nil {
									if f.Name() == "Put" && f.Pkg != nil && f.Pkg.Pkg.Path() == "sync" {
										for _, a := range cc.Args {
											if mi, ok := a.(*ssa.MakeInterface); ok && mi.X == ssa.Value(pa) {
												hit = true
												w["*"] = true
											}
										}
									}
									if idx, ok := rel[f]; ok && idx < len(cc.Args) && cc.Args[idx] == ssa.Value(pa) {
										hit = true
										for k := range relW[f] {
											w[k] = true
										}
									}
								}
								if nm, bc := core.BuiltinCall(ins); nm == "append" && bc != nil {
									_ = bc
								}
							}
							// append(c.free, p): lowered to a store of p into a new slice's element
							if st, ok := ins.(*ssa.Store); ok && st.Val == ssa.Value(pa) {
								if _, ok := st.Addr.(*ssa.IndexAddr); ok {
									hit = true
								}
							}
						})
						if hit {
							rel[fn] = pi
							relW[fn] = w
							changed = true
						}
					}
				}
			}
			nSites := 0
			for _, fn := range fns {
				perFn := 0
				core.Instrs(fn, func(ins ssa.Instruction) {
					cc := core.CallCommonOf(ins)
					if cc == nil || cc.StaticCallee() == nil {
						return
					}
					idx, ok := rel[cc.StaticCallee()]
					if !ok || idx >= len(cc.Args) {
						return
					}
					v := cc.Args[idx]
					wr := relW[cc.StaticCallee()]
					if _, isParamOfRel := rel[fn]; isParamOfRel && v == ssa.Value(fn.Params[rel[fn]]) {
						// a releasing wrapper handing its own parameter on
					}
					nSites++
					perFn++
					key := core.FnKey(fn) + "/after-release"
					if perFn > 1 {
						key += "#" + string(rune('0'+perFn))
					}
					use := core.ForwardSearch(fn, ins, func(i ssa.Instruction) bool {
						if fa, ok := i.(*ssa.FieldAddr); ok && fa.X == v && (wr["*"] || wr[core.FieldOfAddr(fa).Name()]) {
							// reads only: a FieldAddr whose referrers include a load
							for _, r := range *fa.Referrers() {
								if u, ok := r.(*ssa.UnOp); ok && u.Op == token.MUL {
									return true
								}
							}
						}
						return false
					}, func(i ssa.Instruction) bool {
						return ssa.Value(nil) != v && i == core.AsInstr(v)
					})
					if use == nil {
						r6.OK(key, p.InstrPos(ins), "the released page is not read again")
					} else {
						r6.Violate(key, p.InstrPos(ins), "a field of the page is read at "+p.InstrPos(use)+" after the page was handed back to the page cache here (the cache overwrites that field or hands the page to a pool other goroutines draw from): a list walk that does this stops after the first page and leaks the rest", nil)
					}
				})
			}
			if nSites < 1 {
				r6.Missing(pkg+"/release-sites", fmt.Sprintf("only %d page release sites found", nSites))
			}
			c.Counts[pkg+"_release_sites"] = nSites
		}

		// ---- R11.8: page counts are counted, not computed
		{
			nextFn := p.Func(pkg, "pageCache.next")
			nF := 0
			for _, fn := range fns {
				if nextFn == nil || fn == nextFn {
					continue
				}
				calls := 0
				core.Instrs(fn, func(ins ssa.Instruction) {
					if cc := core.CallCommonOf(ins); cc != nil && cc.StaticCallee() == nextFn {
						calls++
					}
				})
				if calls == 0 {
					continue
				}
				res := fn.Signature.Results()
				idx := -1
				for i := 0; i < res.Len(); i++ {
					if bt, ok := res.At(i).Type().Underlying().(*types.Basic); ok && bt.Kind() == types.Int {
						idx = i
					}
				}
				if idx < 0 {
					continue
				}
				nF++
				bad := ""
				seen := map[ssa.Value]bool{}
				var walk func(v ssa.Value, d int)
				walk = func(v ssa.Value, d int) {
					if d > 12 || seen[v] || bad != "" {
						return
					}
					seen[v] = true
					switch x := v.(type) {
					case *ssa.Const:
					case *ssa.Phi:
						for _, e := range x.Edges {
							walk(e, d+1)
						}
					case *ssa.BinOp:
						if k, ok := core.ConstInt(x.Y); ok && x.Op == token.ADD && k == 1 {
							walk(x.X, d+1)
						} else {
							bad = "computed with " + x.Op.String()
						}
					default:
						bad = "not a counter"
					}
				}
				for _, ret := range core.Returns(fn) {
					walk(core.RetOperand(ret, idx), 0)
				}
				r8.Check(bad == "", core.FnKey(fn)+"/page-count", p.Pos(fn.Pos()), "the returned page count is a counter incremented per page taken", "the number of pages reported to the per-connection accounting is "+bad+" instead of being counted as pages are taken from the cache: whenever the two differ (a payload-less segment still takes a page) buffered pages are not accounted and the per-connection limit is overshot")
			}
			if nF == 0 {
				r8.Missing(pkg+"/page-producing functions", "none found")
			}
		}

		// ---- R11.7: free-list discipline of the stream pool
		if rm != nil {
			var push ssa.Instruction
			core.Instrs(rm, func(ins ssa.Instruction) {
				if st, ok := ins.(*ssa.Store); ok {
					if fa, ok := st.Addr.(*ssa.FieldAddr); ok && core.FieldOfAddr(fa).Name() == "free" {
						push = ins
					}
				}
			})
			key := core.FnKey(rm) + "/free-push"
			if push == nil {
				r7.Missing(key, "no store to the free list in remove")
			} else {
				guarded := false
				stale := false
				for _, dc := range core.DomConds(push.Block()) {
					if ex, ok := dc.V.(*ssa.Extract); ok && ex.Index == 1 && dc.Truth {
						if lk, ok := ex.Tuple.(*ssa.Lookup); ok && lk.CommaOk {
							if a, ok := core.IsLoad(lk.X); ok {
								if fa, ok := a.(*ssa.FieldAddr); ok && core.FieldOfAddr(fa).Name() == "conns" {
									guarded = true
									if unlockBetween(rm, lk, push) {
										guarded = false
										stale = true
									}
								}
							}
						}
					}
				}
				onlyClose := true
				if n := g.Nodes[rm]; n != nil {
					for _, e := range n.In {
						if e.Caller.Func != cf {
							onlyClose = false
						}
					}
				}
				switch {
				case stale && !onlyClose:
					r7.Violate(key, p.InstrPos(push), "the lookup that decides whether the connection is still in the live map is made in an earlier critical section than the push on the free list (the pool's lock is released in between): two removers can both find the connection and both push it, so the same object is handed to two later connections", nil)
				case guarded:
					r7.OK(key, p.InstrPos(push), "pushed only when the connection was found in the live map")
				case onlyClose:
					r7.OK(key, p.InstrPos(push), "remove is called only from the close function, which runs once per connection (R11.1)")
				default:
					r7.Violate(key, p.InstrPos(push), "remove pushes the connection on the free list unconditionally and is called from more than the once-per-connection close function: a second removal puts the same object on the free list twice and two later streams share one connection object", nil)
				}
			}
		}

		// FlushAll leaves everything closed: its loops run `for !closed`
		if fa := p.Func(pkg, "Assembler.FlushAll"); fa != nil {
			ok := false
			core.Instrs(fa, func(i ssa.Instruction) {
				cc := core.CallCommonOf(i)
				if cc == nil || cc.StaticCallee() == nil || cc.StaticCallee().Name() != "skipFlush" {
					return
				}
				// in a loop whose condition is !closed
				for _, dc := range core.DomConds(i.Block()) {
					if a, isL := core.IsLoad(dc.V); isL && !dc.Truth {
						if fa2, isF := a.(*ssa.FieldAddr); isF && core.FieldOfAddr(fa2).Name() == "closed" {
							if core.ForwardSearch(fa, i, func(x ssa.Instruction) bool { return x == i }, nil) != nil {
								ok = true
							}
						}
					}
				}
			})
			r5.Check(ok, core.FnKey(fa)+"/until-closed", p.Pos(fa.Pos()), "flushes each connection until it is closed", "FlushAll does not loop until each connection is closed: streams are left without their completion callback")
		} else {
			r5.Missing(pkg+".FlushAll", "not found")
		}
	}
}

// walkedForward: some function assigns v = v.next in a loop starting from a load of field `name`.
func walkedForward(fns []*ssa.Function, name string) bool {
	for _, fn := range fns {
		found := false
		core.Instrs(fn, func(ins ssa.Instruction) {
			ph, ok := ins.(*ssa.Phi)
			if !ok || !isPagePtr(ph.Type()) {
				return
			}
			fromField, viaNext := false, false
			for _, e := range ph.Edges {
				if loadsFieldNamed(e, name) {
					fromField = true
				}
				if loadsFieldNamed(e, "next") {
					viaNext = true
				}
				if p2, ok := e.(*ssa.Phi); ok {
					for _, e2 := range p2.Edges {
						if loadsFieldNamed(e2, "next") {
							viaNext = true
						}
					}
				}
			}
			if fromField && viaNext {
				found = true
			}
		})
		if found {
			return true
		}
	}
	return false
}

// startsAtField: v is a loop variable initialised from a load of field `name`.
func startsAtField(v ssa.Value, name string, depth int, seen map[ssa.Value]bool) bool {
	if depth > 6 || seen[v] {
		return false
	}
	seen[v] = true
	if loadsFieldNamed(v, name) {
		return true
	}
	if ph, ok := v.(*ssa.Phi); ok {
		for _, e := range ph.Edges {
			if startsAtField(e, name, depth+1, seen) {
				return true
			}
		}
	}
	return false
}

// closedCondsFeeding: number of `.closed` (true) tests that dominate the site
// directly or through a boolean flag phi.
func closedCondsFeeding(site ssa.Instruction) int {
	n := 0
	count := func(b *ssa.BasicBlock) int {
		k := 0
		for _, dc := range core.DomConds(b) {
			if a, ok := core.IsLoad(dc.V); ok && dc.Truth {
				if fa, ok := a.(*ssa.FieldAddr); ok && core.FieldOfAddr(fa).Name() == "closed" {
					k++
				}
			}
		}
		return k
	}
	n = count(site.Block())
	for _, dc := range core.DomConds(site.Block()) {
		if ph, ok := dc.V.(*ssa.Phi); ok && dc.Truth {
			for i, e := range ph.Edges {
				if b, ok := core.ConstBool(e); ok && b {
					if k := count(ph.Block().Preds[i]); k > n {
						n = k
					}
				}
			}
		}
	}
	return n
}

// limitPairing (R11.11): each configured page limit is compared with the
// counter it limits: MaxBufferedPagesTotal with the page cache's `used`
// (pages held by all connections), MaxBufferedPagesPerConnection with a
// connection's (half-connection's) `pages`.  Comparing the total limit with a
// per-connection counter turns the global bound into a per-connection one.
func limitPairing(c *core.Ctx, r *core.Rule) {
	p := c.P
	want := map[string]string{"MaxBufferedPagesTotal": "used", "MaxBufferedPagesPerConnection": "pages"}
	n := 0
	for _, pkg := range []string{"tcpassembly", "reassembly"} {
		for _, fn := range pkgFunctions(p, pkg) {
			k := 0
			core.Instrs(fn, func(ins ssa.Instruction) {
				bo, ok := ins.(*ssa.BinOp)
				if !ok {
					return
				}
				switch bo.Op {
				case token.LSS, token.LEQ, token.GTR, token.GEQ:
				default:
					return
				}
				fieldOf := func(v ssa.Value) string {
					v = core.StripConv(v)
					if ld, ok := v.(*ssa.UnOp); ok && ld.Op == token.MUL {
						if fa, ok := ld.X.(*ssa.FieldAddr); ok {
							return core.FieldOfAddr(fa).Name()
						}
					}
					if f, ok := v.(*ssa.Field); ok {
						return core.FieldOfVal(f).Name()
					}
					return ""
				}
				for _, side := range [][2]ssa.Value{{bo.X, bo.Y}, {bo.Y, bo.X}} {
					lim := fieldOf(side[0])
					cnt, isLimit := want[lim]
					if !isLimit {
						continue
					}
					if _, isK := core.ConstInt(side[1]); isK {
						continue // `limit > 0`: is the limit configured at all
					}
					n++
					k++
					key := fmt.Sprintf("%s/limit:%s#%d", core.FnKey(fn), lim, k)
					got := fieldOf(side[1])
					if got == cnt {
						r.OK(key, p.InstrPos(ins), lim+" is compared with "+cnt)
					} else {
						r.Violate(key, p.InstrPos(ins), lim+" is compared with "+map[bool]string{true: "field " + got, false: "a value that is not the counter " + cnt}[got != ""]+" instead of the counter it limits ("+cnt+"): the bound on buffered pages the option promises is not the bound that is enforced", nil)
					}
				}
			})
		}
	}
	c.Counts["limit_comparisons"] = n
	if n < 4 {
		r.Missing("assemblers/limit comparisons", fmt.Sprintf("only %d found", n))
	}
}

// unlockBetween: some path from a to b releases a mutex (Unlock/RUnlock).
func unlockBetween(fn *ssa.Function, a, b ssa.Instruction) bool {
	isUnlock := func(i ssa.Instruction) bool {
		cc := core.CallCommonOf(i)
		if cc == nil {
			return false
		}
		if _, isDefer := i.(*ssa.Defer); isDefer {
			return false
		}
		n := core.StaticName(cc)
		return strings.HasSuffix(n, ").Unlock") || strings.HasSuffix(n, ").RUnlock")
	}
	found := false
	core.Instrs(fn, func(u ssa.Instruction) {
		if found || !isUnlock(u) {
			return
		}
		if core.ForwardSearch(fn, a, func(i ssa.Instruction) bool { return i == u }, func(i ssa.Instruction) bool { return i == b }) != nil &&
			core.ForwardSearch(fn, u, func(i ssa.Instruction) bool { return i == b }, nil) != nil {
			found = true
		}
	})
	return found
}

// releaseCountsPages (R11.13): in the reassembly package a page goes back to
// the cache through release(), which returns the number of pages it gave
// back; the caller owns a page counter (halfconnection.pages) that the limit
// test reads.  Every result of release() must be subtracted from a `pages`
// field: a release whose result is dropped leaves the counter above the pages
// really held, and the per-connection limit then forces data out although the
// configured number of pages is not in use.
func releaseCountsPages(c *core.Ctx, r *core.Rule) {
	p := c.P
	n := 0
	for _, fn := range pkgFunctions(p, "reassembly") {
		k := 0
		core.Instrs(fn, func(ins ssa.Instruction) {
			call, ok := ins.(*ssa.Call)
			if !ok {
				return
			}
			name := ""
			if call.Call.IsInvoke() {
				name = call.Call.Method.Name()
			} else if f := call.Call.StaticCallee(); f != nil && f.Signature.Recv() != nil {
				name = f.Name()
			}
			if name != "release" {
				return
			}
			if bt, ok := call.Type().Underlying().(*types.Basic); !ok || bt.Info()&types.IsInteger == 0 {
				return
			}
			n++
			k++
			counted := false
			for _, ref := range *call.Referrers() {
				bo, ok := ref.(*ssa.BinOp)
				if !ok || bo.Op != token.SUB || bo.Y != ssa.Value(call) {
					continue
				}
				for _, r2 := range *bo.Referrers() {
					if st, ok := r2.(*ssa.Store); ok {
						if fa, ok := st.Addr.(*ssa.FieldAddr); ok && core.FieldOfAddr(fa).Name() == "pages" {
							counted = true
						}
					}
				}
			}
			key := fmt.Sprintf("%s/release-counted#%d", core.FnKey(fn), k)
			r.Check(counted, key, p.InstrPos(ins), "the number of released pages is subtracted from a pages counter", "the number of pages released here is not subtracted from the half-connection's page counter: the counter stays above the pages really held, so the per-connection page limit is reached — and data is forced out and reported as skipped — while fewer pages than configured are in use")
		})
	}
	c.Counts["release_calls"] = n
	if n < 3 {
		r.Missing("reassembly/release calls", fmt.Sprintf("only %d found", n))
	}
	// the acquisition side: the number of pages convertToPages reports is added to a pages counter
	m := 0
	for _, fn := range pkgFunctions(p, "reassembly") {
		k := 0
		core.Instrs(fn, func(ins ssa.Instruction) {
			call, ok := ins.(*ssa.Call)
			if !ok {
				return
			}
			name := ""
			if call.Call.IsInvoke() {
				name = call.Call.Method.Name()
			} else if f := call.Call.StaticCallee(); f != nil && f.Signature.Recv() != nil {
				name = f.Name()
			}
			if name != "convertToPages" {
				return
			}
			m++
			k++
			counted := false
			seenV := map[ssa.Value]bool{}
			var follow func(v ssa.Value, d int)
			follow = func(v ssa.Value, d int) {
				if d > 6 || seenV[v] || counted {
					return
				}
				seenV[v] = true
				refs := v.Referrers()
				if refs == nil {
					return
				}
				for _, r2 := range *refs {
					switch x := r2.(type) {
					case *ssa.BinOp:
						if x.Op == token.ADD {
							follow(x, d+1)
						}
					case *ssa.Phi:
						follow(x, d+1)
					case *ssa.Convert:
						follow(x, d+1)
					case *ssa.Store:
						if fa, ok := x.Addr.(*ssa.FieldAddr); ok && core.FieldOfAddr(fa).Name() == "pages" {
							counted = true
						}
					}
				}
			}
			for _, ref := range *call.Referrers() {
				if ex, ok := ref.(*ssa.Extract); ok && ex.Index == 2 {
					follow(ex, 0)
				}
			}
			key := fmt.Sprintf("%s/converted-pages-counted#%d", core.FnKey(fn), k)
			r.Check(counted, key, p.InstrPos(ins), "the number of pages taken is added to a pages counter", "the number of pages this conversion takes from the cache is not added to the half-connection's page counter (it is only accumulated locally): the pages are later subtracted when they are released, so the counter the page limit is tested against drifts below the pages really held and more pages than MaxBufferedPagesPerConnection can be queued")
		})
	}
	c.Counts["convertToPages_calls"] = m
	if m < 2 {
		r.Missing("reassembly/convertToPages calls", fmt.Sprintf("only %d found", m))
	}
}
