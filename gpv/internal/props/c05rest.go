package props

import (
	"bytes"
	"fmt"
	"go/ast"
	"go/constant"
	"go/printer"
	"go/token"
	"go/types"
	"sort"
	"strings"

	"golang.org/x/tools/go/ssa"

	"gpv/internal/core"
)

// alphaNormalize prints node with every identifier that refers to an object
// declared inside `scopeFn` (parameters, locals, captured variables of the
// enclosing function) replaced by a canonical name in order of first use.
func alphaNormalize(fset *token.FileSet, info *types.Info, node ast.Node, outer *ast.FuncDecl) string {
	names := map[types.Object]string{}
	// work on a copy of identifiers only: collect replacements
	repl := map[*ast.Ident]string{}
	ast.Inspect(node, func(n ast.Node) bool {
		id, ok := n.(*ast.Ident)
		if !ok {
			return true
		}
		obj := info.Uses[id]
		if obj == nil {
			obj = info.Defs[id]
		}
		if obj == nil || obj.Pkg() == nil {
			return true
		}
		if _, isVar := obj.(*types.Var); !isVar {
			return true
		}
		// local to the enclosing function declaration?
		if obj.Pos() < outer.Pos() || obj.Pos() > outer.End() {
			return true
		}
		if obj.(*types.Var).IsField() {
			return true
		}
		if _, ok := names[obj]; !ok {
			names[obj] = fmt.Sprintf("v%d", len(names))
		}
		repl[id] = names[obj]
		return true
	})
	// print with replaced names (temporarily mutate, then restore)
	orig := map[*ast.Ident]string{}
	for id, n := range repl {
		orig[id] = id.Name
		id.Name = n
	}
	var buf bytes.Buffer
	printer.Fprint(&buf, token.NewFileSet(), node)
	for id, n := range orig {
		id.Name = n
	}
	return buf.String()
}

func checkC05Rest(c *core.Ctx) {
	p := c.P
	r2 := c.Rule("R5.2", "T", "the generated decode loops of all container kinds are identical up to renaming")
	r3 := c.Rule("R5.3", "T", "registered decoders of DecodingLayer types wrap that type's DecodeFromBytes on a fresh object and chain to its NextLayerType()")
	r4 := c.Rule("R5.4", "T", "enum metadata rows decode with the decoder registered for the row's layer type")
	r5 := c.Rule("R5.5", "D", "user-supplied (signed) layer types used as slice indices are guarded on both sides")

	// ---- R5.2
	ld := p.Func("", "LayersDecoder")
	if ld == nil || p.Decl(ld) == nil {
		r2.Missing("LayersDecoder", "function not found")
	} else {
		decl := p.Decl(ld)
		info := p.Info(ld)
		var lits []*ast.FuncLit
		ast.Inspect(decl.Body, func(n ast.Node) bool {
			if fl, ok := n.(*ast.FuncLit); ok {
				// only the loops: literals that contain a for statement
				hasFor := false
				ast.Inspect(fl.Body, func(m ast.Node) bool {
					if _, ok := m.(*ast.ForStmt); ok {
						hasFor = true
					}
					return true
				})
				if hasFor {
					lits = append(lits, fl)
				}
				return false
			}
			return true
		})
		if len(lits) < 2 {
			r2.Missing("LayersDecoder/loops", "fewer than two generated loops found")
		} else {
			_ = info
			// compare the loops as canonical SSA (insensitive to names, aliases, jump-only blocks,
			// break-then-return vs return, and static vs interface calls of the same method)
			var fns []*ssa.Function
			for _, an := range ld.AnonFuncs {
				hasLoop := false
				for _, b := range an.Blocks {
					for _, su := range b.Succs {
						if su.Dominates(b) {
							hasLoop = true
						}
					}
				}
				if hasLoop {
					fns = append(fns, an)
				}
			}
			sort.Slice(fns, func(i, j int) bool { return fns[i].Pos() < fns[j].Pos() })
			if len(fns) < 2 {
				r2.Missing("LayersDecoder/loops", "fewer than two loop closures in the SSA")
			} else {
				ref := ssaCanon(fns[0])
				for i, f := range fns {
					got := ssaCanon(f)
					key := fmt.Sprintf("gopacket.LayersDecoder/loop#%d", i)
					if got == ref {
						r2.OK(key, p.Pos(f.Pos()), "same operations in the same order as loop#0 (canonical SSA)")
					} else {
						r2.Violate(key, p.Pos(f.Pos()), "this container's decode loop differs from the first one: parsers give different results depending on the container used", map[string]any{"first_difference": firstDiff(ref, got)})
					}
				}
			}
			// the loop itself: must append typ only after a successful DecodeFromBytes, follow NextLayerType and LayerPayload, stop on empty payload
			checkParserLoop(c, r2, ld)
		}
	}

	// ---- registered decoders: LayerType global -> decoder function
	regDec := map[*ssa.Global]*ssa.Function{}
	regSite := map[*ssa.Global]ssa.Instruction{}
	for _, fn := range core.SortedFns(p.AllFns) {
		if !p.InModule(fn) || !isInitLike(fn) && !initOnly(p, fn, 0) {
			continue
		}
		core.Instrs(fn, func(ins ssa.Instruction) {
			call, ok := ins.(*ssa.Call)
			if !ok {
				return
			}
			callee := call.Call.StaticCallee()
			if callee == nil || (callee.Name() != "RegisterLayerType" && callee.Name() != "OverrideLayerType") || len(call.Call.Args) != 2 {
				return
			}
			dec := decoderOfMeta(call.Call.Args[1])
			// result stored to a global
			for _, ref := range *call.Referrers() {
				if st, ok := ref.(*ssa.Store); ok {
					if g, ok := st.Addr.(*ssa.Global); ok {
						regDec[g] = dec
						regSite[g] = ins
					}
				}
			}
		})
	}
	c.Counts["registered_layer_types"] = len(regDec)
	for g, f := range regDec {
		if f != nil {
			regDecName[g.Name()] = f.Name()
		}
	}

	// pre-scan enum rows: table[k] -> layer type global
	for _, fn := range core.SortedFns(p.AllFns) {
		if !p.InModule(fn) || !(isInitLike(fn) || initOnly(p, fn, 0)) {
			continue
		}
		core.Instrs(fn, func(ins ssa.Instruction) {
			st, ok := ins.(*ssa.Store)
			if !ok || !core.NamedIs(st.Val.Type(), "EnumMetadata") {
				return
			}
			ia, ok := st.Addr.(*ssa.IndexAddr)
			if !ok {
				return
			}
			tbl, _ := ia.X.(*ssa.Global)
			k, okK := core.ConstInt(ia.Index)
			a, okL := core.IsLoad(st.Val)
			if tbl == nil || !okK || !okL {
				return
			}
			al, ok := a.(*ssa.Alloc)
			if !ok {
				return
			}
			for _, ref := range *al.Referrers() {
				fa, ok := ref.(*ssa.FieldAddr)
				if !ok {
					continue
				}
				for _, r2 := range *fa.Referrers() {
					s2, ok := r2.(*ssa.Store)
					if !ok || s2.Addr != ssa.Value(fa) {
						continue
					}
					switch core.FieldOfAddr(fa).Name() {
					case "DecodeWith":
						if f := funcOfDecoderValue(s2.Val); f != nil {
							enumRowLayerType[fmt.Sprintf("%s[%d]", tbl.Name(), k)] = "dec:" + f.Name()
						}
					}
				}
			}
		})
	}

	// ---- R5.3
	dl := p.Iface("", "DecodingLayer")
	dld := p.Func("layers", "decodingLayerDecoder")
	seenFn := map[*ssa.Function]bool{}
	var gl []*ssa.Global
	for g := range regDec {
		gl = append(gl, g)
	}
	sort.Slice(gl, func(i, j int) bool { return gl[i].Name() < gl[j].Name() })
	for _, g := range gl {
		f := regDec[g]
		if f == nil || seenFn[f] || len(f.Blocks) == 0 {
			continue
		}
		seenFn[f] = true
		var data ssa.Value
		for _, pa := range f.Params {
			if core.IsByteSlice(pa.Type()) {
				data = pa
			}
		}
		// the layer object: a fresh alloc of a type implementing DecodingLayer that is added / handed to decodingLayerDecoder
		var obj *ssa.Alloc
		viaHelper := false
		core.Instrs(f, func(ins ssa.Instruction) {
			cc := core.CallCommonOf(ins)
			if cc == nil {
				return
			}
			var arg ssa.Value
			if core.InvokeOn(cc, "PacketBuilder", "AddLayer") && len(cc.Args) == 1 {
				arg = cc.Args[0]
			} else if cc.StaticCallee() == dld && dld != nil && len(cc.Args) == 3 {
				arg = cc.Args[0]
				viaHelper = true
			} else {
				return
			}
			if mi, ok := arg.(*ssa.MakeInterface); ok {
				arg = mi.X
			}
			if al, ok := arg.(*ssa.Alloc); ok && obj == nil {
				if types.Implements(al.Type(), dl) {
					obj = al
				}
			}
		})
		key := core.FnKey(f) + "/wraps-DecodeFromBytes"
		if obj == nil {
			r3.Info(key, p.Pos(f.Pos()), "decoder does not publish a single fresh DecodingLayer object (not a wrapper)")
			continue
		}
		tname := obj.Type().Underlying().(*types.Pointer).Elem().String()
		tname = tname[strings.LastIndex(tname, ".")+1:]
		okCall := false
		if viaHelper {
			core.Instrs(f, func(ins ssa.Instruction) {
				cc := core.CallCommonOf(ins)
				if cc != nil && cc.StaticCallee() == dld && len(cc.Args) == 3 && cc.Args[1] == data {
					okCall = true
				}
			})
		} else {
			core.Instrs(f, func(ins ssa.Instruction) {
				cc := core.CallCommonOf(ins)
				if cc == nil {
					return
				}
				callee := cc.StaticCallee()
				if callee != nil && callee.Name() == "DecodeFromBytes" && len(cc.Args) == 3 && cc.Args[0] == ssa.Value(obj) && cc.Args[1] == data {
					okCall = true
				}
			})
		}
		if !okCall {
			r3.Violate(key, p.Pos(f.Pos()), "the registered decoder of "+tname+" does not decode with "+tname+".DecodeFromBytes on its unmodified data: NewPacket and a DecodingLayerParser use two different decoders for this layer", nil)
			continue
		}
		r3.OK(key, p.Pos(f.Pos()), "fresh "+tname+", DecodeFromBytes(data)")
		// exactly the decoded object is published as a layer
		core.Instrs(f, func(ins ssa.Instruction) {
			cc := core.CallCommonOf(ins)
			if cc == nil || !core.InvokeOn(cc, "PacketBuilder", "AddLayer") {
				return
			}
			arg := cc.Args[0]
			if mi, ok := arg.(*ssa.MakeInterface); ok {
				arg = mi.X
			}
			if arg != ssa.Value(obj) {
				r3.Violate(core.FnKey(f)+"/extra-layer", p.InstrPos(ins), "the registered decoder of "+tname+" publishes a second layer object that "+tname+".DecodeFromBytes keeps inside the layer: NewPacket reports a layer a DecodingLayerParser never reports", nil)
			}
		})
		if viaHelper {
			continue // chaining is done by the helper, checked once below
		}
		// chaining: what NewPacket chains to must be what T.NextLayerType() returns
		// (an enum value E and E.LayerType() are the same decoder by R5.4)
		nltFn := methodOf(p, obj.Type(), "NextLayerType")
		want := map[string]bool{}
		if nltFn != nil && len(nltFn.Blocks) > 0 {
			for _, ret := range core.Returns(nltFn) {
				want[chainTerm(ret.Results[0], nltFn.Params[0])] = true
			}
		}
		got := map[string]bool{}
		var site ssa.Instruction
		core.Instrs(f, func(ins ssa.Instruction) {
			if !isBuilderCall(ins, "NextDecoder") {
				return
			}
			site = ins
			got[chainTerm(core.CallCommonOf(ins).Args[0], obj)] = true
		})
		if site == nil {
			// terminal decoder: NextLayerType must be zero/payload-free
			continue
		}
		k2 := core.FnKey(f) + "/chains-to-NextLayerType"
		same := len(want) > 0
		for t := range got {
			if !want[t] && t != "self.NextLayerType()" {
				same = false
			}
		}
		if same {
			r3.OK(k2, p.InstrPos(site), fmt.Sprintf("chains to %v = %s.NextLayerType()", keys(got), tname))
		} else {
			r3.Violate(k2, p.InstrPos(site), fmt.Sprintf("NewPacket chains %s to %v but %s.NextLayerType(), which a DecodingLayerParser follows, returns %v: the two report different layer sequences", tname, keys(got), tname, keys(want)), nil)
		}
	}
	if dld != nil {
		// helper: DecodeFromBytes(data) then AddLayer then NextDecoder(d.NextLayerType())
		okH := false
		core.Instrs(dld, func(ins ssa.Instruction) {
			if !isBuilderCall(ins, "NextDecoder") {
				return
			}
			cc := core.CallCommonOf(ins)
			arg := cc.Args[0]
			if mi, ok := arg.(*ssa.MakeInterface); ok {
				arg = mi.X
			}
			if call, ok := arg.(*ssa.Call); ok && call.Call.IsInvoke() && call.Call.Method.Name() == "NextLayerType" && call.Call.Value == ssa.Value(dld.Params[0]) {
				okH = true
			}
		})
		r3.Check(okH, "layers.decodingLayerDecoder/chains-to-NextLayerType", p.Pos(dld.Pos()), "helper chains to d.NextLayerType()", "the shared wrapper does not chain to d.NextLayerType()")
	}

	// ---- R5.4
	nRows := 0
	for _, fn := range core.SortedFns(p.AllFns) {
		if !p.InModule(fn) || !(isInitLike(fn) || initOnly(p, fn, 0)) {
			continue
		}
		core.Instrs(fn, func(ins ssa.Instruction) {
			st, ok := ins.(*ssa.Store)
			if !ok || !core.NamedIs(st.Val.Type(), "EnumMetadata") {
				return
			}
			ia, ok := st.Addr.(*ssa.IndexAddr)
			if !ok {
				return
			}
			tbl, _ := ia.X.(*ssa.Global)
			if tbl == nil {
				return
			}
			// value is a load of a local composite
			a, ok := core.IsLoad(st.Val)
			if !ok {
				return
			}
			al, ok := a.(*ssa.Alloc)
			if !ok {
				return
			}
			var dec *ssa.Function
			var lt *ssa.Global
			for _, ref := range *al.Referrers() {
				fa, ok := ref.(*ssa.FieldAddr)
				if !ok {
					continue
				}
				for _, r2 := range *fa.Referrers() {
					s2, ok := r2.(*ssa.Store)
					if !ok || s2.Addr != ssa.Value(fa) {
						continue
					}
					switch core.FieldOfAddr(fa).Name() {
					case "DecodeWith":
						dec = funcOfDecoderValue(s2.Val)
					case "LayerType":
						if a2, ok := core.IsLoad(s2.Val); ok {
							lt, _ = a2.(*ssa.Global)
						}
					}
				}
			}
			idx := "?"
			if k, ok := core.ConstInt(ia.Index); ok {
				idx = fmt.Sprint(k)
			}
			key := fmt.Sprintf("layers.%s[%s]", tbl.Name(), idx)
			if dec == nil || lt == nil {
				r4.Info(key, p.InstrPos(ins), "row without a plain function decoder or layer type")
				return
			}
			nRows++
			want, ok := regDec[lt]
			if !ok || want == nil {
				r4.Undecided(key, p.InstrPos(ins), "layer type "+lt.Name()+" has no plain registered decoder")
				return
			}
			r4.Check(dec == want, key, p.InstrPos(ins), "DecodeWith = decoder registered for "+lt.Name(), fmt.Sprintf("row says LayerType %s but decodes with %s, while %s is registered with %s: the enum and the layer type disagree on the decoder", lt.Name(), core.FnKey(dec), lt.Name(), core.FnKey(want)))
		})
	}
	c.Counts["enum_rows"] = nRows
	if nRows < 60 {
		r4.Missing("enum tables", fmt.Sprintf("only %d rows evaluated", nRows))
	}

	// ---- R5.5
	signedIndexRule(c, r5, func(fn *ssa.Function) bool {
		pk := core.FnPkg(fn)
		return pk != nil && pk.Path() == core.Mod
	})

	// ---- R5.6: no stale elements are exposed by growing a field's slice into its spare capacity
	r6 := c.Rule("R5.6", "T", "decode code never grows a slice held in a layer field by re-slicing past its length (f[:len(f)+k], f[:cap(f)]): the exposed elements carry an earlier packet's values")
	{
		roots := p.Roots()
		nF, nBad := 0, 0
		fieldOf := func(v ssa.Value) string {
			for i := 0; i < 6; i++ {
				switch y := v.(type) {
				case *ssa.Slice:
					v = y.X
					continue
				case *ssa.ChangeType:
					v = y.X
					continue
				}
				break
			}
			if a, ok := core.IsLoad(v); ok {
				if pth, _ := core.FieldPath(a); pth != "" {
					return pth
				}
			}
			return ""
		}
		for _, fn := range core.SortedFns(roots.DecReach) {
			if fn.Pkg == nil || strings.HasSuffix(p.Pos(fn.Pos()), "_test.go") {
				continue
			}
			k := 0
			core.Instrs(fn, func(ins ssa.Instruction) {
				sl, ok := ins.(*ssa.Slice)
				if !ok || sl.High == nil {
					return
				}
				if _, isSl := sl.X.Type().Underlying().(*types.Slice); !isSl {
					return
				}
				fp := fieldOf(sl.X)
				if fp == "" {
					return
				}
				nF++
				beyond := ""
				var scan func(v ssa.Value, d int)
				scan = func(v ssa.Value, d int) {
					if d > 6 {
						return
					}
					switch x := v.(type) {
					case *ssa.Convert:
						scan(x.X, d+1)
					case *ssa.BinOp:
						if x.Op == token.ADD {
							for _, pair := range [][2]ssa.Value{{x.X, x.Y}, {x.Y, x.X}} {
								if of, isL := core.IsLen(pair[0]); isL && fieldOf(of) == fp {
									if kk, ok := core.ConstFold(pair[1]); !ok || kk > 0 {
										beyond = "len+k"
									}
								}
							}
						}
						scan(x.X, d+1)
						scan(x.Y, d+1)
					case *ssa.Call:
						if nm, cc := core.BuiltinCall(x); nm == "cap" && fieldOf(cc.Args[0]) == fp {
							beyond = "cap"
						}
					}
				}
				scan(sl.High, 0)
				if beyond == "" {
					// a non-constant high bound that the code admits by comparing with cap(f), not len(f)
					if _, isK := core.ConstInt(sl.High); !isK {
						for _, dc := range core.DomConds(sl.Block()) {
							bo, ok := dc.V.(*ssa.BinOp)
							if !ok {
								continue
							}
							for _, side := range []ssa.Value{bo.X, bo.Y} {
								if cl, ok := core.StripConv(side).(*ssa.Call); ok {
									if nm, cc := core.BuiltinCall(cl); nm == "cap" && fieldOf(cc.Args[0]) == fp {
										beyond = "a bound admitted by a test against cap"
									}
								}
							}
						}
					}
				}
				if beyond == "" {
					return
				}
				nBad++
				k++
				key := core.FnKey(fn) + "/grows:" + fp
				if k > 1 {
					key += "#" + string(rune('0'+k))
				}
				r6.Violate(key, p.InstrPos(ins), "the slice in field "+fp+" is re-sliced up to "+beyond+" of itself: the elements that become visible were written while decoding an earlier packet into this layer object and any field of them that is not stored again leaks into this packet's result", nil)
			})
		}
		c.Counts["field_slice_reslices"] = nF
		if nF < 20 {
			r6.Missing("decode/field-reslices", fmt.Sprintf("only %d re-slices of field-held slices seen", nF))
		}
		if nBad == 0 {
			r6.OK("decode/no-growth", "", fmt.Sprintf("%d re-slices of field-held slices with a high bound, none beyond the slice's own length", nF))
		}
	}

	payloadProgress(c, c.Rule("R5.10", "D", "a DecodingLayer hands the next one data[n:] with n >= 1 (= R1.6): DecodeLayers loops on LayerPayload(), so a zero advance never ends where NewPacket reports a layer sequence"))
	crossFieldReset(c, c.Rule("R5.11", "T", "no slice field of the receiver is reset to a re-slice of a different field and then appended to"))
	putRegistersEveryType(c, c.Rule("R5.12", "T", "every DecodingLayerContainer.Put registers the decoder for each of its layer types"))
	terminalLayersLeaveNoPayload(c, c.Rule("R5.13", "T", "a layer whose registered decoder never chains publishes no payload from DecodeFromBytes"))
	r9 := c.Rule("R5.9", "T", "DecodeFromBytes reads no integer/bool field of its receiver before storing it in the same call")
	staleFieldReads(c, r9)

	// ---- R5.8: the parser's Truncated flag is reset on every path before anything is decoded
	r8 := c.Rule("R5.8", "T", "DecodeLayers resets Truncated before any decoding call on every path")
	if dl := p.Func("", "DecodingLayerParser.DecodeLayers"); dl == nil {
		r8.Missing("DecodingLayerParser.DecodeLayers", "not found")
	} else {
		isReset := func(i ssa.Instruction) bool {
			st, ok := i.(*ssa.Store)
			if !ok {
				return false
			}
			fa, ok := st.Addr.(*ssa.FieldAddr)
			if !ok || core.FieldOfAddr(fa).Name() != "Truncated" {
				return false
			}
			b, ok := core.ConstBool(st.Val)
			return ok && !b
		}
		esc := core.ForwardSearch(dl, nil, func(i ssa.Instruction) bool {
			if _, isDefer := i.(*ssa.Defer); isDefer {
				return false
			}
			if _, isRet := i.(*ssa.Return); isRet {
				return true
			}
			call, ok := i.(*ssa.Call)
			return ok && call.Call.StaticCallee() == nil || (ok && p.InModule(call.Call.StaticCallee()))
		}, isReset)
		pos := p.Pos(dl.Pos())
		if esc != nil {
			pos = p.InstrPos(esc)
		}
		r8.Check(esc == nil, "gopacket.(*DecodingLayerParser).DecodeLayers/truncated-reset", pos, "Truncated := false precedes every decoding call and return", "a path decodes (or returns) without resetting Truncated first: after one truncated packet every later packet decoded on that path still reports Truncated, unlike NewPacket")
	}

	// ---- R5.7: the parser's bound decode function is rebuilt whenever what it was built from changes
	r7 := c.Rule("R5.7", "T", "DecodingLayerParser: every store to dlc/first/df is followed on every path by a store to decodeFunc (the closure captures the container by value)")
	{
		n := 0
		for _, fn := range core.SortedFns(p.AllFns) {
			if core.FnPkg(fn) == nil || core.FnPkg(fn).Path() != core.Mod || len(fn.Blocks) == 0 || strings.HasSuffix(p.Pos(fn.Pos()), "_test.go") {
				continue
			}
			core.Instrs(fn, func(ins ssa.Instruction) {
				st, ok := ins.(*ssa.Store)
				if !ok {
					return
				}
				fa, ok := st.Addr.(*ssa.FieldAddr)
				if !ok || !core.NamedIs(fa.X.Type(), "DecodingLayerParser") {
					return
				}
				name := core.FieldOfAddr(fa).Name()
				if name != "dlc" && name != "first" && name != "df" {
					return
				}
				// a freshly allocated parser under construction is covered when the constructor reaches a decodeFunc store too
				n++
				key := core.FnKey(fn) + "/store:" + name
				esc := core.ForwardSearch(fn, ins, func(i ssa.Instruction) bool { _, isRet := i.(*ssa.Return); return isRet }, func(i ssa.Instruction) bool {
					if s2, ok := i.(*ssa.Store); ok {
						if f2, ok := s2.Addr.(*ssa.FieldAddr); ok && core.NamedIs(f2.X.Type(), "DecodingLayerParser") && core.FieldOfAddr(f2).Name() == "decodeFunc" {
							return true
						}
					}
					if cc := core.CallCommonOf(i); cc != nil {
						if f := cc.StaticCallee(); f != nil && f.Name() == "SetDecodingLayerContainer" {
							return true
						}
					}
					return false
				})
				r7.Check(esc == nil, key, p.InstrPos(ins), "decodeFunc is rebuilt on every path after this store", "a path returns after changing "+name+" without rebuilding decodeFunc: DecodeLayers keeps decoding with the container/first type captured earlier, so layers added later are never reached with the array and sparse containers")
			})
		}
		if n < 2 {
			r7.Missing("DecodingLayerParser/stores", fmt.Sprintf("only %d stores to dlc/first/df found", n))
		}
	}
}

func firstDiff(a, b string) string {
	la, lb := strings.Split(a, "\n"), strings.Split(b, "\n")
	for i := 0; i < len(la) && i < len(lb); i++ {
		if la[i] != lb[i] {
			return fmt.Sprintf("line %d: %q vs %q", i+1, strings.TrimSpace(la[i]), strings.TrimSpace(lb[i]))
		}
	}
	return fmt.Sprintf("lengths %d vs %d lines", len(la), len(lb))
}

// decoderOfMeta: the function in the Decoder field of a LayerTypeMetadata value.
func decoderOfMeta(v ssa.Value) *ssa.Function {
	a, ok := core.IsLoad(v)
	if !ok {
		return nil
	}
	al, ok := a.(*ssa.Alloc)
	if !ok {
		return nil
	}
	for _, ref := range *al.Referrers() {
		fa, ok := ref.(*ssa.FieldAddr)
		if !ok || core.FieldOfAddr(fa).Name() != "Decoder" {
			continue
		}
		for _, r2 := range *fa.Referrers() {
			if s2, ok := r2.(*ssa.Store); ok && s2.Addr == ssa.Value(fa) {
				return funcOfDecoderValue(s2.Val)
			}
		}
	}
	return nil
}

func funcOfDecoderValue(v ssa.Value) *ssa.Function {
	if mi, ok := v.(*ssa.MakeInterface); ok {
		v = mi.X
	}
	if ct, ok := v.(*ssa.ChangeType); ok {
		v = ct.X
	}
	f, _ := v.(*ssa.Function)
	return f
}

// checkParserLoop: structural protocol of one generated loop (SSA of the first closure).
func checkParserLoop(c *core.Ctx, r *core.Rule, ld *ssa.Function) {
	p := c.P
	for i, af := range ld.AnonFuncs {
		var dfb, app, nlt, lp ssa.Instruction
		core.Instrs(af, func(ins ssa.Instruction) {
			cc := core.CallCommonOf(ins)
			if cc == nil {
				return
			}
			if cc.IsInvoke() {
				switch cc.Method.Name() {
				case "DecodeFromBytes":
					dfb = ins
				case "NextLayerType":
					nlt = ins
				case "LayerPayload":
					lp = ins
				}
			}
			if nm, _ := core.BuiltinCall(ins); nm == "append" {
				app = ins
			}
		})
		if dfb == nil {
			continue // the "no decoder" stub
		}
		key := fmt.Sprintf("gopacket.LayersDecoder$%d/", i+1)
		call := dfb.(*ssa.Call)
		okAppend := app != nil && core.UnderErrNil(app.Block(), call)
		r.Check(okAppend, key+"append-after-success", p.InstrPos(dfb), "the layer type is reported only after its DecodeFromBytes returned nil", "a layer type is reported as decoded although its DecodeFromBytes failed (or is never reported)")
		v, _ := errFlow(af, call)
		r.Check(v == efOK, key+"error-returned", p.InstrPos(dfb), "DecodeFromBytes' error is returned", "the error of DecodeFromBytes is dropped by the parser loop")
		r.Check(nlt != nil && lp != nil, key+"follows-layer", p.InstrPos(dfb), "follows NextLayerType() and LayerPayload()", "the loop does not follow NextLayerType()/LayerPayload() of the decoded layer")
		// next iteration decodes the payload: the data operand of DecodeFromBytes is a phi of (param, LayerPayload())
		okData := false
		if ph, ok := call.Call.Args[0].(*ssa.Phi); ok {
			for _, e := range ph.Edges {
				if e == ssa.Value(lp.(*ssa.Call)) {
					okData = true
				}
			}
		}
		r.Check(okData, key+"decodes-payload", p.InstrPos(dfb), "each iteration decodes the previous layer's payload", "the next layer is not decoded from the previous layer's LayerPayload()")
		// empty payload stops
		okStop := false
		if lp != nil {
			for _, ref := range *lp.(*ssa.Call).Referrers() {
				if l, ok := ref.(*ssa.Call); ok {
					if nm, _ := core.BuiltinCall(l); nm == "len" {
						okStop = true
					}
				}
			}
		}
		r.Check(okStop, key+"empty-payload-stops", p.InstrPos(dfb), "len(payload) is tested", "the loop does not stop on an empty payload (NewPacket does)")
	}
}

// signedIndexRule: s[i] where i is (a conversion of) a signed integer
// parameter (a lookup key chosen by the caller) needs a dominating lower-bound
// guard (i >= 0) as well as the upper one.  Constructors that index by the
// elements of a parameter slice are not covered (their domain is their
// documented precondition).
func signedIndexRule(c *core.Ctx, r *core.Rule, want func(*ssa.Function) bool) {
	p := c.P
	for _, fn := range core.SortedFns(p.AllFns) {
		if !want(fn) || len(fn.Blocks) == 0 || fn.Synthetic != "" {
			continue
		}
		core.Instrs(fn, func(ins ssa.Instruction) {
			ia, ok := ins.(*ssa.IndexAddr)
			if !ok {
				return
			}
			if _, isSlice := ia.X.Type().Underlying().(*types.Slice); !isSlice {
				return
			}
			idx := core.StripConv(ia.Index)
			src := ""
			switch x := idx.(type) {
			case *ssa.Parameter:
				src = "parameter " + x.Name()
			}
			if src == "" {
				return
			}
			b, ok := idx.Type().Underlying().(*types.Basic)
			if !ok || b.Info()&types.IsInteger == 0 || b.Info()&types.IsUnsigned != 0 {
				return
			}
			// exported entry point or method of an exported type
			lower := false
			upperStrict, upperWeak := false, false
			isLenOfS := func(v ssa.Value) bool {
				if a, ok := core.IsLen(v); ok {
					return a == ia.X || core.StripConv(a) == core.StripConv(ia.X)
				}
				return false
			}
			for _, dc := range core.DomConds(ins.Block()) {
				bo, ok := dc.V.(*ssa.BinOp)
				if !ok {
					continue
				}
				x, y := core.StripConv(bo.X), core.StripConv(bo.Y)
				op := bo.Op
				if !dc.Truth {
					switch op {
					case token.LSS:
						op = token.GEQ
					case token.LEQ:
						op = token.GTR
					case token.GTR:
						op = token.LEQ
					case token.GEQ:
						op = token.LSS
					default:
						continue
					}
				}
				if x == idx {
					if k, ok := core.ConstInt(y); ok && ((op == token.GEQ && k >= 0) || (op == token.GTR && k >= -1)) {
						lower = true
					}
				}
				// upper side against len of the indexed slice
				if x == idx && isLenOfS(bo.Y) {
					switch op {
					case token.LSS:
						upperStrict = true
					case token.LEQ:
						upperWeak = true
					}
				}
				if y == idx && isLenOfS(bo.X) {
					switch op {
					case token.GTR:
						upperStrict = true
					case token.GEQ:
						upperWeak = true
					}
				}
				if y == idx {
					if k, ok := core.ConstInt(x); ok && ((op == token.LEQ && k >= 0) || (op == token.LSS && k >= -1)) {
						lower = true
					}
				}
				// unsigned comparison idiom: uint(i) < uint(len)
				if cv, ok := bo.X.(*ssa.Convert); ok && core.StripConv(cv) == idx {
					if bb, ok := cv.Type().Underlying().(*types.Basic); ok && bb.Info()&types.IsUnsigned != 0 && (op == token.LSS || op == token.LEQ) {
						lower = true
					}
				}
			}
			key := core.FnKey(fn) + "/index-by:" + strings.ReplaceAll(src, " ", "-")
			if lower && upperWeak && !upperStrict {
				r.Violate(key+"/upper", p.InstrPos(ins), "the index is compared with the length of the slice non-strictly (index <= len): the value len(slice) itself passes the test and panics with index out of range (a layer type one past the largest registered one)", nil)
			} else if lower {
				r.OK(key, p.InstrPos(ins), "lower bound checked")
			} else {
				r.Violate(key, p.InstrPos(ins), "slice indexed by "+src+" of a signed type with no dominating lower-bound check: a negative (legal, user-defined) layer type panics with index out of range", nil)
			}
		})
	}
}

// enumRowLayerType: "<Table>[k]" -> name of the LayerType global of that row (filled by R5.4's scan)
var enumRowLayerType = map[string]string{}

// regDecName: LayerType global name -> name of its registered decoder function
var regDecName = map[string]string{}

func keys(m map[string]bool) []string {
	var out []string
	for k := range m {
		out = append(out, k)
	}
	sort.Strings(out)
	return out
}

func methodOf(p *core.Prog, t types.Type, name string) *ssa.Function {
	ms := p.SSA.MethodSets.MethodSet(t)
	for i := 0; i < ms.Len(); i++ {
		if ms.At(i).Obj().Name() == name {
			if fo, ok := ms.At(i).Obj().(*types.Func); ok {
				return p.SSA.FuncValue(fo)
			}
		}
	}
	return nil
}

// chainTerm describes a decoder / layer-type value relative to the layer object `self`.
func chainTerm(v ssa.Value, self ssa.Value) string {
	for depth := 0; depth < 10; depth++ {
		switch x := v.(type) {
		case *ssa.MakeInterface:
			v = x.X
			continue
		case *ssa.ChangeType:
			v = x.X
			continue
		case *ssa.Convert:
			v = x.X
			continue
		case *ssa.Const:
			if n, ok := x.Type().(*types.Named); ok && x.Value != nil {
				if g, ok := enumRowLayerType[n.Obj().Name()+"Metadata["+x.Value.String()+"]"]; ok {
					return g
				}
			}
			return "const:" + x.Value.String()
		case *ssa.Function:
			return "func:" + x.Name()
		case *ssa.Phi:
			var parts []string
			for _, e := range x.Edges {
				parts = append(parts, chainTerm(e, self))
			}
			sort.Strings(parts)
			return "phi(" + strings.Join(parts, "|") + ")"
		case *ssa.UnOp:
			if g, ok := x.X.(*ssa.Global); ok {
				if d, ok := regDecName[g.Name()]; ok {
					return "dec:" + d
				}
				return "global:" + g.Name()
			}
			if path, base := core.FieldPath(x.X); path != "" && base == self {
				return "self." + path
			}
			return "?"
		case *ssa.Call:
			var recv ssa.Value
			name := ""
			if x.Call.IsInvoke() {
				recv, name = x.Call.Value, x.Call.Method.Name()
			} else if f := x.Call.StaticCallee(); f != nil && len(x.Call.Args) == 1 {
				recv, name = x.Call.Args[0], f.Name()
			}
			if name == "LayerType" && recv != nil {
				return chainTerm(recv, self) // enum value ~ its layer type (R5.4)
			}
			if name == "NextLayerType" && recv != nil {
				if recv == self {
					return "self.NextLayerType()"
				}
				if a, ok := core.IsLoad(recv); ok && a == self {
					return "self.NextLayerType()"
				}
			}
			return "call:" + name
		}
		break
	}
	return "?"
}

// staleFieldReads (R5.9): DecodeFromBytes does not read an integer or bool
// field of its receiver (or of a struct embedded in it by value) before it
// has stored that field in the same call — the value would be the previous
// packet's.  Forward must-assigned dataflow over field paths; loads of paths
// not yet assigned on every path are reported.
func staleFieldReads(c *core.Ctx, r *core.Rule) {
	p := c.P
	roots := p.Roots()
	nLoads := 0
	for _, d := range roots.Dec {
		fn := d.Fn
		if d.Kind != "DecodeFromBytes" || fn.Signature.Recv() == nil || len(fn.Blocks) == 0 {
			continue
		}
		// must-assigned sets per block (intersection over predecessors)
		in := map[*ssa.BasicBlock]map[string]bool{}
		out := map[*ssa.BasicBlock]map[string]bool{}
		all := map[string]bool{}
		pathOf := func(addr ssa.Value) string {
			pth, ok := core.RecvFieldAddrPath(fn, addr)
			if !ok {
				return ""
			}
			return pth
		}
		core.Instrs(fn, func(ins ssa.Instruction) {
			if st, ok := ins.(*ssa.Store); ok {
				if pth := pathOf(st.Addr); pth != "" {
					all[pth] = true
				}
			}
			if cl, ok := ins.(*ssa.Call); ok && cl.Call.StaticCallee() != nil && cl.Call.StaticCallee().Signature.Recv() != nil && len(cl.Call.Args) > 0 {
				if pth := pathOf(cl.Call.Args[0]); pth != "" {
					all[pth] = true
				}
			}
		})
		covered := func(set map[string]bool, pth string) bool {
			if set[pth] {
				return true
			}
			for i := len(pth) - 1; i > 0; i-- {
				if pth[i] == '.' && set[pth[:i]] {
					return true
				}
			}
			return false
		}
		transfer := func(b *ssa.BasicBlock, s map[string]bool, visit func(ld *ssa.UnOp, pth string, assigned bool)) map[string]bool {
			cur := map[string]bool{}
			for k := range s {
				cur[k] = true
			}
			for _, ins := range b.Instrs {
				switch x := ins.(type) {
				case *ssa.UnOp:
					if x.Op == token.MUL && visit != nil {
						if pth := pathOf(x.X); pth != "" {
							visit(x, pth, covered(cur, pth))
						}
					}
				case *ssa.Store:
					if pth := pathOf(x.Addr); pth != "" {
						cur[pth] = true
					}
				case *ssa.Call:
					// a method of the receiver may assign anything: treat every stored path as assigned afterwards
					if f := x.Call.StaticCallee(); f != nil && len(x.Call.Args) > 0 {
						if x.Call.Args[0] == ssa.Value(fn.Params[0]) {
							for k := range all {
								cur[k] = true
							}
						} else if pth := pathOf(x.Call.Args[0]); pth != "" && f.Signature.Recv() != nil {
							// a method of a struct embedded by value (ipv6.hbh.DecodeFromBytes): it decodes that sub-object
							cur[pth] = true
						}
					}
				}
			}
			return cur
		}
		for changed, iter := true, 0; changed && iter < 30; iter++ {
			changed = false
			for _, b := range fn.Blocks {
				var s map[string]bool
				if b == fn.Blocks[0] {
					s = map[string]bool{}
				} else {
					first := true
					for _, pr := range b.Preds {
						o, ok := out[pr]
						if !ok {
							continue
						}
						if first {
							s = map[string]bool{}
							for k := range o {
								s[k] = true
							}
							first = false
						} else {
							for k := range s {
								if !o[k] {
									delete(s, k)
								}
							}
						}
					}
					if s == nil {
						continue
					}
				}
				in[b] = s
				o := transfer(b, s, nil)
				if prev, ok := out[b]; !ok || len(prev) != len(o) {
					out[b] = o
					changed = true
				}
			}
		}
		k := 0
		for _, b := range fn.Blocks {
			s, ok := in[b]
			if !ok {
				continue
			}
			transfer(b, s, func(ld *ssa.UnOp, pth string, assigned bool) {
				bt, ok := ld.Type().Underlying().(*types.Basic)
				if !ok || (bt.Info()&types.IsInteger == 0 && bt.Kind() != types.Bool) {
					return
				}
				if !covered(all, pth) {
					return // never stored by this decoder: configuration, not decoded state
				}
				nLoads++
				if assigned {
					return
				}
				if flagImpliesAssigned(fn, ld, pth, pathOf) {
					return
				}
				k++
				r.Violate(fmt.Sprintf("%s/stale-read:%s#%d", core.FnKey(fn), pth, k), p.InstrPos(ld), "field "+pth+" is read here although on some path this call has not stored it yet (it is only assigned under a condition): the value is the one an earlier packet left in the layer object, so decoding a sequence of packets into the same object differs from decoding into fresh ones (and can push a slice bound out of range)", nil)
			})
		}
	}
	c.Counts["decoder_int_field_loads"] = nLoads
	if nLoads >= 100 {
		r.OK("decode/field-loads-after-store", "", fmt.Sprintf("%d loads of decoded integer/bool receiver fields all follow a store in the same call (or are implied by a flag stored with it)", nLoads))
	}
	if nLoads < 100 {
		r.Missing("decode/field loads", fmt.Sprintf("only %d loads of decoded integer fields found", nLoads))
	}
}

// flagImpliesAssigned recognises the decoder idiom "if l.Flag { … l.F = … }
// … if l.Flag && l.F …": the load of F is dominated by the v-edge of a test
// of a bool field G of the receiver, every store to G in the function stores
// a constant, and from every store G=v the load can only be reached through a
// store to F.
func flagImpliesAssigned(fn *ssa.Function, ld *ssa.UnOp, fpath string, pathOf func(ssa.Value) string) bool {
	lb := ld.Block()
	for d := lb.Idom(); d != nil; d = d.Idom() {
		iff, ok := d.Instrs[len(d.Instrs)-1].(*ssa.If)
		if !ok {
			continue
		}
		cond := iff.Cond
		pol := true
		for {
			if u, ok := cond.(*ssa.UnOp); ok && u.Op == token.NOT {
				cond = u.X
				pol = !pol
				continue
			}
			break
		}
		gl, ok := cond.(*ssa.UnOp)
		if !ok || gl.Op != token.MUL {
			continue
		}
		g := pathOf(gl.X)
		if g == "" || g == fpath {
			continue
		}
		var v bool
		switch {
		case len(d.Succs[0].Preds) == 1 && d.Succs[0].Dominates(lb) || d.Succs[0] == lb && len(lb.Preds) == 1:
			v = pol
		case len(d.Succs[1].Preds) == 1 && d.Succs[1].Dominates(lb) || d.Succs[1] == lb && len(lb.Preds) == 1:
			v = !pol
		default:
			continue
		}
		// no store to G between its load and the branch is assumed (the load feeds the branch directly)
		okAll, seen := true, false
		core.Instrs(fn, func(ins ssa.Instruction) {
			st, ok := ins.(*ssa.Store)
			if !ok || pathOf(st.Addr) != g {
				return
			}
			k, isK := st.Val.(*ssa.Const)
			if !isK || k.Value == nil || k.Value.Kind() != constant.Bool {
				okAll = false
				return
			}
			if constant.BoolVal(k.Value) != v {
				return
			}
			seen = true
			if reachesWithoutStore(st, ld, fpath, pathOf) {
				okAll = false
			}
		})
		if okAll && seen {
			return true
		}
	}
	return false
}

// reachesWithoutStore reports whether the load can be reached from the
// instruction after `from` along a path that stores nothing to fpath.
func reachesWithoutStore(from ssa.Instruction, ld *ssa.UnOp, fpath string, pathOf func(ssa.Value) string) bool {
	storesF := func(ins ssa.Instruction) bool {
		st, ok := ins.(*ssa.Store)
		if !ok {
			return false
		}
		p := pathOf(st.Addr)
		return p == fpath || (p != "" && strings.HasPrefix(fpath, p+"."))
	}
	scan := func(b *ssa.BasicBlock, start int) (hit, blocked bool) {
		for i := start; i < len(b.Instrs); i++ {
			if b.Instrs[i] == ssa.Instruction(ld) {
				return true, false
			}
			if storesF(b.Instrs[i]) {
				return false, true
			}
		}
		return false, false
	}
	b0 := from.Block()
	idx := 0
	for i, ins := range b0.Instrs {
		if ins == from {
			idx = i + 1
		}
	}
	if hit, blocked := scan(b0, idx); hit {
		return true
	} else if blocked {
		return false
	}
	seen := map[*ssa.BasicBlock]bool{}
	work := append([]*ssa.BasicBlock{}, b0.Succs...)
	for len(work) > 0 {
		b := work[len(work)-1]
		work = work[:len(work)-1]
		if seen[b] {
			continue
		}
		seen[b] = true
		hit, blocked := scan(b, 0)
		if hit {
			return true
		}
		if blocked {
			continue
		}
		work = append(work, b.Succs...)
	}
	return false
}

// crossFieldReset (R5.11): DecodeFromBytes never sets a slice field of its
// receiver to a re-slice of a *different* field of the receiver while it also
// appends to the first field: the two lists then share one backing array and
// the appended elements overwrite the other list (x.B = x.A[:0] instead of
// x.B = x.B[:0]).  Nothing happens on a fresh layer (both nil), only on reuse.
func crossFieldReset(c *core.Ctx, r *core.Rule) {
	p := c.P
	n := 0
	for _, d := range p.Roots().Dec {
		fn := d.Fn
		if d.Kind != "DecodeFromBytes" || fn.Signature.Recv() == nil || len(fn.Blocks) == 0 {
			continue
		}
		appended := map[string]bool{}
		core.Instrs(fn, func(ins ssa.Instruction) {
			call, ok := ins.(*ssa.Call)
			if !ok {
				return
			}
			if bi, ok := call.Call.Value.(*ssa.Builtin); !ok || bi.Name() != "append" {
				return
			}
			if ld, ok := call.Call.Args[0].(*ssa.UnOp); ok && ld.Op == token.MUL {
				if pth, ok := core.RecvFieldAddrPath(fn, ld.X); ok {
					appended[pth] = true
				}
			}
		})
		k := 0
		core.Instrs(fn, func(ins ssa.Instruction) {
			st, ok := ins.(*ssa.Store)
			if !ok {
				return
			}
			dst, ok := core.RecvFieldAddrPath(fn, st.Addr)
			if !ok {
				return
			}
			sl, ok := st.Val.(*ssa.Slice)
			if !ok || sl.Max != nil {
				return
			}
			ld, ok := sl.X.(*ssa.UnOp)
			if !ok || ld.Op != token.MUL {
				return
			}
			src, ok := core.RecvFieldAddrPath(fn, ld.X)
			if !ok {
				return
			}
			if _, isSl := ld.Type().Underlying().(*types.Slice); !isSl {
				return
			}
			n++
			if src != dst && appended[dst] {
				k++
				r.Violate(fmt.Sprintf("%s/cross-field-reset:%s<-%s#%d", core.FnKey(fn), dst, src, k), p.InstrPos(st), "field "+dst+" is set to a re-slice of field "+src+" and later appended to: on a reused layer object both lists then live in one backing array and the elements appended to "+dst+" overwrite those of "+src+", so decoding into a preallocated layer differs from decoding into a fresh one", nil)
			}
		})
	}
	c.Counts["receiver_slice_resets"] = n
	if n < 10 {
		r.Missing("decode/receiver slice resets", fmt.Sprintf("only %d found", n))
	} else {
		r.OK("decode/resets-stay-in-their-field", "", fmt.Sprintf("%d re-slices of receiver slice fields stored back into receiver fields; none into a different field that is appended to", n))
	}
}

// putRegistersEveryType (R5.12): each DecodingLayerContainer.Put has a loop
// over d.CanDecode().LayerTypes() in which every iteration, on every path,
// stores d into the container (element store, map update, or an element
// literal that is appended).  A flag carried across iterations that lets an
// iteration skip the registration loses the later types of a class decoder.
func putRegistersEveryType(c *core.Ctx, r *core.Rule) {
	p := c.P
	iface := p.Iface("", "DecodingLayerContainer")
	if iface == nil {
		r.Missing("gopacket.DecodingLayerContainer", "interface not found")
		return
	}
	puts := p.Implementations(iface, "Put", "")
	n := 0
	for _, fn := range puts {
		if len(fn.Blocks) == 0 || len(fn.Params) < 2 || strings.HasSuffix(p.Pos(fn.Pos()), "_test.go") {
			continue
		}
		n++
		d := fn.Params[1]
		registers := func(b *ssa.BasicBlock) bool {
			for _, ins := range b.Instrs {
				switch x := ins.(type) {
				case *ssa.Store:
					if x.Val == ssa.Value(d) {
						return true
					}
				case *ssa.MapUpdate:
					if x.Value == ssa.Value(d) {
						return true
					}
				}
			}
			return false
		}
		// the slice of types
		var typesVals []ssa.Value
		core.Instrs(fn, func(ins ssa.Instruction) {
			if cl, ok := ins.(*ssa.Call); ok && cl.Call.IsInvoke() && cl.Call.Method.Name() == "LayerTypes" {
				typesVals = append(typesVals, cl)
			}
		})
		good, ranging := false, 0
		for _, h := range fn.Blocks {
			// natural loop of h
			inLoop := map[*ssa.BasicBlock]bool{}
			var work []*ssa.BasicBlock
			for _, pr := range h.Preds {
				if h.Dominates(pr) {
					work = append(work, pr)
				}
			}
			if len(work) == 0 {
				continue
			}
			inLoop[h] = true
			for len(work) > 0 {
				x := work[len(work)-1]
				work = work[:len(work)-1]
				if inLoop[x] {
					continue
				}
				inLoop[x] = true
				work = append(work, x.Preds...)
			}
			// does the loop index the types slice?
			isRange := false
			for b := range inLoop {
				for _, ins := range b.Instrs {
					if ia, ok := ins.(*ssa.IndexAddr); ok {
						for _, tv := range typesVals {
							if ia.X == tv {
								isRange = true
							}
						}
					}
				}
			}
			if !isRange {
				continue
			}
			ranging++
			// every path body-entry -> h registers
			escapes := false
			seen := map[*ssa.BasicBlock]bool{}
			var dfs func(b *ssa.BasicBlock)
			dfs = func(b *ssa.BasicBlock) {
				if escapes || seen[b] || !inLoop[b] {
					return
				}
				if b == h {
					escapes = true
					return
				}
				seen[b] = true
				if registers(b) {
					return
				}
				for _, s := range b.Succs {
					dfs(s)
				}
			}
			for _, s := range h.Succs {
				if inLoop[s] && s != h {
					dfs(s)
				}
			}
			if !escapes {
				good = true
			}
		}
		key := core.FnKey(fn) + "/registers-every-type"
		switch {
		case ranging == 0:
			r.Undecided(key, p.Pos(fn.Pos()), "no loop over CanDecode().LayerTypes() recognised")
		case good:
			r.OK(key, p.Pos(fn.Pos()), "a loop over the decoder's layer types stores the decoder on every path of every iteration")
		default:
			r.Violate(key, p.Pos(fn.Pos()), "no loop over d.CanDecode().LayerTypes() stores d on every path of every iteration: some iteration can finish without registering the decoder for its type (a condition carried over from an earlier iteration skips it), so a decoder of a multi-type class is missing for some of its types in this container while the other containers and NewPacket have it", nil)
		}
	}
	if n < 3 {
		r.Missing("gopacket/DecodingLayerContainer.Put", fmt.Sprintf("only %d implementations found", n))
	}
}

// terminalLayersLeaveNoPayload (R5.13): when the decoder registered for a
// layer type never chains to a next decoder (NewPacket ends the packet with
// that layer), the layer's DecodeFromBytes must not publish a payload: the
// DecodingLayerParser loop goes on whenever LayerPayload() is non-empty (to
// NextLayerType(), or to an "unsupported layer type" error), and then reports
// a layer sequence NewPacket does not report.
func terminalLayersLeaveNoPayload(c *core.Ctx, r *core.Rule) {
	p := c.P
	g := getDecGraph(p)
	dld := p.Func("layers", "decodingLayerDecoder")
	seen := map[*ssa.Function]bool{}
	n := 0
	var gls []*ssa.Global
	for gl := range g.regDec {
		gls = append(gls, gl)
	}
	sort.Slice(gls, func(i, j int) bool { return gls[i].Name() < gls[j].Name() })
	for _, gl := range gls {
		f := g.regDec[gl]
		if f == nil || seen[f] || len(f.Blocks) == 0 {
			continue
		}
		seen[f] = true
		chains := false
		var dfb *ssa.Function
		core.Instrs(f, func(ins ssa.Instruction) {
			cc := core.CallCommonOf(ins)
			if cc == nil {
				return
			}
			if isBuilderCall(ins, "NextDecoder") {
				chains = true
			}
			callee := cc.StaticCallee()
			if callee == nil {
				if cc.IsInvoke() && cc.Method.Name() != "AddLayer" && cc.Method.Name() != "SetApplicationLayer" && cc.Method.Name() != "SetTruncated" && cc.Method.Name() != "SetTransportLayer" && cc.Method.Name() != "SetNetworkLayer" && cc.Method.Name() != "SetLinkLayer" && cc.Method.Name() != "SetErrorLayer" && cc.Method.Name() != "DecodeOptions" {
					chains = true // unknown dynamic call: may chain
				}
				return
			}
			if callee == dld {
				chains = true
			}
			if callee.Name() == "DecodeFromBytes" && callee.Signature.Recv() != nil {
				dfb = callee
			} else if builderParam(callee) != nil {
				chains = true // another decoder-shaped function: may chain
			}
		})
		if chains || dfb == nil || len(dfb.Blocks) == 0 {
			continue
		}
		n++
		// stores of a possibly non-empty payload in DecodeFromBytes
		var bad ssa.Instruction
		core.Instrs(dfb, func(ins ssa.Instruction) {
			st, ok := ins.(*ssa.Store)
			if !ok {
				return
			}
			fa, ok := st.Addr.(*ssa.FieldAddr)
			if !ok || core.FieldOfAddr(fa).Name() != "Payload" {
				return
			}
			if core.IsNilConst(st.Val) {
				return
			}
			// stored into the receiver's BaseLayer (directly or through a literal that is then stored into the receiver)
			bad = ins
		})
		key := core.FnKey(dfb) + "/terminal-no-payload"
		if bad == nil {
			r.OK(key, p.Pos(dfb.Pos()), "the registered decoder does not chain and DecodeFromBytes publishes no payload")
		} else {
			r.Violate(key, p.InstrPos(bad), "the decoder registered for this layer ("+f.Name()+") never chains to a next decoder, but DecodeFromBytes publishes a payload here: a DecodingLayerParser goes on decoding that payload (or stops with an unsupported-layer error) where NewPacket ends the packet with this layer, so the two report different layer sequences", nil)
		}
	}
	c.Counts["terminal_layers"] = n
	if n < 3 {
		r.Missing("layers/terminal layers", fmt.Sprintf("only %d found", n))
	}
}
