package props

import (
	"go/types"

	"golang.org/x/tools/go/ssa"

	"gpv/internal/core"
)

var errorType = types.Universe.Lookup("error").Type()

func returnsError(sig *types.Signature) bool {
	n := sig.Results().Len()
	return n > 0 && types.Identical(sig.Results().At(n-1).Type(), errorType)
}

// errValueOfCall returns the SSA value carrying the error result of call, or
// nil if it is discarded.
func errValueOfCall(call *ssa.Call) ssa.Value {
	sig := call.Call.Signature()
	n := sig.Results().Len()
	if n == 1 {
		if len(*call.Referrers()) == 0 {
			return nil
		}
		return call
	}
	for _, ref := range *call.Referrers() {
		if e, ok := ref.(*ssa.Extract); ok && e.Index == n-1 {
			if len(*e.Referrers()) == 0 {
				return nil
			}
			return e
		}
	}
	return nil
}

// derivedFrom: v is errV, a phi containing it, or a wrap of it.
func derivedFrom(v, errV ssa.Value, depth int) bool {
	if v == errV {
		return true
	}
	if depth > 4 {
		return false
	}
	switch x := v.(type) {
	case *ssa.Phi:
		for _, e := range x.Edges {
			if derivedFrom(e, errV, depth+1) {
				return true
			}
		}
	case *ssa.Call:
		for _, a := range x.Call.Args {
			if derivedFrom(a, errV, depth+1) {
				return true
			}
			// varargs slice holding the error
			if sl, ok := a.(*ssa.Slice); ok {
				if al, ok := sl.X.(*ssa.Alloc); ok {
					for _, ref := range *al.Referrers() {
						if ia, ok := ref.(*ssa.IndexAddr); ok {
							for _, r2 := range *ia.Referrers() {
								if st, ok := r2.(*ssa.Store); ok {
									if mi, ok := st.Val.(*ssa.MakeInterface); ok && derivedFrom(mi.X, errV, depth+1) {
										return true
									}
									if derivedFrom(st.Val, errV, depth+1) {
										return true
									}
								}
							}
						}
					}
				}
			}
		}
	case *ssa.MakeInterface:
		return derivedFrom(x.X, errV, depth+1)
	case *ssa.ChangeInterface:
		return derivedFrom(x.X, errV, depth+1)
	}
	return false
}

type errFlowVerdict int

const (
	efOK errFlowVerdict = iota
	efDropped
	efSwallowed
	efUnknown
)

// errFlow classifies what happens to the error result of call inside fn.
//   - dropped: result discarded (never read)
//   - swallowed: tested, but a path from the non-nil edge reaches a return
//     that neither returns it (or a wrap) nor any provably non-nil error, and
//     the value is not handed to anything else on that path
func errFlow(fn *ssa.Function, call *ssa.Call) (errFlowVerdict, ssa.Instruction) {
	errV := errValueOfCall(call)
	if errV == nil {
		return efDropped, call
	}
	// direct uses
	tested := false
	var nonNilBlocks []*ssa.BasicBlock
	escapes := false
	var walkRefs func(v ssa.Value, depth int)
	walkRefs = func(v ssa.Value, depth int) {
		if depth > 3 {
			return
		}
		for _, ref := range *v.Referrers() {
			switch x := ref.(type) {
			case *ssa.BinOp:
				if core.IsNilConst(x.X) || core.IsNilConst(x.Y) {
					for _, r2 := range *x.Referrers() {
						if iff, ok := r2.(*ssa.If); ok {
							tested = true
							b := iff.Block()
							// successor entered when errV != nil
							idx := 0
							if x.Op.String() == "==" {
								idx = 1
							}
							nonNilBlocks = append(nonNilBlocks, b.Succs[idx])
						} else {
							escapes = true
						}
					}
				} else {
					escapes = true // compared with a sentinel: handled by the code
				}
			case *ssa.Return:
				escapes = true
			case *ssa.Phi:
				// flows on (named results, loop variables)
				for _, r2 := range *x.Referrers() {
					switch r2.(type) {
					case *ssa.Return, *ssa.Store, *ssa.Call:
						escapes = true
					}
				}
				walkRefs(x, depth+1)
			case *ssa.Store, *ssa.Call, *ssa.MakeInterface, *ssa.ChangeInterface, *ssa.TypeAssert, *ssa.Defer, *ssa.Go, *ssa.MakeClosure, *ssa.Send, *ssa.MapUpdate:
				escapes = true
			case *ssa.DebugRef:
			default:
				escapes = true
			}
		}
	}
	walkRefs(errV, 0)
	if !tested && !escapes {
		return efDropped, call
	}
	if !tested {
		return efOK, nil
	}
	// swallowed? from each non-nil block search a return not reporting an error,
	// stopping at instructions that consume errV (calls/stores taking it).
	for _, nb := range nonNilBlocks {
		if len(nb.Instrs) == 0 {
			continue
		}
		consumed := func(ins ssa.Instruction) bool {
			switch x := ins.(type) {
			case *ssa.Call:
				for _, a := range x.Call.Args {
					if derivedFrom(a, errV, 0) {
						return true
					}
				}
				if x.Call.IsInvoke() && x.Call.Value == errV {
					return true
				}
			case *ssa.Store:
				return derivedFrom(x.Val, errV, 0)
			case *ssa.MakeInterface:
				return x.X == errV
			case *ssa.Panic:
				return true
			}
			return false
		}
		badRet := func(ins ssa.Instruction) bool {
			ret, ok := ins.(*ssa.Return)
			if !ok {
				return false
			}
			if len(ret.Results) == 0 {
				return false // function has no error result: cannot report; not a swallow in this sense
			}
			last := core.RetOperand(ret, len(ret.Results)-1)
			if !types.Identical(last.Type(), errorType) {
				return false
			}
			if derivedFrom(last, errV, 0) {
				return false
			}
			if provablyNonNilErr(last, ret.Block()) {
				return false
			}
			return true
		}
		// search starts at the beginning of nb
		first := nb.Instrs[0]
		if badRet(first) {
			return efSwallowed, first
		}
		if consumed(first) {
			continue
		}
		if hit := core.ForwardSearch(fn, first, badRet, consumed); hit != nil {
			return efSwallowed, hit
		}
	}
	return efOK, nil
}
