package props

import (
	"fmt"
	"sort"

	"gpv/internal/core"
	"gpv/internal/guard"
)

// CandScan prints the classification of sites in non-root decode-reachable functions (debug aid).
func CandScan(p *core.Prog) {
	roots := p.Roots()
	cnt := map[string]int{}
	perFn := map[string]int{}
	for _, fn := range core.SortedFns(roots.DecReach) {
		if roots.DecByFn[fn] != nil {
			continue
		}
		for _, s := range guard.Analyze(fn, nil) {
			cnt[s.Class]++
			if s.Class == "CAND-param" {
				perFn[core.FnKey(fn)]++
			}
		}
	}
	fmt.Println(cnt)
	var ks []string
	for k := range perFn {
		ks = append(ks, k)
	}
	sort.Slice(ks, func(i, j int) bool { return perFn[ks[i]] > perFn[ks[j]] })
	for _, k := range ks {
		fmt.Println(perFn[k], k)
	}
}
