package props

import (
	"go/token"
	"go/types"
	"sort"
	"strings"

	"golang.org/x/tools/go/ssa"

	"gpv/internal/core"
)

func init() { register("C03", checkC03) }

// fieldReaders returns, per module function, the loads of field `name` of the
// module struct type `typ`.
func fieldReaders(p *core.Prog, typ, name string) map[*ssa.Function][]ssa.Instruction {
	out := map[*ssa.Function][]ssa.Instruction{}
	for fn := range p.AllFns {
		if !p.InModule(fn) {
			continue
		}
		core.Instrs(fn, func(ins ssa.Instruction) {
			switch x := ins.(type) {
			case *ssa.UnOp:
				if x.Op != token.MUL {
					return
				}
				if fa, ok := x.X.(*ssa.FieldAddr); ok && core.FieldOfAddr(fa).Name() == name && core.NamedIs(fa.X.Type(), typ) {
					out[fn] = append(out[fn], ins)
				}
			case *ssa.Field:
				if core.FieldOfVal(x).Name() == name && core.NamedIs(x.X.Type(), typ) {
					out[fn] = append(out[fn], ins)
				}
			}
		})
	}
	return out
}

// retField: if every return of fn returns (a conversion/interface change of) a
// load of one and the same field, return the field path.
func retFieldPath(fn *ssa.Function) (string, bool) {
	path := ""
	for _, r := range core.Returns(fn) {
		if len(r.Results) != 1 {
			return "", false
		}
		v := r.Results[0]
		a, ok := core.IsLoad(core.StripConv(v))
		if !ok {
			return "", false
		}
		pth, base := core.FieldPath(a)
		if pth == "" || !core.IsRecvParam(fn, base) {
			return "", false
		}
		if path != "" && path != pth {
			return "", false
		}
		path = pth
	}
	return path, path != ""
}

// nilTest: cond is `load(field path P of receiver) OP nil`; returns path, op.
func nilTestOnRecvField(fn *ssa.Function, cond ssa.Value) (string, token.Token, bool) {
	b, ok := cond.(*ssa.BinOp)
	if !ok || (b.Op != token.EQL && b.Op != token.NEQ) {
		return "", 0, false
	}
	x, y := b.X, b.Y
	if core.IsNilConst(x) {
		x, y = y, x
	}
	if !core.IsNilConst(y) {
		return "", 0, false
	}
	pth, ok := core.RecvFieldLoad(fn, x)
	if !ok {
		return "", 0, false
	}
	return pth, b.Op, true
}

func lastComp(path string) string {
	if i := strings.LastIndex(path, "."); i >= 0 {
		return path[i+1:]
	}
	return path
}

func checkC03(c *core.Ctx) {
	p := c.P
	c.Explain = "Structural clauses of lazy ≡ eager, decided on packet.go and on every decoder: (R3.1) for each accessor implemented by both packet types the lazy sibling returns the same field, decodes only while that field is nil and a continuation exists, loops (not once), and concludes 'absent' only when the continuation is nil; Layer/LayerClass scan with the same match predicate and resume scanning exactly at the old length; String/Dump force Layers() first and share the renderer; (R3.2) decodeNextLayer clears the continuation before decoding, decodes with the continuation it loaded, on last.LayerPayload() (packet data when no layer), and returns on empty payload — and the eager NextDecoder agrees on payload source and emptiness test; lazy NextDecoder only stores; (R3.3) NextDecoder is the last builder effect in every decoder; (R3.5) Lazy is read only by NewPacket, SkipDecodeRecovery only by the recovering function, DecodeStreamsAsDatagrams only by the TCP decoder; (R3.6) decoders do not downcast or retain the PacketBuilder. Not decided: equality of layer contents between the modes for all inputs; accessor sequences as values."
	r31 := c.Rule("R3.1", "T", "lazy/eager accessor sibling agreement")
	r32 := c.Rule("R3.2", "T", "resume protocol of decodeNextLayer and agreement with eager NextDecoder")
	r33 := c.Rule("R3.3", "T", "NextDecoder is the last PacketBuilder effect in every decoder")
	addLayerBeforeChaining(c, c.Rule("R3.4", "T", "every decoder adds a layer before chaining (= R1.4): eager NextDecoder refuses to chain from a decoder that added nothing, lazy NextDecoder does not"))
	truncatedOnlyRaised(c, c.Rule("R3.7", "T", "PacketSource.NextPacket only raises the Truncated flag, never overwrites it"))
	chainErrorUnchanged(c, c.Rule("R3.8", "T", "the error returned by NextDecoder is returned unchanged (never wrapped)"))
	r35 := c.Rule("R3.5", "T", "who may read Lazy / SkipDecodeRecovery / DecodeStreamsAsDatagrams")
	r36 := c.Rule("R3.6", "T", "decoders neither downcast nor retain the PacketBuilder")

	dnl := p.Func("", "lazyPacket.decodeNextLayer")
	if dnl == nil {
		r32.Missing("lazyPacket.decodeNextLayer", "function not found")
		return
	}
	isDNLCall := func(ins ssa.Instruction) bool {
		cc := core.CallCommonOf(ins)
		return cc != nil && cc.StaticCallee() == dnl
	}

	// ---- R3.1 simple accessors
	for _, m := range []string{"LinkLayer", "NetworkLayer", "TransportLayer", "ApplicationLayer", "ErrorLayer", "Layers"} {
		ef, lf := p.Func("", "eagerPacket."+m), p.Func("", "lazyPacket."+m)
		key := "gopacket.lazyPacket." + m
		if ef == nil || lf == nil {
			r31.Missing(key, "accessor pair not found")
			continue
		}
		epath, ok1 := retFieldPath(ef)
		lpath, ok2 := retFieldPath(lf)
		if !ok1 || !ok2 {
			r31.Violate(key+"/returns-field", p.Pos(lf.Pos()), "accessor does not return a single packet field in both implementations", nil)
			continue
		}
		if lastComp(epath) != lastComp(lpath) {
			r31.Violate(key+"/same-field", p.Pos(lf.Pos()), "lazy accessor returns field "+lpath+" but eager returns "+epath, nil)
			continue
		}
		field := lpath
		// the decode call
		var call ssa.Instruction
		core.Instrs(lf, func(ins ssa.Instruction) {
			if isDNLCall(ins) {
				call = ins
			}
		})
		if call == nil {
			r31.Violate(key+"/decodes", p.Pos(lf.Pos()), "lazy accessor never decodes further", nil)
			continue
		}
		// loop: call reaches itself
		loop := core.ForwardSearch(lf, call, func(i ssa.Instruction) bool { return i == call }, nil) != nil
		// guards on the call
		wantField := m != "Layers"
		gotField, gotNext := false, false
		for _, dc := range core.DomConds(call.Block()) {
			pth, op, ok := nilTestOnRecvField(lf, dc.V)
			if !ok {
				continue
			}
			isNil := (op == token.EQL) == dc.Truth
			if pth == field && isNil {
				gotField = true
			}
			if lastComp(pth) == "next" && !isNil {
				gotNext = true
			}
		}
		// return reachable only via field != nil or next == nil
		esc := core.ForwardSearchE(lf, nil, func(i ssa.Instruction) bool { _, ok := i.(*ssa.Return); return ok }, nil, func(b *ssa.BasicBlock, i int) bool {
			iff := blockIf(b)
			if iff == nil {
				return true
			}
			pth, op, ok := nilTestOnRecvField(lf, iff.Cond)
			if !ok {
				return true
			}
			// edge i==0 is cond true
			isNilEdge := (op == token.EQL) == (i == 0)
			if wantField && pth == field && !isNilEdge {
				return false // found
			}
			if lastComp(pth) == "next" && isNilEdge {
				return false // finished
			}
			return true
		})
		switch {
		case !loop:
			r31.Violate(key+"/loops", p.InstrPos(call), "lazy accessor decodes at most one more layer instead of looping until found or finished", nil)
		case wantField && !gotField:
			r31.Violate(key+"/guard-field", p.InstrPos(call), "decoding continues although "+field+" is already set (or the guard tests another field)", nil)
		case !gotNext:
			r31.Violate(key+"/guard-next", p.InstrPos(call), "decode step not guarded by next != nil", nil)
		case esc != nil:
			r31.Violate(key+"/exit", p.InstrPos(esc), "accessor can return while "+field+" is nil and a continuation is pending", nil)
		default:
			r31.OK(key, p.Pos(lf.Pos()), "returns "+field+"; decodes while it is nil and next != nil")
		}
	}
	// Layer / LayerClass
	for _, m := range []string{"Layer", "LayerClass"} {
		ef, lf := p.Func("", "eagerPacket."+m), p.Func("", "lazyPacket."+m)
		key := "gopacket.lazyPacket." + m
		if ef == nil || lf == nil {
			r31.Missing(key, "accessor pair not found")
			continue
		}
		for _, fn := range []*ssa.Function{ef, lf} {
			k := "gopacket." + strings.Trim(strings.Split(core.FnKey(fn), ")")[0], "(*") + "." + m
			k = strings.ReplaceAll(k, "gopacket.gopacket.", "gopacket.")
			good := true
			nNonNil := 0
			for _, r := range core.Returns(fn) {
				if len(r.Results) != 1 {
					good = false
					continue
				}
				v := r.Results[0]
				if core.IsNilConst(v) {
					if fn == lf {
						// "absent" only when next == nil
						okNil := false
						for _, dc := range core.DomConds(r.Block()) {
							if pth, op, ok := nilTestOnRecvField(fn, dc.V); ok && lastComp(pth) == "next" && (op == token.EQL) == dc.Truth {
								okNil = true
							}
						}
						if !okNil {
							good = false
							r31.Violate(k+"/absent-only-when-finished", p.InstrPos(r), "lazy accessor returns nil while a continuation may be pending", nil)
						}
					}
					continue
				}
				nNonNil++
				// returned value must be an element of the layers slice, under the match predicate
				if !isLayersElem(fn, v) {
					good = false
					r31.Violate(k+"/returns-element", p.InstrPos(r), "returned layer is not an element of the packet's layer list", nil)
					continue
				}
				if !underMatch(fn, r.Block(), v, m) {
					good = false
					r31.Violate(k+"/match-predicate", p.InstrPos(r), "returned layer is not guarded by the type/class match on that same layer", nil)
				}
			}
			if nNonNil == 0 {
				good = false
				r31.Violate(k+"/returns-element", p.Pos(fn.Pos()), "accessor never returns a layer", nil)
			}
			if fn == lf {
				// resumes scanning at the old length: Slice low bound is len(layers) (phi of such)
				var call ssa.Instruction
				core.Instrs(fn, func(ins ssa.Instruction) {
					if isDNLCall(ins) {
						call = ins
					}
				})
				if call == nil {
					good = false
					r31.Violate(k+"/decodes", p.Pos(fn.Pos()), "lazy accessor never decodes further", nil)
				} else {
					if core.ForwardSearch(fn, call, func(i ssa.Instruction) bool { return i == call }, nil) == nil {
						good = false
						r31.Violate(k+"/loops", p.InstrPos(call), "decodes at most one more layer", nil)
					}
					okLow := false
					core.Instrs(fn, func(ins ssa.Instruction) {
						sl, ok := ins.(*ssa.Slice)
						if !ok || sl.Low == nil {
							return
						}
						if pth, ok := core.RecvFieldLoad(fn, sl.X); !ok || lastComp(pth) != "layers" {
							return
						}
						okLow = lenOfLayers(fn, sl.Low, 0)
						if !okLow {
							good = false
							r31.Violate(k+"/resume-index", p.InstrPos(ins), "new layers are scanned from an index that is not the previous len(layers)", nil)
						}
					})
				}
			}
			if good {
				r31.OK(k, p.Pos(fn.Pos()), "scans the layer list with the match predicate; absent only when finished")
			}
		}
	}
	// String / Dump
	for _, m := range []string{"String", "Dump"} {
		ef, lf := p.Func("", "eagerPacket."+m), p.Func("", "lazyPacket."+m)
		key := "gopacket.lazyPacket." + m
		if ef == nil || lf == nil {
			r31.Missing(key, "pair not found")
			continue
		}
		callees := func(fn *ssa.Function) []*ssa.Function {
			var out []*ssa.Function
			core.Instrs(fn, func(ins ssa.Instruction) {
				if cc := core.CallCommonOf(ins); cc != nil && cc.StaticCallee() != nil {
					out = append(out, cc.StaticCallee())
				}
			})
			return out
		}
		ec, lc := callees(ef), callees(lf)
		layersFn := p.Func("", "lazyPacket.Layers")
		ok := len(ec) == 1 && len(lc) == 2 && lc[0] == layersFn && lc[1] == ec[0]
		r31.Check(ok, key, p.Pos(lf.Pos()), "forces Layers() then shares the eager renderer", "lazy "+m+" does not force full decoding before rendering with the eager renderer")
	}

	// ---- R3.2
	{
		key := "gopacket.(*lazyPacket).decodeNextLayer/"
		var dec *ssa.Call
		core.Instrs(dnl, func(ins ssa.Instruction) {
			if isDecodeInvoke(ins) {
				dec, _ = ins.(*ssa.Call)
			}
		})
		if dec == nil {
			r32.Missing(key+"decode", "Decode invoke not found")
		} else {
			// clear before decode
			isClear := func(ins ssa.Instruction) bool {
				st, ok := ins.(*ssa.Store)
				if !ok {
					return false
				}
				fa, ok := st.Addr.(*ssa.FieldAddr)
				return ok && core.FieldOfAddr(fa).Name() == "next" && core.IsNilConst(st.Val)
			}
			esc := core.ForwardSearch(dnl, nil, func(i ssa.Instruction) bool { return i == ssa.Instruction(dec) }, isClear)
			r32.Check(esc == nil, key+"clear-before-decode", p.InstrPos(dec), "next = nil precedes the decode call on every path", "the continuation is not cleared before decoding: a decoder that does not chain leaves the packet re-decoding the same layer forever")
			// decoder is a load of next taken before clearing
			okDec := false
			if a, ok := core.IsLoad(dec.Call.Value); ok {
				if fa, ok := a.(*ssa.FieldAddr); ok && core.FieldOfAddr(fa).Name() == "next" {
					ld := dec.Call.Value.(*ssa.UnOp)
					// no clearing store between entry and the load
					e2 := core.ForwardSearch(dnl, nil, func(i ssa.Instruction) bool { return i == ssa.Instruction(ld) }, isClear)
					okDec = e2 != nil
				}
			}
			r32.Check(okDec, key+"decoder-is-continuation", p.InstrPos(dec), "decodes with the continuation loaded before it was cleared", "the decoder invoked is not the stored continuation")
			// bytes: phi[data, last.LayerPayload()]
			okBytes := false
			if len(dec.Call.Args) >= 1 {
				okBytes = isResumeBytes(dnl, dec.Call.Args[0])
			}
			r32.Check(okBytes, key+"resume-bytes", p.InstrPos(dec), "bytes are last.LayerPayload(), or the packet data when no layer exists", "decode resumes on bytes other than the last layer's payload")
			// builder passed is the packet itself
			okB := false
			if len(dec.Call.Args) >= 2 {
				if mi, ok := dec.Call.Args[1].(*ssa.MakeInterface); ok && core.IsRecvParam(dnl, mi.X) {
					okB = true
				}
			}
			r32.Check(okB, key+"builder-is-self", p.InstrPos(dec), "passes itself as PacketBuilder", "a different PacketBuilder is passed to the decoder")
			// empty payload => no decode
			okEmpty := false
			for _, dc := range core.DomConds(dec.Block()) {
				if bo, ok := dc.V.(*ssa.BinOp); ok {
					if s, ok := core.IsLen(bo.X); ok && s == dec.Call.Args[0] {
						if k, ok := core.ConstInt(bo.Y); ok && k == 0 && ((bo.Op == token.EQL && !dc.Truth) || (bo.Op == token.NEQ && dc.Truth) || (bo.Op == token.GTR && dc.Truth)) {
							okEmpty = true
						}
					}
				}
			}
			r32.Check(okEmpty, key+"empty-payload-stops", p.InstrPos(dec), "no decode on an empty payload", "lazy decoding calls the next decoder with an empty payload while eager does not (or the emptiness test is missing)")
		}
		// eager NextDecoder
		end := p.Func("", "eagerPacket.NextDecoder")
		lnd := p.Func("", "lazyPacket.NextDecoder")
		if end == nil || lnd == nil {
			r32.Missing("NextDecoder", "eager/lazy NextDecoder not found")
		} else {
			var edec *ssa.Call
			core.Instrs(end, func(ins ssa.Instruction) {
				if isDecodeInvoke(ins) {
					edec, _ = ins.(*ssa.Call)
				}
			})
			k := "gopacket.(*eagerPacket).NextDecoder/"
			if edec == nil {
				r32.Violate(k+"decodes", p.Pos(end.Pos()), "eager NextDecoder does not decode immediately", nil)
			} else {
				okBytes := false
				if c0, ok := edec.Call.Args[0].(*ssa.Call); ok && c0.Call.IsInvoke() && c0.Call.Method.Name() == "LayerPayload" {
					if pth, ok := core.RecvFieldLoad(end, c0.Call.Value); ok && lastComp(pth) == "last" {
						okBytes = true
					}
				}
				r32.Check(okBytes, k+"resume-bytes", p.InstrPos(edec), "decodes last.LayerPayload()", "eager chaining decodes bytes other than the last layer's payload")
				okEmpty := false
				for _, dc := range core.DomConds(edec.Block()) {
					if bo, ok := dc.V.(*ssa.BinOp); ok {
						if s, ok := core.IsLen(bo.X); ok && s == edec.Call.Args[0] {
							if kk, ok := core.ConstInt(bo.Y); ok && kk == 0 && ((bo.Op == token.EQL && !dc.Truth) || (bo.Op == token.NEQ && dc.Truth) || (bo.Op == token.GTR && dc.Truth)) {
								okEmpty = true
							}
						}
					}
				}
				r32.Check(okEmpty, k+"empty-payload-stops", p.InstrPos(edec), "no decode on an empty payload", "eager and lazy disagree on decoding an empty payload")
				okDec := len(end.Params) == 2 && edec.Call.Value == ssa.Value(end.Params[1])
				r32.Check(okDec, k+"decoder-is-argument", p.InstrPos(edec), "decodes with the decoder passed in", "eager NextDecoder decodes with something other than its argument")
			}
			// eager NextDecoder declines to decode only for reasons lazy decoding shares: the
			// decoder argument, the last layer, the payload bytes.  A condition on anything else
			// (number of layers, options, globals) stops eager decoding where lazy decoding goes on.
			{
				subject := func(v ssa.Value) string {
					v = core.StripConv(v)
					if _, isK := v.(*ssa.Const); isK {
						return "const"
					}
					if len(end.Params) == 2 && v == ssa.Value(end.Params[1]) {
						return "decoder"
					}
					if pth, ok := core.RecvFieldLoad(end, v); ok && lastComp(pth) == "last" {
						return "last"
					}
					if sl, ok := core.IsLen(v); ok {
						if cl, ok := sl.(*ssa.Call); ok && cl.Call.IsInvoke() && cl.Call.Method.Name() == "LayerPayload" {
							return "payload"
						}
						if pth, ok := core.RecvFieldLoad(end, sl); ok && lastComp(pth) == "data" {
							return "payload"
						}
					}
					return "other"
				}
				bad := ""
				var badAt ssa.Instruction
				for _, ret := range core.Returns(end) {
					if edec != nil && len(ret.Results) == 1 && core.RetOperand(ret, 0) == ssa.Value(edec) {
						continue
					}
					for _, dc := range core.DomConds(ret.Block()) {
						bo, ok := dc.V.(*ssa.BinOp)
						if !ok {
							bad, badAt = "a condition that is not a comparison", ret
							continue
						}
						for _, side := range []ssa.Value{bo.X, bo.Y} {
							if subject(side) == "other" {
								bad, badAt = "a comparison of something other than the decoder argument, the last layer or the payload length", ret
							}
						}
					}
				}
				if edec != nil {
					for _, dc := range core.DomConds(edec.Block()) {
						if bo, ok := dc.V.(*ssa.BinOp); ok {
							for _, side := range []ssa.Value{bo.X, bo.Y} {
								if subject(side) == "other" {
									bad, badAt = "a comparison of something other than the decoder argument, the last layer or the payload length", edec
								}
							}
						} else {
							bad, badAt = "a condition that is not a comparison", edec
						}
					}
				}
				if bad == "" {
					r32.OK(k+"declines-only-like-lazy", p.Pos(end.Pos()), "every condition under which eager NextDecoder does not decode concerns the decoder argument, the last layer or the payload length")
				} else {
					r32.Violate(k+"declines-only-like-lazy", p.InstrPos(badAt), "eager NextDecoder decides whether to decode by "+bad+": lazy decoding, which only stores the continuation and decodes later, has no such condition, so beyond it the two modes report different layers", nil)
				}
			}
			// both reject nil decoders with an error
			for _, fn := range []*ssa.Function{end, lnd} {
				okNil := false
				for _, r := range core.Returns(fn) {
					if len(r.Results) == 1 && provablyNonNilErr(r.Results[0], r.Block()) {
						for _, dc := range core.DomConds(r.Block()) {
							if bo, ok := dc.V.(*ssa.BinOp); ok && dc.Truth && bo.Op == token.EQL && len(fn.Params) == 2 && bo.X == ssa.Value(fn.Params[1]) && core.IsNilConst(bo.Y) {
								okNil = true
							}
						}
					}
				}
				r32.Check(okNil, core.FnKey(fn)+"/nil-decoder-is-error", p.Pos(fn.Pos()), "nil decoder returns an error", "a nil next decoder is not reported as an error in this mode")
			}
			// lazy only stores
			k = "gopacket.(*lazyPacket).NextDecoder/"
			stores := storesToField(lnd, "lazyPacket", "next")
			okStore := len(stores) == 1 && len(lnd.Params) == 2 && stores[0].Val == ssa.Value(lnd.Params[1])
			hasCall := false
			core.Instrs(lnd, func(ins ssa.Instruction) {
				if isDecodeInvoke(ins) {
					hasCall = true
				}
			})
			r32.Check(okStore && !hasCall, k+"stores-continuation", p.Pos(lnd.Pos()), "stores its argument as the continuation and does not decode", "lazy NextDecoder does not simply store its argument as the continuation")
		}
	}

	// ---- R3.2 (error edge): lazy and eager report a decoder's error through the same function
	{
		errCallees := func(fn *ssa.Function) map[string]bool {
			out := map[string]bool{}
			if fn == nil {
				return out
			}
			core.Instrs(fn, func(ins ssa.Instruction) {
				call, ok := ins.(*ssa.Call)
				if !ok {
					return
				}
				f := call.Call.StaticCallee()
				if f == nil || !p.InModule(f) {
					return
				}
				// on an edge where a decoder's error is known non-nil
				for _, dc := range core.DomConds(ins.Block()) {
					bo, ok := dc.V.(*ssa.BinOp)
					if !ok || !(core.IsNilConst(bo.X) || core.IsNilConst(bo.Y)) {
						continue
					}
					if (bo.Op == token.NEQ && dc.Truth) || (bo.Op == token.EQL && !dc.Truth) {
						out[f.Name()] = true
					}
				}
			})
			return out
		}
		eg := errCallees(p.Func("", "eagerPacket.initialDecode"))
		lz := errCallees(p.Func("", "lazyPacket.decodeNextLayer"))
		var missing []string
		for name := range eg {
			if !lz[name] {
				missing = append(missing, name)
			}
		}
		sort.Strings(missing)
		if len(eg) == 0 {
			r32.Missing("gopacket/error edge", "eager initialDecode calls nothing on its err != nil edge")
		} else {
			r32.Check(len(missing) == 0, "gopacket.(*lazyPacket).decodeNextLayer/error-edge-same-as-eager", p.Pos(p.Func("", "lazyPacket.decodeNextLayer").Pos()), "a decoder's error is reported through the function eager decoding uses", "on a decoder's error eager decoding calls "+strings.Join(missing, ", ")+" but lazy decoding does not: the failure layer (its bytes, its place in Layers(), Dump()) differs between Lazy and non-Lazy")
		}
	}

	// ---- R3.3 over every function having a PacketBuilder param
	roots := p.Roots()
	n33 := 0
	// helpers that chain on behalf of their caller (decodingLayerDecoder): calling one is chaining
	chains := map[*ssa.Function]bool{}
	for changed := true; changed; {
		changed = false
		for _, fn := range core.SortedFns(roots.DecReach) {
			if chains[fn] || builderParam(fn) == nil {
				continue
			}
			core.Instrs(fn, func(ins ssa.Instruction) {
				if isBuilderCall(ins, "NextDecoder") {
					chains[fn] = true
				}
				if cc := core.CallCommonOf(ins); cc != nil && cc.StaticCallee() != nil && chains[cc.StaticCallee()] {
					for _, a := range cc.Args {
						if a == ssa.Value(builderParam(fn)) {
							chains[fn] = true
						}
					}
				}
			})
			if chains[fn] {
				changed = true
			}
		}
	}
	for _, fn := range core.SortedFns(roots.DecReach) {
		if builderParam(fn) == nil {
			continue
		}
		core.Instrs(fn, func(ins ssa.Instruction) {
			viaHelper := false
			if cc := core.CallCommonOf(ins); cc != nil && cc.StaticCallee() != nil && chains[cc.StaticCallee()] && cc.StaticCallee() != fn {
				for _, a := range cc.Args {
					if a == ssa.Value(builderParam(fn)) {
						viaHelper = true
					}
				}
			}
			if !isBuilderCall(ins, "NextDecoder") && !viaHelper {
				return
			}
			n33++
			isEffect := func(cc *ssa.CallCommon) bool {
				if cc == nil || !cc.IsInvoke() || !core.NamedIs(cc.Value.Type(), "PacketBuilder") {
					return false
				}
				switch cc.Method.Name() {
				case "AddLayer", "SetLinkLayer", "SetNetworkLayer", "SetTransportLayer", "SetApplicationLayer", "SetErrorLayer", "NextDecoder":
					return true
				}
				return false
			}
			// a deferred builder effect runs at the function's exit, i.e. after the chaining call
			deferred := false
			core.Instrs(fn, func(i ssa.Instruction) {
				if d, ok := i.(*ssa.Defer); ok {
					if isEffect(&d.Call) {
						deferred = true
					}
					if cl, ok := d.Call.Value.(*ssa.MakeClosure); ok {
						if f, ok := cl.Fn.(*ssa.Function); ok {
							core.Instrs(f, func(j ssa.Instruction) {
								if isEffect(core.CallCommonOf(j)) {
									deferred = true
								}
							})
						}
					}
				}
			})
			after := core.ForwardSearch(fn, ins, func(i ssa.Instruction) bool {
				if _, ok := i.(*ssa.RunDefers); ok && deferred {
					return true
				}
				if _, ok := i.(*ssa.Defer); ok {
					return false
				}
				return isEffect(core.CallCommonOf(i))
			}, nil)
			r33.Check(after == nil, core.FnKey(fn)+"/after-NextDecoder", p.InstrPos(ins), "no builder effect after chaining", "a PacketBuilder effect follows NextDecoder: layer order differs between eager (already recursed) and lazy (only stored)")
		})
	}
	c.Counts["NextDecoder_sites"] = n33

	// ---- R3.5
	allow := map[string]func(fn *ssa.Function) bool{
		"Lazy":               func(fn *ssa.Function) bool { return fn == p.Func("", "NewPacket") },
		"SkipDecodeRecovery": func(fn *ssa.Function) bool { return findRecover(fn) != nil },
		"DecodeStreamsAsDatagrams": func(fn *ssa.Function) bool {
			// only a function registered as the decoder of the TCP layer type
			return fn == p.Func("layers", "decodeTCP")
		},
	}
	var names []string
	for n := range allow {
		names = append(names, n)
	}
	sort.Strings(names)
	for _, name := range names {
		rd := fieldReaders(p, "DecodeOptions", name)
		cnt := 0
		for _, fn := range core.SortedFns(fnSet(rd)) {
			if strings.HasPrefix(core.FnKey(fn), "examples/") || strings.HasPrefix(core.FnKey(fn), "layers.FuzzLayer") {
				continue
			}
			cnt++
			r35.Check(allow[name](fn), core.FnKey(fn)+"/reads:"+name, p.InstrPos(rd[fn][0]), "designated reader", "DecodeOptions."+name+" is consulted outside its designated reader: decoding can differ by mode")
		}
		if cnt == 0 {
			r35.Missing("DecodeOptions."+name, "no reader found")
		}
	}

	// ---- R3.6
	n36 := 0
	for _, fn := range core.SortedFns(roots.DecReach) {
		bp := builderParam(fn)
		if bp == nil {
			continue
		}
		n36++
		bad := ""
		var at ssa.Instruction
		for _, ref := range *bp.Referrers() {
			switch x := ref.(type) {
			case *ssa.TypeAssert:
				bad, at = "type-asserts its PacketBuilder", x
			case *ssa.ChangeInterface:
				if !core.NamedIs(x.Type(), "DecodeFeedback") && !core.NamedIs(x.Type(), "PacketBuilder") {
					bad, at = "converts its PacketBuilder to another interface", x
				}
			case *ssa.Store:
				if _, isAlloc := x.Addr.(*ssa.Alloc); !isAlloc && x.Val == ssa.Value(bp) {
					bad, at = "stores its PacketBuilder", x
				}
			case *ssa.Go:
				bad, at = "hands its PacketBuilder to a goroutine", x
			}
		}
		if bad != "" {
			r36.Violate(core.FnKey(fn)+"/builder-use", p.InstrPos(at), "decoder "+bad+": a suspended lazy decode may then keep state other than the continuation", nil)
		} else {
			r36.OK(core.FnKey(fn)+"/builder-use", p.Pos(fn.Pos()), "builder only called")
		}
	}
	c.Counts["decoders_with_builder"] = n36
}

func fnSet(m map[*ssa.Function][]ssa.Instruction) map[*ssa.Function]bool {
	out := map[*ssa.Function]bool{}
	for f := range m {
		out[f] = true
	}
	return out
}

// isLayersElem: v is an element of the receiver's layers slice (range or index).
func isLayersElem(fn *ssa.Function, v ssa.Value) bool {
	v = core.StripConv(v)
	a, ok := core.IsLoad(v)
	if !ok {
		return false
	}
	ia, ok := a.(*ssa.IndexAddr)
	if !ok {
		return false
	}
	x := ia.X
	if sl, ok := x.(*ssa.Slice); ok {
		x = sl.X
	}
	pth, ok := core.RecvFieldLoad(fn, x)
	return ok && lastComp(pth) == "layers"
}

// underMatch: block b is entered only when the match predicate on v holds:
// Layer:      v.LayerType() == t (parameter)
// LayerClass: lc.Contains(v.LayerType())
func underMatch(fn *ssa.Function, b *ssa.BasicBlock, v ssa.Value, m string) bool {
	isLT := func(x ssa.Value) bool {
		call, ok := x.(*ssa.Call)
		return ok && call.Call.IsInvoke() && call.Call.Method.Name() == "LayerType" && call.Call.Value == v
	}
	for _, dc := range core.DomConds(b) {
		if !dc.Truth {
			// allow `!= ` false
			if bo, ok := dc.V.(*ssa.BinOp); ok && m == "Layer" && bo.Op == token.NEQ {
				if (isLT(bo.X) && isParam(fn, bo.Y)) || (isLT(bo.Y) && isParam(fn, bo.X)) {
					return true
				}
			}
			continue
		}
		switch m {
		case "Layer":
			if bo, ok := dc.V.(*ssa.BinOp); ok && bo.Op == token.EQL {
				if (isLT(bo.X) && isParam(fn, bo.Y)) || (isLT(bo.Y) && isParam(fn, bo.X)) {
					return true
				}
			}
		case "LayerClass":
			if call, ok := dc.V.(*ssa.Call); ok && call.Call.IsInvoke() && call.Call.Method.Name() == "Contains" && isParam(fn, call.Call.Value) && len(call.Call.Args) == 1 && isLT(call.Call.Args[0]) {
				return true
			}
		}
	}
	return false
}

func isParam(fn *ssa.Function, v ssa.Value) bool {
	for _, pa := range fn.Params {
		if ssa.Value(pa) == v {
			return true
		}
	}
	return false
}

// lenOfLayers: v is len(receiver.layers) or a phi of such values.
func lenOfLayers(fn *ssa.Function, v ssa.Value, depth int) bool {
	if depth > 3 {
		return false
	}
	if s, ok := core.IsLen(v); ok {
		pth, ok := core.RecvFieldLoad(fn, s)
		return ok && lastComp(pth) == "layers"
	}
	if ph, ok := v.(*ssa.Phi); ok {
		for _, e := range ph.Edges {
			if !lenOfLayers(fn, e, depth+1) {
				return false
			}
		}
		return len(ph.Edges) > 0
	}
	return false
}

// isResumeBytes: v = phi[ load recv.data , invoke (load recv.last).LayerPayload() ]
// where the payload edge comes from last != nil.
func isResumeBytes(fn *ssa.Function, v ssa.Value) bool {
	ph, ok := v.(*ssa.Phi)
	if !ok || len(ph.Edges) != 2 {
		return false
	}
	gotData, gotPayload := false, false
	for i, e := range ph.Edges {
		pred := ph.Block().Preds[i]
		if pth, ok := core.RecvFieldLoad(fn, e); ok && lastComp(pth) == "data" {
			gotData = true
			continue
		}
		if call, ok := e.(*ssa.Call); ok && call.Call.IsInvoke() && call.Call.Method.Name() == "LayerPayload" {
			if pth, ok := core.RecvFieldLoad(fn, call.Call.Value); ok && lastComp(pth) == "last" {
				// pred entered under last != nil
				for _, dc := range core.DomConds(pred) {
					if pp, op, ok := nilTestOnRecvField(fn, dc.V); ok && lastComp(pp) == "last" && (op == token.NEQ) == dc.Truth {
						gotPayload = true
					}
				}
			}
		}
	}
	return gotData && gotPayload
}

var _ = types.Typ
