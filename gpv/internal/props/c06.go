package props

import (
	"fmt"
	"go/token"
	"go/types"
	"sort"
	"strings"

	"golang.org/x/tools/go/ssa"

	"gpv/internal/core"
)

func init() { register("C06", checkC06) }

type enc struct {
	off, width int64
	order      string // "be", "le", "byte", "bytes"
}

func (e enc) String() string { return fmt.Sprintf("[%d:%d]/%s", e.off, e.off+e.width, e.order) }

// baseOffset: v is the byte slice `root` re-sliced with constant low bounds; returns the accumulated offset.
func baseOffset(v ssa.Value, root ssa.Value, depth int) (int64, bool) {
	if depth > 8 {
		return 0, false
	}
	if v == root {
		return 0, true
	}
	switch x := v.(type) {
	case *ssa.Slice:
		lo := int64(0)
		if x.Low != nil {
			k, ok := core.ConstFold(x.Low)
			if !ok {
				return 0, false
			}
			lo = k
		}
		b, ok := baseOffset(x.X, root, depth+1)
		return b + lo, ok
	case *ssa.Phi:
		var res int64
		first := true
		for _, e := range x.Edges {
			if e == ssa.Value(x) {
				continue
			}
			b, ok := baseOffset(e, root, depth+1)
			if !ok {
				return 0, false
			}
			if first {
				res, first = b, false
			} else if b != res {
				return 0, false
			}
		}
		return res, !first
	case *ssa.ChangeType:
		return baseOffset(x.X, root, depth+1)
	}
	return 0, false
}

func binaryOrder(call *ssa.Call) (string, int64, bool, bool) {
	f := call.Call.StaticCallee()
	if f == nil || f.Pkg == nil || f.Pkg.Pkg.Path() != "encoding/binary" {
		return "", 0, false, false
	}
	order := ""
	rs := f.String()
	switch {
	case strings.Contains(rs, "bigEndian"):
		order = "be"
	case strings.Contains(rs, "littleEndian"):
		order = "le"
	default:
		return "", 0, false, false
	}
	put := strings.HasPrefix(f.Name(), "Put")
	n := strings.TrimPrefix(f.Name(), "Put")
	switch n {
	case "Uint16":
		return order, 2, put, true
	case "Uint32":
		return order, 4, put, true
	case "Uint64":
		return order, 8, put, true
	}
	return "", 0, false, false
}

// plainConv: v is x through integer conversions / type changes only; returns x.
func plainConv(v ssa.Value) ssa.Value { return core.StripConv(v) }

func decodeEncodings(fn *ssa.Function, data ssa.Value) map[string][]enc {
	out := map[string][]enc{}
	core.Instrs(fn, func(ins ssa.Instruction) {
		st, ok := ins.(*ssa.Store)
		if !ok {
			return
		}
		pth, base := core.FieldPath(st.Addr)
		if pth == "" || !core.IsRecvParam(fn, base) {
			return
		}
		v := plainConv(st.Val)
		switch x := v.(type) {
		case *ssa.Call:
			if order, w, put, ok := binaryOrder(x); ok && !put && len(x.Call.Args) == 2 {
				if sl, ok := x.Call.Args[1].(*ssa.Slice); ok {
					if off, ok := baseOffset(sl, data, 0); ok {
						out[pth] = append(out[pth], enc{off, w, order})
					}
				}
			}
		case *ssa.UnOp:
			if x.Op == token.MUL {
				if ia, ok := x.X.(*ssa.IndexAddr); ok {
					if k, ok := core.ConstFold(ia.Index); ok {
						if b, ok := baseOffset(ia.X, data, 0); ok {
							out[pth] = append(out[pth], enc{b + k, 1, "byte"})
						}
					}
				}
			}
		case *ssa.Slice:
			if x.High != nil {
				hi, okH := core.ConstFold(x.High)
				lo := int64(0)
				okL := true
				if x.Low != nil {
					lo, okL = core.ConstFold(x.Low)
				}
				if b, ok := baseOffset(x.X, data, 0); ok && okH && okL {
					out[pth] = append(out[pth], enc{b + lo, hi - lo, "bytes"})
				}
			}
		}
	})
	return out
}

// recvFieldOf: v is (a conversion of) a load of a receiver field path.
func recvFieldOf(fn *ssa.Function, v ssa.Value) (string, bool) {
	v = plainConv(v)
	if a, ok := core.IsLoad(v); ok {
		pth, base := core.FieldPath(a)
		if pth != "" && core.IsRecvParam(fn, base) {
			return pth, true
		}
	}
	return "", false
}

func serializeEncodings(fn *ssa.Function) (map[string][]enc, int) {
	out := map[string][]enc{}
	// the first buffer obtained from PrependBytes/AppendBytes
	var buf ssa.Value
	nBuf := 0
	core.Instrs(fn, func(ins ssa.Instruction) {
		call, ok := ins.(*ssa.Call)
		if !ok || !call.Call.IsInvoke() || (call.Call.Method.Name() != "PrependBytes" && call.Call.Method.Name() != "AppendBytes") {
			return
		}
		nBuf++
		for _, ref := range *call.Referrers() {
			if e, ok := ref.(*ssa.Extract); ok && e.Index == 0 && buf == nil {
				buf = e
			}
		}
	})
	if buf == nil {
		return out, nBuf
	}
	core.Instrs(fn, func(ins ssa.Instruction) {
		switch x := ins.(type) {
		case *ssa.Call:
			if order, w, put, ok := binaryOrder(x); ok && put && len(x.Call.Args) == 3 {
				dst := x.Call.Args[1]
				off, okO := baseOffset(dst, buf, 0)
				if f, okF := recvFieldOf(fn, x.Call.Args[2]); okO && okF {
					out[f] = append(out[f], enc{off, w, order})
				}
			}
			if nm, cc := core.BuiltinCall(x); nm == "copy" {
				if f, okF := recvFieldOf(fn, cc.Args[1]); okF {
					if sl, ok := cc.Args[0].(*ssa.Slice); ok && sl.High != nil {
						hi, okH := core.ConstFold(sl.High)
						lo := int64(0)
						okL := true
						if sl.Low != nil {
							lo, okL = core.ConstFold(sl.Low)
						}
						if b, ok := baseOffset(sl.X, buf, 0); ok && okH && okL {
							out[f] = append(out[f], enc{b + lo, hi - lo, "bytes"})
						}
					} else if b, ok := baseOffset(cc.Args[0], buf, 0); ok {
						// copy(bytes[a:], field): the width is the field's length (wildcard)
						out[f] = append(out[f], enc{b, -1, "bytes"})
					}
				}
			}
		case *ssa.Store:
			if ia, ok := x.Addr.(*ssa.IndexAddr); ok {
				if k, ok := core.ConstFold(ia.Index); ok {
					if b, ok := baseOffset(ia.X, buf, 0); ok {
						if f, okF := recvFieldOf(fn, x.Val); okF {
							out[f] = append(out[f], enc{b + k, 1, "byte"})
						}
					}
				}
			}
		}
	})
	return out, nBuf
}

func checkC06(c *core.Ctx) {
	p := c.P
	roots := p.Roots()
	c.Explain = "CODEC (DESIGN.md 3.6): for every layer type that has both DecodeFromBytes and SerializeTo, two maps field -> {(byte offset, width, byte order)} are extracted from the SSA — from decode (field := conv(ByteOrder.UintN(data[a:b])) | data[k] | data[a:b], offsets followed through constant re-slices) and from serialize (PutUintN(bytes[a:], conv(field)) | bytes[k] = conv(field) | copy(bytes[a:b], field), relative to the first PrependBytes/AppendBytes result). (R6.1) For every field with plain encodings on both sides, every encoding of the side with fewer alternatives must appear on the other side (conditional layouts have several); bit-packed or variable-offset fields create no obligation. (R6.3) SerializeLayers' innermost-first protocol is decided under C18. Fields decoded but never serialized are reported as information only. Not decided: lengths, padding and alignment of option lists, payload preservation, re-serialization equality."
	r1 := c.Rule("R6.1", "D", "fixed-offset codec agreement (offset, width, byte order) between DecodeFromBytes and SerializeTo")
	r2 := c.Rule("R6.2", "D", "information: decoded fields that SerializeTo never reads")
	r3 := c.Rule("R6.3", "T", "16-bit limit tests agree with what is narrowed: the quantity converted to uint16 for a length field does not exceed the quantity the function tests against 65535")
	narrowGuardAgreement(c, r3)
	r4 := c.Rule("R6.4", "T", "a serializer links an extension header in front of the upper-layer protocol only under a guard that fails once it is linked")
	chainInsertGuarded(c, r4)
	r6 := c.Rule("R6.6", "D", "bit-level codec agreement: a field bit taken from bit p of byte k by DecodeFromBytes is written to bit p of byte k by SerializeTo")
	bitCodecAgreement(c, r6)
	r7 := c.Rule("R6.7", "T", "a length field derived from len(b.Bytes()) is computed before the serializer appends padding behind the payload")
	lengthBeforePadding(c, r7)
	currentFieldInConditions(c, c.Rule("R6.9", "T", "SerializeTo branches on the current value of a receiver field it also stores, not on a copy read before the store"))
	conditionalLayoutAgreement(c, c.Rule("R6.10", "T", "a field read and written at a running offset is preceded by the same guarded advances on both sides"))
	sizerMeasuresWhatWriterEmits(c, c.Rule("R6.11", "T", "the length of the slice a writer over *T returns depends only on inputs the sizer over *T depends on (= R7.10)"))
	coArgumentAgreement(c, c.Rule("R6.8", "T", "sizing and writing passes over the same object pair each field with the same metadata accessor"))
	r5 := c.Rule("R6.5", "T", "a list written element by element with PrependBytes is walked from its last element down")
	listOrderUnderPrepend(c, r5)
	sl := p.Iface("", "SerializableLayer")
	nTypes, nPaired := 0, 0
	for _, d := range roots.Dec {
		if d.Kind != "DecodeFromBytes" || d.Fn.Signature.Recv() == nil {
			continue
		}
		rt := d.Fn.Signature.Recv().Type()
		if !types.Implements(rt, sl) {
			continue
		}
		ser := methodOf(p, rt, "SerializeTo")
		if ser == nil || len(ser.Blocks) == 0 {
			continue
		}
		nTypes++
		tn := recvTypeName(d.Fn)
		dec := decodeEncodings(d.Fn, d.Data)
		enc2, _ := serializeEncodings(ser)
		// cross-field conflict: bytes decoded into field G are written from another field F
		{
			var sf []string
			for f := range enc2 {
				sf = append(sf, f)
			}
			sort.Strings(sf)
			for _, f := range sf {
				for _, se := range uniqEnc(enc2[f]) {
					if se.width <= 0 {
						continue
					}
					own := false
					for _, de := range dec[f] {
						if de.off == se.off && de.width == se.width {
							own = true
						}
					}
					if own {
						continue
					}
					for g, des := range dec {
						if g == f {
							continue
						}
						for _, de := range des {
							if de.off == se.off && de.width == se.width && de.width > 0 {
								// G must not also be written there itself
								gOwn := false
								for _, ge := range enc2[g] {
									if ge.off == se.off && (ge.width == se.width || ge.width < 0) {
										gOwn = true
									}
								}
								if !gOwn {
									r1.Violate("layers."+tn+"."+f+"/overwrites:"+g, p.Pos(ser.Pos()), fmt.Sprintf("bytes %s are decoded into %s.%s but SerializeTo writes them from %s: decoding the written bytes does not give %s back", se, tn, g, f, g), nil)
								}
							}
						}
					}
				}
			}
		}
		var fields []string
		for f := range dec {
			fields = append(fields, f)
		}
		sort.Strings(fields)
		for _, f := range fields {
			de := uniqEnc(dec[f])
			se := uniqEnc(enc2[f])
			key := "layers." + tn + "." + f
			if len(se) == 0 {
				r2.Info(key, p.Pos(ser.Pos()), fmt.Sprintf("decoded from %v, not read by SerializeTo with a plain encoding", de))
				continue
			}
			nPaired++
			small, big := de, se
			side := "decode"
			if len(se) < len(de) {
				small, big = se, de
				side = "serialize"
			}
			missing := ""
			for _, e := range small {
				found := false
				for _, b := range big {
					if e == b || (e.order == "bytes" && b.order == "bytes" && e.off == b.off && (e.width < 0 || b.width < 0)) {
						found = true
					}
				}
				if !found {
					missing = e.String()
				}
			}
			if missing == "" {
				r1.OK(key, p.Pos(d.Fn.Pos()), fmt.Sprintf("decode %v / serialize %v", de, se))
			} else {
				r1.Violate(key, p.Pos(ser.Pos()), fmt.Sprintf("field %s.%s: %s uses %s but the other side has only %v (decode %v, serialize %v): writing the layer and decoding the bytes again gives a different %s", tn, f, side, missing, big, de, se, f), nil)
			}
		}
	}
	c.Counts["codec_types"] = nTypes
	c.Counts["paired_fields"] = nPaired
	if nTypes < 40 {
		r1.Missing("layers/codec-types", fmt.Sprintf("only %d types with both methods found", nTypes))
	}
}

func uniqEnc(es []enc) []enc {
	seen := map[enc]bool{}
	var out []enc
	for _, e := range es {
		if !seen[e] {
			seen[e] = true
			out = append(out, e)
		}
	}
	sort.Slice(out, func(i, j int) bool {
		if out[i].off != out[j].off {
			return out[i].off < out[j].off
		}
		return out[i].width < out[j].width
	})
	return out
}
