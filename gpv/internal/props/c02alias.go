package props

import (
	"fmt"
	"go/token"
	"go/types"

	"golang.org/x/tools/go/ssa"

	"gpv/internal/core"
)

// appendIntoInput (R2.7): in decode-reachable code, the destination of an
// append (whose spare capacity the append writes) is never a slice that the
// same function may have taken from the packet bytes *through a field*:
// l.F = data[a:b] … append(l.F, …), also when the value travels through
// another struct's field of the same function (attr.Value = data[…];
// list = append(list, attr); for v := range list { l.Payload = v.Value };
// append(l.Payload, …)).  Flow is function-local and by field identity.  The
// direct case (append(data[a:b], …)) is R2.2's.
func appendIntoInput(c *core.Ctx, r *core.Rule) {
	p := c.P
	roots := p.Roots()
	nApp := 0
	for _, fn := range core.SortedFns(roots.DecReach) {
		if !p.InModule(fn) || len(fn.Blocks) == 0 {
			continue
		}
		// the []byte parameters are the packet bytes
		isInputParam := func(v ssa.Value) bool {
			prm, ok := v.(*ssa.Parameter)
			return ok && core.IsByteSlice(prm.Type())
		}
		// stores per field object
		stores := map[*types.Var][]ssa.Value{}
		core.Instrs(fn, func(ins ssa.Instruction) {
			if st, ok := ins.(*ssa.Store); ok {
				if fa, ok := st.Addr.(*ssa.FieldAddr); ok {
					if f := core.FieldOfAddr(fa); f != nil {
						stores[f] = append(stores[f], st.Val)
					}
				}
			}
		})
		var may func(v ssa.Value, seen map[ssa.Value]bool, viaField *bool) bool
		may = func(v ssa.Value, seen map[ssa.Value]bool, viaField *bool) bool {
			if seen[v] {
				return false
			}
			seen[v] = true
			switch x := v.(type) {
			case *ssa.Parameter:
				return isInputParam(x)
			case *ssa.Slice:
				if x.Max != nil {
					return false // capacity limited: an append cannot write behind it
				}
				return may(x.X, seen, viaField)
			case *ssa.ChangeType:
				return may(x.X, seen, viaField)
			case *ssa.Phi:
				for _, e := range x.Edges {
					if may(e, seen, viaField) {
						return true
					}
				}
			case *ssa.Call:
				if bi, ok := x.Call.Value.(*ssa.Builtin); ok && bi.Name() == "append" {
					return may(x.Call.Args[0], seen, viaField)
				}
			case *ssa.Field:
				if f := core.FieldOfVal(x); f != nil {
					for _, sv := range stores[f] {
						if may(sv, seen, viaField) {
							*viaField = true
							return true
						}
					}
				}
			case *ssa.UnOp:
				if x.Op != token.MUL {
					return false
				}
				if fa, ok := x.X.(*ssa.FieldAddr); ok {
					if f := core.FieldOfAddr(fa); f != nil {
						for _, sv := range stores[f] {
							if may(sv, seen, viaField) {
								*viaField = true
								return true
							}
						}
					}
				}
			}
			return false
		}
		k := 0
		core.Instrs(fn, func(ins ssa.Instruction) {
			call, ok := ins.(*ssa.Call)
			if !ok {
				return
			}
			bi, ok := call.Call.Value.(*ssa.Builtin)
			if !ok || bi.Name() != "append" || !core.IsByteSlice(call.Call.Args[0].Type()) {
				return
			}
			if k, isK := call.Call.Args[0].(*ssa.Const); isK && k.Value == nil {
				return
			}
			nApp++
			via := false
			if may(call.Call.Args[0], map[ssa.Value]bool{}, &via) && via {
				k++
				r.Violate(fmt.Sprintf("%s/append-into-input#%d", core.FnKey(fn), k), p.InstrPos(ins), "the destination of this append may be a slice of the packet bytes that the function stored in a field earlier: when that slice has spare capacity (it always has inside the packet buffer, and inside the caller's buffer under NoCopy) the append overwrites the bytes that follow it in the input, so Data(), later layers and a second decode of the same bytes change", nil)
			}
		})
	}
	c.Counts["byte_appends_in_decode_code"] = nApp
	if nApp < 5 {
		r.Missing("decode/byte appends", fmt.Sprintf("only %d found", nApp))
	} else {
		r.OK("decode/appends-not-into-input", "", fmt.Sprintf("%d appends onto byte slices in decode-reachable code; no destination is a field-held slice of the input", nApp))
	}
}
