package props

import (
	"fmt"
	"go/token"
	"go/types"
	"strings"

	"golang.org/x/tools/go/ssa"

	"gpv/internal/core"
	"gpv/internal/effect"
)

func init() { register("C02", checkC02) }

var effCache = map[*core.Prog]*effect.Analysis{}

func effects(p *core.Prog) *effect.Analysis {
	if a, ok := effCache[p]; ok {
		return a
	}
	a := effect.New(p.CG(false), p.InModule, p.AllFns)
	effCache[p] = a
	return a
}

func writeDesc(p *core.Prog, w *effect.Write) string {
	d := w.Direct()
	s := fmt.Sprintf("%s at %s in %s", d.Kind, p.InstrPos(d.At), core.FnKey(d.Fn))
	if w.Origin != nil {
		var chain []string
		for x := w; x != nil; x = x.Origin {
			chain = append(chain, core.FnKey(x.Fn))
		}
		s += " (call path " + strings.Join(chain, " -> ") + ")"
	}
	return s
}

func isInitLike(fn *ssa.Function) bool {
	for f := fn; f != nil; f = f.Parent() {
		if f.Name() == "init" || strings.HasPrefix(f.Name(), "init#") {
			return true
		}
	}
	return false
}

func isRegistration(fn *ssa.Function) bool {
	n := fn.Name()
	return strings.HasPrefix(n, "Register") || strings.HasPrefix(n, "Override")
}

func checkC02(c *core.Ctx) {
	p := c.P
	roots := p.Roots()
	eff := effects(p)
	c.Explain = "EFFECT (DESIGN.md 3.3): write effects with provenance roots, bottom-up over the VTA call graph (stores, map updates, append onto a base that may have spare capacity, copy destinations, stdlib writers by table; roots: fresh / parameter i / global / captured variable). Decides: (R2.1) nothing reachable from NewPacket or from the read-only API writes a package-level variable, and every global that decoding reads is written only by package initialisers and the registration API; (R2.2) no decode root writes through its data parameter; (R2.3) no read-only accessor of an eager packet or of a layer (String/GoString/Dump/LayerContents/LayerPayload/*Flow/VerifyChecksum/...) writes memory reachable from its receiver or arguments; (R2.4) no ambient nondeterminism (time, random, environment, goroutines, select) on those paths and map iteration only where order cannot matter; (R2.5) nobody stores through the pointer returned by DecodeOptions(). Not decided: equality of two decodes as values, races inside the standard library, writes through pointers obtained from calls the analysis cannot resolve (counted as undecided)."
	c.Assume = append(c.Assume, "standard-library callees write only through the argument positions listed in gpv/internal/effect (PutUintNN, copy, io.ReadFull, sort.*, Write*/Reset/... pointer-receiver methods)")
	r1 := c.Rule("R2.1", "T", "no global writes on the decode / read-only paths; globals read there are written only by init and the registration API")
	r2 := c.Rule("R2.2", "T", "the input bytes are never written by decode code")
	r3 := c.Rule("R2.3", "T", "read-only accessors write nothing reachable from their receiver or arguments")
	r4 := c.Rule("R2.4", "T", "no ambient nondeterminism on decode / read-only paths")
	appendIntoInput(c, c.Rule("R2.7", "T", "no append in decode code has as destination a slice of the packet bytes held in a field (its spare capacity is the rest of the packet)"))
	noSliceExtension(c, c.Rule("R2.8", "T", "decode code reads no byte outside its input (= R4.5): no slice it was given is extended to its capacity, whose contents depend on where the bytes happen to live"))
	r6 := c.Rule("R2.6", "T", "memory taken from a sync.Pool on the decode path is not handed back while a decoded value still refers to it")
	{
		roots := p.Roots()
		nGet := 0
		for _, fn := range core.SortedFns(roots.DecReach) {
			if fn.Pkg == nil || len(fn.Blocks) == 0 || strings.HasSuffix(p.Pos(fn.Pos()), "_test.go") {
				continue
			}
			core.Instrs(fn, func(ins ssa.Instruction) {
				call, ok := ins.(*ssa.Call)
				if !ok || core.StaticName(&call.Call) != "(*sync.Pool).Get" {
					return
				}
				nGet++
				key := fmt.Sprintf("%s/pool-get#%d", core.FnKey(fn), nGet)
				// the pooled object (through the type assertion)
				var objs []ssa.Value
				for _, r := range *call.Referrers() {
					if ta, ok := r.(*ssa.TypeAssert); ok {
						objs = append(objs, ta)
						for _, r2 := range *ta.Referrers() {
							if e, ok := r2.(*ssa.Extract); ok && e.Index == 0 {
								objs = append(objs, e)
							}
						}
					}
				}
				isObj := func(v ssa.Value) bool {
					for _, o := range objs {
						if o == v {
							return true
						}
					}
					return false
				}
				// is it put back in this function?
				var put ssa.Instruction
				core.Instrs(fn, func(i2 ssa.Instruction) {
					cc := core.CallCommonOf(i2)
					if cc == nil || core.StaticName(cc) != "(*sync.Pool).Put" || len(cc.Args) < 2 {
						return
					}
					if mi, ok := cc.Args[1].(*ssa.MakeInterface); ok && isObj(mi.X) {
						put = i2
					}
				})
				if put == nil {
					r6.OK(key, p.InstrPos(ins), "not handed back in this function")
					return
				}
				// contents of the pooled object stored into some other object
				var leak ssa.Instruction
				core.Instrs(fn, func(i2 ssa.Instruction) {
					st, ok := i2.(*ssa.Store)
					if !ok || leak != nil {
						return
					}
					v := st.Val
					for d := 0; d < 4; d++ {
						if sl, ok := v.(*ssa.Slice); ok {
							v = sl.X
							continue
						}
						break
					}
					ld, ok := v.(*ssa.UnOp)
					if !ok || ld.Op != token.MUL || !isObj(ld.X) {
						return
					}
					if fa, ok := st.Addr.(*ssa.FieldAddr); ok && !isObj(fa.X) {
						leak = i2
					}
				})
				r6.Check(leak == nil, key, p.InstrPos(ins), "the pooled object's contents do not escape into another object before it is put back", "the contents of the pooled object are stored into a decoded value at "+p.InstrPosOr(leak)+" and the object is put back into the pool at "+p.InstrPos(put)+": slices of the decoded value alias memory the next decode overwrites, so what an earlier packet reports changes after later packets are decoded")
			})
		}
		if nGet == 0 {
			r6.OK("decode/pool-gets", "", "no sync.Pool.Get on the decode path other than NewPacket's data block (R4.2)")
		}
	}
	r5 := c.Rule("R2.5", "T", "no store through the DecodeOptions() pointer")

	reach := map[*ssa.Function]bool{}
	for f := range roots.DecReach {
		reach[f] = true
	}
	for f := range roots.AccReach {
		reach[f] = true
	}
	// ---- R2.1 direct global writes in reach
	nG := 0
	for _, fn := range core.SortedFns(reach) {
		s := eff.Sum[fn]
		if s == nil {
			continue
		}
		clean := true
		for _, w := range s.Writes {
			if w.Origin == nil && w.Root.Kind == effect.Global {
				clean = false
				nG++
				r1.Violate(core.FnKey(fn)+"/writes-global:"+w.Root.Global.Name(), p.InstrPos(w.At), "package-level state "+w.Root.Global.Name()+" is written ("+w.Kind+") on the decode/read-only path: later decodes depend on earlier ones and concurrent decodes race", nil)
			}
		}
		if clean {
			r1.OK(core.FnKey(fn)+"/no-global-write", p.Pos(fn.Pos()), "")
		}
	}
	// globals read in reach
	read := map[*ssa.Global]bool{}
	for fn := range reach {
		core.Instrs(fn, func(ins ssa.Instruction) {
			for _, op := range ins.Operands(nil) {
				if g, ok := (*op).(*ssa.Global); ok && p.InModule(fn) && g.Pkg != nil && strings.HasPrefix(g.Pkg.Pkg.Path(), core.Mod) {
					if st, isStore := ins.(*ssa.Store); isStore && st.Addr == ssa.Value(g) {
						continue
					}
					read[g] = true
				}
			}
		})
	}
	c.Counts["globals_read_by_decode"] = len(read)
	for _, fn := range core.SortedFns(p.AllFns) {
		s := eff.Sum[fn]
		if s == nil || reach[fn] {
			continue
		}
		for _, w := range s.Writes {
			if w.Origin != nil || w.Root.Kind != effect.Global || !read[w.Root.Global] {
				continue
			}
			key := core.FnKey(fn) + "/writes-decode-global:" + w.Root.Global.Name()
			if isInitLike(fn) || isRegistration(fn) || initOnly(p, fn, 0) {
				r1.OK(key, p.InstrPos(w.At), "initialiser / registration API")
			} else if strings.HasSuffix(fn.Name(), "ForTesting") {
				r1.OK(key, p.InstrPos(w.At), "test hook named *ForTesting")
			} else {
				r1.Violate(key, p.InstrPos(w.At), "global "+w.Root.Global.Name()+" is read by decoding and written here, outside package initialisation and the registration API", nil)
			}
		}
	}

	// ---- R2.2 (one report per direct write site; the shortest call path is shown)
	inputNeverWritten(c, r2, eff)
	depth := func(w *effect.Write) int {
		n := 0
		for x := w; x != nil; x = x.Origin {
			n++
		}
		return n
	}

	// ---- R2.3 (one report per direct write site, shown with its shortest call path)
	nUnk := 0
	best3 := map[ssa.Instruction]*effect.Write{}
	rootOf3 := map[ssa.Instruction]*ssa.Function{}
	for _, fn := range roots.Acc {
		s := eff.Sum[fn]
		if s == nil {
			continue
		}
		bad := false
		for _, w := range s.Writes {
			switch w.Root.Kind {
			case effect.Param:
				bad = true
				at := w.Direct().At
				if o, ok := best3[at]; !ok || depth(w) < depth(o) {
					best3[at] = w
					rootOf3[at] = fn
				}
			case effect.Unknown:
				nUnk++
			}
		}
		if !bad {
			r3.OK(core.FnKey(fn)+"/pure", p.Pos(fn.Pos()), "")
		}
	}
	for at, w := range best3 {
		d := w.Direct()
		via := w.Root.ViaField
		if via == "" {
			via = "self"
		}
		r3.Violate(core.FnKey(d.Fn)+"/"+d.Kind+"/from:"+core.FnKey(rootOf3[at])+"/via:"+via, p.InstrPos(at), "read-only accessor "+core.FnKey(rootOf3[at])+" writes memory reachable from its receiver/arguments (via "+via+"): "+writeDesc(p, w)+" — concurrent readers of one eager packet race, and under NoCopy the caller's buffer is written", nil)
	}
	c.Counts["accessor_writes_through_unresolved_pointers"] = nUnk

	// ---- R2.4
	for _, fn := range core.SortedFns(reach) {
		core.Instrs(fn, func(ins ssa.Instruction) {
			key := core.FnKey(fn) + "/"
			switch x := ins.(type) {
			case *ssa.Go:
				r4.Violate(key+"go", p.InstrPos(ins), "goroutine started on the decode/read-only path", nil)
			case *ssa.Select:
				r4.Violate(key+"select", p.InstrPos(ins), "select on the decode/read-only path", nil)
			case *ssa.Range:
				if _, isMap := x.X.Type().Underlying().(*types.Map); isMap {
					if mapRangeOrderFree(x) {
						r4.OK(key+"map-range", p.InstrPos(ins), "iteration order cannot be observed (commutative accumulation / lookup)")
					} else {
						r4.Undecided(key+"map-range", p.InstrPos(ins), "map iteration whose order may be observable")
					}
				}
			case ssa.CallInstruction:
				if f := x.Common().StaticCallee(); f != nil && f.Pkg != nil {
					switch f.Pkg.Pkg.Path() {
					case "math/rand", "math/rand/v2", "crypto/rand":
						r4.Violate(key+"call:"+f.Name(), p.InstrPos(ins), "randomness on the decode/read-only path", nil)
					case "time":
						if f.Name() == "Now" || f.Name() == "Since" || f.Name() == "Until" {
							r4.Violate(key+"call:time."+f.Name(), p.InstrPos(ins), "wall-clock time on the decode/read-only path", nil)
						}
					case "os":
						if f.Name() == "Getenv" || f.Name() == "LookupEnv" || f.Name() == "Getpid" || f.Name() == "Hostname" {
							r4.Violate(key+"call:os."+f.Name(), p.InstrPos(ins), "process environment consulted on the decode/read-only path", nil)
						}
					}
				}
			}
		})
	}
	r4.OK("scan", "", fmt.Sprintf("%d functions scanned", len(reach)))

	// ---- R2.5
	n5 := 0
	for _, fn := range core.SortedFns(p.AllFns) {
		if !p.InModule(fn) {
			continue
		}
		core.Instrs(fn, func(ins ssa.Instruction) {
			call, ok := ins.(*ssa.Call)
			if !ok || !call.Call.IsInvoke() || call.Call.Method.Name() != "DecodeOptions" {
				return
			}
			n5++
			bad := false
			for _, ref := range *call.Referrers() {
				switch y := ref.(type) {
				case *ssa.Store:
					if y.Addr == ssa.Value(call) {
						bad = true
					}
				case *ssa.FieldAddr:
					for _, r2 := range *y.Referrers() {
						if st, ok := r2.(*ssa.Store); ok && st.Addr == ssa.Value(y) {
							bad = true
						}
					}
				}
			}
			r5.Check(!bad, core.FnKey(fn)+"/DecodeOptions()", p.InstrPos(ins), "read only", "decode options of the packet are modified through the DecodeOptions() pointer")
		})
	}
	if n5 == 0 {
		r5.Missing("DecodeOptions()", "no caller found")
	}
}

// mapRangeOrderFree: the loop body only tests/returns on a match or accumulates commutatively.
// Conservative: true only when the range's key/value are used solely in comparisons.
func mapRangeOrderFree(r *ssa.Range) bool {
	for _, ref := range *r.Referrers() {
		nx, ok := ref.(*ssa.Next)
		if !ok {
			continue
		}
		for _, r2 := range *nx.Referrers() {
			ex, ok := r2.(*ssa.Extract)
			if !ok {
				continue
			}
			for _, r3 := range *ex.Referrers() {
				switch r3.(type) {
				case *ssa.BinOp, *ssa.If, *ssa.DebugRef:
				default:
					return false
				}
			}
		}
	}
	return true
}

// initOnly: every caller of fn (transitively, depth <= 4) is a package initialiser.
func initOnly(p *core.Prog, fn *ssa.Function, depth int) bool {
	if isInitLike(fn) {
		return true
	}
	if depth > 4 {
		return false
	}
	n := p.CG(false).Nodes[fn]
	if n == nil || len(n.In) == 0 {
		return false
	}
	for _, e := range n.In {
		if !initOnly(p, e.Caller.Func, depth+1) {
			return false
		}
	}
	return true
}

// inputNeverWritten (R2.2 = R4.6): no write effect of a decode root lands in
// memory rooted at its data parameter.
func inputNeverWritten(c *core.Ctx, r2 *core.Rule, eff *effect.Analysis) {
	p := c.P
	roots := p.Roots()
	best := map[ssa.Instruction]*effect.Write{}
	depth := func(w *effect.Write) int {
		n := 0
		for x := w; x != nil; x = x.Origin {
			n++
		}
		return n
	}
	for _, d := range roots.Dec {
		s := eff.Sum[d.Fn]
		if s == nil {
			continue
		}
		idx := -1
		for i, pa := range d.Fn.Params {
			if pa == d.Data {
				idx = i
			}
		}
		bad := false
		for _, w := range s.Writes {
			if w.Root.Kind == effect.Param && w.Root.Index == idx {
				bad = true
				at := w.Direct().At
				if o, ok := best[at]; !ok || depth(w) < depth(o) {
					best[at] = w
				}
			}
		}
		if !bad {
			r2.OK(core.FnKey(d.Fn)+"/input-untouched", p.Pos(d.Fn.Pos()), "")
		}
	}
	for at, w := range best {
		d := w.Direct()
		r2.Violate(core.FnKey(d.Fn)+"/writes-input:"+d.Kind, p.InstrPos(at), "decode code writes into its input bytes: "+writeDesc(p, w)+" (under NoCopy this is the caller's buffer; a second decode of the same bytes differs)", nil)
	}
}
