package props

import (
	"fmt"
	"go/token"
	"go/types"
	"strings"

	"golang.org/x/tools/go/ssa"

	"gpv/internal/core"
)

func init() {
	register("C09", func(c *core.Ctx) { checkAssemblerOrder(c, "reassembly", "R9") })
	register("C10", func(c *core.Ctx) { checkAssemblerOrder(c, "tcpassembly", "R10") })
}

// diffCall: v is (a conversion of) a call X.Difference(Y); returns receiver and argument.
func diffCall(v ssa.Value) (*ssa.Call, ssa.Value, ssa.Value, bool) {
	v = core.StripConv(v)
	call, ok := v.(*ssa.Call)
	if !ok {
		return nil, nil, nil, false
	}
	f := call.Call.StaticCallee()
	if f == nil || f.Name() != "Difference" || len(call.Call.Args) != 2 {
		return nil, nil, nil, false
	}
	return call, call.Call.Args[0], call.Call.Args[1], true
}

// isFieldLoadNamed: v loads a field with this name (any struct).
func loadsFieldNamed(v ssa.Value, name string) bool {
	_, ok := core.LoadsField(v, name)
	return ok
}

// cmpNorm normalises `X op K` under truth to one of ">0", ">=0", "<0", "<=0", "==0", "!=0", or "" when not a comparison with 0/1/-1.
func cmpNorm(bo *ssa.BinOp, truth bool) (ssa.Value, string) {
	x, y := bo.X, bo.Y
	op := bo.Op
	if _, ok := core.ConstInt(x); ok {
		x, y = y, x
		switch op {
		case token.LSS:
			op = token.GTR
		case token.GTR:
			op = token.LSS
		case token.LEQ:
			op = token.GEQ
		case token.GEQ:
			op = token.LEQ
		}
	}
	k, ok := core.ConstInt(y)
	if !ok {
		return nil, ""
	}
	if !truth {
		switch op {
		case token.LSS:
			op = token.GEQ
		case token.GEQ:
			op = token.LSS
		case token.GTR:
			op = token.LEQ
		case token.LEQ:
			op = token.GTR
		case token.EQL:
			op = token.NEQ
		case token.NEQ:
			op = token.EQL
		}
	}
	switch {
	case op == token.GTR && k == 0, op == token.GEQ && k == 1:
		return x, ">0"
	case op == token.GEQ && k == 0, op == token.GTR && k == -1:
		return x, ">=0"
	case op == token.LSS && k == 0, op == token.LEQ && k == -1:
		return x, "<0"
	case op == token.LEQ && k == 0, op == token.LSS && k == 1:
		return x, "<=0"
	case op == token.EQL && k == 0:
		return x, "==0"
	case op == token.NEQ && k == 0:
		return x, "!=0"
	}
	return x, ""
}

func flipRel(rel string) string {
	switch rel {
	case ">0":
		return "<0"
	case "<0":
		return ">0"
	case ">=0":
		return "<=0"
	case "<=0":
		return ">=0"
	}
	return rel
}

// gapConds returns, for block b, the normalised relations that dominate it of
// the form nextSeq.Difference(X) REL 0 (receiver = load of field nextSeq; a
// swapped call is flipped).
func gapConds(b *ssa.BasicBlock) []string {
	var out []string
	for _, dc := range core.DomConds(b) {
		bo, ok := dc.V.(*ssa.BinOp)
		if !ok {
			continue
		}
		x, rel := cmpNorm(bo, dc.Truth)
		if rel == "" || x == nil {
			continue
		}
		_, recv, arg, ok := diffCall(x)
		if !ok {
			continue
		}
		switch {
		case loadsFieldNamed(recv, "nextSeq"):
			out = append(out, rel)
		case loadsFieldNamed(arg, "nextSeq"):
			out = append(out, flipRel(rel))
		}
	}
	return out
}

func readsLimit(v ssa.Value, depth int) bool {
	if depth > 6 {
		return false
	}
	if a, ok := core.IsLoad(core.StripConv(v)); ok {
		if fa, ok := a.(*ssa.FieldAddr); ok && strings.HasPrefix(core.FieldOfAddr(fa).Name(), "MaxBufferedPages") {
			return true
		}
	}
	switch x := v.(type) {
	case *ssa.BinOp:
		return readsLimit(x.X, depth+1) || readsLimit(x.Y, depth+1)
	case *ssa.Call:
		return isLimitPredicate(x.Call.StaticCallee())
	case *ssa.Phi:
		for _, e := range x.Edges {
			if readsLimit(e, depth+1) {
				return true
			}
		}
	case *ssa.Convert:
		return readsLimit(x.X, depth+1)
	}
	return false
}

// underLimitCond: the block is reachable only through the true edge of a
// comparison between a counter and one of the MaxBufferedPages* options.
func underLimitCond(b *ssa.BasicBlock) bool {
	fn := b.Parent()
	isLimitCmp := func(blk *ssa.BasicBlock) bool {
		iff := blockIf(blk)
		if iff == nil {
			return false
		}
		if call, ok := iff.Cond.(*ssa.Call); ok {
			return isLimitPredicate(call.Call.StaticCallee())
		}
		bo, ok := iff.Cond.(*ssa.BinOp)
		if !ok || !readsLimit(bo, 0) {
			return false
		}
		_, xc := core.ConstInt(bo.X)
		_, yc := core.ConstInt(bo.Y)
		return !xc && !yc
	}
	any := false
	for _, blk := range fn.Blocks {
		if isLimitCmp(blk) {
			any = true
		}
	}
	if !any {
		return false
	}
	reach := edgeFilteredReach(fn, func(blk *ssa.BasicBlock, i int) bool {
		return !(isLimitCmp(blk) && i == 0)
	})
	return !reach[b]
}

func checkAssemblerOrder(c *core.Ctx, pkg, rp string) {
	p := c.P
	c.Explain = "Structural clauses of in-order, exactly-once delivery for package " + pkg + ": (" + rp + ".1) the constant added in Sequence.Difference to undo a wrap equals the modulus by which Sequence.Add reduces, and the quadrant thresholds are symmetric about half of it; (" + rp + ".2) the function that pops the head of the out-of-order queue regardless of a gap is reachable from the Assemble entry points only through a branch on the page-limit options, and contiguous release is guarded by nextSeq.Difference(first.seq) <= 0 / == 0; the decision to queue a segment is exactly nextSeq.Difference(seq) > 0 (or 'start not seen'); (" + rp + ".3) every value stored into a Skip field is 0, the gap nextSeq.Difference(first seq) with nextSeq as the receiver, or -1 under nextSeq == invalidSequence; (" + rp + ".4) a segment with SYN/FIN advances the expected sequence number by exactly one more than its data. Not decided: byte-exact, duplicate-free delivery under every segmentation, permutation and overlap; KeepFrom re-presentation."
	r1 := c.Rule(rp+".1", "T", "wrap modulus agreement between Sequence.Add and Sequence.Difference")
	r2 := c.Rule(rp+".2", "T", "queued data leaves only by contiguity, page limit or flush; queueing decision is nextSeq.Difference(seq) > 0")
	r3 := c.Rule(rp+".3", "T", "skip is the announced gap")
	r4 := c.Rule(rp+".4", "D", "SYN/FIN consume one sequence number")
	r5 := c.Rule(rp+".5", "T", "sequence numbers are ordered, subtracted and advanced only through Sequence.Difference / Sequence.Add (wrap-safe); raw <, >, -, + on Sequence values appear nowhere else")
	{
		nOps := 0
		isSeq := func(v ssa.Value) bool {
			return core.NamedIs(v.Type(), "Sequence")
		}
		for _, fn := range pkgFunctions(p, pkg) {
			if strings.HasSuffix(p.Pos(fn.Pos()), "_test.go") {
				continue
			}
			k := core.FnKey(fn)
			if strings.HasSuffix(k, "Sequence).Add") || strings.HasSuffix(k, "Sequence).Difference") {
				continue
			}
			n := 0
			core.Instrs(fn, func(ins ssa.Instruction) {
				bo, ok := ins.(*ssa.BinOp)
				if !ok {
					return
				}
				switch bo.Op {
				case token.SUB, token.ADD, token.LSS, token.GTR, token.LEQ, token.GEQ:
				default:
					return
				}
				if !isSeq(bo.X) && !isSeq(bo.Y) {
					return
				}
				// comparisons against the negative sentinel (invalidSequence) are not orderings of two sequence numbers
				for _, o := range []ssa.Value{bo.X, bo.Y} {
					if kk, ok := core.ConstInt(o); ok && kk <= 0 && bo.Op != token.ADD && bo.Op != token.SUB {
						return
					}
				}
				// diagnostics only: under the package's debug-log switch, or a value that flows only into fmt/log calls
				for _, dc := range core.DomConds(ins.Block()) {
					if a, ok := core.IsLoad(dc.V); ok && dc.Truth {
						if a2, ok := core.IsLoad(a); ok {
							if g, ok := a2.(*ssa.Global); ok && strings.HasSuffix(strings.ToLower(g.Name()), "log") {
								return
							}
						}
					}
				}
				if onlyToPrinting(bo, 0) {
					return
				}
				nOps++
				n++
				key := k + "/raw-sequence-op:" + bo.Op.String()
				if n > 1 {
					key += "#" + string(rune('0'+n))
				}
				r5.Violate(key, p.InstrPos(ins), "raw "+bo.Op.String()+" on Sequence values outside Sequence.Add/Difference: the result is wrong when the two numbers lie on different sides of the 2^32 wrap (already delivered bytes are delivered again, or data is held back)", nil)
			})
		}
		if nOps == 0 {
			r5.OK(pkg+"/sequence-ops", "", "no raw ordering or arithmetic on Sequence values outside Add/Difference")
		}
	}

	if pkg == "reassembly" {
		r7 := c.Rule(rp+".7", "T", "direction selection: the (half, reverse half) pair handed to the assembler is chosen only by getHalf (by key direction) or newConnection (fresh connection for that key); nothing else returns &conn.c2s / &conn.s2c")
		allowed := map[string]string{
			"(*reassembly.StreamPool).getHalf":       "compares the key with the stored and the reversed key and orders the halves accordingly",
			"(*reassembly.StreamPool).newConnection": "the connection was just created for this key: c2s is the key's direction",
		}
		nRet := 0
		for _, fn := range pkgFunctions(p, pkg) {
			k := core.FnKey(fn)
			idx := 0
			for _, ret := range core.Returns(fn) {
				for i := range ret.Results {
					v := core.RetOperand(ret, i)
					fa, ok := v.(*ssa.FieldAddr)
					if !ok {
						continue
					}
					nm := core.FieldOfAddr(fa).Name()
					if nm != "c2s" && nm != "s2c" {
						continue
					}
					nRet++
					idx++
					key := k + "/returns-half"
					if idx > 1 {
						key += "#" + string(rune('0'+idx))
					}
					if why, ok := allowed[k]; ok {
						r7.OK(key, p.InstrPos(ret), why)
					} else {
						r7.Violate(key, p.InstrPos(ret), "returns &conn."+nm+" directly instead of the pair getHalf selects for the packet's direction: a packet of the reverse direction is processed on the other sender's half (its bytes are judged against the wrong sequence space)", nil)
					}
				}
			}
		}
		if nRet < 6 {
			r7.Missing(pkg+"/half-returns", fmt.Sprintf("only %d returns of half-connection addresses found", nRet))
		}
		r6 := c.Rule(rp+".6", "T", "unlinking from the doubly linked page queue is two-sided: where a neighbour's back link is updated under `x.next != nil` (`x.prev != nil`), the nil side updates the queue's last (first) pointer before the page is released")
		checkUnlinkSides(c, r6, pkg)
	}

	limitPairing(c, c.Rule(rp+".18", "T", "each page limit is compared with the counter it limits (= R11.11): data behind a gap is forced out only when the limit that was configured is reached"))
	if pkg == "reassembly" {
		trimmedPacketStartsAtNextSeq(c, c.Rule(rp+".19", "T", "a packet trimmed against delivered data starts at the connection's nextSeq"))
		containerSiblings(c, c.Rule(rp+".15", "T", "the two byteContainer implementations agree on consuming a skip from the receiver's own window"))
		checkCoherentTriples(c, c.Rule(rp+".14", "T", "a connection is returned together with its own two halves"))
		checkOverlapAlways(c, c.Rule(rp+".13", "T", "the packet being handled is compared with the out-of-order queue on every path (only an empty queue may skip it)"), pkg)
		r10 := c.Rule(rp+".10", "T", "a list built together with the byte count of its elements is never emptied without zeroing the count")
		checkCoupledAccumulators(c, r10, pkg)
	}
	popKeepsLast(c, c.Rule(rp+".17", "T", "a function that pops the queue head clears the tail pointer when the queue empties"), pkg)
	checkTailAdvance(c, c.Rule(rp+".16", "T", "a list built from (first,last) runs advances its tail to the run's last page"), pkg)
	r11 := c.Rule(rp+".11", "T", "page queue links are stored in pairs: x.next = y together with y.prev = x")
	checkPairedLinks(c, r11, pkg)
	r9 := c.Rule(rp+".9", "T", "a delivered batch is not delivered again: on every path (across calls) from a delivery of a.ret to the next append into a.ret the batch is emptied")
	checkBatchReset(c, r9, pkg)
	checkConnReset(c, c.Rule(rp+".12", "T", "a recycled connection carries nothing over: every field some function stores a value into is stored by connection.reset"), pkg)
	r8 := c.Rule(rp+".8", "T", "a recycled page carries nothing over: every per-use field of a page that the package ever stores a value into is reset by pageCache.next or stored by the function that takes the page from it")
	checkPageReset(c, r8, pkg)

	// ---- .1
	add := p.Func(pkg, "Sequence.Add")
	dif := p.Func(pkg, "Sequence.Difference")
	if add == nil || dif == nil {
		r1.Missing(pkg+".Sequence", "Add/Difference not found")
	} else {
		var modulus int64 = -1
		for _, ret := range core.Returns(add) {
			switch x := ret.Results[0].(type) {
			case *ssa.BinOp:
				if x.Op == token.AND {
					if k, ok := core.ConstFold(x.Y); ok && (k&(k+1)) == 0 {
						modulus = k + 1
					} else if k, ok := core.ConstFold(x.X); ok && (k&(k+1)) == 0 {
						modulus = k + 1
					}
				}
				if x.Op == token.REM {
					if k, ok := core.ConstFold(x.Y); ok {
						modulus = k
					}
				}
			case *ssa.Convert:
				// Sequence(uint32(...)) style
				if inner, ok := x.X.(*ssa.Convert); ok {
					if b, ok := inner.Type().Underlying().(*types.Basic); ok && b.Kind() == types.Uint32 {
						modulus = 1 << 32
					}
				}
			}
		}
		key := pkg + ".Sequence"
		if modulus < 0 {
			r1.Violate(key+"/Add-modulus", p.Pos(add.Pos()), "Sequence.Add does not reduce modulo a power of two", nil)
		} else {
			r1.Check(modulus == 1<<32, key+"/Add-modulus", p.Pos(add.Pos()), "Add reduces modulo 2^32", fmt.Sprintf("Add reduces modulo %d, TCP sequence numbers live modulo 2^32", modulus))
			// wrap constants in Difference: `v + K` where v is a parameter
			n := 0
			correctedParams := map[ssa.Value]bool{}
			core.Instrs(dif, func(ins ssa.Instruction) {
				bo, ok := ins.(*ssa.BinOp)
				if !ok || bo.Op != token.ADD {
					return
				}
				if !isParam(dif, bo.X) && !isParam(dif, bo.Y) {
					return
				}
				k, ok := core.ConstFold(bo.Y)
				if !ok {
					k, ok = core.ConstFold(bo.X)
				}
				if !ok {
					return
				}
				n++
				// the operand that is corrected is the one tested as lying in the low quarter
				var corrected ssa.Value = bo.X
				if !isParam(dif, bo.X) {
					corrected = bo.Y
				}
				lowTested := false
				for _, dc := range core.DomConds(ins.Block()) {
					cb, ok := dc.V.(*ssa.BinOp)
					if !ok || !dc.Truth {
						continue
					}
					if (cb.Op == token.LSS || cb.Op == token.LEQ) && cb.X == corrected {
						lowTested = true
					}
					if (cb.Op == token.GTR || cb.Op == token.GEQ) && cb.Y == corrected {
						lowTested = true
					}
				}
				correctedParams[corrected] = true
				r1.Check(lowTested, fmt.Sprintf("%s/Difference-wrap-side#%d", key, n), p.InstrPos(ins), "the wrapped (low-quarter) operand is the one lifted by the modulus", "the modulus is added to the operand that was tested as lying in the HIGH quarter: for a pair straddling the wrap in that direction the difference is off by 2^33, so data after the wrap is treated as far in the past or future")
				r1.Check(k == modulus, fmt.Sprintf("%s/Difference-wrap#%d", key, n), p.InstrPos(ins), "wrap term equals the modulus of Add", fmt.Sprintf("Difference undoes a wrap by adding %d but Add reduces modulo %d: x.Difference(x.Add(n)) != n for sequence numbers around the wrap (e.g. Sequence(0xFFFFFFF0).Difference(Sequence(0xFFFFFFF0).Add(32)) = 31)", k, modulus))
			})
			if n == 0 {
				// subtraction in uint32/int32 is the other accepted shape
				okConv := false
				core.Instrs(dif, func(ins ssa.Instruction) {
					if cv, ok := ins.(*ssa.Convert); ok {
						if b, ok := cv.Type().Underlying().(*types.Basic); ok && (b.Kind() == types.Int32 || b.Kind() == types.Uint32) {
							okConv = true
						}
					}
				})
				if okConv {
					r1.OK(key+"/Difference-wrap", p.Pos(dif.Pos()), "wrap handled by 32-bit arithmetic")
				} else {
					r1.Violate(key+"/Difference-wrap", p.Pos(dif.Pos()), "Difference does not handle wrap-around (no wrap term, no 32-bit subtraction)", nil)
				}
			} else {
				r1.Check(n == 2 && len(correctedParams) == 2, key+"/Difference-both-directions", p.Pos(dif.Pos()), "both wrap directions are corrected, one on each operand", fmt.Sprintf("%d wrap corrections on %d distinct operands found, expected one for each direction", n, len(correctedParams)))
			}
			// result is t - s (argument minus receiver)
			for _, ret := range core.Returns(dif) {
				v := core.StripConv(ret.Results[0])
				bo, ok := v.(*ssa.BinOp)
				good := false
				if ok && bo.Op == token.SUB {
					good = rootsAtParam(dif, bo.X, 1) && rootsAtParam(dif, bo.Y, 0)
				}
				r1.Check(good, key+"/Difference-orientation", p.InstrPos(ret), "returns argument - receiver", "Difference does not return (argument - receiver): every contiguity test changes sign")
			}
		}
	}

	// ---- .2
	pop := p.Func(pkg, "Assembler.addNextFromConn")
	if pop == nil {
		r2.Missing(pkg+".addNextFromConn", "gap-ignoring pop not found")
	} else {
		g := p.CG(false)
		// BFS from Assemble* entry points; do not follow call sites guarded by a limit condition
		var entries []*ssa.Function
		for _, n := range []string{"Assembler.Assemble", "Assembler.AssembleWithContext", "Assembler.AssembleWithTimestamp"} {
			if f := p.Func(pkg, n); f != nil {
				entries = append(entries, f)
			}
		}
		if len(entries) == 0 {
			r2.Missing(pkg+".Assemble", "entry points not found")
		}
		seen := map[*ssa.Function]bool{}
		type item struct {
			f    *ssa.Function
			path []string
		}
		var work []item
		for _, e := range entries {
			seen[e] = true
			work = append(work, item{e, []string{core.FnKey(e)}})
		}
		nSites := 0
		for len(work) > 0 {
			it := work[0]
			work = work[1:]
			n := g.Nodes[it.f]
			if n == nil {
				continue
			}
			for _, e := range n.Out {
				cal := e.Callee.Func
				if !p.InModule(cal) || e.Site == nil {
					continue
				}
				guardedL := underLimitCond(e.Site.Block())
				if cal == pop {
					nSites++
					key := core.FnKey(it.f) + "/pops-head"
					conds := gapConds(e.Site.Block())
					contig := false
					for _, r := range conds {
						if r == "<=0" || r == "==0" {
							contig = true
						}
					}
					switch {
					case guardedL:
						r2.OK(key, p.InstrPos(e.Site), "under the page-limit condition")
					case contig:
						r2.OK(key, p.InstrPos(e.Site), "under nextSeq.Difference(first.seq) <= 0")
					default:
						r2.Violate(key, p.InstrPos(e.Site), "on a path from "+it.path[0]+" queued data is released past a gap without a page-limit or contiguity test (call path "+strings.Join(append(it.path, core.FnKey(pop)), " -> ")+")", nil)
					}
					continue
				}
				if guardedL {
					continue
				}
				if !seen[cal] {
					seen[cal] = true
					work = append(work, item{cal, append(append([]string{}, it.path...), core.FnKey(cal))})
				}
			}
		}
		c.Counts["pop_sites_reachable_from_assemble"] = nSites
		// contiguous release: in addContiguous the loop that takes pages is guarded by Difference <= 0 / == 0
		if ac := p.Func(pkg, "Assembler.addContiguous"); ac != nil {
			ok := false
			core.Instrs(ac, func(ins ssa.Instruction) {
				// any instruction in a block that advances (store to field first, or call pop)
				adv := false
				if st, isSt := ins.(*ssa.Store); isSt {
					if fa, isFA := st.Addr.(*ssa.FieldAddr); isFA && core.FieldOfAddr(fa).Name() == "first" {
						adv = true
					}
				}
				if cc := core.CallCommonOf(ins); cc != nil && cc.StaticCallee() == pop {
					adv = true
				}
				if !adv {
					return
				}
				for _, dc := range core.DomConds(ins.Block()) {
					bo, isB := dc.V.(*ssa.BinOp)
					if !isB {
						continue
					}
					x, rel := cmpNorm(bo, dc.Truth)
					if x == nil {
						continue
					}
					if _, _, _, isD := diffCall(x); isD && (rel == "<=0" || rel == "==0") {
						ok = true
					}
				}
			})
			r2.Check(ok, pkg+".addContiguous/guard", p.Pos(ac.Pos()), "pages are appended only while Difference(expected, page.seq) <= 0 / == 0", "contiguous release is not guarded by a contiguity test: data beyond a gap would be delivered as if contiguous")
		} else {
			r2.Missing(pkg+".addContiguous", "not found")
		}
		// queueing decision
		checkQueueDecision(c, r2, pkg)
	}

	// ---- .3 skip stores
	nSkip := 0
	for _, fn := range core.SortedFns(p.AllFns) {
		if core.FnPkg(fn) == nil || core.FnPkg(fn).Path() != core.Mod+"/"+pkg {
			continue
		}
		ord := 0
		core.Instrs(fn, func(ins ssa.Instruction) {
			st, ok := ins.(*ssa.Store)
			if !ok {
				return
			}
			fa, ok := st.Addr.(*ssa.FieldAddr)
			if !ok || core.FieldOfAddr(fa).Name() != "Skip" {
				return
			}
			nSkip++
			ord++
			key := fmt.Sprintf("%s/Skip#%d", core.FnKey(fn), ord)
			v := st.Val
			verdict, why := skipValueOK(fn, v, st.Block(), 0)
			switch verdict {
			case 1:
				r3.OK(key, p.InstrPos(ins), why)
			case 0:
				r3.Violate(key, p.InstrPos(ins), why, nil)
			default:
				r3.Violate(key, p.InstrPos(ins), "value stored into Skip is none of: 0, nextSeq.Difference(first sequence), -1 under nextSeq == invalidSequence ("+why+")", nil)
			}
		})
	}
	if nSkip == 0 {
		r3.Missing(pkg+".Skip", "no store to a Skip field")
	}
	// whole-struct literals carrying Skip (tcpassembly Reassembly{Skip: 0}) are covered: composite stores lower to field stores

	// ---- .4 SYN/FIN
	checkSynFin(c, r4, pkg)
}

func rootsAtParam(fn *ssa.Function, v ssa.Value, idx int) bool {
	seen := map[ssa.Value]bool{}
	var walk func(v ssa.Value) bool
	walk = func(v ssa.Value) bool {
		if seen[v] {
			return true
		}
		seen[v] = true
		v = core.StripConv(v)
		switch x := v.(type) {
		case *ssa.Parameter:
			return idx < len(fn.Params) && x == fn.Params[idx]
		case *ssa.Phi:
			for _, e := range x.Edges {
				if !walk(e) {
					return false
				}
			}
			return true
		case *ssa.BinOp:
			if x.Op == token.ADD {
				if _, ok := core.ConstFold(x.Y); ok {
					return walk(x.X)
				}
				if _, ok := core.ConstFold(x.X); ok {
					return walk(x.Y)
				}
			}
		}
		return false
	}
	return walk(v)
}

// skipValueOK: 1 ok, 0 definite violation, -1 unrecognised.
func skipValueOK(fn *ssa.Function, v ssa.Value, b *ssa.BasicBlock, depth int) (int, string) {
	if depth > 4 {
		return -1, "too deep"
	}
	if k, ok := core.ConstInt(v); ok {
		switch k {
		case 0:
			return 1, "0"
		case -1:
			// must be under nextSeq == invalidSequence
			for _, dc := range core.DomConds(b) {
				if bo, ok := dc.V.(*ssa.BinOp); ok {
					if (loadsFieldNamed(bo.X, "nextSeq") || loadsFieldNamed(bo.Y, "nextSeq")) && ((bo.Op == token.EQL && dc.Truth) || (bo.Op == token.NEQ && !dc.Truth)) {
						return 1, "-1 under nextSeq == invalidSequence"
					}
				}
			}
			return 0, "Skip is set to -1 (unknown) although the start of the stream was seen"
		}
		return 0, fmt.Sprintf("constant skip %d", k)
	}
	if _, recv, arg, ok := diffCall(v); ok {
		if loadsFieldNamed(recv, "nextSeq") {
			return 1, "nextSeq.Difference(first sequence)"
		}
		if loadsFieldNamed(arg, "nextSeq") {
			return 0, "Skip is computed as X.Difference(nextSeq): the announced gap has the wrong sign"
		}
		return -1, "Difference of other operands"
	}
	if ph, ok := v.(*ssa.Phi); ok {
		res := 1
		why := ""
		for i, e := range ph.Edges {
			pred := ph.Block().Preds[i]
			// -1 arriving straight from the block that tests nextSeq against invalidSequence
			if k, ok := core.ConstInt(e); ok && k == -1 {
				if iff := blockIf(pred); iff != nil {
					if bo, ok := iff.Cond.(*ssa.BinOp); ok && (loadsFieldNamed(bo.X, "nextSeq") || loadsFieldNamed(bo.Y, "nextSeq")) {
						viaTrue := pred.Succs[0] == ph.Block()
						if (bo.Op == token.EQL && viaTrue) || (bo.Op == token.NEQ && !viaTrue) {
							continue
						}
					}
				}
			}
			r, w := skipValueOK(fn, e, pred, depth+1)
			if r < res {
				res, why = r, w
			}
		}
		if res == 1 {
			why = "phi of accepted values"
		}
		return res, why
	}
	if a, ok := core.IsLoad(v); ok {
		// a local / field copy: follow single-assignment locals
		if al, ok := a.(*ssa.Alloc); ok {
			res := 1
			why := "local"
			for _, ref := range *al.Referrers() {
				if st, ok := ref.(*ssa.Store); ok && st.Addr == ssa.Value(al) {
					r, w := skipValueOK(fn, st.Val, st.Block(), depth+1)
					if r < res {
						res, why = r, w
					}
				}
			}
			return res, why
		}
		if fa, ok := a.(*ssa.FieldAddr); ok && core.FieldOfAddr(fa).Name() == "Skip" {
			return 1, "copy of another Skip field"
		}
	}
	return -1, "unrecognised expression"
}

// checkQueueDecision: the call that inserts into the out-of-order queue from
// the Assemble path is taken exactly when nextSeq.Difference(seq) > 0 or the
// start has not been seen.
func checkQueueDecision(c *core.Ctx, r *core.Rule, pkg string) {
	p := c.P
	switch pkg {
	case "tcpassembly":
		fn := p.Func(pkg, "Assembler.AssembleWithTimestamp")
		ins := p.Func(pkg, "Assembler.insertIntoConn")
		if fn == nil || ins == nil {
			r.Missing(pkg+".insertIntoConn", "not found")
			return
		}
		n := 0
		core.Instrs(fn, func(i ssa.Instruction) {
			cc := core.CallCommonOf(i)
			if cc == nil || cc.StaticCallee() != ins {
				return
			}
			n++
			key := fmt.Sprintf("%s/queue-decision#%d", core.FnKey(fn), n)
			conds := gapConds(i.Block())
			invalid := false
			for _, dc := range core.DomConds(i.Block()) {
				if bo, ok := dc.V.(*ssa.BinOp); ok && (loadsFieldNamed(bo.X, "nextSeq") || loadsFieldNamed(bo.Y, "nextSeq")) && ((bo.Op == token.EQL && dc.Truth) || (bo.Op == token.NEQ && !dc.Truth)) {
					invalid = true
				}
			}
			gap := false
			bad := ""
			for _, rel := range conds {
				switch rel {
				case ">0":
					gap = true
				default:
					bad = rel
				}
			}
			switch {
			case invalid && !gap:
				r.OK(key, p.InstrPos(i), "queued because the start has not been seen")
			case gap && bad == "":
				r.OK(key, p.InstrPos(i), "queued exactly when nextSeq.Difference(seq) > 0")
			default:
				r.Violate(key, p.InstrPos(i), "a segment is queued under nextSeq.Difference(seq) "+bad+" instead of > 0: in-order data would wait in the queue (or out-of-order data be delivered at once)", nil)
			}
		})
		if n < 2 {
			r.Missing(pkg+".queue-decision", "expected two queueing sites")
		}
		// the immediate path trims the already-delivered prefix with byteSpan(nextSeq, seq, bytes)
		bs := p.Func(pkg, "byteSpan")
		okSpan := false
		if bs != nil {
			core.Instrs(fn, func(i ssa.Instruction) {
				cc := core.CallCommonOf(i)
				if cc != nil && cc.StaticCallee() == bs && len(cc.Args) == 3 && loadsFieldNamed(cc.Args[0], "nextSeq") {
					for _, rel := range gapConds(i.Block()) {
						if rel == "<=0" {
							okSpan = true
						}
					}
				}
			})
		}
		r.Check(okSpan, core.FnKey(fn)+"/trim-delivered-prefix", p.Pos(fn.Pos()), "contiguous/overlapping data is trimmed against nextSeq before delivery", "data at or before nextSeq is delivered without trimming the already delivered prefix (duplicates)")
	case "reassembly":
		fn := p.Func(pkg, "Assembler.AssembleWithContext")
		if fn == nil {
			r.Missing(pkg+".AssembleWithContext", "not found")
			return
		}
		// stores of false into action.queue
		n := 0
		core.Instrs(fn, func(i ssa.Instruction) {
			st, ok := i.(*ssa.Store)
			if !ok {
				return
			}
			fa, ok := st.Addr.(*ssa.FieldAddr)
			if !ok || core.FieldOfAddr(fa).Name() != "queue" {
				return
			}
			b, isB := core.ConstBool(st.Val)
			if !isB || b {
				return
			}
			n++
			key := fmt.Sprintf("%s/send-now#%d", core.FnKey(fn), n)
			conds := gapConds(i.Block())
			invalid := false
			for _, dc := range core.DomConds(i.Block()) {
				if bo, ok := dc.V.(*ssa.BinOp); ok && (loadsFieldNamed(bo.X, "nextSeq") || loadsFieldNamed(bo.Y, "nextSeq")) && ((bo.Op == token.EQL && dc.Truth) || (bo.Op == token.NEQ && !dc.Truth)) {
					invalid = true
				}
			}
			switch {
			case invalid:
				r.OK(key, p.InstrPos(i), "start of stream (SYN or forced start)")
			case len(conds) == 1 && conds[0] == "<=0":
				r.OK(key, p.InstrPos(i), "sent at once exactly when nextSeq.Difference(seq) <= 0")
			default:
				r.Violate(key, p.InstrPos(i), fmt.Sprintf("a segment is sent at once under nextSeq.Difference(seq) %v instead of <= 0", conds), nil)
			}
		})
		if n < 3 {
			r.Missing(pkg+".queue-decision", "expected three immediate-send sites")
		}
	}
}

func checkSynFin(c *core.Ctx, r *core.Rule, pkg string) {
	p := c.P
	switch pkg {
	case "reassembly":
		fn := p.Func(pkg, "Assembler.AssembleWithContext")
		if fn == nil {
			return
		}
		// stores to nextSeq of X.Add(1): one under SYN, one under FIN
		syn, fin := false, false
		core.Instrs(fn, func(i ssa.Instruction) {
			st, ok := i.(*ssa.Store)
			if !ok {
				return
			}
			fa, ok := st.Addr.(*ssa.FieldAddr)
			if !ok || core.FieldOfAddr(fa).Name() != "nextSeq" {
				return
			}
			call, ok := st.Val.(*ssa.Call)
			addsOne := false
			if ok {
				if f := call.Call.StaticCallee(); f != nil && f.Name() == "Add" && len(call.Call.Args) == 2 {
					if k, ok := core.ConstInt(call.Call.Args[1]); ok && k == 1 {
						addsOne = true
					}
				}
			}
			for _, dc := range core.DomConds(i.Block()) {
				if loadsFieldNamed(dc.V, "FIN") && dc.Truth && addsOne {
					fin = true
				}
				if loadsFieldNamed(dc.V, "SYN") && dc.Truth {
					// the value is seq.Add(1) computed just before
					if a2, ok := st.Val.(*ssa.Call); ok {
						if f := a2.Call.StaticCallee(); f != nil && f.Name() == "Add" {
							if k, ok := core.ConstInt(a2.Call.Args[1]); ok && k == 1 {
								syn = true
							}
						}
					}
				}
			}
		})
		r.Check(syn, core.FnKey(fn)+"/SYN-consumes-one", p.Pos(fn.Pos()), "after SYN nextSeq = seq.Add(1)", "the SYN does not advance the expected sequence number by one")
		r.Check(fin, core.FnKey(fn)+"/FIN-consumes-one", p.Pos(fn.Pos()), "FIN advances nextSeq by one", "the FIN does not advance the expected sequence number by one")
	case "tcpassembly":
		fn := p.Func(pkg, "Assembler.AssembleWithTimestamp")
		if fn == nil {
			return
		}
		ok := false
		core.Instrs(fn, func(i ssa.Instruction) {
			st, isSt := i.(*ssa.Store)
			if !isSt {
				return
			}
			fa, isFA := st.Addr.(*ssa.FieldAddr)
			if !isFA || core.FieldOfAddr(fa).Name() != "nextSeq" {
				return
			}
			t := termOf(fn, st.Val, 0)
			// seq.Add(len(bytes)+1) under SYN
			if strings.HasPrefix(t, "call:Add(") && strings.Contains(t, "+(") && strings.Contains(t, "const:1") && strings.Contains(t, "len(") {
				for _, dc := range core.DomConds(i.Block()) {
					if loadsFieldNamed(dc.V, "SYN") && dc.Truth {
						ok = true
					}
				}
			}
		})
		r.Check(ok, core.FnKey(fn)+"/SYN-consumes-one", p.Pos(fn.Pos()), "after SYN nextSeq = seq.Add(len(bytes)+1)", "the SYN does not advance the expected sequence number by one more than its data")
	}
}

// onlyToPrinting: every use of v is (through conversions / interface boxing /
// variadic slice stores) an argument of a fmt or log function.
func onlyToPrinting(v ssa.Value, depth int) bool {
	if depth > 6 || v.Referrers() == nil || len(*v.Referrers()) == 0 {
		return false
	}
	for _, r := range *v.Referrers() {
		switch x := r.(type) {
		case *ssa.Convert:
			if !onlyToPrinting(x, depth+1) {
				return false
			}
		case *ssa.ChangeType:
			if !onlyToPrinting(x, depth+1) {
				return false
			}
		case *ssa.MakeInterface:
			if !onlyToPrinting(x, depth+1) {
				return false
			}
		case *ssa.Store:
			// boxed into the variadic []interface{}: follow the backing array
			ia, ok := x.Addr.(*ssa.IndexAddr)
			if !ok || x.Val != v {
				return false
			}
			al, ok := ia.X.(*ssa.Alloc)
			if !ok {
				return false
			}
			okAll := false
			for _, r2 := range *al.Referrers() {
				if sl, ok := r2.(*ssa.Slice); ok {
					okAll = onlyToPrinting(sl, depth+1)
				}
			}
			if !okAll {
				return false
			}
		case *ssa.Call:
			f := x.Call.StaticCallee()
			if f == nil || f.Pkg == nil || (f.Pkg.Pkg.Path() != "fmt" && f.Pkg.Pkg.Path() != "log") {
				return false
			}
		case *ssa.DebugRef:
		default:
			return false
		}
	}
	return true
}

// checkUnlinkSides: one-sided link maintenance.  For every `if x.next != nil`
// whose non-nil side stores (x.next).prev, some store to a field named `last`
// must either be reachable from the nil edge before any page release, or
// precede the test in the same pass (reach it without crossing a release).
func checkUnlinkSides(c *core.Ctx, r *core.Rule, pkg string) {
	p := c.P
	isRelease := func(i ssa.Instruction) bool {
		cc := core.CallCommonOf(i)
		if cc == nil || cc.StaticCallee() == nil {
			return false
		}
		n := cc.StaticCallee().Name()
		return n == "release" || n == "replace"
	}
	storeTo := func(i ssa.Instruction, field string) bool {
		st, ok := i.(*ssa.Store)
		if !ok {
			return false
		}
		fa, ok := st.Addr.(*ssa.FieldAddr)
		return ok && core.FieldOfAddr(fa).Name() == field
	}
	n := 0
	for _, fn := range pkgFunctions(p, pkg) {
		if strings.HasSuffix(p.Pos(fn.Pos()), "_test.go") {
			continue
		}
		perFn := map[string]int{}
		for _, b := range fn.Blocks {
			if len(b.Instrs) == 0 {
				continue
			}
			iff, ok := b.Instrs[len(b.Instrs)-1].(*ssa.If)
			if !ok {
				continue
			}
			bo, ok := iff.Cond.(*ssa.BinOp)
			if !ok || (bo.Op != token.NEQ && bo.Op != token.EQL) {
				continue
			}
			var ld ssa.Value
			if core.IsNilConst(bo.Y) {
				ld = bo.X
			} else if core.IsNilConst(bo.X) {
				ld = bo.Y
			} else {
				continue
			}
			a, ok := core.IsLoad(ld)
			if !ok {
				continue
			}
			fa, ok := a.(*ssa.FieldAddr)
			if !ok || !isPagePtr(fa.X.Type()) {
				continue
			}
			link := core.FieldOfAddr(fa).Name()
			var back, end string
			switch link {
			case "next":
				back, end = "prev", "last"
			case "prev":
				back, end = "next", "first"
			default:
				continue
			}
			// x itself must not be the head of a single-ended list (no tail pointer to maintain)
			if xa, ok := core.IsLoad(fa.X); ok {
				if xf, ok := xa.(*ssa.FieldAddr); ok && core.FieldOfAddr(xf).Name() != "first" && core.FieldOfAddr(xf).Name() != "last" && core.FieldOfAddr(xf).Name() != "next" && core.FieldOfAddr(xf).Name() != "prev" {
					continue
				}
			}
			nonNil, nilSide := 0, 1
			if bo.Op == token.EQL {
				nonNil, nilSide = 1, 0
			}
			// the non-nil side stores (x.link).back
			updates := false
			for _, ins := range b.Succs[nonNil].Instrs {
				if st, ok := ins.(*ssa.Store); ok {
					if f2, ok := st.Addr.(*ssa.FieldAddr); ok && core.FieldOfAddr(f2).Name() == back {
						if a2, ok := core.IsLoad(f2.X); ok {
							if f3, ok := a2.(*ssa.FieldAddr); ok && f3.Field == fa.Field && f3.X == fa.X {
								updates = true
							}
						}
					}
				}
			}
			if !updates {
				continue
			}
			n++
			perFn[link]++
			key := core.FnKey(fn) + "/unlink:" + link
			if perFn[link] > 1 {
				key += "#" + string(rune('0'+perFn[link]))
			}
			// (a) from the nil edge, a store to `end` before any release
			first := b.Succs[nilSide].Instrs[0]
			after := storeTo(first, end) || (!isRelease(first) && core.ForwardSearch(fn, first, func(i ssa.Instruction) bool { return storeTo(i, end) }, isRelease) != nil)
			// (b) a store to `end` that reaches the test without crossing a release
			before := false
			core.Instrs(fn, func(i ssa.Instruction) {
				if storeTo(i, end) && !before {
					if core.ForwardSearch(fn, i, func(j ssa.Instruction) bool { return j == ssa.Instruction(iff) }, func(j ssa.Instruction) bool { return isRelease(j) }) != nil {
						before = true
					}
				}
			})
			r.Check(after || before, key, p.InstrPos(iff), "the nil side maintains ."+end, "x."+link+"."+back+" is updated when x."+link+" != nil but when it is nil the queue's ."+end+" pointer is not updated before the page is released: ."+end+" keeps pointing at a released page, later segments are linked behind it and are never delivered")
		}
	}
	c.Counts[pkg+"_unlink_tests"] = n
	if n < 3 {
		r.Missing(pkg+"/unlink-tests", fmt.Sprintf("only %d one-sided link updates found (3 confirmed by reading)", n))
	}
}

// pageFieldPath: addr is a field address (possibly nested through embedded
// structs) rooted at a *page value; returns the dotted path and the root.
func pageFieldPath(addr ssa.Value) (string, ssa.Value) {
	pth, base := core.FieldPath(addr)
	if pth == "" || !isPagePtr(base.Type()) {
		return "", nil
	}
	return pth, base
}

func checkPageReset(c *core.Ctx, r *core.Rule, pkg string) {
	p := c.P
	next := p.Func(pkg, "pageCache.next")
	if next == nil {
		r.Missing(pkg+".pageCache.next", "not found")
		return
	}
	fns := pkgFunctions(p, pkg)
	// flattened per-use fields of page
	var pageT *types.Struct
	for _, fn := range fns {
		for _, pa := range fn.Params {
			if isPagePtr(pa.Type()) {
				pageT = pa.Type().(*types.Pointer).Elem().Underlying().(*types.Struct)
			}
		}
	}
	if pageT == nil {
		r.Missing(pkg+".page", "type not found")
		return
	}
	var fields []string
	var flat func(prefix string, st *types.Struct)
	flat = func(prefix string, st *types.Struct) {
		for i := 0; i < st.NumFields(); i++ {
			f := st.Field(i)
			if _, isArr := f.Type().Underlying().(*types.Array); isArr {
				continue // backing storage
			}
			if sub, ok := f.Type().Underlying().(*types.Struct); ok && f.Embedded() {
				flat(prefix+f.Name()+".", sub)
				continue
			}
			fields = append(fields, prefix+f.Name())
		}
	}
	flat("", pageT)
	covers := func(set map[string]bool, f string) bool {
		if set[f] {
			return true
		}
		for i := len(f) - 1; i > 0; i-- {
			if f[i] == '.' && set[f[:i]] {
				return true
			}
		}
		return false
	}
	// stores in next on the returned page (next is straight-line after the page is obtained: require dominance of the return)
	inNext := map[string]bool{}
	rets := core.Returns(next)
	core.Instrs(next, func(ins ssa.Instruction) {
		st, ok := ins.(*ssa.Store)
		if !ok {
			return
		}
		pth, _ := pageFieldPath(st.Addr)
		if pth == "" {
			return
		}
		dom := true
		for _, rt := range rets {
			if !core.Dominates(ins, rt) {
				dom = false
			}
		}
		if dom {
			inNext[pth] = true
		}
	})
	// stores by the functions that call next, on any page value (may-store)
	byCallers := map[string]bool{}
	// fields that can hold a non-zero value: stored anywhere outside next with a value that is not the zero constant
	dirty := map[string]ssa.Instruction{}
	g := p.CG(false)
	callers := map[*ssa.Function]bool{}
	if n := g.Nodes[next]; n != nil {
		for _, e := range n.In {
			callers[e.Caller.Func] = true
		}
	}
	for _, fn := range fns {
		if fn == next {
			continue
		}
		core.Instrs(fn, func(ins ssa.Instruction) {
			st, ok := ins.(*ssa.Store)
			if !ok {
				return
			}
			pth, _ := pageFieldPath(st.Addr)
			if pth == "" {
				return
			}
			if callers[fn] {
				byCallers[pth] = true
			}
			zero := false
			if k, ok := st.Val.(*ssa.Const); ok && (k.Value == nil || k.IsNil() || (k.Value.String() == "0") || k.Value.String() == "false") {
				zero = true
			}
			if !zero {
				if _, seen := dirty[pth]; !seen {
					dirty[pth] = ins
				}
			}
		})
	}
	n := 0
	for _, f := range fields {
		at, isDirty := dirty[f]
		if !isDirty {
			continue
		}
		n++
		key := core.FnKey(next) + "/resets:" + f
		switch {
		case covers(inNext, f):
			r.OK(key, p.Pos(next.Pos()), "reset in next")
		case covers(byCallers, f):
			r.OK(key, p.Pos(next.Pos()), "stored by the function that takes the page from next")
		default:
			r.Violate(key, p.Pos(next.Pos()), "page field "+f+" receives a value at "+p.InstrPos(at)+" but is neither reset when a page is recycled nor stored by the code that takes the page from the cache: the next segment buffered in that page is delivered with the earlier segment's "+f, nil)
		}
	}
	if n < 3 {
		r.Missing(pkg+"/page-fields", fmt.Sprintf("only %d dirty-capable page fields found", n))
	}
}

// checkBatchReset: effects on the Assembler's `ret` batch — RESET (ret = ret[:0]),
// APPEND (any other store to ret) and SEND (the stream's Reassembled*
// callback).  Summaries: a function "appends first" if some path from its
// entry reaches an APPEND before a RESET; it "ends sent" if some path from a
// SEND reaches its exit without a RESET.  A violation is a path from a
// SEND-like instruction to an APPEND-like one with no RESET in between.
func checkBatchReset(c *core.Ctx, r *core.Rule, pkg string) {
	p := c.P
	fns := pkgFunctions(p, pkg)
	isRetAddr := func(a ssa.Value) bool {
		fa, ok := a.(*ssa.FieldAddr)
		return ok && core.FieldOfAddr(fa).Name() == "ret" && core.NamedIs(fa.X.Type(), "Assembler")
	}
	kindOf := func(ins ssa.Instruction) string {
		if st, ok := ins.(*ssa.Store); ok && isRetAddr(st.Addr) {
			if sl, ok := st.Val.(*ssa.Slice); ok && sl.High != nil {
				if k, ok := core.ConstInt(sl.High); ok && k == 0 {
					return "RESET"
				}
			}
			return "APPEND"
		}
		if cc := core.CallCommonOf(ins); cc != nil && cc.IsInvoke() && strings.HasPrefix(cc.Method.Name(), "Reassembled") && core.NamedIs(cc.Value.Type(), "Stream") {
			return "SEND"
		}
		return ""
	}
	appendsFirst := map[*ssa.Function]bool{}
	endsSent := map[*ssa.Function]bool{}
	mustReset := map[*ssa.Function]bool{}
	calleeOf := func(ins ssa.Instruction) *ssa.Function {
		if _, isDefer := ins.(*ssa.Defer); isDefer {
			return nil
		}
		if cc := core.CallCommonOf(ins); cc != nil {
			return cc.StaticCallee()
		}
		return nil
	}
	isReset := func(ins ssa.Instruction) bool {
		if kindOf(ins) == "RESET" {
			return true
		}
		if f := calleeOf(ins); f != nil && mustReset[f] {
			return true
		}
		return false
	}
	isAppend := func(ins ssa.Instruction) bool {
		if kindOf(ins) == "APPEND" {
			return true
		}
		if f := calleeOf(ins); f != nil && appendsFirst[f] {
			return true
		}
		return false
	}
	isSend := func(ins ssa.Instruction) bool {
		if kindOf(ins) == "SEND" {
			return true
		}
		if f := calleeOf(ins); f != nil && endsSent[f] {
			return true
		}
		return false
	}
	isRet := func(ins ssa.Instruction) bool { _, ok := ins.(*ssa.Return); return ok }
	for changed, iter := true, 0; changed && iter < 10; iter++ {
		changed = false
		for _, fn := range fns {
			if !appendsFirst[fn] && core.ForwardSearch(fn, nil, isAppend, isReset) != nil {
				appendsFirst[fn] = true
				changed = true
			}
			if !endsSent[fn] {
				core.Instrs(fn, func(ins ssa.Instruction) {
					if !endsSent[fn] && isSend(ins) && core.ForwardSearch(fn, ins, isRet, isReset) != nil {
						endsSent[fn] = true
						changed = true
					}
				})
			}
			if !mustReset[fn] && !appendsFirst[fn] {
				// a RESET on every path from entry to exit
				has := false
				core.Instrs(fn, func(ins ssa.Instruction) {
					if kindOf(ins) == "RESET" {
						has = true
					}
				})
				if has && core.ForwardSearch(fn, nil, isRet, isReset) == nil {
					mustReset[fn] = true
					changed = true
				}
			}
		}
	}
	n := 0
	for _, fn := range fns {
		k := 0
		core.Instrs(fn, func(ins ssa.Instruction) {
			if !isSend(ins) {
				return
			}
			n++
			k++
			key := core.FnKey(fn) + "/after-delivery"
			if k > 1 {
				key += "#" + string(rune('0'+k))
			}
			hit := core.ForwardSearch(fn, ins, isAppend, isReset)
			if hit == nil {
				r.OK(key, p.InstrPos(ins), "no append to the batch follows this delivery without a reset")
			} else {
				r.Violate(key, p.InstrPos(ins), "after this delivery the batch a.ret is appended to again at "+p.InstrPos(hit)+" without having been emptied: chunks already handed to the stream are handed to it a second time", nil)
			}
		})
	}
	if n < 2 {
		r.Missing(pkg+"/deliveries", fmt.Sprintf("only %d delivery sites found", n))
	}
}

// checkCoupledAccumulators (R9.10): where a list is built by appending in a
// loop while an integer accumulates the elements' lengths, any later point
// that replaces the list by an empty one must also take the integer back to
// zero: the two are handed on together (saved pages and their byte count).
func checkCoupledAccumulators(c *core.Ctx, r *core.Rule, pkg string) {
	p := c.P
	isEmptySlice := func(v ssa.Value) bool {
		switch x := v.(type) {
		case *ssa.Slice:
			if x.High != nil {
				if k, ok := core.ConstInt(x.High); ok && k == 0 {
					return true
				}
			}
			if pt, ok := x.X.Type().Underlying().(*types.Pointer); ok {
				if at, ok := pt.Elem().Underlying().(*types.Array); ok && at.Len() == 0 {
					return true
				}
			}
		case *ssa.MakeSlice:
			if k, ok := core.ConstInt(x.Len); ok && k == 0 {
				return true
			}
		case *ssa.Const:
			return x.IsNil()
		}
		return false
	}
	n := 0
	for _, fn := range pkgFunctions(p, pkg) {
		if strings.HasSuffix(p.Pos(fn.Pos()), "_test.go") {
			continue
		}
		// accumulators: block with  r2 = append(rPhi, x)  and  s2 = sPhi + len(...)
		type pair struct {
			rPhi, sPhi *ssa.Phi
		}
		var pairs []pair
		for _, b := range fn.Blocks {
			var rPhi, sPhi *ssa.Phi
			for _, ins := range b.Instrs {
				if call, ok := ins.(*ssa.Call); ok {
					if nm, cc := core.BuiltinCall(call); nm == "append" {
						if ph, ok := cc.Args[0].(*ssa.Phi); ok {
							rPhi = ph
						}
					}
				}
				if bo, ok := ins.(*ssa.BinOp); ok && bo.Op == token.ADD {
					for _, pr := range [][2]ssa.Value{{bo.X, bo.Y}, {bo.Y, bo.X}} {
						if ph, ok := pr[0].(*ssa.Phi); ok {
							if _, isLen := core.IsLen(pr[1]); isLen {
								sPhi = ph
							}
						}
					}
				}
			}
			if rPhi != nil && sPhi != nil && rPhi.Block() == sPhi.Block() {
				pairs = append(pairs, pair{rPhi, sPhi})
			}
		}
		for _, pr := range pairs {
			// a later merge that may replace the list by an empty one
			for _, j := range fn.Blocks {
				for _, ins := range j.Instrs {
					ph, ok := ins.(*ssa.Phi)
					if !ok {
						break
					}
					if !types.Identical(ph.Type(), pr.rPhi.Type()) || ph == pr.rPhi {
						continue
					}
					fromLoop, emptyEdge := false, -1
					for i, e := range ph.Edges {
						if e == ssa.Value(pr.rPhi) {
							fromLoop = true
						}
						if isEmptySlice(e) {
							emptyEdge = i
						}
					}
					if !fromLoop || emptyEdge < 0 {
						continue
					}
					n++
					key := fmt.Sprintf("%s/coupled-reset#%d", core.FnKey(fn), n)
					// the integer at the same merge
					ok2 := false
					for _, i2 := range j.Instrs {
						sp, isPhi := i2.(*ssa.Phi)
						if !isPhi {
							break
						}
						uses := false
						for _, e := range sp.Edges {
							if e == ssa.Value(pr.sPhi) {
								uses = true
							}
						}
						if uses {
							if k, isK := core.ConstInt(sp.Edges[emptyEdge]); isK && k == 0 {
								ok2 = true
							}
						}
					}
					r.Check(ok2, key, p.InstrPos(ph), "the byte count is zeroed on the edge that empties the list", "the list is replaced by an empty one on some path but the accumulated byte count keeps its value: the next delivery announces saved bytes it does not contain, so a stream honouring the count skips that many new bytes")
				}
			}
		}
	}
	c.Counts[pkg+"_coupled_resets"] = n
}

// isLimitPredicate: f returns a bool, has no effects (no stores, no calls) and
// compares a counter with one of the MaxBufferedPages* options: a page-limit
// test moved into a helper.
func isLimitPredicate(f *ssa.Function) bool {
	if f == nil || len(f.Blocks) == 0 || f.Signature.Results().Len() != 1 {
		return false
	}
	if bt, ok := f.Signature.Results().At(0).Type().Underlying().(*types.Basic); !ok || bt.Kind() != types.Bool {
		return false
	}
	pure, cmp := true, false
	core.Instrs(f, func(ins ssa.Instruction) {
		switch x := ins.(type) {
		case *ssa.Store, *ssa.Call, *ssa.Go, *ssa.Defer, *ssa.MapUpdate, *ssa.Send:
			pure = false
		case *ssa.BinOp:
			_, xc := core.ConstInt(x.X)
			_, yc := core.ConstInt(x.Y)
			if !xc && !yc && (x.Op == token.GEQ || x.Op == token.GTR || x.Op == token.LSS || x.Op == token.LEQ) && readsLimit(x, 0) {
				cmp = true
			}
		}
	})
	return pure && cmp
}

// checkPairedLinks (R9.11/R10.10): the page queues are doubly linked; a store
// x.next = y with a page y is accompanied, in the same function, by a store
// y.prev = x (and symmetrically), where y may be named directly or as x.next.
func checkPairedLinks(c *core.Ctx, r *core.Rule, pkg string) {
	p := c.P
	n := 0
	for _, fn := range pkgFunctions(p, pkg) {
		if strings.HasSuffix(p.Pos(fn.Pos()), "_test.go") {
			continue
		}
		type linkStore struct {
			st        *ssa.Store
			base, val ssa.Value
			field     string
		}
		var stores []linkStore
		core.Instrs(fn, func(ins ssa.Instruction) {
			st, ok := ins.(*ssa.Store)
			if !ok {
				return
			}
			fa, ok := st.Addr.(*ssa.FieldAddr)
			if !ok || !isPagePtr(fa.X.Type()) {
				return
			}
			nm := core.FieldOfAddr(fa).Name()
			if nm != "next" && nm != "prev" {
				return
			}
			stores = append(stores, linkStore{st, fa.X, st.Val, nm})
		})
		// same page value: identical / structurally equal (loads of the same field of the same page),
		// or a load of base.field
		same := func(v ssa.Value, w ssa.Value, viaBase ssa.Value, viaField string) bool {
			if v == w || structEq(v, w, 0) {
				return true
			}
			for _, pr := range [][2]ssa.Value{{v, w}, {w, v}} {
				if a, ok := core.IsLoad(pr[0]); ok {
					if fa, ok := a.(*ssa.FieldAddr); ok && (fa.X == viaBase || structEq(fa.X, viaBase, 0)) && core.FieldOfAddr(fa).Name() == viaField && pr[0] == v {
						return true
					}
				}
			}
			return false
		}
		k := 0
		for _, s := range stores {
			if core.IsNilConst(s.val) {
				continue
			}
			other := "prev"
			if s.field == "prev" {
				other = "next"
			}
			n++
			k++
			key := fmt.Sprintf("%s/link:%s#%d", core.FnKey(fn), s.field, k)
			paired := false
			for _, t := range stores {
				if t.field != other {
					continue
				}
				// t: y.other = x  where y is s.val (or s.base.field) and x is s.base
				if same(t.base, s.val, s.base, s.field) && (t.val == s.base || structEq(t.val, s.base, 0) || same(s.base, t.val, t.base, t.field)) {
					paired = true
				}
			}
			if paired {
				r.OK(key, p.InstrPos(s.st), "the opposite link is stored as well")
			} else {
				// a page that was just unlinked or is about to be linked by the caller is decided there: only definite
				// when both pages are live queue pages, which this syntactic rule cannot tell; report when the value
				// is a page obtained in this function (pageCache.next / a parameter being inserted)
				r.Violate(key, p.InstrPos(s.st), "x."+s.field+" = y is stored but y."+other+" = x is not stored anywhere in this function: the queue is no longer consistently doubly linked, so a walk in the other direction skips or loses pages (buffered bytes are never delivered)", nil)
			}
		}
	}
	c.Counts[pkg+"_link_stores"] = n
}

// checkConnReset (R9.12 / R10.12): connection objects are recycled through
// the pool's free list and re-armed by connection.reset.  Every field of the
// connection (and of its two half-connections) into which some function of
// the package stores a value that may be non-zero must be stored by reset on
// every path (a store of the whole struct counts; a store through a
// *halfconnection that is not rooted at the receiver is credited to both
// halves).  A field reset forgets — the queue's first/last pointers, say —
// hands the previous connection's state to the next connection.
func checkConnReset(c *core.Ctx, r *core.Rule, pkg string) {
	p := c.P
	reset := p.Func(pkg, "connection.reset")
	if reset == nil || len(reset.Blocks) == 0 {
		r.Missing(pkg+".connection.reset", "not found")
		return
	}
	connT, ok := reset.Params[0].Type().Underlying().(*types.Pointer).Elem().Underlying().(*types.Struct)
	if !ok {
		r.Missing(pkg+".connection", "type not found")
		return
	}
	isSync := func(t types.Type) bool {
		if nt, ok := t.(*types.Named); ok && nt.Obj().Pkg() != nil && nt.Obj().Pkg().Path() == "sync" {
			return true
		}
		return false
	}
	var fields []string
	halfFields := map[string]bool{} // field names of nested (non-embedded) struct members, for crediting
	var flat func(prefix string, st *types.Struct)
	flat = func(prefix string, st *types.Struct) {
		for i := 0; i < st.NumFields(); i++ {
			f := st.Field(i)
			if isSync(f.Type()) {
				continue
			}
			if sub, ok := f.Type().Underlying().(*types.Struct); ok && !isSync(f.Type()) {
				if nt, ok := f.Type().(*types.Named); !ok || nt.Obj().Pkg() == nil || nt.Obj().Pkg().Path() != "time" {
					flat(prefix+f.Name()+".", sub)
					continue
				}
			}
			fields = append(fields, prefix+f.Name())
			if prefix != "" {
				halfFields[f.Name()] = true
			}
		}
	}
	flat("", connT)
	covers := func(set map[string]bool, f string) bool {
		if set[f] {
			return true
		}
		for i := len(f) - 1; i > 0; i-- {
			if f[i] == '.' && set[f[:i]] {
				return true
			}
		}
		return false
	}
	rets := core.Returns(reset)
	inReset := map[string]bool{}
	core.Instrs(reset, func(ins ssa.Instruction) {
		st, ok := ins.(*ssa.Store)
		if !ok {
			return
		}
		dom := true
		for _, rt := range rets {
			if !core.Dominates(ins, rt) {
				dom = false
			}
		}
		if pth, base := core.FieldPath(st.Addr); pth != "" && base == ssa.Value(reset.Params[0]) {
			if dom {
				inReset[pth] = true
			}
			return
		}
		// a store through some other pointer to a nested struct (re-arming both halves in a loop)
		if fa, ok := st.Addr.(*ssa.FieldAddr); ok {
			name := core.FieldOfAddr(fa).Name()
			if halfFields[name] {
				for _, f := range fields {
					if strings.HasSuffix(f, "."+name) {
						inReset[f] = true
					}
				}
			}
		}
	})
	// dirty-capable fields: stored outside reset with a value that is not the zero constant
	dirty := map[string]ssa.Instruction{}
	for _, fn := range pkgFunctions(p, pkg) {
		if fn == reset || strings.HasSuffix(p.Pos(fn.Pos()), "_test.go") {
			continue
		}
		core.Instrs(fn, func(ins ssa.Instruction) {
			st, ok := ins.(*ssa.Store)
			if !ok {
				return
			}
			fa, ok := st.Addr.(*ssa.FieldAddr)
			if !ok {
				return
			}
			if k, isK := st.Val.(*ssa.Const); isK && (k.Value == nil || k.Value.String() == "0" || k.Value.String() == "false") {
				return
			}
			owner := fa.X.Type().Underlying().(*types.Pointer).Elem()
			name := core.FieldOfAddr(fa).Name()
			for _, f := range fields {
				last := f
				if i := strings.LastIndex(f, "."); i >= 0 {
					last = f[i+1:]
				}
				if last != name {
					continue
				}
				// the owner struct must be the connection or one of its nested structs
				if strings.Contains(f, ".") {
					if _, isConn := owner.Underlying().(*types.Struct); isConn && owner.Underlying() != types.Type(connT) {
						if _, seen := dirty[f]; !seen {
							dirty[f] = ins
						}
					}
				} else if owner.Underlying() == types.Type(connT) {
					if _, seen := dirty[f]; !seen {
						dirty[f] = ins
					}
				}
			}
		})
	}
	n := 0
	for _, f := range fields {
		at, isDirty := dirty[f]
		if !isDirty {
			continue
		}
		n++
		key := pkg + ".connection.reset/resets:" + f
		if covers(inReset, f) {
			r.OK(key, p.Pos(reset.Pos()), "stored by reset on every path")
		} else {
			r.Violate(key, p.Pos(reset.Pos()), "connection field "+f+" receives a value at "+p.InstrPos(at)+" but connection.reset, which re-arms a recycled connection object, does not store it on every path: a new connection taken from the free list starts with the previous connection's "+f+" (queued pages or counters of a stream that no longer exists are delivered to, or counted for, the new one)", nil)
		}
	}
	c.Counts[pkg+"_connection_dirty_fields"] = n
	if n < 4 {
		r.Missing(pkg+"/connection dirty fields", fmt.Sprintf("only %d found", n))
	}
}

// checkOverlapAlways (R9.13): in the reassembly package the packet being
// handled is compared with the out-of-order queue (checkOverlap trims or drops
// queued pages the packet covers, or trims the packet) on every path of every
// function that does so at all; the only condition that may skip the
// comparison is that the queue is empty (x.first == nil).  A "fast path" that
// skips it for other reasons leaves a queued page overlapping delivered bytes:
// the page is later delivered again, with a negative skip.
func checkOverlapAlways(c *core.Ctx, r *core.Rule, pkg string) {
	p := c.P
	co := p.Func(pkg, "Assembler.checkOverlap")
	if co == nil {
		r.Missing(pkg+".Assembler.checkOverlap", "not found")
		return
	}
	n := 0
	for _, fn := range pkgFunctions(p, pkg) {
		if fn == co || len(fn.Blocks) == 0 {
			continue
		}
		calls := false
		core.Instrs(fn, func(ins ssa.Instruction) {
			if cc := core.CallCommonOf(ins); cc != nil && cc.StaticCallee() == co {
				calls = true
			}
		})
		if !calls {
			continue
		}
		n++
		emptyQueue := func(b *ssa.BasicBlock) bool {
			for _, dc := range core.DomConds(b) {
				bo, ok := dc.V.(*ssa.BinOp)
				if !ok {
					continue
				}
				for _, side := range [][2]ssa.Value{{bo.X, bo.Y}, {bo.Y, bo.X}} {
					if !core.IsNilConst(side[1]) {
						continue
					}
					if ld, ok := side[0].(*ssa.UnOp); ok && ld.Op == token.MUL {
						if fa, ok := ld.X.(*ssa.FieldAddr); ok && core.FieldOfAddr(fa).Name() == "first" {
							if (bo.Op == token.EQL && dc.Truth) || (bo.Op == token.NEQ && !dc.Truth) {
								return true
							}
						}
					}
				}
			}
			return false
		}
		esc := core.ForwardSearch(fn, nil, func(i ssa.Instruction) bool {
			_, isRet := i.(*ssa.Return)
			return isRet && !emptyQueue(i.Block())
		}, func(i ssa.Instruction) bool {
			if cc := core.CallCommonOf(i); cc != nil && cc.StaticCallee() == co {
				return true
			}
			return false
		})
		r.Check(esc == nil, core.FnKey(fn)+"/checkOverlap-on-every-path", p.Pos(fn.Pos()), "every path compares the packet with the queue (or the queue is empty)", "a path through this function returns without comparing the packet with the out-of-order queue although the queue may hold pages: a queued page that overlaps the bytes delivered now stays queued, stalls the stream and is delivered again at the next flush (negative skip, duplicated bytes)")
	}
	if n < 1 {
		r.Missing(pkg+"/checkOverlap callers", "none found")
	}
}

// checkCoherentTriples (R9.14 = R11.12 = R12.7): functions of the reassembly
// package that return a connection together with its two half-connections
// return, at every return, three results of one and the same call (or three
// nils): a connection paired with the halves of another connection object —
// for instance of the object that was just given back to the free list —
// delivers a packet to a stream that is not registered in the pool.
func checkCoherentTriples(c *core.Ctx, r *core.Rule) {
	p := c.P
	n := 0
	for _, fn := range pkgFunctions(p, "reassembly") {
		res := fn.Signature.Results()
		if res.Len() != 3 || !core.NamedIs(res.At(0).Type(), "connection") || !core.NamedIs(res.At(1).Type(), "halfconnection") || !core.NamedIs(res.At(2).Type(), "halfconnection") {
			continue
		}
		for i, ret := range core.Returns(fn) {
			var tuples []ssa.Value
			nils, other := 0, 0
			for k := 0; k < 3; k++ {
				v := core.RetOperand(ret, k)
				switch x := v.(type) {
				case *ssa.Extract:
					tuples = append(tuples, x.Tuple)
				case *ssa.Const:
					nils++
				default:
					other++
				}
			}
			key := fmt.Sprintf("%s/return#%d/coherent", core.FnKey(fn), i+1)
			switch {
			case len(tuples) == 3 && tuples[0] == tuples[1] && tuples[1] == tuples[2]:
				n++
				r.OK(key, p.InstrPos(ret), "connection and halves are results of one call")
			case nils == 3:
				n++
				r.OK(key, p.InstrPos(ret), "all nil")
			case len(tuples) >= 2 && (tuples[0] != tuples[len(tuples)-1] || (len(tuples) == 3 && tuples[0] != tuples[1])):
				n++
				r.Violate(key, p.InstrPos(ret), "the connection returned here comes from one lookup and a half-connection returned with it from another: the caller then works on the halves of a connection object that is not the one registered in the pool (after a lost creation race: the object that was just pushed on the free list), so its stream receives packets but never a completion, and the registered connection never sees them", nil)
			default:
				// built in place (newConnection): the halves are addresses of fields of the returned object
				n++
				okAddr := true
				cv := core.RetOperand(ret, 0)
				for k := 1; k < 3; k++ {
					v := core.RetOperand(ret, k)
					if fa, ok := v.(*ssa.FieldAddr); !ok || fa.X != cv {
						okAddr = false
					}
				}
				if okAddr {
					r.OK(key, p.InstrPos(ret), "halves are fields of the returned connection")
				} else {
					r.Undecided(key, p.InstrPos(ret), "results not recognised as one call's results or fields of the returned connection")
				}
			}
		}
	}
	if n < 4 {
		r.Missing("reassembly/connection triples", fmt.Sprintf("only %d returns found", n))
	}
}

// containerSiblings (R9.15): page and livePacket both implement the
// assembler's byteContainer; cleanSG treats them alike and works out how much
// of the pending `skip` a container consumed from the change of its length().
// For the methods that receive such a skip, the implementations must agree on
// the update of the receiver's own window: fields that exist in both receiver
// types (bytes, seq) and are stored by one implementation of a method must be
// stored by the other implementation of that method.
func containerSiblings(c *core.Ctx, r *core.Rule) {
	p := c.P
	iface := p.Iface("reassembly", "byteContainer")
	if iface == nil {
		r.Missing("reassembly.byteContainer", "interface not found")
		return
	}
	n := 0
	for i := 0; i < iface.NumMethods(); i++ {
		m := iface.Method(i)
		impls := p.Implementations(iface, m.Name(), "reassembly")
		if len(impls) < 2 {
			continue
		}
		// only methods that take an integer amount (skip) can consume part of the window
		takesInt := false
		sig := m.Type().(*types.Signature)
		for k := 0; k < sig.Params().Len(); k++ {
			if bt, ok := sig.Params().At(k).Type().Underlying().(*types.Basic); ok && bt.Info()&types.IsInteger != 0 {
				takesInt = true
			}
		}
		if !takesInt {
			continue
		}
		written := map[*ssa.Function]map[string]bool{}
		fieldsOf := map[*ssa.Function]map[string]bool{}
		for _, fn := range impls {
			w := map[string]bool{}
			core.Instrs(fn, func(ins ssa.Instruction) {
				if st, ok := ins.(*ssa.Store); ok {
					if pth, ok := core.RecvFieldAddrPath(fn, st.Addr); ok {
						w[pth] = true
					}
				}
			})
			written[fn] = w
			fs := map[string]bool{}
			if pt, ok := fn.Params[0].Type().Underlying().(*types.Pointer); ok {
				if st, ok := pt.Elem().Underlying().(*types.Struct); ok {
					for k := 0; k < st.NumFields(); k++ {
						fs[st.Field(k).Name()] = true
					}
				}
			}
			fieldsOf[fn] = fs
		}
		for a := 0; a < len(impls); a++ {
			for b := 0; b < len(impls); b++ {
				if a == b {
					continue
				}
				fa, fb := impls[a], impls[b]
				for f := range written[fa] {
					if f == "prev" || f == "next" {
						continue // list links exist only while queued
					}
					if !fieldsOf[fb][f] {
						continue
					}
					n++
					key := fmt.Sprintf("reassembly.byteContainer.%s/%s-updated-by:%s", m.Name(), f, core.FnKey(fb))
					if written[fb][f] {
						r.OK(key, p.Pos(fb.Pos()), "both implementations store "+f)
					} else {
						r.Violate(key, p.Pos(fb.Pos()), fmt.Sprintf("%s stores the receiver's %s (it consumes the amount it is given from its own window) but %s does not: the caller treats both kinds of container alike and derives what was consumed from the change of length(), so after a container of this kind the unconsumed amount is applied again to the next container — bytes the stream asked to keep are cut off the following page and the kept data is no longer contiguous (it is dropped instead of being presented again)", core.FnKey(fa), f, core.FnKey(fb)), nil)
					}
				}
			}
		}
	}
	c.Counts["container_sibling_fields"] = n
	if n < 1 {
		r.Missing("reassembly/byteContainer sibling updates", "no common stored field found")
	}
}

// checkTailAdvance (R9.16 / R10.16): where a list of pages is built from runs
// returned as (first, last, …) — the run is linked with tail.next = first —
// the variable that plays the tail is advanced to the run's *last* page.
// Advancing it to `first` is the same thing for one-page runs and drops pages
// 2..n of a longer run from the list (they are never delivered or released).
func checkTailAdvance(c *core.Ctx, r *core.Rule, pkg string) {
	p := c.P
	n := 0
	for _, fn := range pkgFunctions(p, pkg) {
		k := 0
		core.Instrs(fn, func(ins ssa.Instruction) {
			st, ok := ins.(*ssa.Store)
			if !ok {
				return
			}
			fa, ok := st.Addr.(*ssa.FieldAddr)
			if !ok || core.FieldOfAddr(fa).Name() != "next" {
				return
			}
			ex, ok := st.Val.(*ssa.Extract)
			if !ok || ex.Index != 0 {
				return
			}
			call, ok := ex.Tuple.(*ssa.Call)
			if !ok {
				return
			}
			tup, ok := call.Type().(*types.Tuple)
			if !ok || tup.Len() < 2 || !isPagePtr(tup.At(0).Type()) || !isPagePtr(tup.At(1).Type()) {
				return
			}
			// the tail: fa.X must be (a φ of) a loop-carried variable
			tail, ok := fa.X.(*ssa.Phi)
			if !ok {
				return
			}
			n++
			k++
			key := fmt.Sprintf("%s/tail-advance#%d", core.FnKey(fn), k)
			// values flowing back into the tail φ from inside the loop
			bad := false
			seen := map[ssa.Value]bool{}
			var walk func(v ssa.Value, d int)
			walk = func(v ssa.Value, d int) {
				if d > 6 || seen[v] {
					return
				}
				seen[v] = true
				switch x := v.(type) {
				case *ssa.Phi:
					if x == tail {
						return
					}
					for _, e := range x.Edges {
						walk(e, d+1)
					}
				case *ssa.Extract:
					if x.Tuple == ssa.Value(call) && x.Index == 0 {
						bad = true
					}
				}
			}
			for i, pr := range tail.Block().Preds {
				if tail.Block().Dominates(pr) {
					walk(tail.Edges[i], 0)
				}
			}
			r.Check(!bad, key, p.InstrPos(ins), "the tail is advanced to the last page of the run", "after linking a run of pages behind the tail (tail.next = first) the tail variable is set to the run's first page on some path, not to its last: for a run of more than one page the following link overwrites first.next, so pages 2..n of the run drop out of the list — they are neither delivered (or kept) nor given back to the page cache")
		})
	}
	if pkg == "reassembly" && n < 1 {
		r.Missing(pkg+"/run linking", "no tail.next = first of a (first,last) run found")
	}
}
