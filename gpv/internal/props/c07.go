package props

import (
	"fmt"
	"go/types"
	"sort"
	"strings"

	"golang.org/x/tools/go/ssa"

	"gpv/internal/core"
	"gpv/internal/effect"
	"gpv/internal/guard"
)

func init() { register("C07", checkC07) }

type byteSet map[int64]bool

func (b byteSet) clone() byteSet {
	n := byteSet{}
	for k := range b {
		n[k] = true
	}
	return n
}
func bsIntersect(a, b byteSet) byteSet {
	n := byteSet{}
	for k := range a {
		if b[k] {
			n[k] = true
		}
	}
	return n
}
func bsEqual(a, b byteSet) bool {
	if len(a) != len(b) {
		return false
	}
	for k := range a {
		if !b[k] {
			return false
		}
	}
	return true
}

// writesOf: byte indices of buf (relative to root) that ins definitely writes;
// may: indices it may write (copy of unknown length); reads: indices read.
func coverEffects(fn *ssa.Function, ins ssa.Instruction, buf ssa.Value, helper func(*ssa.Function) (byteSet, bool)) (must, may, reads byteSet) {
	must, may, reads = byteSet{}, byteSet{}, byteSet{}
	mayAll := func() {
		for i := int64(0); i < 4096; i++ {
			may[i] = true
		}
	}
	switch x := ins.(type) {
	case *ssa.Store:
		if ia, ok := x.Addr.(*ssa.IndexAddr); ok {
			if k, ok := core.ConstFold(ia.Index); ok {
				if b, ok := baseOffset(ia.X, buf, 0); ok {
					must[b+k] = true
				} else if derivesFrom(ia.X, buf, 0) {
					mayAll()
				}
			} else if derivesFrom(ia.X, buf, 0) {
				mayAll() // variable index (loop fill)
			}
		}
	case *ssa.UnOp:
		if a, ok := core.IsLoad(x); ok {
			if ia, ok := a.(*ssa.IndexAddr); ok {
				if k, ok := core.ConstFold(ia.Index); ok {
					if b, ok := baseOffset(ia.X, buf, 0); ok {
						reads[b+k] = true
					}
				}
			}
		}
	case *ssa.Call:
		if _, w, put, ok := binaryOrder(x); ok && put {
			if b, ok := baseOffset(x.Call.Args[1], buf, 0); ok {
				for i := int64(0); i < w; i++ {
					must[b+i] = true
				}
			} else if derivesFrom(x.Call.Args[1], buf, 0) {
				mayAll() // variable offset
			}
			return
		}
		if nm, cc := core.BuiltinCall(x); nm == "copy" {
			dst := cc.Args[0]
			if n, ok := exactLenAt(fn, cc.Args[1], ins.Block()); ok {
				// the source has exactly n bytes here: copy writes min(len(dst), n) bytes
				if b, okB := baseOffset(dst, buf, 0); okB {
					lim := n
					if sl, isSl := dst.(*ssa.Slice); isSl && sl.High != nil {
						if hi, okH := core.ConstFold(sl.High); okH {
							lo := int64(0)
							if sl.Low != nil {
								lo, _ = core.ConstFold(sl.Low)
							}
							if hi-lo < lim {
								lim = hi - lo
							}
						}
					}
					for i := int64(0); i < lim; i++ {
						must[b+i] = true
					}
					return
				}
			}
			if sl, ok := dst.(*ssa.Slice); ok {
				lo := int64(0)
				okL := true
				if sl.Low != nil {
					lo, okL = core.ConstFold(sl.Low)
				}
				if b, ok := baseOffset(sl.X, buf, 0); ok && okL {
					hi := int64(-1)
					if sl.High != nil {
						hi, _ = core.ConstFold(sl.High)
					}
					// how many bytes does the source surely have?
					srcLen := int64(-1)
					if s2, ok := cc.Args[1].(*ssa.Slice); ok {
						if pt, ok := s2.X.Type().Underlying().(*types.Pointer); ok {
							if arr, ok := pt.Elem().Underlying().(*types.Array); ok && s2.Low == nil && s2.High == nil {
								srcLen = arr.Len()
							}
						}
					}
					if hi < 0 {
						hi = b + lo + 4096
					} else {
						hi += b
					}
					for i := b + lo; i < hi && i < b+lo+4096; i++ {
						if srcLen >= 0 && i-(b+lo) < srcLen {
							must[i] = true
						} else {
							may[i] = true
						}
					}
				} else if derivesFrom(dst, buf, 0) {
					mayAll()
				}
			} else if b, ok := baseOffset(dst, buf, 0); ok {
				for i := b; i < b+4096; i++ {
					may[i] = true
				}
			} else if derivesFrom(dst, buf, 0) {
				mayAll()
			}
			return
		}
		// helper receiving the buffer (or a constant re-slice of it)
		if f := x.Call.StaticCallee(); f != nil && helper != nil {
			for ai, a := range x.Call.Args {
				if b, ok := baseOffset(a, buf, 0); ok && core.IsByteSlice(a.Type()) {
					_ = ai
					if hs, ok := helper(f); ok {
						for k := range hs {
							must[b+k] = true
						}
					} else {
						for i := b; i < b+4096; i++ {
							may[i] = true
						}
					}
				}
			}
		}
	}
	return
}

func checkC07(c *core.Ctx) {
	p := c.P
	roots := p.Roots()
	c.Explain = "Structural clauses of 'serialization never panics; output depends only on layer, payload, options': (R7.1) COVER — for every PrependBytes/AppendBytes request of constant size N in a SerializeTo, a forward must-write dataflow (stores to bytes[k], PutUintNN, copies from fixed-size arrays, helper summaries; copies of unknown length count as may-writes) shows that on every successful return each of the N bytes was written: a byte that no instruction on some success path writes leaks stale buffer contents; (R7.2) no requested byte is read (|=, +=, checksum of the header) before it was written; (R7.3) GUARD over the serializers with the layer's public fields arbitrary: no constant-offset access to a slice field without a dominating length check; (R7.4) serializers read no package-level variable that anything outside initialisation writes, and no package-level array is handed out through a layer field. Not decided: sizing loop = writing loop for variable-length layers, equality of outputs across buffer histories beyond the no-hole/no-read-before-write clauses."
	r1 := c.Rule("R7.1", "D", "every byte of a constant-size buffer request is written on every successful path")
	r2 := c.Rule("R7.2", "D", "no requested byte is read before it is written")
	r3 := c.Rule("R7.3", "D", "serializers have no definite out-of-range access to a layer's slice fields")
	r4 := c.Rule("R7.4", "T", "serializers read no mutable global; no global array escapes into a layer field")
	r7 := c.Rule("R7.7", "D", "sizes and bounds in serializers are not computed in uint8/uint16 from a field plus a constant where that wraps")
	{
		n := 0
		for _, fn := range core.SortedFns(p.Roots().SerReach) {
			if fn.Pkg == nil || len(fn.Blocks) == 0 || strings.HasSuffix(p.Pos(fn.Pos()), "_test.go") {
				continue
			}
			for i, s := range guard.NarrowLengthOps(fn, nil) {
				n++
				key := fmt.Sprintf("%s/narrow-%s#%d", core.FnKey(fn), s.At.Op.String(), i+1)
				if s.What == "buffer request size" || s.Definite {
					r7.Violate(key, p.InstrPos(s.At), fmt.Sprintf("%s is evaluated in %s on a layer field and wraps for large values; the wrapped result is used as a %s at %s: the buffer request (or slice) is too small for what is then written, so serializing a layer that decoding can produce panics", s.At.Op.String(), s.At.Type().String(), s.What, p.InstrPos(s.Use)), nil)
				} else {
					r7.Undecided(key, p.InstrPos(s.At), fmt.Sprintf("%s in %s can wrap; used as a %s at %s", s.At.Op.String(), s.At.Type().String(), s.What, p.InstrPos(s.Use)))
				}
			}
		}
		if n == 0 {
			r7.OK("serialize/narrow-size-arithmetic", "", "no wrapping 8/16-bit size arithmetic in serializers")
		}
	}
	r6 := c.Rule("R7.6", "T", "no write through a stale view: bytes obtained from the SerializeBuffer (Bytes, PrependBytes, AppendBytes) are not written through after a later PrependBytes/AppendBytes on that buffer, which may move the data to a new array")
	{
		n := 0
		for _, fn := range core.SortedFns(p.Roots().SerReach) {
			if fn.Pkg == nil || len(fn.Blocks) == 0 || strings.HasSuffix(p.Pos(fn.Pos()), "_test.go") {
				continue
			}
			isBufCall := func(ins ssa.Instruction, names ...string) (ssa.Value, bool) {
				cc := core.CallCommonOf(ins)
				if cc == nil || !cc.IsInvoke() || !core.NamedIs(cc.Value.Type(), "SerializeBuffer") {
					return nil, false
				}
				for _, nm := range names {
					if cc.Method.Name() == nm {
						return cc.Value, true
					}
				}
				return nil, false
			}
			k := 0
			core.Instrs(fn, func(ins ssa.Instruction) {
				buf, ok := isBufCall(ins, "Bytes", "PrependBytes", "AppendBytes")
				if !ok {
					return
				}
				call, isCall := ins.(*ssa.Call)
				if !isCall {
					return
				}
				var view ssa.Value = call
				if call.Call.Method.Name() != "Bytes" {
					view = nil
					for _, r := range *call.Referrers() {
						if e, ok := r.(*ssa.Extract); ok && e.Index == 0 {
							view = e
						}
					}
				}
				if view == nil {
					return
				}
				n++
				k++
				key := fmt.Sprintf("%s/view#%d", core.FnKey(fn), k)
				var bad, grow ssa.Instruction
				core.Instrs(fn, func(g ssa.Instruction) {
					if bad != nil || g == ins {
						return
					}
					b2, ok := isBufCall(g, "PrependBytes", "AppendBytes")
					if !ok || b2 != buf {
						return
					}
					if core.ForwardSearch(fn, ins, func(i ssa.Instruction) bool { return i == g }, nil) == nil {
						return
					}
					if w := core.ForwardSearch(fn, g, func(i ssa.Instruction) bool { return writesThrough(i, view, 0) }, func(i ssa.Instruction) bool { return i == ins }); w != nil {
						bad, grow = w, g
					}
				})
				if bad == nil {
					r6.OK(key, p.InstrPos(ins), "not written through after a later growth of the buffer")
				} else {
					r6.Violate(key, p.InstrPos(ins), "the bytes obtained here are written at "+p.InstrPos(bad)+" after "+p.InstrPos(grow)+" may have moved the buffer to a new array: when the buffer had to grow the write lands in the abandoned array and the output lacks it, so the output depends on the buffer's spare capacity", nil)
				}
			})
		}
		c.Counts["buffer_views"] = n
		if n < 100 {
			r6.Missing("serialize/views", fmt.Sprintf("only %d buffer views found", n))
		}
	}
	currentFieldInConditions(c, c.Rule("R7.9", "T", "SerializeTo branches on the current value of a receiver field it also stores (= R6.9): otherwise the first and the second serialization of one layer differ"))
	sizerMeasuresWhatWriterEmits(c, c.Rule("R7.10", "T", "the length of the slice a writer over *T returns depends only on inputs the sizer over *T depends on"))
	coArgumentAgreement(c, c.Rule("R7.8", "T", "sizing and writing passes over the same object pair each field with the same metadata accessor (= R6.8)"))
	r5 := c.Rule("R7.5", "T", "layout selectors agree: the comparisons on a receiver field by which SerializeTo chooses what to write are the comparisons by which the size helper it calls chooses how much to request")
	{
		n := 0
		for _, ser := range p.Roots().Ser {
			if ser.Signature.Recv() == nil || len(ser.Blocks) == 0 {
				continue
			}
			mine := condAtoms(ser)
			if len(mine) == 0 {
				continue
			}
			seen := map[*ssa.Function]bool{}
			core.Instrs(ser, func(ins ssa.Instruction) {
				cc := core.CallCommonOf(ins)
				if cc == nil {
					return
				}
				h := cc.StaticCallee()
				if h == nil || seen[h] || h.Signature.Recv() == nil || len(h.Blocks) == 0 || len(cc.Args) == 0 || cc.Args[0] != ssa.Value(ser.Params[0]) {
					return
				}
				seen[h] = true
				theirs := condAtoms(h)
				for f, ta := range theirs {
					ma, ok := mine[f]
					if !ok {
						continue
					}
					n++
					key := core.FnKey(ser) + "/selector:" + f + "/vs:" + h.Name()
					r5.Check(atomList(ma) == atomList(ta), key, p.Pos(ser.Pos()), "both branch on "+f+" by {"+atomList(ma)+"}", "SerializeTo branches on "+f+" by {"+atomList(ma)+"} but "+h.Name()+", which sizes the buffer, by {"+atomList(ta)+"}: for the values on which they differ the layer is written with a layout that does not fit the requested bytes (panic, or bytes left unwritten)")
				}
			})
		}
		c.Counts["selector_pairs"] = n
		if n < 1 {
			r5.Missing("serialize/selector pairs", "no SerializeTo/size-helper pair branching on a common field found (DHCPv6 was confirmed by reading)")
		}
	}

	// helper summaries: bytes of the first []byte parameter written on every return
	helperMemo := map[*ssa.Function]byteSet{}
	helperOK := map[*ssa.Function]bool{}
	var helper func(f *ssa.Function) (byteSet, bool)
	helper = func(f *ssa.Function) (byteSet, bool) {
		if hs, ok := helperMemo[f]; ok {
			return hs, helperOK[f]
		}
		helperMemo[f] = byteSet{}
		helperOK[f] = false
		if len(f.Blocks) == 0 || !p.InModule(f) {
			return nil, false
		}
		var bp ssa.Value
		for _, pa := range f.Params {
			if core.IsByteSlice(pa.Type()) {
				bp = pa
				break
			}
		}
		if bp == nil {
			return nil, false
		}
		written, _, _ := coverRun(f, bp, nil, nil)
		helperMemo[f] = written
		helperOK[f] = true
		return written, true
	}

	nReq, nConst := 0, 0
	nPC := 0
	pcMemo := map[*ssa.Function]*pcover{}
	for _, fn := range roots.Ser {
		if fn.Name() != "SerializeTo" {
			continue
		}
		ord := 0
		core.Instrs(fn, func(ins ssa.Instruction) {
			call, ok := ins.(*ssa.Call)
			if !ok || !call.Call.IsInvoke() || (call.Call.Method.Name() != "PrependBytes" && call.Call.Method.Name() != "AppendBytes") {
				return
			}
			nReq++
			ord++
			n, isK := core.ConstFold(call.Call.Args[0])
			var buf ssa.Value
			for _, ref := range *call.Referrers() {
				if e, ok := ref.(*ssa.Extract); ok && e.Index == 0 {
					buf = e
				}
			}
			key := fmt.Sprintf("%s/%s#%d", core.FnKey(fn), call.Call.Method.Name(), ord)
			if !isK || buf == nil || n <= 0 || n > 2048 {
				// PCOVER: concrete scenarios (flags enumerated, variable-length fields empty, loops not entered)
				pc := pcMemo[fn]
				if pc == nil {
					pc = PCover(fn, helper)
					pcMemo[fn] = pc
				}
				nPC++
				if h := pc.holes[call]; h != nil {
					r1.Violate(key, p.InstrPos(ins), fmt.Sprintf("with {%s} and every variable-length field empty, %d bytes are requested but byte(s) %v are written by no instruction before the successful return: the packet carries whatever the buffer held before", h.Conds, h.Size, compress(h.Bytes)), nil)
				} else if why := pc.undec[call]; why != "" {
					r1.Undecided(key, p.InstrPos(ins), "request size is not a constant; "+why)
				} else {
					r1.Undecided(key, p.InstrPos(ins), fmt.Sprintf("request size is not a constant; no hole in the %d concrete scenarios explored (flag combinations with empty variable-length fields, loops not entered) — not a proof", pc.okPaths[call]))
				}
				return
			}
			nConst++
			written, mayW, rbw := coverRun(fn, buf, helper, call)
			var holes, soft []int64
			for i := int64(0); i < n; i++ {
				if !written[i] {
					if mayW[i] {
						soft = append(soft, i)
					} else {
						holes = append(holes, i)
					}
				}
			}
			switch {
			case len(holes) > 0:
				r1.Violate(key, p.InstrPos(ins), fmt.Sprintf("%d bytes are requested but byte(s) %v are written by no instruction on some successful path: the packet carries whatever the buffer held before", n, compress(holes)), nil)
			case len(soft) > 0:
				pc := pcMemo[fn]
				if pc == nil {
					pc = PCover(fn, helper)
					pcMemo[fn] = pc
				}
				if h := pc.holes[call]; h != nil {
					r1.Violate(key, p.InstrPos(ins), fmt.Sprintf("with {%s} and every variable-length field empty, %d bytes are requested but byte(s) %v are written by no instruction before the successful return (they are covered only by copies whose length is that of a field nothing validates): the packet carries whatever the buffer held before", h.Conds, h.Size, compress(h.Bytes)), nil)
				} else {
					r1.Undecided(key, p.InstrPos(ins), fmt.Sprintf("bytes %v are covered only by copies of unknown length", compress(soft)))
				}
			default:
				r1.OK(key, p.InstrPos(ins), fmt.Sprintf("all %d bytes written on every successful path", n))
			}
			if len(rbw) > 0 {
				var ks []int64
				for k := range rbw {
					ks = append(ks, k)
				}
				sort.Slice(ks, func(i, j int) bool { return ks[i] < ks[j] })
				r2.Violate(key+"/read-before-write", p.InstrPos(rbw[ks[0]]), fmt.Sprintf("byte(s) %v of the requested buffer are read before anything was written to them: the output depends on the buffer's previous contents", compress(ks)), nil)
			} else {
				r2.OK(key+"/read-before-write", p.InstrPos(ins), "no read of an unwritten byte")
			}
		})
	}
	c.Counts["buffer_requests"] = nReq
	c.Counts["constant_size_requests"] = nConst
	c.Counts["variable_size_requests_walked"] = nPC
	if nConst < 30 {
		r1.Missing("layers/requests", fmt.Sprintf("only %d constant-size requests found", nConst))
	}

	// ---- R7.3
	nSites := 0
	for _, fn := range core.SortedFns(roots.SerReach) {
		if fn.Signature.Recv() == nil || len(fn.Blocks) == 0 {
			continue
		}
		sites := guard.Analyze(fn, nil)
		seen := map[string]int{}
		for i := range sites {
			s := &sites[i]
			if s.Class != "CAND-load" {
				continue
			}
			// provenance: a field of the receiver
			fld := recvFieldRoot(fn, s.Slice)
			if fld == "" {
				continue
			}
			nSites++
			base := fmt.Sprintf("%s/%s%s", core.FnKey(fn), fld, s.What)
			seen[base]++
			key := base
			if seen[base] > 1 {
				key = fmt.Sprintf("%s#%d", base, seen[base])
			}
			if fn.Name() != "SerializeTo" {
				r3.Undecided(key, p.InstrPos(s.Ins), "helper of a serializer: callers may have validated the field")
				continue
			}
			r3.Violate(key, p.InstrPos(s.Ins), fmt.Sprintf("%s on field %s needs %d element(s) but no dominating check establishes more than %d: serializing a layer whose %s is shorter (e.g. nil) panics instead of returning an error", s.What, fld, s.Need, s.Have, fld), nil)
		}
	}
	c.Counts["serializer_field_sites"] = nSites
	r3.OK("scan", "", fmt.Sprintf("%d serializer functions scanned", len(roots.SerReach)))

	// ---- R7.4
	eff := effects(p)
	written := map[*ssa.Global]*effect.Write{}
	for _, fn := range core.SortedFns(p.AllFns) {
		s := eff.Sum[fn]
		if s == nil || isInitLike(fn) || initOnly(p, fn, 0) || isRegistration(fn) {
			continue
		}
		for _, w := range s.Writes {
			if w.Origin == nil && w.Root.Kind == effect.Global {
				if _, ok := written[w.Root.Global]; !ok {
					written[w.Root.Global] = w
				}
			}
		}
	}
	for _, fn := range core.SortedFns(roots.SerReach) {
		core.Instrs(fn, func(ins ssa.Instruction) {
			for _, op := range ins.Operands(nil) {
				g, ok := (*op).(*ssa.Global)
				if !ok || g.Pkg == nil || !strings.HasPrefix(g.Pkg.Pkg.Path(), core.Mod) {
					continue
				}
				if w, ok := written[g]; ok {
					r4.Violate(core.FnKey(fn)+"/reads-mutable-global:"+g.Name(), p.InstrPos(ins), "serializer reads package-level "+g.Name()+", which is written at "+p.InstrPos(w.At)+" outside initialisation: the output depends on hidden state", nil)
				}
				// escape of a global array through a slice stored into a receiver field
				if sl, ok := ins.(*ssa.Slice); ok && sl.X == ssa.Value(g) {
					for _, ref := range *sl.Referrers() {
						if st, ok := ref.(*ssa.Store); ok && st.Val == ssa.Value(sl) {
							if pth, base := core.FieldPath(st.Addr); pth != "" && core.IsRecvParam(fn, base) {
								r4.Violate(core.FnKey(fn)+"/global-escapes:"+g.Name()+"->"+pth, p.InstrPos(st), "a window onto package-level array "+g.Name()+" is stored into the layer's field "+pth+": a caller writing through that field changes what every later serialization emits", nil)
							}
						}
					}
				}
			}
		})
	}
	// recycled memory is hidden state too: an object taken from a sync.Pool keeps what its last
	// user wrote, so bytes the serializer skips (alignment gaps, absent fields) come from an
	// earlier serialization unless the object is cleared first
	for _, fn := range core.SortedFns(roots.SerReach) {
		if !p.InModule(fn) {
			continue
		}
		k := 0
		core.Instrs(fn, func(ins ssa.Instruction) {
			call, ok := ins.(*ssa.Call)
			if !ok || core.StaticName(&call.Call) != "(*sync.Pool).Get" {
				return
			}
			k++
			// the object (through the type assertion) must be cleared before any other use:
			// clear(x[:]) / *x = T{} as the first use on every path
			cleared := false
			var objs []ssa.Value
			objs = append(objs, call)
			for _, ref := range *call.Referrers() {
				if ta, ok := ref.(*ssa.TypeAssert); ok {
					objs = append(objs, ta)
					for _, r2 := range *ta.Referrers() {
						if ex, ok := r2.(*ssa.Extract); ok {
							objs = append(objs, ex)
						}
					}
				}
			}
			isObj := func(v ssa.Value) bool {
				for _, o := range objs {
					if v == o {
						return true
					}
					if sl, ok := v.(*ssa.Slice); ok && sl.X == o && sl.Low == nil && sl.High == nil {
						return true
					}
				}
				return false
			}
			first := core.ForwardSearch(fn, ins, func(i ssa.Instruction) bool {
				switch x := i.(type) {
				case *ssa.TypeAssert, *ssa.Extract, *ssa.Slice, *ssa.DebugRef, *ssa.If, *ssa.Jump:
					return false
				case *ssa.Store:
					if isObj(x.Addr) {
						if _, isK := x.Val.(*ssa.Const); isK {
							cleared = true
						}
						return true
					}
				case ssa.CallInstruction:
					cc := x.Common()
					if bi, ok := cc.Value.(*ssa.Builtin); ok && bi.Name() == "clear" && len(cc.Args) == 1 && isObj(cc.Args[0]) {
						cleared = true
						return true
					}
				}
				for _, op := range i.Operands(nil) {
					if *op != nil && isObj(*op) {
						return true
					}
				}
				return false
			}, nil)
			key := fmt.Sprintf("%s/pooled-memory-cleared#%d", core.FnKey(fn), k)
			if first != nil && cleared {
				r4.OK(key, p.InstrPos(ins), "the pooled object is cleared before its first use")
			} else {
				r4.Violate(key, p.InstrPos(ins), "the serializer takes working memory from a sync.Pool and does not clear it before use: bytes it does not overwrite (alignment gaps, fields that are absent) keep what an earlier serialization left there, so the output depends on which layers were written before, even into a fresh buffer", nil)
			}
		})
	}
	r4.OK("scan", "", fmt.Sprintf("%d serializer-reachable functions scanned", len(roots.SerReach)))
}

// coverRun: forward must-write analysis of buffer buf in fn.  Returns the
// bytes written on every successful return, the bytes possibly written, and
// reads of bytes not yet written (index -> instruction).
func coverRun(fn *ssa.Function, buf ssa.Value, helper func(*ssa.Function) (byteSet, bool), req *ssa.Call) (byteSet, byteSet, map[int64]ssa.Instruction) {
	in := map[*ssa.BasicBlock]byteSet{}
	out := map[*ssa.BasicBlock]byteSet{}
	mayAll := byteSet{}
	rbw := map[int64]ssa.Instruction{}
	start := fn.Blocks[0]
	if bi, ok := buf.(ssa.Instruction); ok {
		start = bi.Block()
	}
	in[start] = byteSet{}
	work := []*ssa.BasicBlock{start}
	transfer := func(b *ssa.BasicBlock, s byteSet, record bool) byteSet {
		cur := s.clone()
		for _, ins := range b.Instrs {
			must, may, reads := coverEffects(fn, ins, buf, helper)
			if record {
				for k := range reads {
					if !cur[k] {
						// a read of the same instruction's own earlier write does not count
						if _, dup := rbw[k]; !dup {
							rbw[k] = ins
						}
					}
				}
			}
			for k := range must {
				cur[k] = true
			}
			for k := range may {
				mayAll[k] = true
			}
			// a checksum over the buffer before all bytes are written is also a read; handled via reads of b.Bytes() elsewhere
		}
		return cur
	}
	for iter := 0; len(work) > 0 && iter < 5000; iter++ {
		b := work[0]
		work = work[1:]
		o := transfer(b, in[b], false)
		if old, ok := out[b]; ok && bsEqual(old, o) {
			continue
		}
		out[b] = o
		for _, s := range b.Succs {
			if cur, ok := in[s]; ok {
				n := bsIntersect(cur, o)
				if bsEqual(n, cur) {
					continue
				}
				in[s] = n
			} else {
				in[s] = o.clone()
			}
			work = append(work, s)
		}
	}
	for b, s := range in {
		transfer(b, s, true)
	}
	var res byteSet
	first := true
	for _, ret := range core.Returns(fn) {
		o, ok := out[ret.Block()]
		if !ok {
			continue
		}
		if n := len(ret.Results); n > 0 {
			last := core.RetOperand(ret, n-1)
			if types.Identical(last.Type(), errorType) && provablyNonNilErr(last, ret.Block()) {
				continue
			}
		}
		if first {
			res, first = o.clone(), false
		} else {
			res = bsIntersect(res, o)
		}
	}
	if res == nil {
		res = byteSet{}
	}
	return res, mayAll, rbw
}

func compress(ks []int64) string {
	if len(ks) == 0 {
		return "[]"
	}
	var parts []string
	s, e := ks[0], ks[0]
	for _, k := range ks[1:] {
		if k == e+1 {
			e = k
			continue
		}
		parts = append(parts, rng(s, e))
		s, e = k, k
	}
	parts = append(parts, rng(s, e))
	return "[" + strings.Join(parts, ",") + "]"
}

func rng(s, e int64) string {
	if s == e {
		return fmt.Sprint(s)
	}
	return fmt.Sprintf("%d-%d", s, e)
}

// recvFieldRoot: slice value descends (through re-slices) from a load of a receiver field path.
func recvFieldRoot(fn *ssa.Function, v ssa.Value) string {
	for depth := 0; depth < 8; depth++ {
		switch x := v.(type) {
		case *ssa.Slice:
			v = x.X
		case *ssa.ChangeType:
			v = x.X
		case *ssa.Convert:
			v = x.X
		case *ssa.UnOp:
			pth, base := core.FieldPath(x.X)
			if pth != "" && core.IsRecvParam(fn, base) {
				return pth
			}
			return ""
		default:
			return ""
		}
	}
	return ""
}

// derivesFrom: v is buf re-sliced in any way (possibly with variable bounds).
func derivesFrom(v, buf ssa.Value, depth int) bool {
	if depth > 8 {
		return false
	}
	if v == buf {
		return true
	}
	switch x := v.(type) {
	case *ssa.Slice:
		return derivesFrom(x.X, buf, depth+1)
	case *ssa.Phi:
		for _, e := range x.Edges {
			if e != ssa.Value(x) && derivesFrom(e, buf, depth+1) {
				return true
			}
		}
	case *ssa.ChangeType:
		return derivesFrom(x.X, buf, depth+1)
	}
	return false
}

// exactLenAt: v is a load of a receiver field whose length is pinned to a
// constant by a dominating `len(field) != K => return` / `== K` test, or a
// full slice of a fixed-size array.
func exactLenAt(fn *ssa.Function, v ssa.Value, b *ssa.BasicBlock) (int64, bool) {
	if s2, ok := v.(*ssa.Slice); ok {
		if pt, ok := s2.X.Type().Underlying().(*types.Pointer); ok {
			if arr, ok := pt.Elem().Underlying().(*types.Array); ok {
				// a slice of an array with constant (or absent) bounds has exactly hi-lo elements
				lo, hi := int64(0), arr.Len()
				okB := true
				if s2.Low != nil {
					lo, okB = core.ConstFold(s2.Low)
				}
				if s2.High != nil && okB {
					hi, okB = core.ConstFold(s2.High)
				}
				if okB && lo >= 0 && hi >= lo && hi <= arr.Len() {
					return hi - lo, true
				}
			}
		}
	}
	pth, ok := core.RecvFieldLoad(fn, v)
	if !ok {
		return 0, false
	}
	for _, dc := range core.DomConds(b) {
		bo, ok := dc.V.(*ssa.BinOp)
		if !ok {
			continue
		}
		sl, isLen := core.IsLen(bo.X)
		if !isLen {
			continue
		}
		p2, ok := core.RecvFieldLoad(fn, sl)
		if !ok || p2 != pth {
			continue
		}
		k, isK := core.ConstFold(bo.Y)
		if !isK {
			continue
		}
		if (bo.Op.String() == "==" && dc.Truth) || (bo.Op.String() == "!=" && !dc.Truth) {
			return k, true
		}
	}
	return 0, false
}
