package props

import (
	"fmt"
	"go/token"
	"go/types"

	"golang.org/x/tools/go/ssa"

	"gpv/internal/core"
	"gpv/internal/lin"
)

func init() { register("C18", checkC18) }

func sbInterp(fn *ssa.Function) *lin.Interp {
	S, L, C := lin.Sym("start"), lin.Sym("len"), lin.Sym("cap")
	P, Q := lin.Sym("prepended"), lin.Sym("appended")
	in := &lin.Interp{Fn: fn,
		Init: func(cell string, t types.Type) lin.Val {
			switch cell {
			case "data":
				return lin.SliceD{Base: "old", Off: lin.K(0), Len: L, Cap: C}
			case "start":
				return S
			case "prepended":
				return P
			case "appended":
				return Q
			case "layers":
				return lin.SliceD{Base: "layers", Off: lin.K(0), Len: lin.Sym("nlayers"), Cap: lin.Sym("caplayers")}
			}
			return nil
		},
		ParamVal: func(p *ssa.Parameter) lin.Val {
			if b, ok := p.Type().Underlying().(*types.Basic); ok && b.Info()&types.IsInteger != 0 {
				return lin.Sym(p.Name())
			}
			return nil
		},
		// representation invariant of the buffer: 0 <= start <= len <= cap, growth hints >= 0
		Facts: []lin.Lin{S, L.Sub(S), C.Sub(L), P, Q},
	}
	in.Run()
	return in
}

func checkC18(c *core.Ctx) {
	p := c.P
	c.Explain = "Structural clauses of the serialize-buffer contract decided by abstract interpretation of writer.go over linear normal forms (all loop-free paths of PrependBytes/AppendBytes/Clear, slice descriptors = backing array + offset/len/cap as linear terms over the entry state, assuming the representation invariant 0 <= start <= len <= cap): (R18.1) Clear sets start to the remembered prepend capacity, truncates data to start and empties the layer list; (R18.3) whenever an operation moves to a new backing array the old contents data[start:] are copied, in full, to exactly the position the new start/len describe (re-base agreement), and without growth they stay in place; (R18.4) the returned window has exactly the requested length, lies directly before (prepend) / directly after (append) the old contents and inside the buffer, and the contents' length grows by exactly num; negative num is rejected; (R18.2) SerializeLayers clears first, walks the layers from last to first, returns a layer's error, and pushes a layer's type only after its SerializeTo succeeded; Bytes() is data[start:]. Not decided: content preservation over whole operation histories as values (follows from the per-operation clauses only under the stated invariant), user-implemented SerializeBuffers."
	r1 := c.Rule("R18.1", "T", "Clear resets start, data and the recorded layers")
	r2 := c.Rule("R18.2", "T", "SerializeLayers protocol: Clear first, innermost layer first, push only after success, errors returned")
	r3 := c.Rule("R18.3", "T", "re-base agreement: growth copies the old contents to exactly where the new start/len place them")
	r4 := c.Rule("R18.4", "T", "returned window: requested length, adjacent to the old contents, inside the buffer")

	S, L := lin.Sym("start"), lin.Sym("len")
	oldLen := L.Sub(S)

	for _, op := range []string{"PrependBytes", "AppendBytes"} {
		fn := p.Func("", "serializeBuffer."+op)
		key := "gopacket.(*serializeBuffer)." + op
		if fn == nil {
			r3.Missing(key, "method not found")
			continue
		}
		in := sbInterp(fn)
		num := lin.Sym(fn.Params[1].Name())
		nOK, nPanic := 0, 0
		sawGrow, sawStay := false, false
		for pi, path := range in.Paths {
			pk := fmt.Sprintf("%s/path%v", key, path.Trace)
			_ = pi
			if path.Panics {
				nPanic++
				continue
			}
			site := p.Pos(fn.Pos())
			if path.RetIns != nil {
				site = p.InstrPos(path.RetIns)
			}
			if len(path.Unknown) > 0 {
				r3.Violate(pk+"/modelled", site, "operation uses constructs the buffer model does not cover: "+path.Unknown[0], nil)
				continue
			}
			data, ok1 := path.Cells["data"].(lin.SliceD)
			start, ok2 := path.Cells["start"].(lin.Lin)
			if !ok2 {
				start, ok2 = S, true
			}
			var ret lin.SliceD
			ok3 := false
			if len(path.Ret) >= 1 {
				ret, ok3 = path.Ret[0].(lin.SliceD)
			}
			if !ok1 {
				// data not re-stored on this path: unchanged
				data, ok1 = lin.SliceD{Base: "old", Off: lin.K(0), Len: L, Cap: lin.Sym("cap")}, true
			}
			if !ok2 || !ok3 {
				r4.Violate(pk+"/window", site, "returned slice or final start is not a linear function of the entry state", nil)
				continue
			}
			facts := append([]lin.Lin{num}, path.Facts...) // on non-panicking paths num >= 0 must have been established
			// was num >= 0 really established on this path?
			if !lin.NonNeg(num, path.Facts) {
				r4.Violate(pk+"/negative-num", site, "a negative length is not rejected on this path", nil)
				continue
			}
			contentOff := data.Off.Add(start)
			contentLen := data.Len.Sub(start)
			bad := ""
			// window
			if ret.Base != data.Base {
				bad = "returned window is not backed by the buffer's current array"
			} else if !ret.Len.Eq(num) {
				bad = "returned window has length " + ret.Len.String() + ", requested " + num.String()
			}
			var oldOffNew lin.Lin // where the old contents must now start
			if op == "PrependBytes" {
				if bad == "" && !ret.Off.Eq(contentOff) {
					bad = "prepended window does not start at the new start (window offset " + ret.Off.String() + ", start " + contentOff.String() + ")"
				}
				oldOffNew = contentOff.Add(num)
			} else {
				if bad == "" && !ret.Off.Eq(contentOff.Add(oldLen)) {
					bad = "appended window does not start right after the old contents (window offset " + ret.Off.String() + ", expected " + contentOff.Add(oldLen).String() + ")"
				}
				oldOffNew = contentOff
			}
			if bad == "" && !contentLen.Eq(oldLen.Add(num)) {
				bad = "contents length after the operation is " + contentLen.String() + ", expected " + oldLen.Add(num).String()
			}
			if bad == "" && !(lin.NonNeg(start, facts) && lin.NonNeg(data.Cap.Sub(data.Len), facts)) {
				bad = "cannot show 0 <= start and len <= cap after the operation"
			}
			if bad != "" {
				r4.Violate(pk+"/window", site, bad, map[string]any{"final_start": start.String(), "final_len": data.Len.String(), "window_off": ret.Off.String(), "window_len": ret.Len.String(), "path_facts": factStrings(path.Facts)})
				continue
			}
			r4.OK(pk+"/window", site, "window ["+ret.Off.String()+", +"+ret.Len.String()+"), contents "+contentLen.String()+" bytes")
			// re-base
			if data.Base == "old" {
				sawStay = true
				if !oldOffNew.Eq(S) {
					r3.Violate(pk+"/in-place", site, "without growth the old contents are now expected at offset "+oldOffNew.String()+" but they are at "+S.String(), nil)
					continue
				}
				r3.OK(pk+"/in-place", site, "no growth: old contents stay at offset start")
			} else {
				sawGrow = true
				found := false
				why := "no copy of the old contents into the new array"
				for _, cp := range path.Copies {
					if cp.Dst.Base != data.Base || cp.Src.Base != "old" {
						continue
					}
					switch {
					case !cp.Src.Off.Eq(S):
						why = "growth copies from offset " + cp.Src.Off.String() + " of the old array, contents start at " + S.String()
					case !cp.Dst.Off.Eq(oldOffNew):
						why = "growth copies the old contents to offset " + cp.Dst.Off.String() + " but the new start/len place them at " + oldOffNew.String()
					case !cp.Src.Len.Eq(oldLen):
						why = "growth copies " + cp.Src.Len.String() + " bytes, old contents are " + oldLen.String()
					case !lin.NonNeg(cp.Dst.Len.Sub(cp.Src.Len), facts):
						why = "cannot show the destination window holds all old contents (dst " + cp.Dst.Len.String() + " vs src " + cp.Src.Len.String() + ")"
					default:
						found = true
					}
				}
				if found {
					r3.OK(pk+"/re-base", site, "growth: old contents copied to offset "+oldOffNew.String()+" of the new array")
				} else {
					r3.Violate(pk+"/re-base", site, why, map[string]any{"path_facts": factStrings(path.Facts)})
				}
			}
			nOK++
		}
		if nPanic == 0 {
			r4.Violate(key+"/negative-num", p.Pos(fn.Pos()), "no path rejects a negative length", nil)
		}
		if !sawGrow || !sawStay {
			r3.Missing(key+"/paths", "expected both a growing and a non-growing path")
		}
	}

	// ---- R18.1 Clear
	if fn := p.Func("", "serializeBuffer.Clear"); fn == nil {
		r1.Missing("Clear", "not found")
	} else {
		in := sbInterp(fn)
		key := "gopacket.(*serializeBuffer).Clear"
		if len(in.Paths) == 0 {
			r1.Violate(key+"/modelled", p.Pos(fn.Pos()), "Clear has no modelled path", nil)
		}
		for pi, pt := range in.Paths {
			sfx := ""
			if pi > 0 {
				sfx = fmt.Sprintf("#%d", pi+1)
			}
			if len(pt.Unknown) > 0 || pt.Panics {
				r1.Violate(key+"/modelled"+sfx, p.Pos(fn.Pos()), "a path through Clear is not modelled", nil)
				continue
			}
			start, ok := pt.Cells["start"].(lin.Lin)
			r1.Check(ok && start.Eq(lin.Sym("prepended")), key+"/start"+sfx, p.Pos(fn.Pos()), "start := prepended", "on some path Clear does not reset start to the remembered prepend capacity")
			d, ok2 := pt.Cells["data"].(lin.SliceD)
			r1.Check(ok && ok2 && d.Base == "old" && d.Off.Eq(lin.K(0)) && d.Len.Eq(start), key+"/data"+sfx, p.Pos(fn.Pos()), "data := data[:start] (empty contents)", "on some path the buffer still has contents after Clear (data is not truncated to start)")
			ly, ok3 := pt.Cells["layers"].(lin.SliceD)
			r1.Check(ok3 && ly.Len.Eq(lin.K(0)), key+"/layers"+sfx, p.Pos(fn.Pos()), "layers := layers[:0]", "on some path Clear returns without emptying the list of recorded layers")
		}
	}
	// Bytes / Layers / PushLayer
	if fn := p.Func("", "serializeBuffer.Bytes"); fn != nil {
		in := sbInterp(fn)
		ok := false
		if len(in.Paths) == 1 && len(in.Paths[0].Ret) == 1 {
			if d, isD := in.Paths[0].Ret[0].(lin.SliceD); isD {
				ok = d.Base == "old" && d.Off.Eq(S) && d.Len.Eq(oldLen)
			}
		}
		r4.Check(ok, "gopacket.(*serializeBuffer).Bytes", p.Pos(fn.Pos()), "Bytes() = data[start:]", "Bytes() is not data[start:]")
	} else {
		r4.Missing("Bytes", "not found")
	}
	if fn := p.Func("", "serializeBuffer.PushLayer"); fn != nil {
		ok := false
		for _, st := range storesToField(fn, "serializeBuffer", "layers") {
			if call, isC := st.Val.(*ssa.Call); isC {
				if nm, cc := core.BuiltinCall(call); nm == "append" && fieldLoadOf(cc.Args[0], "serializeBuffer", "layers") {
					ok = true
				}
			}
		}
		r2.Check(ok, "gopacket.(*serializeBuffer).PushLayer", p.Pos(fn.Pos()), "appends to layers", "PushLayer does not append to the recorded layers")
	}
	if fn := p.Func("", "serializeBuffer.Layers"); fn != nil {
		pth, ok := retFieldPath(fn)
		r2.Check(ok && pth == "layers", "gopacket.(*serializeBuffer).Layers", p.Pos(fn.Pos()), "returns layers", "Layers() does not return the recorded layers")
	}

	// ---- R18.2 SerializeLayers
	checkSerializeLayers(c, r2)
}

func factStrings(fs []lin.Lin) []string {
	var out []string
	for _, f := range fs {
		out = append(out, f.String()+" >= 0")
	}
	return out
}

func checkSerializeLayers(c *core.Ctx, r *core.Rule) {
	p := c.P
	fn := p.Func("", "SerializeLayers")
	key := "gopacket.SerializeLayers/"
	if fn == nil {
		r.Missing("SerializeLayers", "not found")
		return
	}
	var ser, push, clear *ssa.Call
	core.Instrs(fn, func(ins ssa.Instruction) {
		call, ok := ins.(*ssa.Call)
		if !ok || !call.Call.IsInvoke() {
			return
		}
		switch call.Call.Method.Name() {
		case "SerializeTo":
			ser = call
		case "PushLayer":
			push = call
		case "Clear":
			clear = call
		}
	})
	if ser == nil || push == nil {
		r.Missing("SerializeLayers/calls", "SerializeTo / PushLayer call not found")
		return
	}
	// Clear precedes
	if clear == nil {
		r.Violate(key+"clear-first", p.Pos(fn.Pos()), "the buffer is not cleared before the layers are written", nil)
	} else {
		esc := core.ForwardSearch(fn, nil, func(i ssa.Instruction) bool { return i == ssa.Instruction(ser) }, func(i ssa.Instruction) bool { return i == ssa.Instruction(clear) })
		onBuf := len(fn.Params) > 0 && clear.Call.Value == ssa.Value(fn.Params[0])
		again := core.ForwardSearch(fn, clear, func(i ssa.Instruction) bool { return i == ssa.Instruction(clear) }, nil) != nil
		r.Check(esc == nil && onBuf && !again, key+"clear-first", p.InstrPos(clear), "Clear() once, before the first SerializeTo", "Clear does not precede the first SerializeTo exactly once on the given buffer")
		early := core.ForwardSearch(fn, nil, func(i ssa.Instruction) bool { _, isRet := i.(*ssa.Return); return isRet }, func(i ssa.Instruction) bool { return i == ssa.Instruction(clear) })
		r.Check(early == nil, key+"clear-always", p.InstrPos(clear), "every return is preceded by Clear()", "a return is reachable without Clear(): for that call (an empty layer list) the buffer keeps the bytes and recorded layers of the previous use instead of the empty result")
	}
	// the layer serialized is layers[i] with i a phi: init len(layers)-1, step -1, loop cond i >= 0
	okIdx := false
	var idxPhi *ssa.Phi
	if ld, ok := ser.Call.Value.(*ssa.UnOp); ok {
		if ia, ok := ld.X.(*ssa.IndexAddr); ok && isParam(fn, ia.X) {
			if ph, ok := ia.Index.(*ssa.Phi); ok {
				idxPhi = ph
				init, step := false, false
				for _, e := range ph.Edges {
					if bo, ok := e.(*ssa.BinOp); ok && bo.Op == token.SUB {
						if k, ok := core.ConstInt(bo.Y); ok && k == 1 {
							if s, ok := core.IsLen(bo.X); ok && s == ia.X {
								init = true
							}
							if bo.X == ssa.Value(ph) {
								step = true
							}
						}
					}
				}
				okIdx = init && step
			}
		}
	}
	r.Check(okIdx, key+"reverse-order", p.InstrPos(ser), "layers are written from index len-1 down by 1", "layers are not serialized innermost-first (index must run from len(layers)-1 down)")
	if idxPhi != nil {
		okCond := false
		for _, dc := range core.DomConds(ser.Block()) {
			if bo, ok := dc.V.(*ssa.BinOp); ok && bo.X == ssa.Value(idxPhi) {
				if k, ok := core.ConstInt(bo.Y); ok {
					if (bo.Op == token.GEQ && k == 0 && dc.Truth) || (bo.Op == token.GTR && k == -1 && dc.Truth) || (bo.Op == token.LSS && k == 0 && !dc.Truth) {
						okCond = true
					}
				}
			}
		}
		r.Check(okCond, key+"all-layers", p.InstrPos(ser), "loop runs while i >= 0 (the outermost layer is included)", "the loop bound drops the outermost layer (must run while i >= 0)")
	}
	// buffer and options passed through
	okArgs := len(ser.Call.Args) == 2 && len(fn.Params) >= 2 && ser.Call.Args[0] == ssa.Value(fn.Params[0]) && ser.Call.Args[1] == ssa.Value(fn.Params[1])
	r.Check(okArgs, key+"args", p.InstrPos(ser), "buffer and options passed through", "SerializeTo is not given the caller's buffer and options")
	// push only on success, of the same layer's type; error returned
	okPush := core.UnderErrNil(push.Block(), ser) && core.Dominates(ser, push)
	sameLayer := false
	if len(push.Call.Args) == 1 {
		if lt, ok := push.Call.Args[0].(*ssa.Call); ok && lt.Call.IsInvoke() && lt.Call.Method.Name() == "LayerType" && lt.Call.Value == ser.Call.Value {
			sameLayer = true
		}
	}
	r.Check(okPush && sameLayer, key+"push-after-success", p.InstrPos(push), "PushLayer(layer.LayerType()) only after that layer's SerializeTo returned nil", "a layer type is recorded although its SerializeTo failed (or of another layer)")
	v, _ := errFlow(fn, ser)
	r.Check(v == efOK, key+"error-returned", p.InstrPos(ser), "SerializeTo's error is returned", "an error from a layer's SerializeTo is not returned")
	// every iteration pushes: from ser on err==nil path back to ser must pass push
	skip := core.ForwardSearch(fn, ser, func(i ssa.Instruction) bool { return i == ssa.Instruction(ser) }, func(i ssa.Instruction) bool { return i == ssa.Instruction(push) })
	r.Check(skip == nil, key+"push-every-layer", p.InstrPos(push), "every successfully written layer is recorded", "an iteration can continue without recording the layer")
}
