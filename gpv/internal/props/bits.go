package props

// BITS: bit-level codec agreement (R6.6).  Decode expressions and serialize
// expressions built from constant shifts, masks, ors, byte loads and
// ByteOrder.UintN calls are evaluated to bit vectors with provenance: every
// bit is 0, 1, "bit p of input byte k" (decode) / "bit i of field F"
// (serialize), or unknown.  Where decode takes bit i of field F from bit p of
// byte k, serialize must put bit i of F at bit p of byte k.

import (
	"fmt"
	"go/constant"
	"go/token"
	"go/types"
	"os"
	"sort"
	"strings"

	"golang.org/x/tools/go/ssa"

	"gpv/internal/core"
)

type bit struct {
	kind byte // 'z' zero, 'o' one, 's' source, 'u' unknown
	name string
	idx  int
}

type bv []bit // LSB first

func bvConst(v uint64, w int) bv {
	out := make(bv, w)
	for i := 0; i < w; i++ {
		if v>>uint(i)&1 == 1 {
			out[i] = bit{kind: 'o'}
		} else {
			out[i] = bit{kind: 'z'}
		}
	}
	return out
}

func bvUnknown(w int) bv {
	out := make(bv, w)
	for i := range out {
		out[i] = bit{kind: 'u'}
	}
	return out
}

func bvSrc(name string, w int) bv {
	out := make(bv, w)
	for i := range out {
		out[i] = bit{kind: 's', name: name, idx: i}
	}
	return out
}

func typeWidth(t types.Type) (int, bool) {
	b, ok := t.Underlying().(*types.Basic)
	if !ok {
		return 0, false
	}
	switch b.Kind() {
	case types.Bool:
		return 1, false
	case types.Uint8:
		return 8, false
	case types.Int8:
		return 8, true
	case types.Uint16:
		return 16, false
	case types.Int16:
		return 16, true
	case types.Uint32:
		return 32, false
	case types.Int32:
		return 32, true
	case types.Uint64, types.Uint, types.Uintptr:
		return 64, false
	case types.Int64, types.Int:
		return 64, true
	}
	return 0, false
}

func bitEq(a, b bit) bool { return a == b }

func bvResize(x bv, w int, signed bool) bv {
	out := make(bv, w)
	for i := 0; i < w; i++ {
		switch {
		case i < len(x):
			out[i] = x[i]
		case signed && len(x) > 0 && x[len(x)-1].kind != 'z':
			out[i] = bit{kind: 'u'}
		default:
			out[i] = bit{kind: 'z'}
		}
	}
	return out
}

func bitAnd(a, b bit) bit {
	switch {
	case a.kind == 'z' || b.kind == 'z':
		return bit{kind: 'z'}
	case a.kind == 'o':
		return b
	case b.kind == 'o':
		return a
	case a.kind == 's' && bitEq(a, b):
		return a
	}
	return bit{kind: 'u'}
}

func bitOr(a, b bit) bit {
	switch {
	case a.kind == 'o' || b.kind == 'o':
		return bit{kind: 'o'}
	case a.kind == 'z':
		return b
	case b.kind == 'z':
		return a
	case a.kind == 's' && bitEq(a, b):
		return a
	}
	return bit{kind: 'u'}
}

type bitEval struct {
	fn *ssa.Function
	// leaf: resolves loads (input bytes on the decode side; receiver fields and request bytes on the serialize side)
	leaf func(v ssa.Value) (bv, bool)
	memo map[ssa.Value]bv
	busy map[ssa.Value]bool
}

func (e *bitEval) eval(v ssa.Value) bv {
	w, _ := typeWidth(v.Type())
	if w == 0 {
		return nil
	}
	if r, ok := e.memo[v]; ok {
		return r
	}
	if e.busy[v] {
		return bvUnknown(w)
	}
	e.busy[v] = true
	defer delete(e.busy, v)
	res := e.eval1(v, w)
	if len(res) != w {
		res = bvResize(res, w, false)
	}
	e.memo[v] = res
	return res
}

func (e *bitEval) eval1(v ssa.Value, w int) bv {
	if c, ok := v.(*ssa.Const); ok {
		if c.Value == nil {
			return bvUnknown(w)
		}
		switch c.Value.Kind() {
		case constant.Int:
			if u, ok := constant.Uint64Val(c.Value); ok {
				return bvConst(u, w)
			}
			if i, ok := constant.Int64Val(c.Value); ok {
				return bvConst(uint64(i), w)
			}
		case constant.Bool:
			if constant.BoolVal(c.Value) {
				return bvConst(1, 1)
			}
			return bvConst(0, 1)
		}
		return bvUnknown(w)
	}
	if e.leaf != nil {
		if r, ok := e.leaf(v); ok {
			return r
		}
	}
	switch x := v.(type) {
	case *ssa.Convert:
		in := e.eval(x.X)
		if in == nil {
			return bvUnknown(w)
		}
		_, signed := typeWidth(x.X.Type())
		return bvResize(in, w, signed)
	case *ssa.ChangeType:
		in := e.eval(x.X)
		if in == nil {
			return bvUnknown(w)
		}
		return bvResize(in, w, false)
	case *ssa.BinOp:
		a, b := e.eval(x.X), e.eval(x.Y)
		switch x.Op {
		case token.AND, token.OR, token.AND_NOT, token.XOR:
			if a == nil || b == nil {
				return bvUnknown(w)
			}
			a, b = bvResize(a, w, false), bvResize(b, w, false)
			out := make(bv, w)
			for i := 0; i < w; i++ {
				switch x.Op {
				case token.AND:
					out[i] = bitAnd(a[i], b[i])
				case token.OR:
					out[i] = bitOr(a[i], b[i])
				case token.AND_NOT:
					nb := bit{kind: 'u'}
					if b[i].kind == 'z' {
						nb = bit{kind: 'o'}
					} else if b[i].kind == 'o' {
						nb = bit{kind: 'z'}
					}
					out[i] = bitAnd(a[i], nb)
				case token.XOR:
					switch {
					case b[i].kind == 'z':
						out[i] = a[i]
					case a[i].kind == 'z':
						out[i] = b[i]
					default:
						out[i] = bit{kind: 'u'}
					}
				}
			}
			return out
		case token.ADD:
			// an addition whose operands never have a possibly-set bit in common is an or
			if a == nil || b == nil {
				return bvUnknown(w)
			}
			a, b = bvResize(a, w, false), bvResize(b, w, false)
			out := make(bv, w)
			for i := 0; i < w; i++ {
				if a[i].kind != 'z' && b[i].kind != 'z' {
					return bvUnknown(w)
				}
				out[i] = bitOr(a[i], b[i])
			}
			return out
		case token.SHL, token.SHR:
			k, ok := core.ConstInt(x.Y)
			if !ok || a == nil || k < 0 || k > 64 {
				return bvUnknown(w)
			}
			a = bvResize(a, w, false)
			out := make(bv, w)
			for i := 0; i < w; i++ {
				j := i - int(k)
				if x.Op == token.SHR {
					j = i + int(k)
				}
				if j >= 0 && j < w {
					out[i] = a[j]
				} else {
					out[i] = bit{kind: 'z'}
				}
			}
			return out
		case token.NEQ, token.EQL, token.GTR:
			// (x & m) != 0 / > 0 / == m with exactly one live bit: the bool is that bit
			if a == nil || b == nil {
				return bvUnknown(1)
			}
			var live []bit
			for _, t := range a {
				if t.kind != 'z' {
					live = append(live, t)
				}
			}
			allZero, oneAtLive := true, false
			for i, t := range b {
				if t.kind != 'z' {
					allZero = false
				}
				if t.kind == 'o' && i < len(a) && a[i].kind != 'z' {
					oneAtLive = true
				}
			}
			if len(live) == 1 && live[0].kind == 's' {
				if (x.Op == token.NEQ || x.Op == token.GTR) && allZero {
					return bv{live[0]}
				}
				if x.Op == token.EQL && oneAtLive {
					return bv{live[0]}
				}
			}
			return bvUnknown(1)
		}
		return bvUnknown(w)
	case *ssa.Phi:
		return e.evalPhi(x, w)
	}
	return bvUnknown(w)
}

// evalPhi: a two-way merge decided by a bool source bit: a bit that is 0 on
// the false side and 1 on the true side is that bool; equal bits stay.
func (e *bitEval) evalPhi(x *ssa.Phi, w int) bv {
	var vals []bv
	for _, ed := range x.Edges {
		vals = append(vals, bvResize(e.eval(ed), w, false))
	}
	same := true
	for _, v := range vals[1:] {
		for i := 0; i < w; i++ {
			if !bitEq(v[i], vals[0][i]) {
				same = false
			}
		}
	}
	if same {
		return vals[0]
	}
	if len(vals) != 2 {
		return bvUnknown(w)
	}
	cond, trueIdx, ok := phiCond(x)
	if !ok {
		return mergeUnknown(vals[0], vals[1])
	}
	cb := e.eval(cond)
	if len(cb) != 1 || cb[0].kind != 's' {
		return mergeUnknown(vals[0], vals[1])
	}
	t, f := vals[trueIdx], vals[1-trueIdx]
	out := make(bv, w)
	for i := 0; i < w; i++ {
		switch {
		case bitEq(t[i], f[i]):
			out[i] = t[i]
		case t[i].kind == 'o' && f[i].kind == 'z':
			out[i] = cb[0]
		default:
			out[i] = bit{kind: 'u'}
		}
	}
	return out
}

func mergeUnknown(a, b bv) bv {
	out := make(bv, len(a))
	for i := range a {
		if bitEq(a[i], b[i]) {
			out[i] = a[i]
		} else {
			out[i] = bit{kind: 'u'}
		}
	}
	return out
}

// phiCond: the phi merges a triangle or diamond whose branch is `if cond`;
// returns cond and the index of the edge that arrives on the true side.
func phiCond(x *ssa.Phi) (ssa.Value, int, bool) {
	b := x.Block()
	if len(b.Preds) != 2 {
		return nil, 0, false
	}
	d := b.Idom()
	if d == nil || len(d.Instrs) == 0 {
		return nil, 0, false
	}
	iff, ok := d.Instrs[len(d.Instrs)-1].(*ssa.If)
	if !ok {
		return nil, 0, false
	}
	reaches := func(from, to *ssa.BasicBlock) bool {
		return from == to || (len(from.Succs) == 1 && from.Succs[0] == to && len(from.Preds) == 1)
	}
	for i, p := range b.Preds {
		other := b.Preds[1-i]
		// true side arrives through p
		tSide := d.Succs[0]
		fSide := d.Succs[1]
		if (p == tSide || (tSide == b && p == d)) && (other == fSide || other == d || reaches(fSide, other)) {
			if p == d && tSide != b {
				continue
			}
			return iff.Cond, i, true
		}
		if tSide != b && reaches(tSide, p) && p != d {
			return iff.Cond, i, true
		}
	}
	return nil, 0, false
}

type bitPos struct {
	byteIdx int64
	bit     int
}

// decodeBits: (field path, bit) -> input position, for fields stored exactly once.
func decodeBits(fn *ssa.Function, data ssa.Value, isObj func(ssa.Value) bool) map[string]map[int]bitPos {
	ev := &bitEval{fn: fn, memo: map[ssa.Value]bv{}, busy: map[ssa.Value]bool{}}
	ev.leaf = func(v ssa.Value) (bv, bool) {
		switch x := v.(type) {
		case *ssa.UnOp:
			if x.Op == token.MUL {
				if ia, ok := x.X.(*ssa.IndexAddr); ok {
					if k, ok := core.ConstFold(ia.Index); ok {
						if b, ok := baseOffset(ia.X, data, 0); ok {
							return bvSrc(fmt.Sprintf("B%d", b+k), 8), true
						}
					}
				}
			}
		case *ssa.Call:
			if order, wd, put, ok := binaryOrder(x); ok && !put && len(x.Call.Args) == 2 {
				if sl, ok := x.Call.Args[1].(*ssa.Slice); ok {
					if off, ok := baseOffset(sl, data, 0); ok {
						out := make(bv, 0, wd*8)
						for i := int64(0); i < wd; i++ {
							idx := off + wd - 1 - i // big endian: last byte is least significant
							if order == "le" {
								idx = off + i
							}
							out = append(out, bvSrc(fmt.Sprintf("B%d", idx), 8)...)
						}
						return out, true
					}
				}
			}
		}
		return nil, false
	}
	stores := map[string][]bv{}
	core.Instrs(fn, func(ins ssa.Instruction) {
		st, ok := ins.(*ssa.Store)
		if !ok {
			return
		}
		pth, base := core.FieldPath(st.Addr)
		if pth == "" || !isObj(base) {
			return
		}
		if w, _ := typeWidth(st.Val.Type()); w == 0 {
			return
		}
		stores[pth] = append(stores[pth], ev.eval(st.Val))
	})
	out := map[string]map[int]bitPos{}
	for f, vs := range stores {
		if len(vs) != 1 {
			continue // conditional layouts: no obligation
		}
		m := map[int]bitPos{}
		for i, b := range vs[0] {
			if b.kind == 's' && strings.HasPrefix(b.name, "B") {
				var k int64
				fmt.Sscanf(b.name[1:], "%d", &k)
				m[i] = bitPos{k, b.idx}
			}
		}
		if len(m) > 0 {
			out[f] = m
		}
	}
	return out
}

// serializeBits: final contents of the constant-offset bytes of the first
// buffer request, as bits of receiver fields.  Only straight-line code and
// two-way merges are modelled; a byte stored in a loop is dropped.
func serializeBits(fn *ssa.Function) map[bitPos]bit {
	var buf ssa.Value
	core.Instrs(fn, func(ins ssa.Instruction) {
		call, ok := ins.(*ssa.Call)
		if !ok || !call.Call.IsInvoke() || (call.Call.Method.Name() != "PrependBytes" && call.Call.Method.Name() != "AppendBytes") || buf != nil {
			return
		}
		for _, ref := range *call.Referrers() {
			if e, ok := ref.(*ssa.Extract); ok && e.Index == 0 {
				buf = e
			}
		}
	})
	if buf == nil {
		return nil
	}
	type env map[int64]bv
	inLoop := func(b *ssa.BasicBlock) bool {
		return core.ForwardSearch(fn, b.Instrs[len(b.Instrs)-1], func(i ssa.Instruction) bool { return i == b.Instrs[0] }, nil) != nil
	}
	envOut := map[*ssa.BasicBlock]env{}
	dead := map[int64]bool{}
	var cur env
	ev := &bitEval{fn: fn, memo: map[ssa.Value]bv{}, busy: map[ssa.Value]bool{}}
	ev.leaf = func(v ssa.Value) (bv, bool) {
		switch x := v.(type) {
		case *ssa.UnOp:
			if x.Op != token.MUL {
				return nil, false
			}
			// a byte of the request read back (read-modify-write)
			if ia, ok := x.X.(*ssa.IndexAddr); ok {
				if k, ok := core.ConstFold(ia.Index); ok {
					if b, ok := baseOffset(ia.X, buf, 0); ok {
						if cur != nil {
							if val, ok := cur[b+k]; ok {
								return val, true
							}
						}
						return bvUnknown(8), true
					}
				}
			}
			if pth, base := core.FieldPath(x.X); pth != "" && core.IsRecvParam(fn, base) {
				if w, _ := typeWidth(x.Type()); w > 0 {
					return bvSrc("F:"+pth, w), true
				}
			}
		case *ssa.Field:
			if pth, base := core.FieldPath(x); pth != "" {
				if _, isParam := base.(*ssa.Parameter); isParam {
					if w, _ := typeWidth(x.Type()); w > 0 {
						return bvSrc("F:"+pth, w), true
					}
				}
			}
		}
		return nil, false
	}
	// blocks in reverse post-order
	var order []*ssa.BasicBlock
	seen := map[*ssa.BasicBlock]bool{}
	var dfs func(b *ssa.BasicBlock)
	dfs = func(b *ssa.BasicBlock) {
		if seen[b] {
			return
		}
		seen[b] = true
		for _, s := range b.Succs {
			dfs(s)
		}
		order = append([]*ssa.BasicBlock{b}, order...)
	}
	dfs(fn.Blocks[0])
	var exits []env
	for _, b := range order {
		// merge predecessors already processed
		in := env{}
		first := true
		var preds []*ssa.BasicBlock
		for _, p := range b.Preds {
			if _, ok := envOut[p]; ok {
				preds = append(preds, p)
			}
		}
		for _, p := range preds {
			pe := envOut[p]
			if first {
				for k, v := range pe {
					in[k] = v
				}
				first = false
				continue
			}
			// two-way merge under a bool field: 0 vs 1 becomes that bool; otherwise unknown
			var cb bv
			trueFromP := false
			if len(preds) == 2 {
				if d := b.Idom(); d != nil && len(d.Instrs) > 0 {
					if iff, ok := d.Instrs[len(d.Instrs)-1].(*ssa.If); ok {
						cur = envOut[d]
						cb = ev.eval(iff.Cond)
						// which side does p lie on?
						if d.Succs[0] == p || (d.Succs[0] != b && d.Succs[0].Dominates(p)) {
							trueFromP = true
						}
					}
				}
			}
			keys := map[int64]bool{}
			for k := range in {
				keys[k] = true
			}
			for k := range pe {
				keys[k] = true
			}
			for k := range keys {
				a, okA := in[k]
				c, okC := pe[k]
				if !okA || !okC {
					delete(in, k)
					continue
				}
				out := make(bv, 8)
				for i := 0; i < 8; i++ {
					t, f := c[i], a[i]
					if !trueFromP {
						t, f = a[i], c[i]
					}
					switch {
					case bitEq(a[i], c[i]):
						out[i] = a[i]
					case len(cb) == 1 && cb[0].kind == 's' && t.kind == 'o' && f.kind == 'z':
						out[i] = cb[0]
					default:
						out[i] = bit{kind: 'u'}
					}
				}
				in[k] = out
			}
		}
		cur = in
		loop := inLoop(b)
		for _, ins := range b.Instrs {
			// values computed here must see the environment of this point: do not reuse memoised loads of request bytes
			switch x := ins.(type) {
			case *ssa.Store:
				if ia, ok := x.Addr.(*ssa.IndexAddr); ok {
					if b0, ok := baseOffset(ia.X, buf, 0); ok {
						if k, ok := core.ConstFold(ia.Index); ok {
							if loop {
								dead[b0+k] = true
								continue
							}
							ev.memo = map[ssa.Value]bv{}
							cur[b0+k] = bvResize(ev.eval(x.Val), 8, false)
						}
					}
				}
			case *ssa.Call:
				if order, wd, put, ok := binaryOrder(x); ok && put && len(x.Call.Args) == 3 {
					if off, ok := baseOffset(x.Call.Args[1], buf, 0); ok {
						if loop {
							for i := int64(0); i < wd; i++ {
								dead[off+i] = true
							}
							continue
						}
						ev.memo = map[ssa.Value]bv{}
						val := bvResize(ev.eval(x.Call.Args[2]), int(wd*8), false)
						for i := int64(0); i < wd; i++ {
							idx := off + wd - 1 - i
							if order == "le" {
								idx = off + i
							}
							cur[idx] = val[i*8 : i*8+8]
						}
					}
				}
				if nm, cc := core.BuiltinCall(x); nm == "copy" {
					if off, ok := baseOffset(cc.Args[0], buf, 0); ok {
						// bytes from off on are overwritten by something this engine does not model
						for k := range cur {
							if k >= off {
								delete(cur, k)
							}
						}
					}
				}
			case *ssa.Return:
				if len(x.Results) > 0 && core.IsNilConst(core.RetOperand(x, len(x.Results)-1)) {
					cp := env{}
					for k, v := range cur {
						cp[k] = v
					}
					exits = append(exits, cp)
				}
			}
		}
		envOut[b] = cur
	}
	out := map[bitPos]bit{}
	if len(exits) == 0 {
		return out
	}
	for k, v := range exits[0] {
		if dead[k] {
			continue
		}
		for i := 0; i < 8; i++ {
			okAll := true
			for _, ex := range exits[1:] {
				if w, ok := ex[k]; !ok || !bitEq(w[i], v[i]) {
					okAll = false
				}
			}
			if okAll && v[i].kind == 's' && strings.HasPrefix(v[i].name, "F:") {
				out[bitPos{k, i}] = v[i]
			}
		}
	}
	return out
}

// bitCodecAgreement (R6.6).
func bitCodecAgreement(c *core.Ctx, r *core.Rule) {
	p := c.P
	roots := p.Roots()
	sl := p.Iface("", "SerializableLayer")
	nF := 0
	for _, d := range roots.Dec {
		var rt types.Type
		var isObj func(ssa.Value) bool
		tn := ""
		if d.Kind == "DecodeFromBytes" && d.Fn.Signature.Recv() != nil {
			rt = d.Fn.Signature.Recv().Type()
			fn := d.Fn
			isObj = func(b ssa.Value) bool { return core.IsRecvParam(fn, b) }
			tn = recvTypeName(d.Fn)
		} else {
			// a decoder function that builds the layer itself: the (single) local &T{...} of a serializable type
			var obj *ssa.Alloc
			n := 0
			core.Instrs(d.Fn, func(ins ssa.Instruction) {
				al, ok := ins.(*ssa.Alloc)
				if !ok {
					return
				}
				if _, isStruct := al.Type().Underlying().(*types.Pointer).Elem().Underlying().(*types.Struct); !isStruct {
					return
				}
				if types.Implements(al.Type(), sl) {
					obj = al
					n++
				}
			})
			if n != 1 {
				continue
			}
			rt = obj.Type()
			isObj = func(b ssa.Value) bool { return b == ssa.Value(obj) }
			if nt, ok := obj.Type().Underlying().(*types.Pointer).Elem().(*types.Named); ok {
				tn = nt.Obj().Name()
			}
		}
		if !types.Implements(rt, sl) {
			continue
		}
		ser := methodOf(p, rt, "SerializeTo")
		if ser == nil || len(ser.Blocks) == 0 {
			continue
		}
		dec := decodeBits(d.Fn, d.Data, isObj)
		sb := serializeBits(ser)
		if dbg := os.Getenv("GPV_DEBUG_BITS"); dbg != "" && strings.Contains(core.FnKey(d.Fn), dbg) {
			fmt.Println("DEBUG decode", core.FnKey(d.Fn), dec)
			fmt.Println("DEBUG serialize", sb)
		}
		if len(dec) == 0 || len(sb) == 0 {
			continue
		}
		// where does serialize put each field bit?
		place := map[string]map[int][]bitPos{}
		for pos, b := range sb {
			f := strings.TrimPrefix(b.name, "F:")
			if place[f] == nil {
				place[f] = map[int][]bitPos{}
			}
			place[f][b.idx] = append(place[f][b.idx], pos)
		}
		var fields []string
		for f := range dec {
			fields = append(fields, f)
		}
		sort.Strings(fields)
		for _, f := range fields {
			bad := ""
			checked := 0
			var idxs []int
			for i := range dec[f] {
				idxs = append(idxs, i)
			}
			sort.Ints(idxs)
			for _, i := range idxs {
				dp := dec[f][i]
				// what serialize writes at the decode position
				if wb, ok := sb[dp]; ok {
					checked++
					wf := strings.TrimPrefix(wb.name, "F:")
					if wf != f || wb.idx != i {
						bad = fmt.Sprintf("decode takes bit %d of %s from bit %d of byte %d, but SerializeTo writes bit %d of %s there", i, f, dp.bit, dp.byteIdx, wb.idx, wf)
						break
					}
				} else if ps, ok := place[f][i]; ok && len(ps) > 0 {
					checked++
					bad = fmt.Sprintf("decode takes bit %d of %s from bit %d of byte %d, but SerializeTo puts it at bit %d of byte %d", i, f, dp.bit, dp.byteIdx, ps[0].bit, ps[0].byteIdx)
					break
				}
			}
			if checked == 0 {
				continue
			}
			nF++
			key := "layers." + tn + "." + f + "/bits"
			r.Check(bad == "", key, p.Pos(ser.Pos()), fmt.Sprintf("%d bit positions agree", checked), bad+": writing the layer and decoding the bytes again gives a different "+f)
		}
	}
	c.Counts["bit_level_fields"] = nF
	if nF < 20 {
		r.Missing("layers/bit-level fields", fmt.Sprintf("only %d fields compared at bit level", nF))
	}
}
