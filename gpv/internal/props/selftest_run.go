package props

import (
	"encoding/json"
	"fmt"
	"os"
	"os/exec"
	"path/filepath"
	"sort"
	"strings"
	"sync"

	"gpv/internal/core"
)

// A selftest case is a patch against /repo plus an expectation:
//
//	/verif/selftest/<Cxx>/<name>.diff
//	/verif/selftest/<Cxx>/<name>.expect   one line: "fire <rule> [key-substring]" or "silent"
//
// and every /verif/seeded/<id>/{patch.diff,meta.json} whose meta.json has
// "property": "<Cxx>" and "detected_by": ["Rx.y", ...] (must fire) .
type stCase struct {
	prop, name, patch string
	fire              bool
	rule, key         string
}

func collectCases(filter string) []stCase {
	var out []stCase
	dirs, _ := filepath.Glob(filepath.Join(core.Home, "selftest", "C*"))
	for _, d := range dirs {
		prop := filepath.Base(d)
		if filter != "" && prop != filter {
			continue
		}
		patches, _ := filepath.Glob(filepath.Join(d, "*.diff"))
		for _, pf := range patches {
			exp, err := os.ReadFile(strings.TrimSuffix(pf, ".diff") + ".expect")
			if err != nil {
				continue
			}
			f := strings.Fields(strings.TrimSpace(string(exp)))
			c := stCase{prop: prop, name: filepath.Base(pf), patch: pf}
			if len(f) >= 2 && f[0] == "fire" {
				c.fire, c.rule = true, f[1]
				if len(f) >= 3 {
					c.key = f[2]
				}
			} else if len(f) >= 1 && f[0] == "silent" {
				c.fire = false
			} else {
				continue
			}
			out = append(out, c)
		}
	}
	metas, _ := filepath.Glob(filepath.Join(core.Home, "seeded", "*", "meta.json"))
	for _, mf := range metas {
		b, err := os.ReadFile(mf)
		if err != nil {
			continue
		}
		var m struct {
			Property   string   `json:"property"`
			DetectedBy []string `json:"detected_by"`
		}
		if json.Unmarshal(b, &m) != nil || len(m.DetectedBy) == 0 {
			continue
		}
		if filter != "" && m.Property != filter {
			continue
		}
		pf := filepath.Join(filepath.Dir(mf), "patch.diff")
		if _, err := os.Stat(pf); err != nil {
			continue
		}
		out = append(out, stCase{prop: m.Property, name: "seeded/" + filepath.Base(filepath.Dir(mf)), patch: pf, fire: true, rule: m.DetectedBy[0]})
	}
	sort.Slice(out, func(i, j int) bool { return out[i].prop+out[i].name < out[j].prop+out[j].name })
	return out
}

func runSelftest(args []string) int {
	filter := ""
	if len(args) > 0 {
		filter = args[0]
	}
	cases := collectCases(filter)
	if len(cases) == 0 {
		fmt.Println("selftest: no cases for", filter)
		return 0
	}
	self, err := os.Executable()
	if err != nil {
		fmt.Println("CHECKER-ERROR:", err)
		return 2
	}
	type res struct {
		c       stCase
		ok      bool
		skipped bool
		msg     string
	}
	results := make([]res, len(cases))
	sem := make(chan struct{}, 6)
	var wg sync.WaitGroup
	for i, c := range cases {
		wg.Add(1)
		go func(i int, c stCase) {
			defer wg.Done()
			sem <- struct{}{}
			defer func() { <-sem }()
			r := res{c: c}
			tmp, err := os.MkdirTemp("", "gpv-selftest-")
			if err != nil {
				r.msg = err.Error()
				results[i] = r
				return
			}
			defer os.RemoveAll(tmp)
			dst := filepath.Join(tmp, "repo")
			if out, err := exec.Command("rsync", "-a", "--exclude", ".git", "/repo/", dst+"/").CombinedOutput(); err != nil {
				r.msg = "copy: " + string(out)
				results[i] = r
				return
			}
			ap := exec.Command("git", "apply", "--whitespace=nowarn", c.patch)
			ap.Dir = dst
			if out, err := ap.CombinedOutput(); err != nil {
				r.skipped = true
				r.msg = "patch no longer applies: " + strings.TrimSpace(string(out))
				results[i] = r
				return
			}
			cmd := exec.Command(self, "check", c.prop, "--repo", dst, "--no-write", "--quiet", "--tier", "quick")
			cmd.Env = append(os.Environ(), "GOFLAGS=-mod=mod", "GOWORK=off")
			out, _ := cmd.CombinedOutput()
			code := cmd.ProcessState.ExitCode()
			s := string(out)
			if c.fire {
				hit := false
				for _, line := range strings.Split(s, "\n") {
					if strings.HasPrefix(line, "  ["+c.rule) && (c.key == "" || strings.Contains(line, c.key)) {
						hit = true
					}
				}
				r.ok = code == 1 && hit
				if !r.ok {
					r.msg = fmt.Sprintf("expected %s %s to fire; exit=%d\n%s", c.rule, c.key, code, tail(s, 15))
				}
			} else {
				r.ok = code == 0
				if !r.ok {
					r.msg = fmt.Sprintf("expected silence; exit=%d\n%s", code, tail(s, 15))
				}
			}
			results[i] = r
		}(i, c)
	}
	wg.Wait()
	fail, skip := 0, 0
	for _, r := range results {
		switch {
		case r.skipped:
			skip++
			fmt.Printf("selftest SKIP %s %s: %s\n", r.c.prop, r.c.name, r.msg)
		case r.ok:
			fmt.Printf("selftest ok   %s %s\n", r.c.prop, r.c.name)
		default:
			fail++
			fmt.Printf("selftest FAIL %s %s: %s\n", r.c.prop, r.c.name, r.msg)
		}
	}
	fmt.Printf("selftest: %d cases, %d failed, %d skipped\n", len(results), fail, skip)
	if fail > 0 {
		fmt.Println("CHECKER-ERROR: selftest failed")
		return 2
	}
	return 0
}

func tail(s string, n int) string {
	lines := strings.Split(strings.TrimSpace(s), "\n")
	if len(lines) > n {
		lines = lines[len(lines)-n:]
	}
	return strings.Join(lines, "\n")
}
