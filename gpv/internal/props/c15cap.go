package props

import (
	"fmt"
	"go/token"
	"go/types"

	"golang.org/x/tools/go/ssa"

	"gpv/internal/core"
)

// structEq: two values denote the same quantity: same SSA value, or
// structurally equal conversions / loads of the same address expression /
// additions.  (Loads are not checked for intervening stores: the quantities
// compared here are header fields set once per record before the sites.)
func structEq(a, b ssa.Value, d int) bool {
	a, b = core.StripConv(a), core.StripConv(b)
	if a == b {
		return true
	}
	if d > 6 {
		return false
	}
	if ka, ok := core.ConstInt(a); ok {
		kb, ok2 := core.ConstInt(b)
		return ok2 && ka == kb
	}
	la, okA := core.IsLoad(a)
	lb, okB := core.IsLoad(b)
	if okA && okB {
		return addrEq(la, lb, d+1)
	}
	if x, ok := a.(*ssa.BinOp); ok {
		if y, ok := b.(*ssa.BinOp); ok && x.Op == y.Op {
			if structEq(x.X, y.X, d+1) && structEq(x.Y, y.Y, d+1) {
				return true
			}
			if x.Op == token.ADD && structEq(x.X, y.Y, d+1) && structEq(x.Y, y.X, d+1) {
				return true
			}
		}
	}
	return false
}

func addrEq(a, b ssa.Value, d int) bool {
	if a == b {
		return true
	}
	if d > 6 {
		return false
	}
	fa, ok1 := a.(*ssa.FieldAddr)
	fb, ok2 := b.(*ssa.FieldAddr)
	if ok1 && ok2 && fa.Field == fb.Field {
		return addrEq(fa.X, fb.X, d+1) || structEq(fa.X, fb.X, d+1)
	}
	return false
}

// geqVal: m >= h is evident from the shape of m: m is h; m is h plus
// something; m is a phi each of whose edges is >= h or arrives on the false
// edge of `edge < h` (the max idiom).
func geqVal(m, h ssa.Value, d int) bool {
	if d > 6 {
		return false
	}
	if structEq(m, h, 0) {
		return true
	}
	switch x := core.StripConv(m).(type) {
	case *ssa.BinOp:
		if x.Op == token.ADD && (structEq(x.X, h, 0) || structEq(x.Y, h, 0)) {
			return true // lower bounds of the other operand are R15.1/R15.4's business
		}
	case *ssa.Phi:
		for i, e := range x.Edges {
			if geqVal(e, h, d+1) {
				continue
			}
			pred := x.Block().Preds[i]
			ok := false
			check := func(cond ssa.Value, truth bool) {
				bo, isB := cond.(*ssa.BinOp)
				if !isB {
					return
				}
				// e < h false, or h > e false, or e >= h true, or h <= e true
				switch {
				case bo.Op == token.LSS && structEq(bo.X, e, 0) && structEq(bo.Y, h, 0) && !truth,
					bo.Op == token.GTR && structEq(bo.X, h, 0) && structEq(bo.Y, e, 0) && !truth,
					bo.Op == token.GEQ && structEq(bo.X, e, 0) && structEq(bo.Y, h, 0) && truth,
					bo.Op == token.LEQ && structEq(bo.X, h, 0) && structEq(bo.Y, e, 0) && truth:
					ok = true
				}
			}
			for _, dc := range core.DomConds(pred) {
				check(dc.V, dc.Truth)
			}
			if iff, isIf := pred.Instrs[len(pred.Instrs)-1].(*ssa.If); isIf && pred.Succs[0] != pred.Succs[1] {
				check(iff.Cond, pred.Succs[0] == x.Block())
			}
			if !ok {
				return false
			}
		}
		return len(x.Edges) > 0
	}
	return false
}

// capacityDiscipline (R15.7): a slice expression whose high bound comes from
// the file stays within the capacity of what is sliced.
func capacityDiscipline(c *core.Ctx, r *core.Rule, t *taint, rd []*ssa.Function) {
	p := c.P
	n := 0
	for _, fn := range rd {
		ord := 0
		core.Instrs(fn, func(ins ssa.Instruction) {
			sl, ok := ins.(*ssa.Slice)
			if !ok || sl.High == nil {
				return
			}
			if _, isK := core.ConstFold(sl.High); isK {
				return
			}
			h := sl.High
			if !t.tainted(h, 0) {
				return
			}
			n++
			ord++
			key := fmt.Sprintf("%s/slice-high#%d", core.FnKey(fn), ord)
			pos := p.InstrPos(ins)
			// (a) array
			if pt, ok := sl.X.Type().Underlying().(*types.Pointer); ok {
				if at, ok := pt.Elem().Underlying().(*types.Array); ok {
					ub, found := constUpperBound(p, fn, ins, h)
					switch {
					case found && ub <= at.Len():
						r.OK(key, pos, fmt.Sprintf("bound <= %d fits the %d-byte array", ub, at.Len()))
					case found:
						r.Violate(key, pos, fmt.Sprintf("a %d-byte array is sliced up to a file-derived value that the reader accepts up to %d: a record with a larger value panics (slice bounds out of range)", at.Len(), ub), nil)
					default:
						r.Violate(key, pos, fmt.Sprintf("a %d-byte array is sliced up to a file-derived value with no upper bound established", at.Len()), nil)
					}
					return
				}
			}
			// (b) a slice made in this function
			root := sl.X
			for i := 0; i < 6; i++ {
				if s2, ok := root.(*ssa.Slice); ok && s2.High == nil {
					root = s2.X
					continue
				}
				break
			}
			if ms, ok := root.(*ssa.MakeSlice); ok {
				r.Check(geqVal(ms.Len, h, 0), key, pos, "sliced within the length it was made with", "the slice was made with a length that is not evidently >= the file-derived bound it is then sliced to")
				return
			}
			// (c) a buffer kept in a field: must-fact cap(F) >= h at the site
			a, isLoad := core.IsLoad(root)
			fa, isField := a.(*ssa.FieldAddr)
			if !isLoad || !isField {
				// a value whose length is already fixed by its own bounds (x[:n] of a parameter etc.)
				if lenBoundedBy(p, fn, ins, sl.X, h) {
					r.OK(key, pos, "dominated by a length/capacity test against the same bound")
				} else {
					r.Undecided(key, pos, "sliced value is neither an array, a fresh make nor a field buffer")
				}
				return
			}
			if capFactAt(fn, ins, fa, h) {
				r.OK(key, pos, "on every path the buffer was either found large enough (cap test) or re-made with at least that length")
			} else {
				r.Violate(key, pos, "the reusable buffer is sliced up to a file-derived length although on some path neither a capacity test against that length nor a re-allocation of at least that length precedes: a record longer than the buffer panics (slice bounds out of range)", nil)
			}
		})
	}
	c.Counts["file_derived_slice_bounds"] = n
	if n < 4 {
		r.Missing("pcapgo/slice bounds", fmt.Sprintf("only %d file-derived slice bounds found", n))
	}
}

// constUpperBound: smallest constant C such that h <= C is established: by a
// dominating test at the site, or — when h is a load of a struct field — by a
// test of that field anywhere in the package whose failing side returns an error.
func constUpperBound(p *core.Prog, fn *ssa.Function, site ssa.Instruction, h ssa.Value) (int64, bool) {
	best, found := int64(0), false
	take := func(c int64) {
		if !found || c < best {
			best, found = c, true
		}
	}
	ub := func(cond ssa.Value, truth bool, target func(ssa.Value) bool) {
		bo, ok := cond.(*ssa.BinOp)
		if !ok {
			return
		}
		if k, ok := core.ConstFold(bo.Y); ok && target(bo.X) {
			switch {
			case bo.Op == token.GTR && !truth, bo.Op == token.LEQ && truth:
				take(k)
			case bo.Op == token.GEQ && !truth, bo.Op == token.LSS && truth:
				take(k - 1)
			}
		}
	}
	same := func(v ssa.Value) bool { return structEq(v, h, 0) }
	for _, dc := range core.DomConds(site.Block()) {
		ub(dc.V, dc.Truth, same)
	}
	// field validated where it is set
	if a, ok := core.IsLoad(core.StripConv(h)); ok {
		if fa, ok := a.(*ssa.FieldAddr); ok {
			fv := core.FieldOfAddr(fa)
			sameField := func(v ssa.Value) bool {
				if a2, ok := core.IsLoad(core.StripConv(v)); ok {
					if f2, ok := a2.(*ssa.FieldAddr); ok {
						return core.FieldOfAddr(f2) == fv
					}
				}
				return false
			}
			for _, g := range pkgFunctions(p, "pcapgo") {
				for _, b := range g.Blocks {
					iff, ok := b.Instrs[len(b.Instrs)-1].(*ssa.If)
					if !ok {
						continue
					}
					// the continuing side is the one that does not lead straight to an error return
					for side := 0; side < 2; side++ {
						if errorEdge(b, 1-side) && !errorEdge(b, side) {
							ub(iff.Cond, side == 0, sameField)
						}
					}
				}
			}
		}
	}
	return best, found
}

// lenBoundedBy: a dominating condition establishes len(x) or cap(x) >= h.
func lenBoundedBy(p *core.Prog, fn *ssa.Function, site ssa.Instruction, x, h ssa.Value) bool {
	for _, dc := range core.DomConds(site.Block()) {
		if capTest(dc.V, dc.Truth, func(v ssa.Value) bool { return v == x }, h) {
			return true
		}
	}
	return false
}

// capTest: cond on this edge establishes cap(X) >= h or len(X) >= h for an X accepted by isX.
func capTest(cond ssa.Value, truth bool, isX func(ssa.Value) bool, h ssa.Value) bool {
	bo, ok := cond.(*ssa.BinOp)
	if !ok {
		return false
	}
	capOf := func(v ssa.Value) bool {
		c, ok := core.StripConv(v).(*ssa.Call)
		if !ok {
			return false
		}
		b, ok := c.Call.Value.(*ssa.Builtin)
		return ok && (b.Name() == "cap" || b.Name() == "len") && isX(c.Call.Args[0])
	}
	// cap(X) >= bound (or > bound) with bound >= h
	switch {
	case bo.Op == token.LSS && capOf(bo.X) && geqVal(bo.Y, h, 0):
		return !truth
	case bo.Op == token.GEQ && capOf(bo.X) && geqVal(bo.Y, h, 0):
		return truth
	case bo.Op == token.GTR && capOf(bo.X) && geqVal(bo.Y, h, 0):
		return truth
	case bo.Op == token.GTR && capOf(bo.Y) && geqVal(bo.X, h, 0):
		return !truth
	case bo.Op == token.LEQ && capOf(bo.Y) && geqVal(bo.X, h, 0):
		return truth
	case bo.Op == token.LSS && capOf(bo.Y) && geqVal(bo.X, h, 0):
		return truth
	}
	return false
}

// capFactAt: forward must-dataflow of "cap(field) >= h" to the site.
func capFactAt(fn *ssa.Function, site ssa.Instruction, fa *ssa.FieldAddr, h ssa.Value) bool {
	isF := func(v ssa.Value) bool {
		a, ok := core.IsLoad(v)
		if !ok {
			return false
		}
		f2, ok := a.(*ssa.FieldAddr)
		return ok && addrEq(f2, fa, 0)
	}
	in := map[*ssa.BasicBlock]bool{}
	out := map[*ssa.BasicBlock]bool{}
	for _, b := range fn.Blocks {
		in[b], out[b] = true, true
	}
	in[fn.Blocks[0]] = false
	transfer := func(b *ssa.BasicBlock, f bool, upto ssa.Instruction) bool {
		for _, ins := range b.Instrs {
			if ins == upto {
				return f
			}
			if st, ok := ins.(*ssa.Store); ok {
				if f2, ok := st.Addr.(*ssa.FieldAddr); ok && addrEq(f2, fa, 0) {
					f = false
					if ms, ok := st.Val.(*ssa.MakeSlice); ok && geqVal(ms.Len, h, 0) {
						f = true
					}
				}
			}
		}
		return f
	}
	for changed, iter := true, 0; changed && iter < 50; iter++ {
		changed = false
		for _, b := range fn.Blocks {
			f := true
			if b == fn.Blocks[0] {
				f = false
			}
			if len(b.Preds) == 0 && b != fn.Blocks[0] {
				f = true
			}
			for _, pr := range b.Preds {
				e := out[pr]
				if iff, ok := pr.Instrs[len(pr.Instrs)-1].(*ssa.If); ok && pr.Succs[0] != pr.Succs[1] {
					if capTest(iff.Cond, pr.Succs[0] == b, isF, h) {
						e = true
					}
				}
				f = f && e
			}
			if b == fn.Blocks[0] {
				f = false
			}
			if in[b] != f {
				in[b] = f
				changed = true
			}
			o := transfer(b, f, nil)
			if out[b] != o {
				out[b] = o
				changed = true
			}
		}
	}
	return transfer(site.Block(), in[site.Block()], site)
}
