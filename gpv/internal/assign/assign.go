// Package assign: must-assign ("reset what you set") analysis of methods that
// rebuild a reused receiver (DESIGN.md 3.5).
package assign

import (
	"go/token"
	"go/types"
	"sort"
	"strings"

	"golang.org/x/tools/go/ssa"
)

// Result of analysing one method.
type Result struct {
	Fn       *ssa.Function
	MaySet   map[string]ssa.Instruction // field path -> one assigning instruction
	Stale    []Finding                  // updates of a field that may not have been reset yet
	NotReset []Finding                  // fields in MaySet not reset on some success exit
	MustAtOK map[string]bool            // intersection over success exits
	Exits    int
}

type Finding struct {
	Field string
	At    ssa.Instruction // the update / the exit
	Set   ssa.Instruction // where it is (conditionally) set
}

type summary struct {
	may  map[string]ssa.Instruction
	must map[string]bool // reset on every normal (success) exit
}

type Analyzer struct {
	// NonNilErr reports whether v is provably a non-nil error in block b.
	NonNilErr func(v ssa.Value, b *ssa.BasicBlock) bool
	sums      map[*ssa.Function]*summary
	inprog    map[*ssa.Function]bool
}

func New(nonNil func(ssa.Value, *ssa.BasicBlock) bool) *Analyzer {
	return &Analyzer{NonNilErr: nonNil, sums: map[*ssa.Function]*summary{}, inprog: map[*ssa.Function]bool{}}
}

// recvPath: addr designates field path P of the receiver (param 0) of fn.
func recvPath(fn *ssa.Function, addr ssa.Value) (string, bool) {
	var parts []string
	v := addr
	for {
		fa, ok := v.(*ssa.FieldAddr)
		if !ok {
			break
		}
		st := fa.X.Type().Underlying().(*types.Pointer).Elem().Underlying().(*types.Struct)
		parts = append([]string{st.Field(fa.Field).Name()}, parts...)
		v = fa.X
	}
	if len(fn.Params) == 0 || fn.Signature.Recv() == nil || v != ssa.Value(fn.Params[0]) {
		return "", false
	}
	return strings.Join(parts, "."), true
}

// dependsOnOld: v's definition reads the receiver field `path` (other than
// through a [:0] re-slice).
func dependsOnOld(fn *ssa.Function, v ssa.Value, path string, depth int, seen map[ssa.Value]bool) bool {
	if depth > 8 || seen[v] {
		return false
	}
	seen[v] = true
	switch x := v.(type) {
	case *ssa.UnOp:
		if x.Op == token.MUL {
			if p, ok := recvPath(fn, x.X); ok && (p == path || strings.HasPrefix(p, path+".") || strings.HasPrefix(path, p+".")) {
				return true
			}
			return false
		}
		return dependsOnOld(fn, x.X, path, depth+1, seen)
	case *ssa.Slice:
		// x[:0] keeps only the capacity
		if x.High != nil {
			if c, ok := x.High.(*ssa.Const); ok && c.Value != nil && c.Int64() == 0 {
				return false
			}
		}
		return dependsOnOld(fn, x.X, path, depth+1, seen)
	case *ssa.Call:
		if bi, ok := x.Call.Value.(*ssa.Builtin); ok && bi.Name() == "append" {
			return dependsOnOld(fn, x.Call.Args[0], path, depth+1, seen)
		}
		return false
	case *ssa.BinOp:
		return dependsOnOld(fn, x.X, path, depth+1, seen) || dependsOnOld(fn, x.Y, path, depth+1, seen)
	case *ssa.Convert:
		return dependsOnOld(fn, x.X, path, depth+1, seen)
	case *ssa.ChangeType:
		return dependsOnOld(fn, x.X, path, depth+1, seen)
	case *ssa.Phi:
		for _, e := range x.Edges {
			if dependsOnOld(fn, e, path, depth+1, seen) {
				return true
			}
		}
	}
	return false
}

func covers(set map[string]bool, path string) bool {
	if set[path] {
		return true
	}
	// a reset of a prefix (whole sub-struct) covers the path
	for p := path; ; {
		i := strings.LastIndex(p, ".")
		if i < 0 {
			break
		}
		p = p[:i]
		if set[p] {
			return true
		}
	}
	return set[""]
}

func copySet(s map[string]bool) map[string]bool {
	n := make(map[string]bool, len(s))
	for k := range s {
		n[k] = true
	}
	return n
}

func intersect(a, b map[string]bool) map[string]bool {
	n := map[string]bool{}
	for k := range a {
		if covers(b, k) {
			n[k] = true
		}
	}
	for k := range b {
		if covers(a, k) {
			n[k] = true
		}
	}
	return n
}

func equalSet(a, b map[string]bool) bool {
	if len(a) != len(b) {
		return false
	}
	for k := range a {
		if !b[k] {
			return false
		}
	}
	return true
}

// event in a block
type event struct {
	ins    ssa.Instruction
	path   string
	reset  bool // true: value independent of the old one
	callee *summary
	prefix string // for callee events: receiver path passed
}

func (a *Analyzer) events(fn *ssa.Function, b *ssa.BasicBlock, depth int) []event {
	var out []event
	for _, ins := range b.Instrs {
		switch x := ins.(type) {
		case *ssa.Store:
			if p, ok := recvPath(fn, x.Addr); ok {
				out = append(out, event{ins: ins, path: p, reset: !dependsOnOld(fn, x.Val, p, 0, map[ssa.Value]bool{})})
			}
		case ssa.CallInstruction:
			cc := x.Common()
			callee := cc.StaticCallee()
			if callee == nil || len(callee.Blocks) == 0 || callee.Signature.Recv() == nil || len(cc.Args) == 0 || depth >= 4 {
				continue
			}
			// receiver argument is the receiver or the address of one of its fields
			var prefix string
			ok := false
			if cc.Args[0] == ssa.Value(fn.Params[0]) && fn.Signature.Recv() != nil {
				prefix, ok = "", true
			} else if p, isP := recvPath(fn, cc.Args[0]); isP {
				prefix, ok = p, true
			}
			if !ok {
				continue
			}
			if _, isPtr := callee.Signature.Recv().Type().(*types.Pointer); !isPtr {
				continue
			}
			s := a.summarize(callee, depth+1)
			if s != nil {
				out = append(out, event{ins: ins, callee: s, prefix: prefix})
			}
		}
	}
	return out
}

func join(prefix, p string) string {
	if prefix == "" {
		return p
	}
	if p == "" {
		return prefix
	}
	return prefix + "." + p
}

func (a *Analyzer) summarize(fn *ssa.Function, depth int) *summary {
	if s, ok := a.sums[fn]; ok {
		return s
	}
	if a.inprog[fn] {
		return nil
	}
	a.inprog[fn] = true
	defer delete(a.inprog, fn)
	r := a.analyze(fn, depth)
	s := &summary{may: r.MaySet, must: r.MustAtOK}
	a.sums[fn] = s
	return s
}

// Analyze runs the must-reset analysis on method fn.
func (a *Analyzer) Analyze(fn *ssa.Function) *Result { return a.analyze(fn, 0) }

func (a *Analyzer) analyze(fn *ssa.Function, depth int) *Result {
	res := &Result{Fn: fn, MaySet: map[string]ssa.Instruction{}, MustAtOK: map[string]bool{}}
	if len(fn.Blocks) == 0 || fn.Signature.Recv() == nil {
		return res
	}
	evs := map[*ssa.BasicBlock][]event{}
	for _, b := range fn.Blocks {
		evs[b] = a.events(fn, b, depth)
		for _, e := range evs[b] {
			if e.callee != nil {
				for p, at := range e.callee.may {
					_ = at
					if _, ok := res.MaySet[join(e.prefix, p)]; !ok {
						res.MaySet[join(e.prefix, p)] = e.ins
					}
				}
			} else if _, ok := res.MaySet[e.path]; !ok {
				res.MaySet[e.path] = e.ins
			}
		}
	}
	// forward must dataflow: in[b] = ∩ out[pred]; top = nil (unvisited)
	in := map[*ssa.BasicBlock]map[string]bool{}
	outS := map[*ssa.BasicBlock]map[string]bool{}
	transfer := func(b *ssa.BasicBlock, s map[string]bool, record bool) map[string]bool {
		cur := copySet(s)
		for _, e := range evs[b] {
			if e.callee != nil {
				for p := range e.callee.must {
					cur[join(e.prefix, p)] = true
				}
				continue
			}
			if e.reset {
				cur[e.path] = true
			} else if !covers(cur, e.path) && record {
				res.Stale = append(res.Stale, Finding{Field: e.path, At: e.ins})
			}
		}
		return cur
	}
	in[fn.Blocks[0]] = map[string]bool{}
	work := []*ssa.BasicBlock{fn.Blocks[0]}
	for iter := 0; len(work) > 0 && iter < 10000; iter++ {
		b := work[0]
		work = work[1:]
		o := transfer(b, in[b], false)
		if old, ok := outS[b]; ok && equalSet(old, o) {
			continue
		}
		outS[b] = o
		for _, s := range b.Succs {
			var ns map[string]bool
			if cur, ok := in[s]; ok {
				ns = intersect(cur, o)
				if equalSet(ns, cur) {
					continue
				}
			} else {
				ns = copySet(o)
			}
			in[s] = ns
			work = append(work, s)
		}
	}
	// record stale updates with the final in-sets
	for _, b := range fn.Blocks {
		if s, ok := in[b]; ok {
			transfer(b, s, true)
		}
	}
	// success exits
	first := true
	for _, b := range fn.Blocks {
		if len(b.Instrs) == 0 {
			continue
		}
		ret, ok := b.Instrs[len(b.Instrs)-1].(*ssa.Return)
		if !ok {
			continue
		}
		if _, reached := in[b]; !reached {
			continue
		}
		if n := len(ret.Results); n > 0 && a.NonNilErr != nil {
			last := retOperand(ret, n-1)
			if types.Identical(last.Type(), types.Universe.Lookup("error").Type()) && a.NonNilErr(last, b) {
				continue
			}
		}
		res.Exits++
		o := outS[b]
		if first {
			res.MustAtOK = copySet(o)
			first = false
		} else {
			res.MustAtOK = intersect(res.MustAtOK, o)
		}
		var fields []string
		for f := range res.MaySet {
			fields = append(fields, f)
		}
		sort.Strings(fields)
		for _, f := range fields {
			if !covers(o, f) {
				res.NotReset = append(res.NotReset, Finding{Field: f, At: ret, Set: res.MaySet[f]})
			}
		}
	}
	return res
}

// retOperand looks through the result spill go/ssa introduces for functions with defers.
func retOperand(ret *ssa.Return, i int) ssa.Value {
	v := ret.Results[i]
	ld, ok := v.(*ssa.UnOp)
	if !ok || ld.Op != token.MUL {
		return v
	}
	al, ok := ld.X.(*ssa.Alloc)
	if !ok {
		return v
	}
	b := ret.Block()
	for steps := 0; steps < 8; steps++ {
		for j := len(b.Instrs) - 1; j >= 0; j-- {
			if st, ok := b.Instrs[j].(*ssa.Store); ok && st.Addr == ssa.Value(al) {
				return st.Val
			}
		}
		if len(b.Preds) != 1 {
			return v
		}
		b = b.Preds[0]
	}
	return v
}
