// Package effect: write-effect (mod) analysis with provenance roots
// (DESIGN.md 3.3).  For every module function it computes through which of
// its parameters / free variables it may write and which globals it may write,
// bottom-up over the call graph.
package effect

import (
	"go/token"
	"go/types"
	"sort"
	"strings"

	"golang.org/x/tools/go/callgraph"
	"golang.org/x/tools/go/ssa"
)

type RootKind int

const (
	Fresh RootKind = iota
	Param
	Global
	FreeVar
	Unknown
)

type Root struct {
	Kind   RootKind
	Index  int // parameter / free variable index
	Global *ssa.Global
	// ViaField: the first field through which memory was reached by a load (for reports)
	ViaField string
}

func (r Root) key() string {
	switch r.Kind {
	case Param:
		return "p" + string(rune('0'+r.Index))
	case FreeVar:
		return "f" + string(rune('0'+r.Index))
	case Global:
		return "g:" + r.Global.String()
	case Unknown:
		return "?"
	}
	return "fresh"
}

// Write is one write event attributed to a function (direct or via a callee).
type Write struct {
	Fn     *ssa.Function   // function the event is attributed to
	At     ssa.Instruction // instruction in Fn (the store, or the call that leads to it)
	Origin *Write          // callee event this one was lifted from (nil = direct)
	Kind   string          // store | mapupdate | append | copy | call:<name>
	Root   Root
}

// OriginChain returns the direct write at the end of the chain.
func (w *Write) Direct() *Write {
	for w.Origin != nil {
		w = w.Origin
	}
	return w
}

type Summary struct {
	Writes []*Write // non-fresh writes (param / global / freevar / unknown)
}

type Analysis struct {
	CG       *callgraph.Graph
	InModule func(*ssa.Function) bool
	Sum      map[*ssa.Function]*Summary
}

// stdlib functions that write through an argument: name -> arg index.
var stdWriters = map[string]int{
	"(encoding/binary.bigEndian).PutUint16":    1,
	"(encoding/binary.bigEndian).PutUint32":    1,
	"(encoding/binary.bigEndian).PutUint64":    1,
	"(encoding/binary.littleEndian).PutUint16": 1,
	"(encoding/binary.littleEndian).PutUint32": 1,
	"(encoding/binary.littleEndian).PutUint64": 1,
	"io.ReadFull":          1,
	"io.ReadAtLeast":       1,
	"sort.Slice":           0,
	"sort.SliceStable":     0,
	"sort.Sort":            0,
	"sort.Stable":          0,
	"sort.Strings":         0,
	"sort.Ints":            0,
	"encoding/hex.Encode":  0,
	"encoding/hex.Decode":  0,
	"crypto/rand.Read":     0,
	"math/rand.Read":       0,
	"encoding/binary.Read": 2,
	"(*bytes.Reader).Read": 1,
	"(*bufio.Reader).Read": 1,
	"(*bytes.Buffer).Read": 1,
}

// receiver-writing stdlib methods (pointer receivers) by prefix
var stdRecvWriterPrefix = []string{"Write", "Reset", "Grow", "Truncate", "Set", "Store", "Add", "Swap", "CompareAndSwap", "Put", "Delete", "Range"}

func New(cg *callgraph.Graph, inModule func(*ssa.Function) bool, fns map[*ssa.Function]bool) *Analysis {
	a := &Analysis{CG: cg, InModule: inModule, Sum: map[*ssa.Function]*Summary{}}
	var list []*ssa.Function
	for f := range fns {
		if inModule(f) && len(f.Blocks) > 0 {
			list = append(list, f)
			a.Sum[f] = &Summary{}
		}
	}
	sort.Slice(list, func(i, j int) bool { return list[i].String() < list[j].String() })
	// direct effects
	for _, f := range list {
		a.direct(f)
	}
	// propagate to a fix-point
	for changed, iter := true, 0; changed && iter < 30; iter++ {
		changed = false
		for _, f := range list {
			if a.lift(f) {
				changed = true
			}
		}
	}
	return a
}

func (a *Analysis) add(f *ssa.Function, w *Write) bool {
	if w.Root.Kind == Fresh {
		return false
	}
	s := a.Sum[f]
	n := 0
	for _, o := range s.Writes {
		if o.Root.key() == w.Root.key() {
			n++
			if o.Direct().At == w.Direct().At {
				return false
			}
		}
	}
	if n >= 12 {
		return false // enough witnesses for this root
	}
	s.Writes = append(s.Writes, w)
	return true
}

func paramIndex(fn *ssa.Function, p *ssa.Parameter) int {
	for i, q := range fn.Params {
		if q == p {
			return i
		}
	}
	return -1
}

// RootsOf returns the provenance roots of the memory designated by v (an
// address, slice, map or pointer value) in fn.
func RootsOf(fn *ssa.Function, v ssa.Value) []Root {
	seen := map[ssa.Value]bool{}
	out := map[string]Root{}
	var walk func(v ssa.Value, via string)
	add := func(r Root, via string) {
		if r.ViaField == "" {
			r.ViaField = via
		}
		if _, ok := out[r.key()]; !ok {
			out[r.key()] = r
		}
	}
	walk = func(v ssa.Value, via string) {
		if seen[v] {
			return
		}
		seen[v] = true
		switch x := v.(type) {
		case *ssa.Alloc:
			// content of a local: what was stored into it is handled at loads
			add(Root{Kind: Fresh}, via)
		case *ssa.MakeSlice, *ssa.MakeMap, *ssa.MakeChan, *ssa.MakeClosure, *ssa.Const, *ssa.Function, *ssa.Builtin:
			add(Root{Kind: Fresh}, via)
		case *ssa.Global:
			add(Root{Kind: Global, Global: x}, via)
		case *ssa.Parameter:
			// scalar parameters carry no memory
			if !mayAlias(x.Type()) {
				add(Root{Kind: Fresh}, via)
			} else {
				add(Root{Kind: Param, Index: paramIndex(fn, x)}, via)
			}
		case *ssa.FreeVar:
			idx := 0
			for i, fv := range fn.FreeVars {
				if fv == x {
					idx = i
				}
			}
			add(Root{Kind: FreeVar, Index: idx}, via)
		case *ssa.FieldAddr:
			walk(x.X, via)
		case *ssa.IndexAddr:
			walk(x.X, via)
		case *ssa.Slice:
			walk(x.X, via)
		case *ssa.ChangeType:
			walk(x.X, via)
		case *ssa.Convert:
			if _, isStr := x.X.Type().Underlying().(*types.Basic); isStr {
				add(Root{Kind: Fresh}, via) // []byte(string) copies
			} else {
				walk(x.X, via)
			}
		case *ssa.MakeInterface:
			walk(x.X, via)
		case *ssa.ChangeInterface:
			walk(x.X, via)
		case *ssa.TypeAssert:
			walk(x.X, via)
		case *ssa.Extract:
			walk(x.Tuple, via)
		case *ssa.Field:
			walk(x.X, via)
		case *ssa.Index:
			walk(x.X, via)
		case *ssa.Lookup:
			walk(x.X, via)
		case *ssa.Phi:
			for _, e := range x.Edges {
				walk(e, via)
			}
		case *ssa.UnOp:
			if x.Op != token.MUL {
				add(Root{Kind: Fresh}, via)
				return
			}
			// load: the loaded value designates memory reachable from where it was loaded
			nv := via
			if fa, ok := x.X.(*ssa.FieldAddr); ok && nv == "" {
				st := fa.X.Type().Underlying().(*types.Pointer).Elem().Underlying().(*types.Struct)
				nv = st.Field(fa.Field).Name()
			}
			if !mayAlias(x.Type()) {
				add(Root{Kind: Fresh}, via)
				return
			}
			base, apath := accessPath(x.X)
			if al, ok := base.(*ssa.Alloc); ok {
				// local variable: union of what was stored into it at an overlapping access path
				n := 0
				for _, st := range storesIntoPath(al, apath, false) {
					n++
					walk(st, nv)
				}
				if n == 0 {
					add(Root{Kind: Fresh}, via)
				}
				return
			}
			walk(x.X, nv)
		case *ssa.Call:
			if bi, ok := x.Call.Value.(*ssa.Builtin); ok {
				switch bi.Name() {
				case "append":
					walk(x.Call.Args[0], via)
					return
				}
				add(Root{Kind: Fresh}, via)
				return
			}
			if !mayAlias(x.Type()) {
				add(Root{Kind: Fresh}, via)
				return
			}
			add(Root{Kind: Unknown}, via)
		default:
			add(Root{Kind: Unknown}, via)
		}
	}
	walk(v, "")
	var res []Root
	var keys []string
	for k := range out {
		keys = append(keys, k)
	}
	sort.Strings(keys)
	for _, k := range keys {
		res = append(res, out[k])
	}
	return res
}

// mayAlias: can a value of type t designate memory shared with others?
func mayAlias(t types.Type) bool {
	switch u := t.Underlying().(type) {
	case *types.Basic:
		return false
	case *types.Pointer, *types.Slice, *types.Map, *types.Chan, *types.Interface, *types.Signature:
		return true
	case *types.Struct:
		for i := 0; i < u.NumFields(); i++ {
			if mayAlias(u.Field(i).Type()) {
				return true
			}
		}
		return false
	case *types.Array:
		return mayAlias(u.Elem())
	case *types.Tuple:
		for i := 0; i < u.Len(); i++ {
			if mayAlias(u.At(i).Type()) {
				return true
			}
		}
		return false
	}
	return true
}

func addrBase(v ssa.Value) ssa.Value {
	for {
		switch x := v.(type) {
		case *ssa.FieldAddr:
			v = x.X
		case *ssa.IndexAddr:
			v = x.X
		default:
			return v
		}
	}
}

// accessPath returns the alloc at the base of addr and the path of field
// indices / "[]" steps leading from it.
func accessPath(addr ssa.Value) (ssa.Value, []string) {
	var path []string
	for {
		switch x := addr.(type) {
		case *ssa.FieldAddr:
			path = append([]string{"." + string(rune('a'+x.Field%26)) + string(rune('0'+x.Field/26))}, path...)
			addr = x.X
		case *ssa.IndexAddr:
			path = append([]string{"[]"}, path...)
			addr = x.X
		default:
			return addr, path
		}
	}
}

func pathCompatible(a, b []string) bool {
	n := len(a)
	if len(b) < n {
		n = len(b)
	}
	for i := 0; i < n; i++ {
		if a[i] != b[i] {
			return false
		}
	}
	return true
}

// storesInto returns the values stored into local al at an access path that
// overlaps `path` (a prefix of it, it, or an extension of it).  nil path = any.
func storesIntoPath(al *ssa.Alloc, path []string, any bool) []ssa.Value {
	var out []ssa.Value
	seen := map[ssa.Value]bool{}
	var visit func(addr ssa.Value)
	visit = func(addr ssa.Value) {
		if seen[addr] {
			return
		}
		seen[addr] = true
		refs := addr.Referrers()
		if refs == nil {
			return
		}
		for _, ref := range *refs {
			switch x := ref.(type) {
			case *ssa.Store:
				if x.Addr == addr {
					_, sp := accessPath(addr)
					if any || pathCompatible(sp, path) {
						out = append(out, x.Val)
					}
				}
			case *ssa.FieldAddr:
				if x.X == addr {
					visit(x)
				}
			case *ssa.IndexAddr:
				if x.X == addr {
					visit(x)
				}
			}
		}
	}
	visit(al)
	return out
}

func storesInto(al *ssa.Alloc) []ssa.Value { return storesIntoPath(al, nil, true) }

// capLimited: an append onto base cannot write in place.
func capLimited(base ssa.Value) bool {
	switch x := base.(type) {
	case *ssa.Const:
		return true // nil
	case *ssa.Slice:
		if x.Max != nil {
			return true
		}
	case *ssa.MakeSlice:
		return true
	}
	return false
}

func (a *Analysis) direct(f *ssa.Function) {
	for _, b := range f.Blocks {
		for _, ins := range b.Instrs {
			switch x := ins.(type) {
			case *ssa.Store:
				for _, r := range RootsOf(f, x.Addr) {
					a.add(f, &Write{Fn: f, At: ins, Kind: "store", Root: r})
				}
			case *ssa.MapUpdate:
				for _, r := range RootsOf(f, x.Map) {
					a.add(f, &Write{Fn: f, At: ins, Kind: "mapupdate", Root: r})
				}
			case *ssa.Send:
				// channel sends are synchronisation, not data writes
			case ssa.CallInstruction:
				cc := x.Common()
				if bi, ok := cc.Value.(*ssa.Builtin); ok {
					switch bi.Name() {
					case "append":
						if _, isS := cc.Args[0].Type().Underlying().(*types.Slice); isS && !capLimited(cc.Args[0]) {
							for _, r := range RootsOf(f, cc.Args[0]) {
								a.add(f, &Write{Fn: f, At: ins, Kind: "append", Root: r})
							}
						}
					case "copy":
						for _, r := range RootsOf(f, cc.Args[0]) {
							a.add(f, &Write{Fn: f, At: ins, Kind: "copy", Root: r})
						}
					case "delete", "clear":
						for _, r := range RootsOf(f, cc.Args[0]) {
							a.add(f, &Write{Fn: f, At: ins, Kind: bi.Name(), Root: r})
						}
					}
					continue
				}
				callee := cc.StaticCallee()
				if callee == nil || a.InModule(callee) {
					continue
				}
				name := callee.String()
				if idx, ok := stdWriters[name]; ok && idx < len(cc.Args) {
					for _, r := range RootsOf(f, cc.Args[idx]) {
						a.add(f, &Write{Fn: f, At: ins, Kind: "call:" + name, Root: r})
					}
					continue
				}
				// stdlib append-style functions: Append*(dst []byte, ...) []byte write into the spare
				// capacity of dst exactly as the builtin does
				if strings.HasPrefix(callee.Name(), "Append") && callee.Signature.Results().Len() >= 1 {
					if _, isS := callee.Signature.Results().At(0).Type().Underlying().(*types.Slice); isS {
						di := 0
						if callee.Signature.Recv() != nil {
							di = 1
						}
						if di < len(cc.Args) {
							if _, isS := cc.Args[di].Type().Underlying().(*types.Slice); isS && !capLimited(cc.Args[di]) {
								for _, r := range RootsOf(f, cc.Args[di]) {
									a.add(f, &Write{Fn: f, At: ins, Kind: "append", Root: r})
								}
								continue
							}
						}
					}
				}
				// pointer-receiver stdlib methods that modify the receiver
				if callee.Signature.Recv() != nil && len(cc.Args) > 0 && callee.Pkg != nil && callee.Pkg.Pkg.Path() != "sync" && callee.Pkg.Pkg.Path() != "sync/atomic" {
					if _, isPtr := callee.Signature.Recv().Type().(*types.Pointer); isPtr {
						for _, pre := range stdRecvWriterPrefix {
							if strings.HasPrefix(callee.Name(), pre) {
								for _, r := range RootsOf(f, cc.Args[0]) {
									a.add(f, &Write{Fn: f, At: ins, Kind: "call:" + name, Root: r})
								}
								break
							}
						}
					}
				}
			}
		}
	}
}

// lift callee summaries to call sites of f.
func (a *Analysis) lift(f *ssa.Function) bool {
	changed := false
	n := a.CG.Nodes[f]
	if n != nil {
		for _, e := range n.Out {
			g := e.Callee.Func
			gs := a.Sum[g]
			if gs == nil || e.Site == nil {
				continue
			}
			cc := e.Site.Common()
			var args []ssa.Value
			if cc.IsInvoke() {
				args = append([]ssa.Value{cc.Value}, cc.Args...)
			} else {
				args = cc.Args
			}
			for _, w := range gs.Writes {
				switch w.Root.Kind {
				case Global, Unknown:
					if a.add(f, &Write{Fn: f, At: e.Site, Origin: w, Kind: w.Kind, Root: w.Root}) {
						changed = true
					}
				case Param:
					if w.Root.Index < 0 || w.Root.Index >= len(args) {
						continue
					}
					// calling a closure value: parameters of the closure line up with args
					for _, r := range RootsOf(f, args[w.Root.Index]) {
						if r.ViaField == "" {
							r.ViaField = w.Root.ViaField
						}
						if a.add(f, &Write{Fn: f, At: e.Site, Origin: w, Kind: w.Kind, Root: r}) {
							changed = true
						}
					}
				case FreeVar:
					// resolved where the closure is created (below)
				}
			}
		}
	}
	// closures created in f that write through a free variable
	for _, b := range f.Blocks {
		for _, ins := range b.Instrs {
			mc, ok := ins.(*ssa.MakeClosure)
			if !ok {
				continue
			}
			g, _ := mc.Fn.(*ssa.Function)
			gs := a.Sum[g]
			if gs == nil {
				continue
			}
			for _, w := range gs.Writes {
				if w.Root.Kind != FreeVar || w.Root.Index >= len(mc.Bindings) {
					continue
				}
				bind := mc.Bindings[w.Root.Index]
				var roots []Root
				if al, ok := bind.(*ssa.Alloc); ok {
					// captured variable: a store into it is local; writes *through* its content follow what was stored
					if dw := w.Direct(); dw != nil {
						if st, ok := dw.At.(*ssa.Store); ok {
							if _, isFV := st.Addr.(*ssa.FreeVar); isFV {
								continue // assignment to the captured variable itself
							}
						}
					}
					for _, sv := range storesInto(al) {
						roots = append(roots, RootsOf(f, sv)...)
					}
				} else {
					roots = RootsOf(f, bind)
				}
				for _, r := range roots {
					if a.add(f, &Write{Fn: f, At: ins, Origin: w, Kind: w.Kind, Root: r}) {
						changed = true
					}
				}
			}
		}
	}
	return changed
}
