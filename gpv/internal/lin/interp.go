package lin

import (
	"fmt"
	"go/token"
	"go/types"

	"golang.org/x/tools/go/ssa"
)

// SliceD describes a slice value: backing array identity and bounds.
type SliceD struct {
	Base          string
	Off, Len, Cap Lin
}

// Addr is a symbolic address: a named cell (receiver field, local).
type Addr struct{ Cell string }

// Val is one of Lin, SliceD, Addr, or nil (unknown).
type Val interface{}

type Copy struct {
	Dst, Src SliceD
	At       ssa.Instruction
}

// Path is the outcome of interpreting one entry→exit path.
type Path struct {
	Cells   map[string]Val // final cell contents (receiver fields by name)
	Ret     []Val
	RetIns  *ssa.Return
	Copies  []Copy
	Facts   []Lin // each >= 0 on this path
	Panics  bool
	Unknown []string // things the interpreter could not model
	Trace   []int    // block indices
}

type Interp struct {
	Fn *ssa.Function
	// Init gives the symbolic value of a receiver-field cell at entry.
	Init func(cell string, t types.Type) Val
	// ParamVal gives the value of a parameter.
	ParamVal func(p *ssa.Parameter) Val
	Facts    []Lin
	MaxPaths int
	depth    int
	fresh    int
	Paths    []*Path
}

type state struct {
	cells   map[string]Val
	vals    map[ssa.Value]Val
	copies  []Copy
	facts   []Lin
	unknown []string
	trace   []int
	visited map[*ssa.BasicBlock]int
}

func (s *state) clone() *state {
	n := &state{cells: map[string]Val{}, vals: map[ssa.Value]Val{}, visited: map[*ssa.BasicBlock]int{}}
	for k, v := range s.cells {
		n.cells[k] = v
	}
	for k, v := range s.vals {
		n.vals[k] = v
	}
	for k, v := range s.visited {
		n.visited[k] = v
	}
	n.copies = append(n.copies, s.copies...)
	n.facts = append(n.facts, s.facts...)
	n.unknown = append(n.unknown, s.unknown...)
	n.trace = append(n.trace, s.trace...)
	return n
}

func (in *Interp) Run() {
	if in.MaxPaths == 0 {
		in.MaxPaths = 256
	}
	st := &state{cells: map[string]Val{}, vals: map[ssa.Value]Val{}, visited: map[*ssa.BasicBlock]int{}}
	st.facts = append(st.facts, in.Facts...)
	in.block(in.Fn.Blocks[0], nil, st)
}

func (in *Interp) newBase() string {
	in.fresh++
	return fmt.Sprintf("new%d", in.fresh)
}

func (in *Interp) cellOf(v ssa.Value, st *state) (string, bool) {
	switch x := v.(type) {
	case *ssa.FieldAddr:
		if base, ok := in.cellOf(x.X, st); ok {
			f := x.X.Type().Underlying().(*types.Pointer).Elem().Underlying().(*types.Struct).Field(x.Field)
			if base == "" {
				return f.Name(), true
			}
			return base + "." + f.Name(), true
		}
	case *ssa.Parameter:
		if len(in.Fn.Params) > 0 && x == in.Fn.Params[0] && in.Fn.Signature.Recv() != nil {
			return "", true
		}
	case *ssa.Alloc:
		return fmt.Sprintf("local%p", x), true
	}
	if a, ok := st.vals[v].(Addr); ok {
		return a.Cell, true
	}
	return "", false
}

func (in *Interp) eval(v ssa.Value, st *state) Val {
	if c, ok := v.(*ssa.Const); ok {
		if c.Value != nil && c.Value.Kind().String() == "Int" {
			if i, ok := constInt(c); ok {
				return K(i)
			}
		}
		return nil
	}
	if p, ok := v.(*ssa.Parameter); ok {
		if in.ParamVal != nil {
			return in.ParamVal(p)
		}
		return nil
	}
	return st.vals[v]
}

func constInt(c *ssa.Const) (int64, bool) {
	return c.Int64(), c.Value != nil
}

func (in *Interp) load(cell string, t types.Type, st *state) Val {
	if v, ok := st.cells[cell]; ok {
		return v
	}
	var v Val
	if in.Init != nil {
		v = in.Init(cell, t)
	}
	st.cells[cell] = v
	return v
}

func (in *Interp) block(b *ssa.BasicBlock, pred *ssa.BasicBlock, st *state) {
	if len(in.Paths) >= in.MaxPaths {
		return
	}
	if st.visited[b] >= 1 {
		p := &Path{Cells: st.cells, Unknown: append(st.unknown, "loop"), Trace: st.trace}
		in.Paths = append(in.Paths, p)
		return
	}
	st.visited[b]++
	st.trace = append(st.trace, b.Index)
	in.blockFrom(b, 0, pred, st)
}

// pureIntHelper: f takes and returns integers only and has no effects.
func pureIntHelper(f *ssa.Function) bool {
	if f == nil || len(f.Blocks) == 0 || f.Signature.Results().Len() != 1 {
		return false
	}
	isInt := func(t types.Type) bool {
		b, ok := t.Underlying().(*types.Basic)
		return ok && b.Info()&types.IsInteger != 0
	}
	if !isInt(f.Signature.Results().At(0).Type()) {
		return false
	}
	for _, p := range f.Params {
		if !isInt(p.Type()) {
			return false
		}
	}
	for _, b := range f.Blocks {
		for _, ins := range b.Instrs {
			switch ins.(type) {
			case *ssa.Store, *ssa.Call, *ssa.Go, *ssa.Defer, *ssa.MapUpdate, *ssa.Send, *ssa.Panic:
				return false
			}
		}
	}
	return true
}

func (in *Interp) blockFrom(b *ssa.BasicBlock, from int, pred *ssa.BasicBlock, st *state) {
	for idx := from; idx < len(b.Instrs); idx++ {
		ins := b.Instrs[idx]
		// a pure integer helper (max/min/round-up ...): interpret it and continue once per outcome
		if call, ok := ins.(*ssa.Call); ok && in.depth < 2 {
			if f := call.Call.StaticCallee(); f != nil && pureIntHelper(f) {
				args := map[*ssa.Parameter]Val{}
				okArgs := true
				for i, p := range f.Params {
					v := in.eval(call.Call.Args[i], st)
					if _, isLin := v.(Lin); !isLin {
						okArgs = false
					}
					args[p] = v
				}
				if okArgs {
					sub := &Interp{Fn: f, ParamVal: func(p *ssa.Parameter) Val { return args[p] }, Facts: st.facts, MaxPaths: 16, depth: in.depth + 1}
					sub.Run()
					var outs []*Path
					for _, pt := range sub.Paths {
						if pt.Panics || len(pt.Unknown) > 0 || len(pt.Ret) != 1 {
							outs = nil
							break
						}
						if _, isLin := pt.Ret[0].(Lin); !isLin {
							outs = nil
							break
						}
						outs = append(outs, pt)
					}
					if len(outs) == 1 {
						st.vals[call] = outs[0].Ret[0]
						st.facts = outs[0].Facts
						continue
					}
					if len(outs) > 1 {
						for _, pt := range outs {
							s2 := st.clone()
							s2.vals[call] = pt.Ret[0]
							s2.facts = append([]Lin(nil), pt.Facts...)
							if !contradictory(s2.facts) {
								in.blockFrom(b, idx+1, pred, s2)
							}
						}
						return
					}
				}
			}
		}
		switch x := ins.(type) {
		case *ssa.Phi:
			for i, p := range b.Preds {
				if p == pred {
					st.vals[x] = in.eval(x.Edges[i], st)
				}
			}
		case *ssa.FieldAddr, *ssa.Alloc:
			// addresses are resolved lazily by cellOf
		case *ssa.UnOp:
			if x.Op == token.MUL {
				if cell, ok := in.cellOf(x.X, st); ok {
					st.vals[x] = in.load(cell, x.Type(), st)
				}
			} else if x.Op == token.SUB {
				if l, ok := in.eval(x.X, st).(Lin); ok {
					st.vals[x] = l.Scale(-1)
				}
			}
		case *ssa.Store:
			if cell, ok := in.cellOf(x.Addr, st); ok {
				st.cells[cell] = in.eval(x.Val, st)
			} else {
				st.unknown = append(st.unknown, "store through unmodelled address")
			}
		case *ssa.Convert:
			if l, ok := in.eval(x.X, st).(Lin); ok {
				st.vals[x] = l
			}
		case *ssa.ChangeType:
			st.vals[x] = in.eval(x.X, st)
		case *ssa.BinOp:
			a, okA := in.eval(x.X, st).(Lin)
			c, okC := in.eval(x.Y, st).(Lin)
			if okA && okC {
				switch x.Op {
				case token.ADD:
					st.vals[x] = a.Add(c)
				case token.SUB:
					st.vals[x] = a.Sub(c)
				case token.MUL:
					if k, ok := a.IsConst(); ok {
						st.vals[x] = c.Scale(k)
					} else if k, ok := c.IsConst(); ok {
						st.vals[x] = a.Scale(k)
					}
				}
			}
		case *ssa.MakeSlice:
			l, ok1 := in.eval(x.Len, st).(Lin)
			c, ok2 := in.eval(x.Cap, st).(Lin)
			if ok1 && ok2 {
				st.vals[x] = SliceD{Base: in.newBase(), Off: K(0), Len: l, Cap: c}
			}
		case *ssa.Slice:
			var sd SliceD
			ok := false
			if al, isAl := x.X.(*ssa.Alloc); isAl {
				if arr, isArr := al.Type().Underlying().(*types.Pointer).Elem().Underlying().(*types.Array); isArr {
					sd = SliceD{Base: in.newBase(), Off: K(0), Len: K(arr.Len()), Cap: K(arr.Len())}
					ok = true
				}
			}
			if !ok {
				sd, ok = in.eval(x.X, st).(SliceD)
			}
			if !ok {
				break
			}
			lo := K(0)
			if x.Low != nil {
				l, ok := in.eval(x.Low, st).(Lin)
				if !ok {
					break
				}
				lo = l
			}
			hi := sd.Len
			if x.High != nil {
				h, ok := in.eval(x.High, st).(Lin)
				if !ok {
					break
				}
				hi = h
			}
			nd := SliceD{Base: sd.Base, Off: sd.Off.Add(lo), Len: hi.Sub(lo), Cap: sd.Cap.Sub(lo)}
			if x.Max != nil {
				if m, ok := in.eval(x.Max, st).(Lin); ok {
					nd.Cap = m.Sub(lo)
				}
			}
			st.vals[x] = nd
		case *ssa.Call:
			if bi, ok := x.Call.Value.(*ssa.Builtin); ok {
				switch bi.Name() {
				case "len", "cap":
					if sd, ok := in.eval(x.Call.Args[0], st).(SliceD); ok {
						if bi.Name() == "len" {
							st.vals[x] = sd.Len
						} else {
							st.vals[x] = sd.Cap
						}
					}
				case "copy":
					d, ok1 := in.eval(x.Call.Args[0], st).(SliceD)
					s, ok2 := in.eval(x.Call.Args[1], st).(SliceD)
					if ok1 && ok2 {
						st.copies = append(st.copies, Copy{Dst: d, Src: s, At: x})
					} else {
						st.unknown = append(st.unknown, "copy with unmodelled operand")
					}
				case "append":
					st.unknown = append(st.unknown, "append")
				}
			} else {
				// unknown call: results unknown; calls on the receiver invalidate nothing we track unless it receives the receiver
				for _, a := range x.Call.Args {
					if len(in.Fn.Params) > 0 && a == ssa.Value(in.Fn.Params[0]) && in.Fn.Signature.Recv() != nil {
						st.unknown = append(st.unknown, "call receives the receiver")
					}
				}
			}
		case *ssa.If:
			cond := x.Cond
			tS, fS := st.clone(), st
			if bo, ok := cond.(*ssa.BinOp); ok {
				a, okA := in.eval(bo.X, st).(Lin)
				c, okC := in.eval(bo.Y, st).(Lin)
				if okA && okC {
					addFacts(tS, bo.Op, a, c, true)
					addFacts(fS, bo.Op, a, c, false)
				}
			}
			if !contradictory(tS.facts) {
				in.block(b.Succs[0], b, tS)
			}
			if !contradictory(fS.facts) {
				in.block(b.Succs[1], b, fS)
			}
			return
		case *ssa.Jump:
			in.block(b.Succs[0], b, st)
			return
		case *ssa.Return:
			p := &Path{Cells: st.cells, RetIns: x, Copies: st.copies, Facts: st.facts, Unknown: st.unknown, Trace: st.trace}
			for _, r := range x.Results {
				p.Ret = append(p.Ret, in.eval(r, st))
			}
			in.Paths = append(in.Paths, p)
			return
		case *ssa.Panic:
			in.Paths = append(in.Paths, &Path{Cells: st.cells, Panics: true, Facts: st.facts, Trace: st.trace})
			return
		}
	}
}

func addFacts(s *state, op token.Token, a, c Lin, truth bool) {
	if !truth {
		switch op {
		case token.LSS:
			op = token.GEQ
		case token.LEQ:
			op = token.GTR
		case token.GTR:
			op = token.LEQ
		case token.GEQ:
			op = token.LSS
		case token.EQL:
			return
		case token.NEQ:
			op = token.EQL
		}
	}
	switch op {
	case token.LSS: // a < c  => c-a-1 >= 0
		s.facts = append(s.facts, c.Sub(a).Sub(K(1)))
	case token.LEQ:
		s.facts = append(s.facts, c.Sub(a))
	case token.GTR:
		s.facts = append(s.facts, a.Sub(c).Sub(K(1)))
	case token.GEQ:
		s.facts = append(s.facts, a.Sub(c))
	case token.EQL:
		s.facts = append(s.facts, a.Sub(c), c.Sub(a))
	}
}

// contradictory: two facts f and g with f + g + 1 <= 0 constant (f = -g - k, k>=1).
func contradictory(facts []Lin) bool {
	for i := range facts {
		if c, ok := facts[i].IsConst(); ok && c < 0 {
			return true
		}
		for j := i + 1; j < len(facts); j++ {
			s := facts[i].Add(facts[j])
			if c, ok := s.IsConst(); ok && c < 0 {
				return true
			}
		}
	}
	return false
}
