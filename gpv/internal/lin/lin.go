// Package lin: linear normal forms over symbolic integers and a small
// path-enumerating abstract interpreter for loop-free SSA functions that
// manipulate slices through struct fields (serialize buffer, defrag length
// arithmetic).  No solver: equalities are decided by normal-form identity,
// inequalities by non-negative combinations of stated facts.
package lin

import (
	"fmt"
	"sort"
	"strings"
)

type Lin struct {
	C int64
	T map[string]int64
}

func K(c int64) Lin    { return Lin{C: c} }
func Sym(s string) Lin { return Lin{T: map[string]int64{s: 1}} }
func (a Lin) clone() Lin {
	b := Lin{C: a.C, T: map[string]int64{}}
	for k, v := range a.T {
		b.T[k] = v
	}
	return b
}
func (a Lin) Add(b Lin) Lin {
	r := a.clone()
	r.C += b.C
	for k, v := range b.T {
		r.T[k] += v
		if r.T[k] == 0 {
			delete(r.T, k)
		}
	}
	return r
}
func (a Lin) Scale(k int64) Lin {
	r := Lin{C: a.C * k, T: map[string]int64{}}
	if k == 0 {
		return r
	}
	for s, v := range a.T {
		r.T[s] = v * k
	}
	return r
}
func (a Lin) Sub(b Lin) Lin { return a.Add(b.Scale(-1)) }
func (a Lin) IsConst() (int64, bool) {
	for _, v := range a.T {
		if v != 0 {
			return 0, false
		}
	}
	return a.C, true
}
func (a Lin) Eq(b Lin) bool {
	d := a.Sub(b)
	c, ok := d.IsConst()
	return ok && c == 0
}
func (a Lin) String() string {
	var ks []string
	for k, v := range a.T {
		if v != 0 {
			ks = append(ks, k)
		}
	}
	sort.Strings(ks)
	var sb strings.Builder
	for i, k := range ks {
		v := a.T[k]
		switch {
		case v == 1 && i == 0:
			sb.WriteString(k)
		case v == 1:
			sb.WriteString("+" + k)
		case v == -1:
			sb.WriteString("-" + k)
		case v > 0 && i > 0:
			fmt.Fprintf(&sb, "+%d*%s", v, k)
		default:
			fmt.Fprintf(&sb, "%d*%s", v, k)
		}
	}
	if a.C != 0 || len(ks) == 0 {
		if a.C >= 0 && len(ks) > 0 {
			sb.WriteString("+")
		}
		fmt.Fprintf(&sb, "%d", a.C)
	}
	return sb.String()
}

// NonNeg tries to prove e >= 0 from facts (each fact >= 0): e == Σ c_i·f_i + k
// with c_i ∈ {0,1,2}, k >= 0.
func NonNeg(e Lin, facts []Lin) bool {
	if c, ok := e.IsConst(); ok {
		return c >= 0
	}
	if len(facts) > 12 {
		facts = facts[:12]
	}
	var rec func(i int, rest Lin) bool
	rec = func(i int, rest Lin) bool {
		if c, ok := rest.IsConst(); ok && c >= 0 {
			return true
		}
		if i == len(facts) {
			return false
		}
		for k := int64(0); k <= 2; k++ {
			if rec(i+1, rest.Sub(facts[i].Scale(k))) {
				return true
			}
		}
		return false
	}
	return rec(0, e)
}
