package guard

import (
	"fmt"
	"go/constant"
	"go/token"
	"go/types"
	"strings"

	"golang.org/x/tools/go/ssa"
)

// Site is one potential bounds panic with a constant requirement.
type Site struct {
	Fn     *ssa.Function
	Ins    ssa.Instruction
	Slice  ssa.Value
	Need   int // required minimum length of Slice
	Have   int // proven minimum length
	What   string
	Class  string // SAFE | DEF | UNK-*
	Why    string
	Root   ssa.Value
	Guards []string
	Zone   bool // proven by the difference-constraint closure
	Belief bool // definite from the function's own length test alone (covers a proper prefix), whatever callers pass
}

// RootInfo says which parameter of a function is attacker-chosen and the
// smallest length the API contract lets through.
type RootInfo struct {
	Data   *ssa.Parameter
	MinLen int
}

// LiveBlocks returns the blocks reachable from the entry when edges behind
// constant conditions are pruned (go/ssa does not fold `if false {}`).
func LiveBlocks(fn *ssa.Function) map[*ssa.BasicBlock]bool {
	live := map[*ssa.BasicBlock]bool{}
	if len(fn.Blocks) == 0 {
		return live
	}
	work := []*ssa.BasicBlock{fn.Blocks[0]}
	live[fn.Blocks[0]] = true
	for len(work) > 0 {
		b := work[len(work)-1]
		work = work[:len(work)-1]
		succs := b.Succs
		if len(b.Instrs) > 0 {
			if iff, ok := b.Instrs[len(b.Instrs)-1].(*ssa.If); ok {
				if c, ok := iff.Cond.(*ssa.Const); ok && c.Value != nil && c.Value.Kind() == constant.Bool {
					if constant.BoolVal(c.Value) {
						succs = b.Succs[:1]
					} else {
						succs = b.Succs[1:2]
					}
				}
			}
		}
		for _, s := range succs {
			if !live[s] {
				live[s] = true
				work = append(work, s)
			}
		}
	}
	return live
}

// Analyze classifies the constant-requirement sites of fn.  root may be nil
// (then no site is DEF; sites with param provenance get CAND-param).
func Analyze(fn *ssa.Function, root *RootInfo) []Site {
	if len(fn.Blocks) == 0 {
		return nil
	}
	fi := infoFor(fn, root)
	live := LiveBlocks(fn)
	var sites []Site
	for _, b := range fn.Blocks {
		if !live[b] {
			continue
		}
		for _, ins := range b.Instrs {
			var sl ssa.Value
			need := -1
			what := ""
			if slx, ok := ins.(*ssa.Slice); ok {
				if rs, ok := fi.reversedBounds(slx, b); ok {
					sites = append(sites, rs)
				}
			}
			switch x := ins.(type) {
			case *ssa.IndexAddr:
				if _, ok := x.X.Type().Underlying().(*types.Slice); ok {
					if c, ok := constInt(x.Index); ok {
						sl, need, what = x.X, c+1, fmt.Sprintf("[%d]", c)
					}
				}
			case *ssa.Index:
				// string/array index: not a slice
			case *ssa.Slice:
				if _, ok := x.X.Type().Underlying().(*types.Slice); ok {
					mx := -1
					if x.Low != nil {
						if c, ok := constInt(x.Low); ok && c > mx {
							mx = c
						}
					}
					if x.High != nil {
						if c, ok := constInt(x.High); ok && c > mx {
							mx = c
						}
					}
					if mx > 0 {
						lo, hi := "", ""
						if x.Low != nil {
							if c, ok := constInt(x.Low); ok {
								lo = fmt.Sprint(c)
							} else {
								lo = "…"
							}
						}
						if x.High != nil {
							if c, ok := constInt(x.High); ok {
								hi = fmt.Sprint(c)
							} else {
								hi = "…"
							}
						}
						sl, need, what = x.X, mx, fmt.Sprintf("[%s:%s]", lo, hi)
						// a high bound is checked against cap, not len: only when High is the constant
						if x.High != nil {
							if _, ok := constInt(x.High); ok {
								// cap >= len; a definite claim needs cap == len knowledge, which holds for
								// re-slices of the root parameter only if the caller passes len==cap; be
								// conservative: treat as len requirement only for provenance "root data"
							}
						}
					}
				}
			case *ssa.Call:
				if f := x.Call.StaticCallee(); f != nil && f.Pkg != nil && f.Pkg.Pkg.Path() == "encoding/binary" {
					n := 0
					switch f.Name() {
					case "Uint16", "PutUint16":
						n = 2
					case "Uint32", "PutUint32":
						n = 4
					case "Uint64", "PutUint64":
						n = 8
					}
					if n > 0 && len(x.Call.Args) >= 2 {
						sl, need, what = x.Call.Args[1], n, "binary."+f.Name()
					}
				}
			}
			if sl == nil {
				// symbolic requirement: index or high bound that is `base + k`
				if ss, ok := fi.symSite(ins, b); ok {
					sites = append(sites, ss)
				}
				continue
			}
			have := fi.minLen(sl, b, map[ssa.Value]bool{})
			s := Site{Fn: fn, Ins: ins, Slice: sl, Need: need, Have: have, What: what, Class: "SAFE", Root: chainOf(sl).root}
			if have < need {
				fi.classify(&s, b)
				if s.Class == "DEF" {
					slv, nd, blk := sl, need, b
					if fi.correlatedRelevant(blk, func() bool { return fi.minLen(slv, blk, map[ssa.Value]bool{}) >= nd }) {
						s.Class, s.Why = "UNK-corr", "a length test that would cover this access holds on some of the paths that reach it"
					}
				}
			}
			sites = append(sites, s)
		}
	}
	return sites
}

func (fi *fnInfo) classify(s *Site, b *ssa.BasicBlock) {
	ci := chainOf(s.Slice)
	s.Root = ci.root
	bf := fi.facts[b]
	mem := map[ssa.Value]bool{}
	for _, m := range ci.members {
		mem[m] = true
	}
	unk := false
	for _, u := range bf.unknown {
		if mem[u] {
			unk = true
		}
	}
	callg := false
	for _, u := range bf.callsOn {
		if mem[u] {
			callg = true
		}
		if ci.viaLoad {
			callg = true
		}
	}
	symunk := false
	for _, sf := range bf.syms {
		if mem[sf.s] {
			var ks []string
			fi.keysOf(sf.v, b, 0, &ks)
			for _, k := range ks {
				for _, u := range bf.unkInts {
					if u == k {
						symunk = true
					}
				}
			}
			if _, isCall := stripConv(sf.v).(*ssa.Call); isCall {
				symunk = true
			}
			if untrackedLoad(sf.v, 0) {
				// the guard's integer lives in memory the analysis cannot name (e.g. a field
				// of a slice element): other conditions on it cannot be linked, so the
				// knowledge needed for a definite claim is incomplete
				symunk = true
			}
		}
	}
	_, isParam := ci.root.(*ssa.Parameter)
	isRoot := fi.rootParam != nil && ci.root == ssa.Value(fi.rootParam)
	switch {
	case unk:
		s.Class, s.Why = "UNK-guard", "a dominating length-related condition is not of a recognised form"
	case symunk:
		s.Class, s.Why = "UNK-symguard", "a symbolic guard's integer operand is not understood"
	case callg:
		s.Class, s.Why = "UNK-call", "a dominating condition depends on a call that received the slice"
	case ci.otherRoots:
		s.Class, s.Why = "UNK-multi", "slice has several provenance roots"
	case ci.viaLoad:
		s.Class, s.Why = "CAND-load", "slice is loaded from memory"
	case !isParam:
		s.Class, s.Why = "UNK-root", "provenance root is not a parameter"
	case !isRoot:
		s.Class, s.Why = "CAND-param", "parameter of a non-root function"
	case ci.symbolic && ci.arbLoop:
		s.Class, s.Why = "DEF", "loop re-slices by an unstructured attacker value; only len>0 style guards dominate"
	case ci.symbolic:
		s.Class, s.Why = "UNK-symlen", "length depends on a symbolic slice bound whose possible values are not understood"
	default:
		s.Class, s.Why = "DEF", "no dominating guard establishes the required length"
	}
	// describe the guards known here
	for _, f := range bf.lens {
		if mem[f.v] {
			s.Guards = append(s.Guards, fmt.Sprintf("len(%s) >= %d", f.v.Name(), f.ge))
		}
	}
	for _, f := range bf.syms {
		if mem[f.s] {
			s.Guards = append(s.Guards, fmt.Sprintf("len(%s) >= %s%+d", f.s.Name(), f.v.Name(), f.adj))
		}
	}
}

var _ = token.ADD

// ArgInfo reports, for a slice value passed at a call in block `at` of fn, the
// proven minimum length and whether the analysis' knowledge of that slice is
// complete and its provenance arbitrary (descends from the root parameter with
// only recognised guards): only then can a callee's requirement be turned into
// a definite finding.
type fiKey struct {
	fn  *ssa.Function
	p   *ssa.Parameter
	min int
}

var fiCache = map[fiKey]*fnInfo{}

func infoFor(fn *ssa.Function, root *RootInfo) *fnInfo {
	k := fiKey{fn: fn}
	if root != nil {
		k.p, k.min = root.Data, root.MinLen
	}
	if fi, ok := fiCache[k]; ok {
		return fi
	}
	fi := &fnInfo{fn: fn}
	if root != nil {
		fi.rootParam = root.Data
		fi.rootMin = root.MinLen
	}
	computeFacts(fi)
	fiCache[k] = fi
	return fi
}

func ArgInfo(fn *ssa.Function, root *RootInfo, arg ssa.Value, at *ssa.BasicBlock) (have int, arbitrary bool) {
	fi := infoFor(fn, root)
	if !LiveBlocks(fn)[at] {
		return 1 << 30, false
	}
	have = fi.minLen(arg, at, map[ssa.Value]bool{})
	s := Site{Fn: fn, Slice: arg, Need: 1 << 30}
	if fi.facts[at] == nil {
		return have, false
	}
	fi.classify(&s, at)
	return have, s.Class == "DEF"
}

// Advance describes how a loop variable moves per iteration.
type Advance struct {
	Phi      *ssa.Phi
	Step     ssa.Value       // the amount added / the low bound of the re-slice
	At       ssa.Instruction // the advancing instruction
	LB       int             // proven lower bound of Step at that point (overflow-aware)
	LBNoWrap int             // the same bound if narrow arithmetic is assumed not to wrap
	Taint    bool            // Step derives from packet bytes / decoded fields
	Kind     string          // "reslice" | "offset"
	// WrappedGuard: a dominating length test compares len with the very value that wraps
	// (so it cannot reject the wrapped case); WideGuard: some dominating test uses wide
	// arithmetic over the same packet value (it may reject the values that wrap)
	WrappedGuard bool
	WideGuard    bool
}

// LoopAdvances finds, for every loop-carried slice or integer variable of fn,
// the per-iteration advance and its proven lower bound.
func LoopAdvances(fn *ssa.Function, root *RootInfo) []Advance {
	if len(fn.Blocks) == 0 {
		return nil
	}
	fi := infoFor(fn, root)
	live := LiveBlocks(fn)
	var out []Advance
	for _, b := range fn.Blocks {
		if !live[b] {
			continue
		}
		for _, ins := range b.Instrs {
			ph, ok := ins.(*ssa.Phi)
			if !ok {
				break
			}
			for i, e := range ph.Edges {
				pred := b.Preds[i]
				if !b.Dominates(pred) {
					continue // not a back edge
				}
				switch x := e.(type) {
				case *ssa.Slice:
					if x.High != nil || x.Low == nil {
						continue
					}
					if !reachesPhi(x.X, ph, 0) {
						continue
					}
					lb := fi.intLB(x.Low, x.Block(), 0)
					fi.ignoreWrap = true
					lb2 := fi.intLB(x.Low, x.Block(), 0)
					fi.ignoreWrap = false
					adv := Advance{Phi: ph, Step: x.Low, At: x, LB: lb, LBNoWrap: lb2, Taint: tainted(x.Low, 0), Kind: "reslice"}
					adv.WrappedGuard, adv.WideGuard = guardsOnStep(x.Low, x.Block())
					out = append(out, adv)
				case *ssa.BinOp:
					if x.Op != token.ADD {
						continue
					}
					var step ssa.Value
					if reachesPhi(x.X, ph, 0) {
						step = x.Y
					} else if reachesPhi(x.Y, ph, 0) {
						step = x.X
					}
					if step == nil {
						continue
					}
					if _, isInt := ph.Type().Underlying().(*types.Basic); !isInt {
						continue
					}
					lb := fi.intLB(step, x.Block(), 0)
					fi.ignoreWrap = true
					lb2 := fi.intLB(step, x.Block(), 0)
					fi.ignoreWrap = false
					out = append(out, Advance{Phi: ph, Step: step, At: x, LB: lb, LBNoWrap: lb2, Taint: tainted(step, 0), Kind: "offset"})
				}
			}
		}
	}
	return out
}

func reachesPhi(v ssa.Value, ph *ssa.Phi, depth int) bool {
	if depth > 6 {
		return false
	}
	if v == ssa.Value(ph) {
		return true
	}
	switch x := v.(type) {
	case *ssa.Slice:
		return reachesPhi(x.X, ph, depth+1)
	case *ssa.Phi:
		for _, e := range x.Edges {
			if e != ssa.Value(x) && reachesPhi(e, ph, depth+1) {
				return true
			}
		}
	case *ssa.Convert:
		return reachesPhi(x.X, ph, depth+1)
	}
	return false
}

// tainted: v derives from a byte of a slice, a binary.UintNN result or a struct field.
func tainted(v ssa.Value, depth int) bool {
	if depth > 8 {
		return false
	}
	switch x := v.(type) {
	case *ssa.Convert:
		return tainted(x.X, depth+1)
	case *ssa.ChangeType:
		return tainted(x.X, depth+1)
	case *ssa.BinOp:
		return tainted(x.X, depth+1) || tainted(x.Y, depth+1)
	case *ssa.UnOp:
		if x.Op == token.MUL {
			// a byte of a slice; struct fields go through memory the analysis does not
			// track across the loop body, so they are not a basis for a definite claim
			if ia, ok := x.X.(*ssa.IndexAddr); ok {
				if _, isSlice := ia.X.Type().Underlying().(*types.Slice); isSlice {
					return true
				}
			}
			return false
		}
		return tainted(x.X, depth+1)
	case *ssa.Call:
		if f := x.Call.StaticCallee(); f != nil && f.Pkg != nil && f.Pkg.Pkg.Path() == "encoding/binary" {
			return true
		}
	case *ssa.Phi:
		for _, e := range x.Edges {
			if e != ssa.Value(x) && tainted(e, depth+1) {
				return true
			}
		}
	case *ssa.Extract:
		return tainted(x.Tuple, depth+1)
	}
	return false
}

// symSite classifies an access whose requirement is `base + k` for a
// non-constant base (an offset variable): SAFE-sym when a dominating guard on
// the same slice establishes len >= base + c with c >= k; DEF when guards on
// that same base exist, are all understood, and establish less; UNK-sym otherwise.
func (fi *fnInfo) symSite(ins ssa.Instruction, b *ssa.BasicBlock) (Site, bool) {
	var sl, req ssa.Value
	extra := 0
	what := ""
	switch x := ins.(type) {
	case *ssa.IndexAddr:
		if _, ok := x.X.Type().Underlying().(*types.Slice); !ok {
			return Site{}, false
		}
		if _, isK := constInt(x.Index); isK {
			return Site{}, false
		}
		sl, req, extra, what = x.X, x.Index, 1, "[i]"
	case *ssa.Slice:
		if _, ok := x.X.Type().Underlying().(*types.Slice); !ok || x.High == nil {
			return Site{}, false
		}
		if _, isK := constInt(x.High); isK {
			return Site{}, false
		}
		sl, req, what = x.X, x.High, "[..:i]"
	default:
		return Site{}, false
	}
	base, k, ok := linBase(req, 0)
	if !ok || base == "" || strings.HasPrefix(base, "len:") {
		return Site{}, false
	}
	k += extra
	s := Site{Fn: fi.fn, Ins: ins, Slice: sl, Need: k, What: what + fmt.Sprintf(" (offset%+d)", k), Class: "UNK-sym", Why: "no guard on the same offset expression", Root: chainOf(sl).root}
	bf := fi.facts[b]
	if bf == nil {
		return s, true
	}
	bestOf := func() int {
		bfx := fi.facts[b]
		vk, _ := fi.intKey(sl, b)
		best := -1 << 30
		for _, f := range bfx.syms {
			if f.s != sl && f.k != vk {
				continue
			}
			fb, fc, ok := linBase(f.v, 0)
			if !ok || fb != base {
				continue
			}
			if fc+f.adj > best {
				best = fc + f.adj
			}
		}
		return best
	}
	best := bestOf()
	s.Have = best
	if best >= k {
		s.Class, s.Why = "SAFE", ""
		return s, true
	}
	if zsafe, _ := fi.ZoneSafe(sl, req, extra, b); zsafe {
		s.Class, s.Why = "SAFE", ""
		s.Zone = true
		return s, true
	}
	// the function's own length test covers a proper prefix of what is accessed: the bound is
	// G + T, a dominating test establishes len >= G for that very G, and T is a packet value
	// that no other dominating condition mentions
	if g, t, ok := fi.prefixGuard(sl, req, b); ok {
		s.Class = "DEF"
		s.Belief = true
		s.Why = fmt.Sprintf("the dominating length test covers the offset %s only, but the access reaches %s beyond it, a value taken from the packet that nothing bounds", describeVal(g), describeVal(t))
		return s, true
	}
	if best == -1<<30 {
		s.Have = 0
		// even the smallest value the offset can have exceeds the length established here
		if lbReq := fi.intLB(req, b, 0); lbReq > -1<<39 && lbReq >= 0 {
			needLB := lbReq + extra
			have := fi.minLen(sl, b, map[ssa.Value]bool{})
			if have < needLB {
				s3 := Site{Fn: fi.fn, Ins: ins, Slice: sl, Need: needLB, Have: have, What: what + fmt.Sprintf(" (offset at least %d)", lbReq), Class: "SAFE", Root: chainOf(sl).root}
				fi.classify(&s3, b)
				if s3.Class == "DEF" {
					slv, blk := sl, b
					if fi.correlatedRelevant(blk, func() bool { return fi.minLen(slv, blk, map[ssa.Value]bool{}) >= needLB }) {
						s3.Class, s3.Why = "UNK-corr", "a length test that would cover this access holds on some of the paths that reach it"
					}
				}
				if s3.Class == "DEF" || s3.Class == "CAND-param" {
					return s3, true
				}
			}
		}
		// first-iteration instance of a loop-carried offset with a constant start
		if need0, ok := fi.firstIter(req, b); ok {
			need0 += extra
			have := fi.minLen(sl, b, map[ssa.Value]bool{})
			if have < need0 {
				s2 := Site{Fn: fi.fn, Ins: ins, Slice: sl, Need: need0, Have: have, What: what + fmt.Sprintf(" (first iteration: offset %d)", need0), Class: "SAFE", Root: chainOf(sl).root}
				fi.classify(&s2, b)
				if s2.Class == "DEF" {
					slv, blk := sl, b
					if fi.correlatedRelevant(blk, func() bool { return fi.minLen(slv, blk, map[ssa.Value]bool{}) >= need0 }) {
						s2.Class, s2.Why = "UNK-corr", "a length test that would cover this access holds on some of the paths that reach it"
					}
				}
				if s2.Class == "DEF" || s2.Class == "CAND-param" {
					return s2, true
				}
			}
		}
		return s, true
	}
	// a guard on the same base exists but is too weak: definite iff knowledge is complete
	probe := Site{Fn: fi.fn, Slice: sl, Need: 1 << 30}
	fi.classify(&probe, b)
	if probe.Class == "DEF" && fi.correlatedRelevant(b, func() bool { return bestOf() >= k }) {
		s.Class = "UNK-sym"
		s.Why = "a length test on the same offset that would cover this access holds on some of the paths that reach it"
	} else if probe.Class == "DEF" {
		s.Class = "DEF"
		s.Why = fmt.Sprintf("the dominating guard establishes len >= offset%+d but the access needs offset%+d", best, k)
		s.Guards = probe.Guards
	} else {
		s.Why = "guard on the same offset is too weak, but other conditions are not understood (" + probe.Class + ")"
	}
	return s, true
}

func untrackedLoad(v ssa.Value, depth int) bool {
	if depth > 6 {
		return true
	}
	v = stripConv(v)
	switch x := v.(type) {
	case *ssa.UnOp:
		if x.Op == token.MUL {
			_, ok := addrKey(x.X)
			return !ok
		}
		return untrackedLoad(x.X, depth+1)
	case *ssa.BinOp:
		return untrackedLoad(x.X, depth+1) || untrackedLoad(x.Y, depth+1)
	case *ssa.Phi:
		// a register: every condition on it names it, whatever its inputs are
		return false
	}
	return false
}

// PayloadAdvance describes a decoder storing data[n:...] as the bytes the next
// decoder will see, with a non-constant n.
type PayloadAdvance struct {
	At       ssa.Instruction
	N        ssa.Value
	LB       int
	LBNoWrap int
	Taint    bool
	AltArith bool // a dominating condition constrains n's source through different arithmetic
	Loop     bool // n depends on a phi (loop-carried or merged value): no definite verdict
	Merged   bool // N is the smallest incoming value of a plain merge
}

// PayloadAdvances finds X[n:...] slices of the function's byte-slice parameter
// (offset 0) that are stored into a field named Payload (or the second field
// of a BaseLayer literal).
func PayloadAdvances(fn *ssa.Function, data *ssa.Parameter) []PayloadAdvance {
	if len(fn.Blocks) == 0 || data == nil {
		return nil
	}
	fi := infoFor(fn, &RootInfo{Data: data})
	live := LiveBlocks(fn)
	var out []PayloadAdvance
	for _, b := range fn.Blocks {
		if !live[b] {
			continue
		}
		for _, ins := range b.Instrs {
			sl, ok := ins.(*ssa.Slice)
			if !ok || sl.X != ssa.Value(data) || sl.Low == nil {
				continue
			}
			if _, isK := constInt(sl.Low); isK {
				continue
			}
			// stored into a Payload field?
			toPayload := false
			for _, ref := range *sl.Referrers() {
				if st, ok := ref.(*ssa.Store); ok && st.Val == ssa.Value(sl) {
					if fa, ok := st.Addr.(*ssa.FieldAddr); ok {
						t := fa.X.Type().Underlying().(*types.Pointer).Elem().Underlying().(*types.Struct)
						if t.Field(fa.Field).Name() == "Payload" {
							toPayload = true
						}
					}
				}
			}
			if !toPayload {
				continue
			}
			// a bound kept in a struct field that is stored exactly once in this function: use the stored value
			nv, nb := sl.Low, b
			for hop := 0; hop < 3; hop++ {
				sv, sb, ok := singleFieldStore(fn, nv)
				if !ok {
					break
				}
				nv, nb = sv, sb
			}
			// a plain merge (no back edge) of several candidate offsets: the smallest one decides,
			// unless a test of the merged value itself already gives n >= 1
			merged := false
			if ph, ok := stripConv(nv).(*ssa.Phi); ok && fi.intLB(nv, nb, 0) < 1 {
				loop := false
				for _, pr := range ph.Block().Preds {
					if ph.Block().Dominates(pr) {
						loop = true
					}
				}
				if !loop {
					bestE, bestB, bestLB := ssa.Value(nil), (*ssa.BasicBlock)(nil), 1<<40
					for i, e := range ph.Edges {
						if l := fi.intLB(e, ph.Block().Preds[i], 0); l < bestLB {
							bestE, bestB, bestLB = e, ph.Block().Preds[i], l
						}
					}
					if bestE != nil {
						nv, nb = bestE, bestB
						merged = true
					}
				}
			}
			pa := PayloadAdvance{At: sl, N: nv, Taint: taintedFwd(fn, nv, 0), Merged: merged}
			pa.LB = fi.intLB(nv, nb, 0)
			fi.ignoreWrap = true
			pa.LBNoWrap = fi.intLB(nv, nb, 0)
			fi.ignoreWrap = false
			if nv != sl.Low {
				// tests of the field itself: dominating ones give a lower bound, others make the verdict undecided
				if ld, ok := stripConv(sl.Low).(*ssa.UnOp); ok {
					if fa, ok := ld.X.(*ssa.FieldAddr); ok {
						lb, corr := fieldLowerBound(fn, fa, b)
						if lb > pa.LB {
							pa.LB = lb
						}
						if lb > pa.LBNoWrap {
							pa.LBNoWrap = lb
						}
						if corr {
							pa.AltArith = true
						}
					}
				}
			}
			// leaves of n
			leaves := map[ssa.Value]bool{}
			var collect func(v ssa.Value, d int)
			collect = func(v ssa.Value, d int) {
				if d > 8 {
					return
				}
				switch x := v.(type) {
				case *ssa.Convert:
					collect(x.X, d+1)
				case *ssa.ChangeType:
					collect(x.X, d+1)
				case *ssa.BinOp:
					collect(x.X, d+1)
					collect(x.Y, d+1)
				case *ssa.Const:
				default:
					leaves[v] = true
				}
			}
			collect(nv, 0)
			for l := range leaves {
				if _, isPhi := l.(*ssa.Phi); isPhi {
					pa.Loop = true
				}
			}
			nStripped := stripConv(sl.Low)
			for x := b; x != nil; x = x.Idom() {
				if len(x.Preds) != 1 {
					continue
				}
				p := x.Preds[0]
				iff, ok := p.Instrs[len(p.Instrs)-1].(*ssa.If)
				if !ok {
					continue
				}
				bo, ok := iff.Cond.(*ssa.BinOp)
				if !ok {
					continue
				}
				for _, side := range []ssa.Value{bo.X, bo.Y} {
					sv := stripConv(side)
					if sv == nStripped {
						continue
					}
					if inner, isBin := sv.(*ssa.BinOp); isBin && (inner.Op == token.ADD || inner.Op == token.MUL || inner.Op == token.SUB) {
						// arithmetic over one of n's leaves that is not n itself
						uses := false
						var walk func(v ssa.Value, d int)
						walk = func(v ssa.Value, d int) {
							if d > 8 {
								return
							}
							if leaves[v] {
								uses = true
								return
							}
							switch y := v.(type) {
							case *ssa.Convert:
								walk(y.X, d+1)
							case *ssa.ChangeType:
								walk(y.X, d+1)
							case *ssa.BinOp:
								walk(y.X, d+1)
								walk(y.Y, d+1)
							}
						}
						walk(inner, 0)
						if uses {
							pa.AltArith = true
						}
					}
				}
			}
			out = append(out, pa)
		}
	}
	return out
}

// ViaLoad reports whether the slice value's provenance chain goes through a
// load from memory (a struct field or a spilled local).
func ViaLoad(v ssa.Value) bool { return chainOf(v).viaLoad }

// NarrowOp is an addition, multiplication or left shift evaluated in uint8 or
// uint16 whose operands are not bounded well enough to exclude wrap-around,
// and whose result is used as a length: a slice bound, an index, an operand
// of a comparison with len(), or (through a struct field written and read in
// the same function) one of those.
type NarrowOp struct {
	At       *ssa.BinOp
	Use      ssa.Instruction
	What     string
	Definite bool   // the wrapped value is the high bound of a slice whose constant low bound it then undercuts
	Witness  string // a field value that triggers it
}

// fieldUB: upper bound of a value that is a load of a struct field, taken
// from the stores to that field in the same function (all of them must be
// bounded); -1 when unknown.
func (fi *fnInfo) fieldUB(v ssa.Value, ctx *ssa.BasicBlock) int {
	ld, ok := stripConv(v).(*ssa.UnOp)
	if !ok || ld.Op != token.MUL {
		return -1
	}
	fa, ok := ld.X.(*ssa.FieldAddr)
	if !ok {
		return -1
	}
	best, n := -1, 0
	for _, b := range fi.fn.Blocks {
		for _, ins := range b.Instrs {
			st, ok := ins.(*ssa.Store)
			if !ok {
				continue
			}
			f2, ok := st.Addr.(*ssa.FieldAddr)
			if !ok || f2.Field != fa.Field || !types.Identical(f2.X.Type(), fa.X.Type()) {
				continue
			}
			n++
			u := fi.intUB(st.Val, b, 0)
			if u < 0 {
				return -1
			}
			if u > best {
				best = u
			}
		}
	}
	if n == 0 {
		best = -1
	}
	// dominating tests of the same field against a constant
	for _, dc := range domConds(ctx) {
		bo, ok := dc[0].(*ssa.BinOp)
		if !ok {
			continue
		}
		truth := dc[1].(bool)
		l2, ok := stripConv(bo.X).(*ssa.UnOp)
		if !ok || l2.Op != token.MUL {
			continue
		}
		f2, ok := l2.X.(*ssa.FieldAddr)
		if !ok || f2.Field != fa.Field || !types.Identical(f2.X.Type(), fa.X.Type()) {
			continue
		}
		k, ok := constInt(bo.Y)
		if !ok {
			continue
		}
		u := -1
		switch {
		case bo.Op == token.GTR && !truth, bo.Op == token.LEQ && truth:
			u = k
		case bo.Op == token.GEQ && !truth, bo.Op == token.LSS && truth:
			u = k - 1
		case bo.Op == token.EQL && truth:
			u = k
		}
		if u >= 0 && (best < 0 || u < best) {
			best = u
		}
	}
	return best
}

func NarrowLengthOps(fn *ssa.Function, root *RootInfo) []NarrowOp {
	if len(fn.Blocks) == 0 {
		return nil
	}
	fi := infoFor(fn, root)
	live := LiveBlocks(fn)
	var out []NarrowOp
	isLenCall := func(v ssa.Value) bool {
		c, ok := stripConv(v).(*ssa.Call)
		if !ok {
			return false
		}
		b, ok := c.Call.Value.(*ssa.Builtin)
		return ok && (b.Name() == "len" || b.Name() == "cap")
	}
	// lengthUse: how v is used as a length (directly or through widening, +/-/* constants, phis, one field round trip)
	var lengthUse func(v ssa.Value, depth int, seen map[ssa.Value]bool) (ssa.Instruction, string)
	lengthUse = func(v ssa.Value, depth int, seen map[ssa.Value]bool) (ssa.Instruction, string) {
		if depth > 6 || seen[v] || v.Referrers() == nil {
			return nil, ""
		}
		seen[v] = true
		for _, r := range *v.Referrers() {
			switch x := r.(type) {
			case *ssa.Slice:
				if x.Low == v || x.High == v {
					return x, "slice bound"
				}
			case *ssa.IndexAddr:
				if x.Index == v {
					return x, "index"
				}
			case *ssa.Call:
				if x.Call.IsInvoke() && (x.Call.Method.Name() == "PrependBytes" || x.Call.Method.Name() == "AppendBytes") && len(x.Call.Args) == 1 && x.Call.Args[0] == v {
					return x, "buffer request size"
				}
			case *ssa.BinOp:
				switch x.Op {
				case token.LSS, token.LEQ, token.GTR, token.GEQ:
					other := x.X
					if other == v {
						other = x.Y
					}
					if isLenCall(other) {
						return x, "comparison with len()"
					}
					// comparison with a length expression built from len()
					if bo, ok := stripConv(other).(*ssa.BinOp); ok && (isLenCall(bo.X) || isLenCall(bo.Y)) {
						return x, "comparison with len()"
					}
				case token.ADD, token.SUB, token.MUL:
					if u, w := lengthUse(x, depth+1, seen); u != nil {
						return u, w
					}
				}
			case *ssa.Convert:
				if u, w := lengthUse(x, depth+1, seen); u != nil {
					return u, w
				}
			case *ssa.ChangeType:
				if u, w := lengthUse(x, depth+1, seen); u != nil {
					return u, w
				}
			case *ssa.Phi:
				if u, w := lengthUse(x, depth+1, seen); u != nil {
					return u, w
				}
			case *ssa.Store:
				// written to a struct field and read back in this function
				fa, ok := x.Addr.(*ssa.FieldAddr)
				if !ok || x.Val != v {
					continue
				}
				for _, b := range fn.Blocks {
					for _, ins := range b.Instrs {
						ld, ok := ins.(*ssa.UnOp)
						if !ok || ld.Op != token.MUL {
							continue
						}
						f2, ok := ld.X.(*ssa.FieldAddr)
						if ok && f2.Field == fa.Field && types.Identical(f2.X.Type(), fa.X.Type()) {
							if u, w := lengthUse(ld, depth+1, seen); u != nil {
								return u, w + " (through field " + fa.X.Type().Underlying().(*types.Pointer).Elem().Underlying().(*types.Struct).Field(fa.Field).Name() + ")"
							}
						}
					}
				}
			}
		}
		return nil, ""
	}
	for _, b := range fn.Blocks {
		if !live[b] {
			continue
		}
		for _, ins := range b.Instrs {
			bo, ok := ins.(*ssa.BinOp)
			if !ok || (bo.Op != token.ADD && bo.Op != token.MUL && bo.Op != token.SHL) {
				continue
			}
			bt, ok := bo.Type().Underlying().(*types.Basic)
			if !ok || (bt.Kind() != types.Uint8 && bt.Kind() != types.Uint16) {
				continue
			}
			_, kx := constInt(bo.X)
			_, ky := constInt(bo.Y)
			if kx && ky {
				continue
			}
			// one step from a packet value: x+k, x*k, x<<k with x read from the packet or from a layer field
			var xv ssa.Value
			if ky {
				xv = bo.X
			} else if kx {
				xv = bo.Y
			} else {
				continue
			}
			direct := false
			switch y := stripConv(xv).(type) {
			case *ssa.UnOp:
				if y.Op == token.MUL {
					switch y.X.(type) {
					case *ssa.IndexAddr, *ssa.FieldAddr:
						direct = true
					}
				}
			case *ssa.Call:
				if f := y.Call.StaticCallee(); f != nil && f.Pkg != nil && f.Pkg.Pkg.Path() == "encoding/binary" {
					direct = true
				}
			}
			if !direct {
				continue
			}
			m := typeMax(bo.Type())
			ub := fi.intUB(xv, b, 0)
			if fu := fi.fieldUB(xv, b); fu >= 0 && (ub < 0 || fu < ub) {
				ub = fu
			}
			if ub < 0 {
				ub = m
			}
			k := 0
			if ky {
				k, _ = constInt(bo.Y)
			} else {
				k, _ = constInt(bo.X)
			}
			wraps := false
			switch bo.Op {
			case token.ADD:
				wraps = ub+k > m
			case token.MUL:
				wraps = k != 0 && ub > m/k
			case token.SHL:
				wraps = ky && k >= 0 && k < 16 && ub > m>>uint(k)
			}
			if !wraps {
				continue
			}
			use, what := lengthUse(bo, 0, map[ssa.Value]bool{})
			if use == nil {
				continue
			}
			no := NarrowOp{At: bo, Use: use, What: what}
			// definite: x[lo : k+field] with constant lo >= 1, addition, and the wrapped sum used directly as the high bound
			if sl, ok := use.(*ssa.Slice); ok && bo.Op == token.ADD && sl.High != nil && stripConv(sl.High) == ssa.Value(bo) && sl.Low != nil {
				if lo, ok := constInt(sl.Low); ok && lo >= 1 && ub >= m+1-k {
					no.Definite = true
					no.Witness = fmt.Sprintf("field value %d makes the high bound 0, below the low bound %d", m+1-k, lo)
				}
			}
			if !no.Definite && bo.Op == token.ADD {
				// the wrapped sum, widened, is the high bound of some x[lo:sum] with constant lo >= 1
				// and nothing compares it with a constant first (a test of len against the sum does
				// not help: the wrapped sum is small)
				var vals []ssa.Value
				vals = append(vals, bo)
				for i := 0; i < len(vals) && i < 8; i++ {
					if refs := vals[i].Referrers(); refs != nil {
						for _, ref := range *refs {
							switch y := ref.(type) {
							case *ssa.Convert:
								vals = append(vals, y)
							case *ssa.ChangeType:
								vals = append(vals, y)
							}
						}
					}
				}
				isVal := func(v ssa.Value) bool {
					for _, x := range vals {
						if v == x {
							return true
						}
					}
					return false
				}
				for _, v := range vals {
					refs := v.Referrers()
					if refs == nil {
						continue
					}
					for _, ref := range *refs {
						sl, ok := ref.(*ssa.Slice)
						if !ok || sl.High != v || sl.Low == nil {
							continue
						}
						lo, ok := constInt(sl.Low)
						if !ok || lo < 1 || ub < m+1-k {
							continue
						}
						guarded := false
						for x := sl.Block(); x != nil; x = x.Idom() {
							if len(x.Preds) != 1 {
								continue
							}
							pb := x.Preds[0]
							iff, ok := pb.Instrs[len(pb.Instrs)-1].(*ssa.If)
							if !ok {
								continue
							}
							if c, ok := iff.Cond.(*ssa.BinOp); ok {
								_, kx := constInt(c.X)
								_, ky := constInt(c.Y)
								if (isVal(c.X) && ky) || (isVal(c.Y) && kx) {
									guarded = true
								}
							}
						}
						if !guarded {
							no.Definite = true
							no.Use = sl
							no.What = "slice bound"
							no.Witness = fmt.Sprintf("field value %d makes the high bound 0, below the low bound %d", m+1-k, lo)
						}
					}
				}
			}
			out = append(out, no)
			continue
		}
	}
	return out
}

// singleFieldStore: v is (a conversion of) a load of a struct field that is
// stored exactly once in fn; returns the stored value and the block of the store.
func singleFieldStore(fn *ssa.Function, v ssa.Value) (ssa.Value, *ssa.BasicBlock, bool) {
	ld, ok := stripConv(v).(*ssa.UnOp)
	if !ok || ld.Op != token.MUL {
		return nil, nil, false
	}
	fa, ok := ld.X.(*ssa.FieldAddr)
	if !ok {
		return nil, nil, false
	}
	var val ssa.Value
	var blk *ssa.BasicBlock
	n := 0
	for _, b := range fn.Blocks {
		for _, ins := range b.Instrs {
			st, ok := ins.(*ssa.Store)
			if !ok {
				continue
			}
			f2, ok := st.Addr.(*ssa.FieldAddr)
			if ok && f2.Field == fa.Field && types.Identical(f2.X.Type(), fa.X.Type()) {
				n++
				val, blk = st.Val, b
			}
		}
	}
	if n != 1 || !blk.Dominates(ld.Block()) {
		return nil, nil, false
	}
	return val, blk, true
}

// taintedFwd: tainted, looking through struct fields stored once in fn.
func taintedFwd(fn *ssa.Function, v ssa.Value, depth int) bool {
	if depth > 8 {
		return false
	}
	if tainted(v, 0) {
		return true
	}
	switch x := v.(type) {
	case *ssa.Convert:
		return taintedFwd(fn, x.X, depth+1)
	case *ssa.ChangeType:
		return taintedFwd(fn, x.X, depth+1)
	case *ssa.BinOp:
		return taintedFwd(fn, x.X, depth+1) || taintedFwd(fn, x.Y, depth+1)
	case *ssa.UnOp:
		if sv, _, ok := singleFieldStore(fn, x); ok {
			return taintedFwd(fn, sv, depth+1)
		}
	}
	return false
}

// fieldLowerBound: lower bound on a struct field established by dominating
// tests of loads of that field against constants, and whether some test of
// the field exists whose outcome is not known at block b.
func fieldLowerBound(fn *ssa.Function, fa *ssa.FieldAddr, b *ssa.BasicBlock) (int, bool) {
	isF := func(v ssa.Value) bool {
		l2, ok := stripConv(v).(*ssa.UnOp)
		if !ok || l2.Op != token.MUL {
			return false
		}
		f2, ok := l2.X.(*ssa.FieldAddr)
		return ok && f2.Field == fa.Field && types.Identical(f2.X.Type(), fa.X.Type())
	}
	lb := -1 << 30
	used := map[ssa.Value]bool{}
	for _, dc := range domConds(b) {
		cond := dc[0].(ssa.Value)
		bo, ok := cond.(*ssa.BinOp)
		if !ok {
			continue
		}
		truth := dc[1].(bool)
		if !isF(bo.X) && !isF(bo.Y) {
			continue
		}
		used[cond] = true
		if !isF(bo.X) {
			continue
		}
		k, ok := constInt(bo.Y)
		if !ok {
			continue
		}
		v := -1 << 30
		switch {
		case bo.Op == token.LSS && !truth, bo.Op == token.GEQ && truth, bo.Op == token.EQL && truth:
			v = k
		case bo.Op == token.GTR && truth, bo.Op == token.LEQ && !truth:
			v = k + 1
		case bo.Op == token.NEQ && truth && k == 0:
			v = 1
		case bo.Op == token.EQL && !truth && k == 0:
			v = 1
		}
		if v > lb {
			lb = v
		}
	}
	corr := false
	for _, blk := range fn.Blocks {
		if len(blk.Instrs) == 0 {
			continue
		}
		iff, ok := blk.Instrs[len(blk.Instrs)-1].(*ssa.If)
		if !ok || used[iff.Cond] {
			continue
		}
		bo, ok := iff.Cond.(*ssa.BinOp)
		if !ok || (!isF(bo.X) && !isF(bo.Y)) {
			continue
		}
		// can this test be on a path to b?
		seen := map[*ssa.BasicBlock]bool{}
		var dfs func(x *ssa.BasicBlock) bool
		dfs = func(x *ssa.BasicBlock) bool {
			if x == b {
				return true
			}
			if seen[x] {
				return false
			}
			seen[x] = true
			for _, s := range x.Succs {
				if dfs(s) {
					return true
				}
			}
			return false
		}
		if dfs(blk) {
			corr = true
		}
	}
	return lb, corr
}

// UpperBound exposes the integer upper-bound evaluation (−1: unknown) for a
// value at a block of fn, using the type's range, masks, shifts, remainders
// and dominating constant comparisons.
func UpperBound(fn *ssa.Function, v ssa.Value, at *ssa.BasicBlock) int {
	if len(fn.Blocks) == 0 {
		return -1
	}
	fi := infoFor(fn, nil)
	ub := fi.intUB(v, at, 0)
	// dominating comparisons of this very value with constants
	for _, dc := range domConds(at) {
		bo, ok := dc[0].(*ssa.BinOp)
		if !ok {
			continue
		}
		truth := dc[1].(bool)
		if stripConv(bo.X) != stripConv(v) {
			continue
		}
		k, ok := constInt(bo.Y)
		if !ok {
			continue
		}
		u := -1
		switch {
		case bo.Op == token.GTR && !truth, bo.Op == token.LEQ && truth, bo.Op == token.EQL && truth:
			u = k
		case bo.Op == token.GEQ && !truth, bo.Op == token.LSS && truth:
			u = k - 1
		}
		if u >= 0 && (ub < 0 || u < ub) {
			ub = u
		}
	}
	return ub
}

// Tainted reports whether v derives from packet bytes.
func Tainted(v ssa.Value) bool { return tainted(v, 0) }

// WindowReslice: x[:h] (or x[lo:h]) where x is a fixed-length window a[c1:c2]
// of the input and h is a packet-derived value that can exceed the window's
// length: the result is checked against the window's capacity only, i.e.
// against however much of the packet happens to follow.
type WindowReslice struct {
	At     *ssa.Slice
	Window int
	UB     int
}

func WindowReslices(fn *ssa.Function, root *RootInfo) []WindowReslice {
	if len(fn.Blocks) == 0 {
		return nil
	}
	fi := infoFor(fn, root)
	live := LiveBlocks(fn)
	var out []WindowReslice
	for _, b := range fn.Blocks {
		if !live[b] {
			continue
		}
		for _, ins := range b.Instrs {
			sl, ok := ins.(*ssa.Slice)
			if !ok || sl.High == nil {
				continue
			}
			if _, isK := constInt(sl.High); isK {
				continue
			}
			// x: a value stored once in a field and loaded, or directly a slice
			x := sl.X
			if sv, _, ok := singleFieldStore(fn, x); ok {
				x = sv
			} else if sv, ok := precedingStoreInBlock(x); ok {
				x = sv
			}
			for {
				if ct, ok := x.(*ssa.ChangeType); ok {
					x = ct.X
					continue
				}
				break
			}
			win, ok := x.(*ssa.Slice)
			if !ok || win.Low == nil || win.High == nil {
				continue
			}
			lo, ok1 := constInt(win.Low)
			hi, ok2 := constInt(win.High)
			if !ok1 || !ok2 || hi <= lo {
				continue
			}
			// the window must come from the decoder's input (any byte-slice parameter chain)
			if _, isParam := chainOf(win.X).root.(*ssa.Parameter); !isParam {
				continue
			}
			h := sl.High
			if !taintedFwd(fn, h, 0) {
				continue
			}
			ub := fi.intUB(h, b, 0)
			if fu := fi.fieldUB(h, b); fu >= 0 && (ub < 0 || fu < ub) {
				ub = fu
			}
			if ub < 0 {
				continue
			}
			if ub <= hi-lo {
				continue
			}
			// a dominating comparison of len(...) with an expression built from the same value
			// bounds it by the packet length: no panic (the window is then merely a lower bound)
			guarded := false
			hv := stripConv(h)
			var mentions func(v ssa.Value, d int) bool
			mentions = func(v ssa.Value, d int) bool {
				if d > 6 {
					return false
				}
				v = stripConv(v)
				if v == hv || sameSym(v, hv, 0) {
					return true
				}
				if bo, ok := v.(*ssa.BinOp); ok {
					return mentions(bo.X, d+1) || mentions(bo.Y, d+1)
				}
				return false
			}
			isLen := func(v ssa.Value) bool {
				c, ok := stripConv(v).(*ssa.Call)
				if !ok {
					return false
				}
				bi, ok := c.Call.Value.(*ssa.Builtin)
				return ok && (bi.Name() == "len" || bi.Name() == "cap")
			}
			for _, dc := range domConds(b) {
				bo, ok := dc[0].(*ssa.BinOp)
				if !ok {
					continue
				}
				if (isLen(bo.X) && mentions(bo.Y, 0)) || (isLen(bo.Y) && mentions(bo.X, 0)) {
					guarded = true
				}
			}
			if !guarded {
				out = append(out, WindowReslice{At: sl, Window: hi - lo, UB: ub})
			}
		}
	}
	return out
}

// precedingStoreInBlock: v is a load of a struct field and an earlier
// instruction of the same block stores to that field (same base value) with
// no call in between: the load yields the stored value.
func precedingStoreInBlock(v ssa.Value) (ssa.Value, bool) {
	ld, ok := v.(*ssa.UnOp)
	if !ok || ld.Op != token.MUL {
		return nil, false
	}
	fa, ok := ld.X.(*ssa.FieldAddr)
	if !ok {
		return nil, false
	}
	b := ld.Block()
	idx := -1
	for i, ins := range b.Instrs {
		if ins == ssa.Instruction(ld) {
			idx = i
		}
	}
	for i := idx - 1; i >= 0; i-- {
		switch x := b.Instrs[i].(type) {
		case *ssa.Store:
			if f2, ok := x.Addr.(*ssa.FieldAddr); ok && f2.Field == fa.Field && f2.X == fa.X {
				return x.Val, true
			}
		case *ssa.Call:
			if _, isBuiltin := x.Call.Value.(*ssa.Builtin); !isBuiltin {
				if f := x.Call.StaticCallee(); f == nil || f.Pkg == nil || f.Pkg.Pkg.Path() != "encoding/binary" {
					return nil, false
				}
			}
		}
	}
	return nil, false
}

// correlatedRelevant: some branch condition of the function that does not
// dominate block b (its outcome is known only on some of the paths reaching
// b) would, if it held, make recheck() succeed.  A site that is unguarded
// only because such a test is path-correlated with the conditions leading to
// it is not a definite finding.
func (fi *fnInfo) correlatedRelevant(b *ssa.BasicBlock, recheck func() bool) bool {
	bf := fi.facts[b]
	if bf == nil {
		return false
	}
	reaches := func(from, to *ssa.BasicBlock) bool {
		seen := map[*ssa.BasicBlock]bool{}
		var dfs func(x *ssa.BasicBlock) bool
		dfs = func(x *ssa.BasicBlock) bool {
			if x == to {
				return true
			}
			if seen[x] {
				return false
			}
			seen[x] = true
			for _, s := range x.Succs {
				if dfs(s) {
					return true
				}
			}
			return false
		}
		return dfs(from)
	}
	for _, p := range fi.fn.Blocks {
		if len(p.Instrs) == 0 || len(p.Succs) != 2 || p.Succs[0] == p.Succs[1] {
			continue
		}
		iff, ok := p.Instrs[len(p.Instrs)-1].(*ssa.If)
		if !ok {
			continue
		}
		for i, t := range p.Succs {
			if len(t.Preds) == 1 && (t == b || t.Dominates(b)) {
				continue // already among the dominating facts
			}
			if !reaches(t, b) {
				continue
			}
			tmp := &blockFacts{ver: bf.ver}
			saveFI, saveB := curFI, curBlock
			curFI, curBlock = fi, p
			condFacts(iff.Cond, i == 0, tmp)
			curFI, curBlock = saveFI, saveB
			if len(tmp.lens) == 0 && len(tmp.syms) == 0 {
				continue
			}
			saveL, saveS := bf.lens, bf.syms
			bf.lens = append(append([]lenFact{}, bf.lens...), tmp.lens...)
			bf.syms = append(append([]symLen{}, bf.syms...), tmp.syms...)
			ok2 := recheck()
			bf.lens, bf.syms = saveL, saveS
			if ok2 {
				return true
			}
		}
	}
	return false
}

// guardsOnStep looks at the dominating conditions of b: wrapped = one of them
// compares (a widening of) the narrow arithmetic result `step` itself; wide =
// one of them contains wide (int) arithmetic over one of step's leaves.
func guardsOnStep(step ssa.Value, b *ssa.BasicBlock) (wrapped, wide bool) {
	narrow := stripConv(step)
	nb, ok := narrow.(*ssa.BinOp)
	if !ok {
		return false, false
	}
	leaves := map[ssa.Value]bool{}
	var collect func(v ssa.Value, d int)
	collect = func(v ssa.Value, d int) {
		if d > 8 {
			return
		}
		switch x := v.(type) {
		case *ssa.Convert:
			collect(x.X, d+1)
		case *ssa.BinOp:
			collect(x.X, d+1)
			collect(x.Y, d+1)
		case *ssa.Const:
		default:
			leaves[v] = true
		}
	}
	collect(nb, 0)
	for x := b; x != nil; x = x.Idom() {
		if len(x.Preds) != 1 {
			continue
		}
		p := x.Preds[0]
		iff, ok := p.Instrs[len(p.Instrs)-1].(*ssa.If)
		if !ok {
			continue
		}
		c, ok := iff.Cond.(*ssa.BinOp)
		if !ok {
			continue
		}
		for _, side := range []ssa.Value{c.X, c.Y} {
			sv := stripConv(side)
			if sv == ssa.Value(nb) {
				wrapped = true
				continue
			}
			if inner, isBin := sv.(*ssa.BinOp); isBin {
				if bt, ok := inner.Type().Underlying().(*types.Basic); ok && wideSigned(bt) {
					uses := false
					var walk func(v ssa.Value, d int)
					walk = func(v ssa.Value, d int) {
						if d > 8 {
							return
						}
						if leaves[v] {
							uses = true
							return
						}
						switch y := v.(type) {
						case *ssa.Convert:
							walk(y.X, d+1)
						case *ssa.BinOp:
							walk(y.X, d+1)
							walk(y.Y, d+1)
						}
					}
					walk(inner, 0)
					if uses {
						wide = true
					}
				}
			}
		}
	}
	return wrapped, wide
}

// reversedBounds: x[L:h] with a constant L > 0 and a non-constant h that a
// dominating *ordering* test bounds from below by less than L (the function
// itself decided which h are too small, and let some through that are below
// the slice's low bound).
func (fi *fnInfo) reversedBounds(slx *ssa.Slice, b *ssa.BasicBlock) (Site, bool) {
	if slx.Low == nil || slx.High == nil {
		return Site{}, false
	}
	lo, isK := constInt(slx.Low)
	if !isK || lo <= 0 {
		return Site{}, false
	}
	if _, hk := constInt(slx.High); hk {
		return Site{}, false
	}
	h := stripConv(slx.High)
	best, found := -1<<40, false
	for x := b; x != nil; x = x.Idom() {
		if len(x.Preds) != 1 {
			continue
		}
		p := x.Preds[0]
		iff, ok := p.Instrs[len(p.Instrs)-1].(*ssa.If)
		if !ok {
			continue
		}
		c, ok := iff.Cond.(*ssa.BinOp)
		if !ok {
			continue
		}
		truth := p.Succs[0] == x
		op := c.Op
		var kv int
		switch {
		case stripConv(c.X) == h:
			k, ok := constInt(c.Y)
			if !ok {
				continue
			}
			kv = k
		case stripConv(c.Y) == h:
			k, ok := constInt(c.X)
			if !ok {
				continue
			}
			kv = k
			op = flip(op)
		default:
			continue
		}
		if !truth {
			op = negate(op)
		}
		switch op {
		case token.GEQ:
			found = true
			if kv > best {
				best = kv
			}
		case token.GTR:
			found = true
			if kv+1 > best {
				best = kv + 1
			}
		}
	}
	if !found || best >= lo || best < 0 {
		return Site{}, false
	}
	s := Site{Fn: fi.fn, Ins: slx, Slice: slx.X, Need: lo, Have: best, What: fmt.Sprintf("[%d:h] (low bound %d)", lo, lo), Class: "DEF", Belief: true, Root: chainOf(slx.X).root}
	s.Why = fmt.Sprintf("the function tests the high bound against a lower limit of %d, but the slice starts at %d: for a high bound of %d the slice expression has its bounds reversed and panics", best, lo, best)
	return s, true
}
