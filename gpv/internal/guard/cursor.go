package guard

// Cursor analysis: length reasoning for []byte values that live in a memory
// cell — a `data *[]byte` parameter that helper functions advance
// (`*data = (*data)[4:]`), or a local whose address is handed to such helpers.
// go/ssa does not lift these cells to registers, so the register-based
// analysis of guard.go sees only opaque loads.  Here the cell's contents are
// versioned (a new version at every store, at every call that receives the
// cell, and at every merge of different versions), every load is mapped to the
// version current at that point, and length lower bounds are propagated along
// version derivations (`w = v[k:]` ⇒ len(w) = len(v) − k).

import (
	"fmt"
	"go/token"
	"go/types"
	"sort"

	"golang.org/x/tools/go/ssa"
)

type cellVer struct {
	id     int
	kind   string // "entry" | "undef" | "adv" | "val" | "call" | "phi"
	at     ssa.Instruction
	blk    *ssa.BasicBlock
	parent *cellVer  // adv
	adv    int       // adv: constant advance, -1 when symbolic
	advSym ssa.Value // adv: the symbolic low bound
	val    ssa.Value // val: the stored value
	ins    []*cellVer
	inBlk  []*ssa.BasicBlock
}

// CursorSite is one constant requirement on the current contents of a cell.
type CursorSite struct {
	Fn    *ssa.Function
	Ins   ssa.Instruction
	Cell  ssa.Value
	What  string
	Need  int
	Have  int
	Class string // SAFE | DEF | REQ | UNK
	Why   string
	Req   int // REQ: bytes required of the cell at function entry
}

// CursorSummary is what callers need to know about a function's *[]byte parameters.
type CursorSummary struct {
	Req map[int]int  // parameter index -> bytes required at entry (by unguarded constant reads before any unknown advance)
	Arb map[int]bool // parameter index -> some caller passes a cell whose remaining length is attacker-chosen
}

type cursorFn struct {
	fn    *ssa.Function
	cells []ssa.Value
}

func isByteSlicePtr(t types.Type) bool {
	p, ok := t.Underlying().(*types.Pointer)
	if !ok {
		return false
	}
	s, ok := p.Elem().Underlying().(*types.Slice)
	if !ok {
		return false
	}
	b, ok := s.Elem().Underlying().(*types.Basic)
	return ok && b.Kind() == types.Uint8
}

// trackableCell: every use of the cell is a load, a store to it, or a direct call argument.
func trackableCell(c ssa.Value) bool {
	refs := c.Referrers()
	if refs == nil {
		return false
	}
	for _, r := range *refs {
		switch x := r.(type) {
		case *ssa.UnOp:
			if x.Op != token.MUL {
				return false
			}
		case *ssa.Store:
			if x.Addr != c {
				return false // the cell's address is stored somewhere
			}
		case *ssa.Call:
			ok := false
			for _, a := range x.Call.Args {
				if a == c {
					ok = true
				}
			}
			if !ok || x.Call.Value == c {
				return false
			}
		case *ssa.DebugRef:
		default:
			return false
		}
	}
	return true
}

func cursorCells(fn *ssa.Function) []ssa.Value {
	var out []ssa.Value
	for _, p := range fn.Params {
		if isByteSlicePtr(p.Type()) && trackableCell(p) {
			out = append(out, p)
		}
	}
	for _, b := range fn.Blocks {
		for _, ins := range b.Instrs {
			if al, ok := ins.(*ssa.Alloc); ok && isByteSlicePtr(al.Type()) && trackableCell(al) {
				// only cells that are handed to some call are interesting (others are lifted by go/ssa)
				out = append(out, al)
			}
		}
	}
	return out
}

type cursorAnalysis struct {
	fn       *ssa.Function
	cell     ssa.Value
	fi       *fnInfo
	rootData *ssa.Parameter
	live     map[*ssa.BasicBlock]bool
	vers     []*cellVer
	atStore  map[ssa.Instruction]*cellVer
	atCall   map[ssa.Instruction]*cellVer
	atPhi    map[*ssa.BasicBlock]*cellVer
	loadVer  map[ssa.Value]*cellVer
	curAt    map[ssa.Instruction]*cellVer // version current just before a call instruction
	outVer   map[*ssa.BasicBlock]*cellVer
	sums     map[*ssa.Function]*CursorSummary
	arbEntry bool
}

func (ca *cursorAnalysis) newVer(kind string) *cellVer {
	v := &cellVer{id: len(ca.vers), kind: kind}
	ca.vers = append(ca.vers, v)
	return v
}

func (ca *cursorAnalysis) build() {
	fn := ca.fn
	ca.atStore = map[ssa.Instruction]*cellVer{}
	ca.atCall = map[ssa.Instruction]*cellVer{}
	ca.atPhi = map[*ssa.BasicBlock]*cellVer{}
	ca.loadVer = map[ssa.Value]*cellVer{}
	ca.curAt = map[ssa.Instruction]*cellVer{}
	ca.outVer = map[*ssa.BasicBlock]*cellVer{}
	var entry *cellVer
	if _, isParam := ca.cell.(*ssa.Parameter); isParam {
		entry = ca.newVer("entry")
	} else {
		entry = ca.newVer("undef")
	}
	entry.blk = fn.Blocks[0]
	// iterate to a fixpoint: versions at block entry
	for changed, iter := true, 0; changed && iter < 20; iter++ {
		changed = false
		for _, b := range fn.Blocks {
			if !ca.live[b] {
				continue
			}
			var in *cellVer
			if b == fn.Blocks[0] {
				in = entry
			} else {
				var seen []*cellVer
				var from []*ssa.BasicBlock
				for _, p := range b.Preds {
					if o := ca.outVer[p]; o != nil && ca.live[p] {
						seen = append(seen, o)
						from = append(from, p)
					}
				}
				if len(seen) == 0 {
					continue
				}
				same := true
				for _, s := range seen {
					if s != seen[0] {
						same = false
					}
				}
				if ph := ca.atPhi[b]; ph != nil {
					// once a phi, always a phi (monotone)
					if len(ph.ins) != len(seen) {
						changed = true
					} else {
						for i := range seen {
							if ph.ins[i] != seen[i] {
								changed = true
							}
						}
					}
					ph.ins, ph.inBlk = seen, from
					in = ph
				} else if same {
					in = seen[0]
				} else {
					ph := ca.newVer("phi")
					ph.blk = b
					ph.ins, ph.inBlk = seen, from
					ca.atPhi[b] = ph
					in = ph
					changed = true
				}
			}
			cur := in
			for _, ins := range b.Instrs {
				switch x := ins.(type) {
				case *ssa.UnOp:
					if x.Op == token.MUL && x.X == ca.cell {
						if ca.loadVer[x] != cur {
							ca.loadVer[x] = cur
							changed = true
						}
					}
				case *ssa.Store:
					if x.Addr != ca.cell {
						break
					}
					v := ca.atStore[ins]
					if v == nil {
						v = ca.newVer("val")
						v.at, v.blk = ins, b
						ca.atStore[ins] = v
						changed = true
					}
					// classify the stored value
					v.kind, v.parent, v.adv, v.advSym, v.val = "val", nil, 0, nil, x.Val
					sv := x.Val
					if ct, ok := sv.(*ssa.ChangeType); ok {
						sv = ct.X
					}
					if sl, ok := sv.(*ssa.Slice); ok && sl.High == nil && sl.Max == nil {
						if pv := ca.loadVer[sl.X]; pv != nil {
							v.kind, v.parent = "adv", pv
							if sl.Low == nil {
								v.adv = 0
							} else if k, ok := constInt(sl.Low); ok {
								v.adv = k
							} else {
								v.adv, v.advSym = -1, sl.Low
							}
						}
					} else if pv := ca.loadVer[sv]; pv != nil {
						v.kind, v.parent, v.adv = "adv", pv, 0
					}
					cur = v
				case *ssa.Call:
					uses := false
					for _, a := range x.Call.Args {
						if a == ca.cell {
							uses = true
						}
					}
					if !uses {
						break
					}
					if ca.curAt[ins] != cur {
						ca.curAt[ins] = cur
						changed = true
					}
					v := ca.atCall[ins]
					if v == nil {
						v = ca.newVer("call")
						v.at, v.blk = ins, b
						ca.atCall[ins] = v
						changed = true
					}
					v.parent = cur
					cur = v
				}
			}
			if ca.outVer[b] != cur {
				ca.outVer[b] = cur
				changed = true
			}
		}
	}
}

// lenCond: cond constrains len(L) for a load L of the cell.  Returns the
// load, and on the given truth value either a constant lower bound
// (ok=true, sym=nil), a symbolic lower bound sym+adj, or unrecognised.
type curLenFact struct {
	load  ssa.Value
	ge    int
	sym   ssa.Value
	adj   int
	recog bool
}

func (ca *cursorAnalysis) lenFactOf(cond ssa.Value, truth bool) (curLenFact, bool) {
	bo, ok := cond.(*ssa.BinOp)
	if !ok {
		return curLenFact{}, false
	}
	lenArg := func(v ssa.Value) ssa.Value {
		v = stripConv(v)
		if c, ok := v.(*ssa.Call); ok {
			if b, ok := c.Call.Value.(*ssa.Builtin); ok && b.Name() == "len" {
				if _, isLoad := ca.loadVer[c.Call.Args[0]]; isLoad {
					return c.Call.Args[0]
				}
			}
		}
		return nil
	}
	var ld, other ssa.Value
	op := bo.Op
	if l := lenArg(bo.X); l != nil {
		ld, other = l, bo.Y
	} else if l := lenArg(bo.Y); l != nil {
		ld, other = l, bo.X
		switch op { // mirror
		case token.LSS:
			op = token.GTR
		case token.GTR:
			op = token.LSS
		case token.LEQ:
			op = token.GEQ
		case token.GEQ:
			op = token.LEQ
		}
	} else {
		// does the condition mention len(load) deeper (e.g. len(x)-4 < n)?
		mention := false
		var walk func(v ssa.Value, d int)
		walk = func(v ssa.Value, d int) {
			if d > 6 || mention {
				return
			}
			if lenArg(v) != nil {
				mention = true
				return
			}
			switch y := v.(type) {
			case *ssa.BinOp:
				walk(y.X, d+1)
				walk(y.Y, d+1)
			case *ssa.Convert:
				walk(y.X, d+1)
			}
		}
		walk(bo.X, 0)
		walk(bo.Y, 0)
		if mention {
			// find any load mentioned to attribute the unknown to its version
			var anyLoad ssa.Value
			var find func(v ssa.Value, d int)
			find = func(v ssa.Value, d int) {
				if d > 6 || anyLoad != nil {
					return
				}
				if l := lenArg(v); l != nil {
					anyLoad = l
					return
				}
				switch y := v.(type) {
				case *ssa.BinOp:
					find(y.X, d+1)
					find(y.Y, d+1)
				case *ssa.Convert:
					find(y.X, d+1)
				}
			}
			find(bo.X, 0)
			find(bo.Y, 0)
			return curLenFact{load: anyLoad, recog: false}, true
		}
		return curLenFact{}, false
	}
	// normalise to "len >= bound" on this edge
	// len <  K : false edge gives len >= K
	// len <= K : false edge gives len >= K+1
	// len >  K : true edge gives len >= K+1
	// len >= K : true edge gives len >= K
	// len == K : true edge gives len >= K ; len != K: false edge gives len >= K
	delta, holds := 0, false
	switch op {
	case token.LSS:
		holds, delta = !truth, 0
	case token.LEQ:
		holds, delta = !truth, 1
	case token.GTR:
		holds, delta = truth, 1
	case token.GEQ:
		holds, delta = truth, 0
	case token.EQL:
		holds, delta = truth, 0
	case token.NEQ:
		holds, delta = !truth, 0
		if k, ok := constInt(other); ok && k == 0 && truth {
			return curLenFact{load: ld, ge: 1, recog: true}, true // len != 0
		}
	default:
		return curLenFact{load: ld, recog: false}, true
	}
	if !holds {
		// the edge gives an upper bound only: recognised, no lower bound
		return curLenFact{load: ld, ge: 0, recog: true}, true
	}
	if k, ok := constInt(other); ok {
		return curLenFact{load: ld, ge: k + delta, recog: true}, true
	}
	// symbolic: s, s+k, k+s  (through int conversions)
	o := stripConv(other)
	if b2, ok := o.(*ssa.BinOp); ok && b2.Op == token.ADD {
		if k, ok := constInt(b2.Y); ok {
			return curLenFact{load: ld, sym: stripConv(b2.X), adj: k + delta, recog: true}, true
		}
		if k, ok := constInt(b2.X); ok {
			return curLenFact{load: ld, sym: stripConv(b2.Y), adj: k + delta, recog: true}, true
		}
	}
	return curLenFact{load: ld, sym: o, adj: delta, recog: true}, true
}

func domConds(b *ssa.BasicBlock) [][2]interface{} {
	var out [][2]interface{}
	for x := b; x != nil; x = x.Idom() {
		if len(x.Preds) != 1 {
			continue
		}
		p := x.Preds[0]
		if len(p.Instrs) == 0 {
			continue
		}
		iff, ok := p.Instrs[len(p.Instrs)-1].(*ssa.If)
		if !ok {
			continue
		}
		truth := p.Succs[0] == x
		if p.Succs[0] == p.Succs[1] {
			continue
		}
		out = append(out, [2]interface{}{iff.Cond, truth})
	}
	return out
}

// ownFacts: constant lower bound, symbolic facts and unrecognised-guard flag
// for version v as known in block b.
func (ca *cursorAnalysis) ownFacts(v *cellVer, b *ssa.BasicBlock) (ge int, syms []curLenFact, unk bool) {
	for _, dc := range domConds(b) {
		f, ok := ca.lenFactOf(dc[0].(ssa.Value), dc[1].(bool))
		if !ok || f.load == nil || ca.loadVer[f.load] != v {
			continue
		}
		if !f.recog {
			unk = true
			continue
		}
		if f.sym != nil {
			syms = append(syms, f)
			continue
		}
		if f.ge > ge {
			ge = f.ge
		}
	}
	return
}

// lb: proven lower bound of len(version v) as known in block b.
func (ca *cursorAnalysis) lb(v *cellVer, b *ssa.BasicBlock, inprog map[*cellVer]bool) int {
	if v == nil || inprog[v] {
		return 0
	}
	inprog[v] = true
	defer delete(inprog, v)
	ge, _, _ := ca.ownFacts(v, b)
	d := 0
	switch v.kind {
	case "adv":
		if v.adv >= 0 {
			d = ca.lb(v.parent, v.blk, inprog) - v.adv
		} else {
			_, syms, _ := ca.ownFacts(v.parent, v.blk)
			s := stripConv(v.advSym)
			for _, f := range syms {
				if sameSym(f.sym, s, 0) && f.adj > d {
					d = f.adj
				}
			}
		}
	case "val":
		if ca.fi != nil && v.val != nil {
			d = ca.fi.minLen(v.val, v.blk, map[ssa.Value]bool{})
		}
	case "phi":
		first := true
		for i, in := range v.ins {
			x := ca.lb(in, v.inBlk[i], inprog)
			if first || x < d {
				d, first = x, false
			}
		}
	}
	if d > ge {
		ge = d
	}
	if ge < 0 {
		ge = 0
	}
	return ge
}

// relOf: constant number of bytes consumed since function entry, when the
// version derives from the entry contents of a parameter cell through
// constant advances only.
func (ca *cursorAnalysis) relOf(v *cellVer, depth int) (int, bool) {
	if v == nil || depth > 64 {
		return 0, false
	}
	switch v.kind {
	case "entry":
		return 0, true
	case "adv":
		if v.adv < 0 {
			return 0, false
		}
		r, ok := ca.relOf(v.parent, depth+1)
		return r + v.adv, ok
	}
	return 0, false
}

// arbitrary: the remaining length of this version is chosen by whoever
// produced the packet (it descends from the decoder's input, or from a
// parameter cell some caller passes with that property, through advances,
// calls that consume, and merges).
func (ca *cursorAnalysis) arbitrary(v *cellVer, inprog map[*cellVer]bool) bool {
	if v == nil {
		return false
	}
	if inprog[v] {
		return true // optimistic on cycles: decided by the other inputs
	}
	inprog[v] = true
	defer delete(inprog, v)
	switch v.kind {
	case "entry":
		return ca.arbEntry
	case "adv", "call":
		return ca.arbitrary(v.parent, inprog)
	case "val":
		if ca.rootData == nil || v.val == nil {
			return false
		}
		r := v.val
		for i := 0; i < 16; i++ {
			switch y := r.(type) {
			case *ssa.Slice:
				if y.High != nil {
					return false // bounded above by a packet field: not arbitrary
				}
				r = y.X
				continue
			case *ssa.ChangeType:
				r = y.X
				continue
			}
			break
		}
		return r == ssa.Value(ca.rootData)
	case "phi":
		if len(v.ins) == 0 {
			return false
		}
		for _, in := range v.ins {
			if !ca.arbitrary(in, inprog) {
				return false
			}
		}
		return true
	}
	return false
}

// unkGuard: an unrecognised length condition constrains this version or one it derives from by constant advances.
func (ca *cursorAnalysis) unkGuard(v *cellVer, b *ssa.BasicBlock, depth int) bool {
	if v == nil || depth > 64 {
		return false
	}
	if _, _, u := ca.ownFacts(v, b); u {
		return true
	}
	if v.kind == "adv" {
		if v.adv < 0 {
			// a symbolic advance: a symbolic guard on the parent that does not name the same quantity
			// constrains the remainder in a way this analysis cannot use
			_, syms, _ := ca.ownFacts(v.parent, v.blk)
			matched := false
			for _, f := range syms {
				if sameSym(f.sym, stripConv(v.advSym), 0) {
					matched = true
				}
			}
			if len(syms) > 0 && !matched {
				return true
			}
			return false // the remainder after a variable advance starts a new region
		}
		return ca.unkGuard(v.parent, v.blk, depth+1)
	}
	if v.kind == "phi" {
		for i, in := range v.ins {
			if depth < 4 && ca.unkGuard(in, v.inBlk[i], depth+16) {
				return true
			}
		}
	}
	return false
}

func (ca *cursorAnalysis) classify(s *CursorSite, v *cellVer, b *ssa.BasicBlock) {
	s.Have = ca.lb(v, b, map[*cellVer]bool{})
	if s.Have >= s.Need {
		s.Class = "SAFE"
		return
	}
	if ca.unkGuard(v, b, 0) {
		s.Class, s.Why = "UNK", "a dominating length condition on the cell is not of a recognised form"
		return
	}
	// symbolic facts on this version that we could not use
	if _, syms, _ := ca.ownFacts(v, b); len(syms) > 0 {
		s.Class, s.Why = "UNK", "only a symbolic length guard dominates"
		return
	}
	if rel, ok := ca.relOf(v, 0); ok {
		s.Class, s.Req = "REQ", rel+s.Need
		s.Why = fmt.Sprintf("needs %d bytes of the cell at function entry (no guard in this function)", rel+s.Need)
		return
	}
	if ca.correlatedGuard(v, b, s.Need) {
		s.Class, s.Why = "UNK", "a length test on an earlier state of the cursor holds only on some of the paths that reach this point"
		return
	}
	if ca.arbitrary(v, map[*cellVer]bool{}) {
		s.Class = "DEF"
		s.Why = "the cell holds an attacker-sized remainder of the packet here (after a variable advance, a consuming call or a loop) and no guard establishes the length"
		return
	}
	s.Class, s.Why = "UNK", "provenance of the cell's contents is not the decoder input"
}

// AnalyzeCursors runs the cursor analysis for every trackable cell of fn.
func AnalyzeCursors(fn *ssa.Function, root *RootInfo, sums map[*ssa.Function]*CursorSummary) ([]CursorSite, *CursorSummary, map[*ssa.Function]map[int]bool) {
	out := &CursorSummary{Req: map[int]int{}, Arb: map[int]bool{}}
	passArb := map[*ssa.Function]map[int]bool{}
	if len(fn.Blocks) == 0 {
		return nil, out, passArb
	}
	cells := cursorCells(fn)
	if len(cells) == 0 {
		return nil, out, passArb
	}
	live := LiveBlocks(fn)
	fi := infoFor(fn, root)
	var sites []CursorSite
	for _, cell := range cells {
		ca := &cursorAnalysis{fn: fn, cell: cell, fi: fi, live: live, sums: sums}
		if root != nil {
			ca.rootData = root.Data
		}
		pidx := -1
		if p, ok := cell.(*ssa.Parameter); ok {
			for i, q := range fn.Params {
				if q == p {
					pidx = i
				}
			}
			if me := sums[fn]; me != nil {
				ca.arbEntry = me.Arb[pidx]
			}
		}
		ca.build()
		// an Alloc cell that no call receives is of no interest
		if _, isAlloc := cell.(*ssa.Alloc); isAlloc && len(ca.atCall) == 0 {
			continue
		}
		add := func(s CursorSite, v *cellVer, b *ssa.BasicBlock) {
			s.Fn, s.Cell = fn, cell
			ca.classify(&s, v, b)
			if s.Class == "REQ" && pidx >= 0 && s.Req > out.Req[pidx] {
				out.Req[pidx] = s.Req
			}
			sites = append(sites, s)
		}
		for _, b := range fn.Blocks {
			if !live[b] {
				continue
			}
			for _, ins := range b.Instrs {
				switch x := ins.(type) {
				case *ssa.Slice:
					v := ca.loadVer[x.X]
					if v == nil {
						continue
					}
					need := -1
					if x.Low != nil {
						if k, ok := constInt(x.Low); ok && k > need {
							need = k
						}
					}
					if x.High != nil {
						if k, ok := constInt(x.High); ok && k > need {
							need = k
						}
					}
					if need > 0 {
						add(CursorSite{Ins: ins, What: "slice", Need: need}, v, b)
					}
				case *ssa.IndexAddr:
					v := ca.loadVer[x.X]
					if v == nil {
						continue
					}
					if k, ok := constInt(x.Index); ok {
						add(CursorSite{Ins: ins, What: fmt.Sprintf("[%d]", k), Need: k + 1}, v, b)
					}
				case *ssa.Call:
					if f := x.Call.StaticCallee(); f != nil && f.Pkg != nil && f.Pkg.Pkg.Path() == "encoding/binary" && len(x.Call.Args) >= 2 {
						if v := ca.loadVer[x.Call.Args[1]]; v != nil {
							n := 0
							switch f.Name() {
							case "Uint16", "PutUint16":
								n = 2
							case "Uint32", "PutUint32":
								n = 4
							case "Uint64", "PutUint64":
								n = 8
							}
							if n > 0 {
								add(CursorSite{Ins: ins, What: "binary." + f.Name(), Need: n}, v, b)
							}
						}
					}
					cur := ca.curAt[ins]
					if cur == nil {
						continue
					}
					callee := x.Call.StaticCallee()
					for ai, a := range x.Call.Args {
						if a != cell || callee == nil {
							continue
						}
						if ca.arbitrary(cur, map[*cellVer]bool{}) {
							if passArb[callee] == nil {
								passArb[callee] = map[int]bool{}
							}
							passArb[callee][ai] = true
						}
						if cs := sums[callee]; cs != nil && cs.Req[ai] > 0 {
							add(CursorSite{Ins: ins, What: "call " + callee.Name(), Need: cs.Req[ai]}, cur, b)
						}
					}
				}
			}
		}
	}
	sort.SliceStable(sites, func(i, j int) bool { return sites[i].Ins.Pos() < sites[j].Ins.Pos() })
	return sites, out, passArb
}

// sameSym: two integer expressions denote the same quantity: the same SSA
// value, or structurally equal trees of conversions, arithmetic, field loads
// and calls of the same static callee on the same arguments (methods used for
// lengths here are pure).
func sameSym(a, b ssa.Value, depth int) bool {
	a, b = stripConv(a), stripConv(b)
	if a == b {
		return true
	}
	if depth > 6 {
		return false
	}
	switch x := a.(type) {
	case *ssa.Const:
		if y, ok := b.(*ssa.Const); ok {
			ka, okA := constInt(x)
			kb, okB := constInt(y)
			return okA && okB && ka == kb
		}
	case *ssa.BinOp:
		if y, ok := b.(*ssa.BinOp); ok && x.Op == y.Op {
			return sameSym(x.X, y.X, depth+1) && sameSym(x.Y, y.Y, depth+1)
		}
	case *ssa.UnOp:
		if y, ok := b.(*ssa.UnOp); ok && x.Op == y.Op && x.Op == token.MUL {
			// loads of the same address expression
			return sameAddr(x.X, y.X, depth+1)
		}
	case *ssa.Call:
		y, ok := b.(*ssa.Call)
		if !ok {
			return false
		}
		fx, fy := x.Call.StaticCallee(), y.Call.StaticCallee()
		if fx == nil || fx != fy || len(x.Call.Args) != len(y.Call.Args) {
			if bx, ok := x.Call.Value.(*ssa.Builtin); ok {
				if by, ok := y.Call.Value.(*ssa.Builtin); ok && bx.Name() == by.Name() && bx.Name() == "len" {
					return sameSym(x.Call.Args[0], y.Call.Args[0], depth+1)
				}
			}
			return false
		}
		for i := range x.Call.Args {
			if !sameSym(x.Call.Args[i], y.Call.Args[i], depth+1) {
				return false
			}
		}
		return true
	}
	return false
}

func sameAddr(a, b ssa.Value, depth int) bool {
	if a == b {
		return true
	}
	if depth > 6 {
		return false
	}
	fa, ok1 := a.(*ssa.FieldAddr)
	fb, ok2 := b.(*ssa.FieldAddr)
	if ok1 && ok2 && fa.Field == fb.Field {
		return sameAddr(fa.X, fb.X, depth+1) || sameSym(fa.X, fb.X, depth+1)
	}
	return false
}

// region: the versions whose length determines that of v by constant
// advances and merges (stops at the entry, at variable advances, calls and
// fresh values).
func (ca *cursorAnalysis) region(v *cellVer, out map[*cellVer]bool) {
	if v == nil || out[v] {
		return
	}
	out[v] = true
	switch v.kind {
	case "adv":
		if v.adv >= 0 {
			ca.region(v.parent, out)
		}
	case "phi":
		for _, in := range v.ins {
			ca.region(in, out)
		}
	}
}

// correlatedGuard: some branch condition in the function tests the length of
// a version in v's region but does not dominate block b, so what it
// establishes is known only along some paths.
func (ca *cursorAnalysis) correlatedGuard(v *cellVer, b *ssa.BasicBlock, need int) bool {
	reg := map[*cellVer]bool{}
	ca.region(v, reg)
	for _, blk := range ca.fn.Blocks {
		if !ca.live[blk] || len(blk.Instrs) == 0 {
			continue
		}
		iff, ok := blk.Instrs[len(blk.Instrs)-1].(*ssa.If)
		if !ok {
			continue
		}
		f, ok := ca.lenFactOf(iff.Cond, true)
		if !ok || f.load == nil || !reg[ca.loadVer[f.load]] {
			continue
		}
		// a constant test too weak to matter: even if it held, after the bytes consumed between
		// the tested version and this one it would not establish `need`
		if f.recog && f.sym == nil {
			k := f.ge
			if f2, ok2 := ca.lenFactOf(iff.Cond, false); ok2 && f2.recog && f2.sym == nil && f2.ge > k {
				k = f2.ge
			}
			if adv, ok := ca.minAdvance(ca.loadVer[f.load], v, map[*cellVer]bool{}); ok && k-adv < need {
				continue
			}
		}
		if blk == b || blk.Dominates(b) {
			// dominating: already used through ownFacts when one of its edges leads here;
			// if neither successor dominates b the test's outcome is not known at b
			if blk.Succs[0].Dominates(b) || blk.Succs[1].Dominates(b) || blk.Succs[0] == b || blk.Succs[1] == b {
				continue
			}
			return true
		}
		// a test that can reach b without dominating it
		reach := false
		seen := map[*ssa.BasicBlock]bool{}
		var dfs func(x *ssa.BasicBlock)
		dfs = func(x *ssa.BasicBlock) {
			if seen[x] || reach {
				return
			}
			seen[x] = true
			if x == b {
				reach = true
				return
			}
			for _, s := range x.Succs {
				dfs(s)
			}
		}
		dfs(blk)
		if reach {
			return true
		}
	}
	return false
}

// minAdvance: the least number of bytes consumed on any derivation path from
// version u to version v (constant advances and merges only).
func (ca *cursorAnalysis) minAdvance(u, v *cellVer, seen map[*cellVer]bool) (int, bool) {
	if v == u {
		return 0, true
	}
	if v == nil || seen[v] {
		return 0, false
	}
	seen[v] = true
	defer delete(seen, v)
	switch v.kind {
	case "adv":
		if v.adv < 0 {
			return 0, false
		}
		a, ok := ca.minAdvance(u, v.parent, seen)
		return a + v.adv, ok
	case "phi":
		best, found := 0, false
		for _, in := range v.ins {
			if a, ok := ca.minAdvance(u, in, seen); ok && (!found || a < best) {
				best, found = a, true
			}
		}
		return best, found
	}
	return 0, false
}
