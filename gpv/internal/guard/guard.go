// Package guard: guard-aware bounds analysis (DESIGN.md 3.2).  Classifies
// constant-offset index/slice/binary.UintNN sites as safe, definite or unknown.
package guard

import (
	"fmt"
	"go/constant"
	"go/token"
	"go/types"
	"strings"

	"golang.org/x/tools/go/ssa"
)

// ---------- facts
type lenFact struct {
	v  ssa.Value // slice value
	k  string
	ge int // len(v) >= ge
}

type intFact struct {
	k  string // canonical key of int value
	lo int    // value >= lo
}

type blockFacts struct {
	lens    []lenFact
	ints    []intFact
	unkInts []string
	unknown []ssa.Value // slices mentioned in unrecognised length-related conditions
	callsOn []ssa.Value // slices passed to calls whose result feeds a dominating condition
	ver     map[string]int
	syms    []symLen
}

type symLen struct {
	k   string    // key of slice
	s   ssa.Value // slice
	v   ssa.Value // len(s) >= v (+adj)
	adj int
}

// addrKey returns a canonical string for an address expression rooted at a parameter/alloc
func addrKey(v ssa.Value) (string, bool) {
	switch x := v.(type) {
	case *ssa.Parameter:
		return "P:" + x.Name(), true
	case *ssa.Alloc:
		return fmt.Sprintf("A:%p", x), true
	case *ssa.FieldAddr:
		if b, ok := addrKey(x.X); ok {
			return fmt.Sprintf("%s.%d", b, x.Field), true
		}
	case *ssa.IndexAddr:
		if c, ok := constInt(x.Index); ok {
			if b, ok := addrKey(x.X); ok {
				return fmt.Sprintf("%s[%d]", b, c), true
			}
		}
	}
	return "", false
}

// intKey: canonical key of an integer value (through conversions); loads get key+version
func (fi *fnInfo) intKey(v ssa.Value, ctx *ssa.BasicBlock) (string, bool) {
	v = stripConv(v)
	switch x := v.(type) {
	case *ssa.UnOp:
		if x.Op == token.MUL {
			if k, ok := addrKey(x.X); ok {
				return fmt.Sprintf("L:%s@%d", k, fi.loadVer[x]), true
			}
		}
	case *ssa.Parameter:
		return "P:" + x.Name(), true
	}
	return fmt.Sprintf("V:%p", v), true
}

func constInt(v ssa.Value) (int, bool) {
	if c, ok := v.(*ssa.Const); ok && c.Value != nil && c.Value.Kind() == constant.Int {
		i, ok := constant.Int64Val(c.Value)
		return int(i), ok
	}
	return 0, false
}

func stripConv(v ssa.Value) ssa.Value {
	for {
		switch x := v.(type) {
		case *ssa.Convert:
			v = x.X
		case *ssa.ChangeType:
			v = x.X
		default:
			return v
		}
	}
}

// isLen returns the slice whose len is taken
func isLen(v ssa.Value) (ssa.Value, bool) {
	v = stripConv(v)
	if c, ok := v.(*ssa.Call); ok {
		if b, ok := c.Call.Value.(*ssa.Builtin); ok && b.Name() == "len" {
			return c.Call.Args[0], true
		}
	}
	// a struct field that is stored once in this function, with len(x): m.Length = len(data)
	if ld, ok := v.(*ssa.UnOp); ok && ld.Op == token.MUL {
		if _, isField := ld.X.(*ssa.FieldAddr); isField && ld.Parent() != nil {
			if sv, _, ok := singleFieldStore(ld.Parent(), ld); ok {
				if c, ok := stripConv(sv).(*ssa.Call); ok {
					if b, ok := c.Call.Value.(*ssa.Builtin); ok && b.Name() == "len" {
						return c.Call.Args[0], true
					}
				}
			}
		}
	}
	return nil, false
}

// mentionsLen: does value v (an int/bool expression) depend on len(x) for some x? returns the slices
func lenDeps(v ssa.Value, depth int, out *[]ssa.Value, calls *[]ssa.Value) {
	if depth > 6 {
		return
	}
	v = stripConv(v)
	if s, ok := isLen(v); ok {
		*out = append(*out, s)
		return
	}
	switch x := v.(type) {
	case *ssa.BinOp:
		lenDeps(x.X, depth+1, out, calls)
		lenDeps(x.Y, depth+1, out, calls)
	case *ssa.UnOp:
		lenDeps(x.X, depth+1, out, calls)
	case *ssa.Phi:
		for _, e := range x.Edges {
			lenDeps(e, depth+1, out, calls)
		}
	case *ssa.Extract:
		lenDeps(x.Tuple, depth+1, out, calls)
	case *ssa.Call:
		for _, a := range x.Call.Args {
			if _, ok := a.Type().Underlying().(*types.Slice); ok {
				*calls = append(*calls, a)
			} else {
				// struct/pointer args may carry slices: record conservatively
				*calls = append(*calls, a)
			}
		}
		if x.Call.IsInvoke() {
			*calls = append(*calls, x.Call.Value)
		}
	}
}

func negate(op token.Token) token.Token {
	switch op {
	case token.LSS:
		return token.GEQ
	case token.LEQ:
		return token.GTR
	case token.GTR:
		return token.LEQ
	case token.GEQ:
		return token.LSS
	case token.EQL:
		return token.NEQ
	case token.NEQ:
		return token.EQL
	}
	return token.ILLEGAL
}
func flip(op token.Token) token.Token {
	switch op {
	case token.LSS:
		return token.GTR
	case token.LEQ:
		return token.GEQ
	case token.GTR:
		return token.LSS
	case token.GEQ:
		return token.LEQ
	}
	return op
}

type symFact struct {
	sl ssa.Value
	v  ssa.Value
	bf *blockFacts
}

var curFI *fnInfo
var curBlock *ssa.BasicBlock

// condFacts: facts implied when cond is `truth`
func condFacts(cond ssa.Value, truth bool, bf *blockFacts) {
	b, ok := cond.(*ssa.BinOp)
	if !ok {
		if u, ok := cond.(*ssa.UnOp); ok && u.Op == token.NOT {
			condFacts(u.X, !truth, bf)
			return
		}
		var deps, calls []ssa.Value
		lenDeps(cond, 0, &deps, &calls)
		bf.unknown = append(bf.unknown, deps...)
		bf.callsOn = append(bf.callsOn, calls...)
		return
	}
	op := b.Op
	if negate(op) == token.ILLEGAL {
		var deps, calls []ssa.Value
		lenDeps(cond, 0, &deps, &calls)
		bf.unknown = append(bf.unknown, deps...)
		bf.callsOn = append(bf.callsOn, calls...)
		return
	}
	if !truth {
		op = negate(op)
	}
	x, y := b.X, b.Y
	if s, ok := isLen(x); ok {
		if c, ok := constInt(y); ok {
			applyLen(s, op, c, bf)
			return
		}
	}
	if s, ok := isLen(y); ok {
		if c, ok := constInt(x); ok {
			applyLen(s, flip(op), c, bf)
			return
		}
	}
	// int facts with constants
	if _, isl := isLen(x); !isl {
		if c, ok := constInt(y); ok {
			if k, ok := curFI.intKey(x, curBlock); ok {
				switch op {
				case token.GEQ, token.EQL:
					bf.ints = append(bf.ints, intFact{k, c})
				case token.GTR:
					bf.ints = append(bf.ints, intFact{k, c + 1})
				case token.NEQ:
					// x != 0 for a value known to be non-negative means x >= 1
					if c == 0 && curFI.intLB(x, curBlock, 0) >= 0 {
						bf.ints = append(bf.ints, intFact{k, 1})
					} else {
						// a hole in the value range: the lower bound of x may not be attainable, so a
						// symbolic guard that uses x cannot support a definite claim
						curFI.keysOf(x, curBlock, 0, &bf.unkInts)
					}
				}
				var deps, calls []ssa.Value
				lenDeps(cond, 0, &deps, &calls)
				if len(deps) == 0 && len(calls) == 0 {
					return
				}
			}
		}
	}
	// symbolic: len(s) OP v  => len(s) >= LB(v) when len >= v
	if sl, ok := isLen(x); ok {
		if op == token.GEQ || op == token.GTR || op == token.EQL {
			lb := curFI.intLB(y, curBlock, 0)
			if op == token.GTR {
				lb++
			}
			_ = lb
			k, _ := curFI.intKey(sl, curBlock)
			adj := 0
			if op == token.GTR {
				adj = 1
			}
			bf.syms = append(bf.syms, symLen{k, sl, y, adj})
			return
		}
		if op == token.LSS || op == token.LEQ || op == token.NEQ {
			return
		}
	}
	if sl, ok := isLen(y); ok {
		fop := flip(op)
		if fop == token.GEQ || fop == token.GTR || fop == token.EQL {
			lb := curFI.intLB(x, curBlock, 0)
			if fop == token.GTR {
				lb++
			}
			_ = lb
			k, _ := curFI.intKey(sl, curBlock)
			adj := 0
			if fop == token.GTR {
				adj = 1
			}
			bf.syms = append(bf.syms, symLen{k, sl, x, adj})
			return
		}
		if fop == token.LSS || fop == token.LEQ || fop == token.NEQ {
			return
		}
	}
	var deps, calls []ssa.Value
	lenDeps(cond, 0, &deps, &calls)
	bf.unknown = append(bf.unknown, deps...)
	bf.callsOn = append(bf.callsOn, calls...)
	curFI.keysOf(cond, curBlock, 0, &bf.unkInts)
}

func applyLen(s ssa.Value, op token.Token, c int, bf *blockFacts) {
	k, _ := curFI.intKey(s, curBlock)
	switch op {
	case token.GEQ:
		bf.lens = append(bf.lens, lenFact{s, k, c})
	case token.GTR:
		bf.lens = append(bf.lens, lenFact{s, k, c + 1})
	case token.EQL:
		bf.lens = append(bf.lens, lenFact{s, k, c})
	case token.NEQ:
		// len(s) != 0 means len(s) >= 1
		if c == 0 {
			bf.lens = append(bf.lens, lenFact{s, k, 1})
		}
	case token.LSS, token.LEQ:
		// upper bound: gives no lower bound but is recognised (complete knowledge)
	}
}

type fnInfo struct {
	ignoreWrap bool // evaluate lower bounds as if narrow arithmetic never wrapped
	rootParam  *ssa.Parameter
	rootMin    int
	fn         *ssa.Function
	facts      map[*ssa.BasicBlock]*blockFacts
	loadVer    map[*ssa.UnOp]int
}

// intLB: lower bound of integer value using facts in ctx
func (fi *fnInfo) intLB(v ssa.Value, ctx *ssa.BasicBlock, depth int) int {
	if depth > 6 {
		return -1 << 40
	}
	if c, ok := constInt(v); ok {
		return c
	}
	best := -1 << 40
	if k, ok := fi.intKey(v, ctx); ok {
		if bf := fi.facts[ctx]; bf != nil {
			for _, f := range bf.ints {
				if f.k == k && f.lo > best {
					best = f.lo
				}
			}
		}
	}
	sv := stripConv(v)
	// unsigned-ness
	if b, ok := sv.Type().Underlying().(*types.Basic); ok && b.Info()&types.IsUnsigned != 0 && best < 0 {
		best = 0
	}
	switch x := sv.(type) {
	case *ssa.BinOp:
		switch x.Op {
		case token.ADD:
			a, b := fi.intLB(x.X, ctx, depth+1), fi.intLB(x.Y, ctx, depth+1)
			if a > -1<<39 && b > -1<<39 && a+b > best && !fi.mayWrap(x, ctx, depth) {
				best = a + b
			}
		case token.MUL:
			a, b := fi.intLB(x.X, ctx, depth+1), fi.intLB(x.Y, ctx, depth+1)
			if a >= 0 && b >= 0 && a*b > best && !fi.mayWrap(x, ctx, depth) {
				best = a * b
			}
		case token.SUB:
			if c, ok := constInt(x.Y); ok {
				a := fi.intLB(x.X, ctx, depth+1)
				if a > -1<<39 && a-c > best {
					best = a - c
				}
			} else if u := fi.intUB(x.Y, ctx, depth+1); u >= 0 && u < 1<<20 {
				// x - y >= LB(x) - UB(y) when the subtraction cannot wrap (signed 64-bit, or LB(x) >= UB(y))
				a := fi.intLB(x.X, ctx, depth+1)
				if a > -1<<39 && a-u > best && (a >= u || typeMax(x.Type()) == 0 && !isUnsigned(x.Type())) {
					best = a - u
				}
			}
		case token.AND_NOT:
			// x &^ c >= x - c for a non-negative x and mask c
			if c, ok := constInt(x.Y); ok && c >= 0 {
				a := fi.intLB(x.X, ctx, depth+1)
				if a >= 0 && a-c > best {
					best = a - c
				}
			}
		}
	case *ssa.Phi:
		// merged value: the minimum over the incoming values, each bounded where it flows in
		m := 1 << 40
		for i, e := range x.Edges {
			if e == ssa.Value(x) {
				continue
			}
			l := fi.intLB(e, x.Block().Preds[i], depth+2)
			if l < m {
				m = l
			}
		}
		if m != 1<<40 && m > best {
			best = m
		}
	case *ssa.Call:
		if _, ok := isLen(x); ok && best < 0 {
			best = 0
		}
		if f := x.Call.StaticCallee(); f != nil && len(f.Blocks) > 0 && pureIntFn(f) {
			args := make([]int, len(x.Call.Args))
			for i, a := range x.Call.Args {
				args[i] = fi.intLB(a, ctx, depth+1)
			}
			if lb := calleeLB(f, args); lb > best {
				best = lb
			}
		}
	}
	if sv != v { // conversion: keep the bound of the inner value unless a narrowing conversion may truncate it
		if in := fi.intLB(sv, ctx, depth+1); in > best && !narrows(v, sv, fi, ctx, depth) {
			best = in
		}
	}
	return best
}

// typeMax returns the maximum of a narrow unsigned integer type (0 = not narrow/unsigned).
func typeMax(t types.Type) int {
	b, ok := t.Underlying().(*types.Basic)
	if !ok {
		return 0
	}
	switch b.Kind() {
	case types.Uint8:
		return 255
	case types.Uint16:
		return 65535
	case types.Uint32:
		return 1<<32 - 1
	}
	return 0
}

// intUB: an upper bound of v, or -1 when none is known.
func (fi *fnInfo) intUB(v ssa.Value, ctx *ssa.BasicBlock, depth int) int {
	if depth > 6 {
		return -1
	}
	if c, ok := constInt(v); ok {
		return c
	}
	best := -1
	if m := typeMax(v.Type()); m > 0 {
		best = m
	}
	tighten := func(u int) {
		if u >= 0 && (best < 0 || u < best) {
			best = u
		}
	}
	switch x := v.(type) {
	case *ssa.Convert:
		in := fi.intUB(x.X, ctx, depth+1)
		if in >= 0 {
			// a value that fits is unchanged by the conversion
			if m := typeMax(x.Type()); m == 0 || in <= m {
				tighten(in)
			}
		}
	case *ssa.ChangeType:
		tighten(fi.intUB(x.X, ctx, depth+1))
	case *ssa.BinOp:
		a, b := fi.intUB(x.X, ctx, depth+1), fi.intUB(x.Y, ctx, depth+1)
		switch x.Op {
		case token.ADD:
			if a >= 0 && b >= 0 {
				if m := typeMax(x.Type()); m == 0 || a+b <= m {
					tighten(a + b)
				}
			}
		case token.MUL:
			if a >= 0 && b >= 0 && (a == 0 || b < 1<<40/(a+1)) {
				if m := typeMax(x.Type()); m == 0 || a*b <= m {
					tighten(a * b)
				}
			}
		case token.AND:
			if b >= 0 {
				if c, ok := constInt(x.Y); ok {
					tighten(c)
				}
			}
			if c, ok := constInt(x.X); ok {
				tighten(c)
			}
		case token.REM:
			if c, ok := constInt(x.Y); ok && c > 0 {
				tighten(c - 1)
			}
		case token.SHR:
			if c, ok := constInt(x.Y); ok && a >= 0 && c >= 0 && c < 62 {
				tighten(a >> uint(c))
			}
		case token.SHL:
			if c, ok := constInt(x.Y); ok && a >= 0 && c >= 0 && c < 32 && a < 1<<30 {
				if m := typeMax(x.Type()); m == 0 || a<<uint(c) <= m {
					tighten(a << uint(c))
				}
			}
		case token.QUO:
			if c, ok := constInt(x.Y); ok && c > 0 && a >= 0 {
				tighten(a / c)
			}
		}
	case *ssa.UnOp:
		if x.Op == token.MUL {
			// a byte loaded from a slice / a narrow field: bounded by its type
		}
	}
	return best
}

// mayWrap: the addition/multiplication x is carried out in a narrow unsigned
// type and its operands are not known to be small enough to fit.
func (fi *fnInfo) mayWrap(x *ssa.BinOp, ctx *ssa.BasicBlock, depth int) bool {
	if fi.ignoreWrap {
		return false
	}
	m := typeMax(x.Type())
	if m == 0 {
		return false
	}
	a, b := fi.intUB(x.X, ctx, depth+1), fi.intUB(x.Y, ctx, depth+1)
	if a < 0 || b < 0 {
		return true
	}
	if x.Op == token.ADD {
		return a+b > m
	}
	return a != 0 && (b > m/a)
}

// narrows: v converts sv to a narrower unsigned type that may not hold it.
func narrows(v, sv ssa.Value, fi *fnInfo, ctx *ssa.BasicBlock, depth int) bool {
	if fi.ignoreWrap {
		return false
	}
	for cur := v; cur != sv; {
		cv, ok := cur.(*ssa.Convert)
		if !ok {
			ct, ok := cur.(*ssa.ChangeType)
			if !ok {
				break
			}
			cur = ct.X
			continue
		}
		if m := typeMax(cv.Type()); m > 0 {
			if u := fi.intUB(cv.X, ctx, depth+1); u < 0 || u > m {
				return true
			}
		}
		cur = cv.X
	}
	return false
}

func (fi *fnInfo) keysOf(v ssa.Value, ctx *ssa.BasicBlock, depth int, out *[]string) {
	if depth > 5 {
		return
	}
	v = stripConv(v)
	if k, ok := fi.intKey(v, ctx); ok && !strings.HasPrefix(k, "V:") {
		*out = append(*out, k)
	}
	switch x := v.(type) {
	case *ssa.BinOp:
		fi.keysOf(x.X, ctx, depth+1, out)
		fi.keysOf(x.Y, ctx, depth+1, out)
	case *ssa.UnOp:
		if x.Op != token.MUL {
			fi.keysOf(x.X, ctx, depth+1, out)
		}
	case *ssa.Phi:
		*out = append(*out, fmt.Sprintf("V:%p", x))
	}
}

var verCounter int

func pureCall(c *ssa.Call) bool {
	if _, ok := c.Call.Value.(*ssa.Builtin); ok {
		return true
	}
	if c.Call.IsInvoke() {
		t := c.Call.Value.Type().String()
		return strings.HasSuffix(t, "gopacket.DecodeFeedback") || strings.HasSuffix(t, "gopacket.PacketBuilder")
	}
	if f := c.Call.StaticCallee(); f != nil && f.Pkg != nil {
		switch f.Pkg.Pkg.Path() {
		case "fmt", "errors", "encoding/binary", "bytes", "net", "strconv", "strings", "encoding/hex", "time", "math":
			return true
		}
	}
	return false
}

func computeFacts(fi *fnInfo) {
	fn := fi.fn
	fi.facts = map[*ssa.BasicBlock]*blockFacts{}
	fi.loadVer = map[*ssa.UnOp]int{}
	if len(fn.Blocks) == 0 {
		return
	}
	// per block: stored keys, invalidating call
	stores := map[*ssa.BasicBlock][]string{}
	inval := map[*ssa.BasicBlock]bool{}
	for _, b := range fn.Blocks {
		for _, ins := range b.Instrs {
			switch x := ins.(type) {
			case *ssa.Store:
				if k, ok := addrKey(x.Addr); ok {
					stores[b] = append(stores[b], k)
				} else {
					// store through unknown pointer: could alias anything heap; be conservative for non-alloc keys
					inval[b] = true
				}
			case *ssa.Call:
				if !pureCall(x) {
					inval[b] = true
				}
			}
		}
	}
	region := func(idom, b *ssa.BasicBlock) []*ssa.BasicBlock {
		seen := map[*ssa.BasicBlock]bool{}
		var out []*ssa.BasicBlock
		var work []*ssa.BasicBlock
		for _, p := range b.Preds {
			work = append(work, p)
		}
		for len(work) > 0 {
			x := work[len(work)-1]
			work = work[:len(work)-1]
			if x == idom || seen[x] {
				continue
			}
			seen[x] = true
			out = append(out, x)
			for _, p := range x.Preds {
				work = append(work, p)
			}
		}
		return out
	}
	bump := func(ver map[string]int, k string) {
		verCounter++
		for kk := range ver {
			if kk == k || strings.HasPrefix(kk, k+".") || strings.HasPrefix(kk, k+"[") || strings.HasPrefix(k, kk+".") {
				ver[kk] = verCounter
			}
		}
		ver[k] = verCounter
	}
	bumpAll := func(ver map[string]int) {
		verCounter++
		for kk := range ver {
			if !strings.HasPrefix(kk, "A:") {
				ver[kk] = verCounter
			}
		}
		ver["*"] = verCounter
	}
	var visit func(b *ssa.BasicBlock, inherited *blockFacts)
	visit = func(b *ssa.BasicBlock, inherited *blockFacts) {
		bf := &blockFacts{ver: map[string]int{}}
		if inherited != nil {
			bf.lens = append(bf.lens, inherited.lens...)
			bf.ints = append(bf.ints, inherited.ints...)
			bf.syms = append(bf.syms, inherited.syms...)
			bf.unkInts = append(bf.unkInts, inherited.unkInts...)
			bf.unknown = append(bf.unknown, inherited.unknown...)
			bf.callsOn = append(bf.callsOn, inherited.callsOn...)
			for k, v := range inherited.ver {
				bf.ver[k] = v
			}
		}
		if len(b.Preds) > 1 && b.Idom() != nil {
			for _, r := range region(b.Idom(), b) {
				if inval[r] {
					bumpAll(bf.ver)
				}
				for _, k := range stores[r] {
					bump(bf.ver, k)
				}
			}
		}
		curFI, curBlock = fi, b
		// edge fact: if b has exactly one pred p ending in If
		if len(b.Preds) == 1 {
			p := b.Preds[0]
			if iff, ok := p.Instrs[len(p.Instrs)-1].(*ssa.If); ok {
				if p.Succs[0] == b && p.Succs[1] != b {
					condFacts(iff.Cond, true, bf)
				} else if p.Succs[1] == b && p.Succs[0] != b {
					condFacts(iff.Cond, false, bf)
				}
			}
		}
		fi.facts[b] = bf
		// instructions: versions
		endVer := map[string]int{}
		for k, v := range bf.ver {
			endVer[k] = v
		}
		for _, ins := range b.Instrs {
			switch x := ins.(type) {
			case *ssa.UnOp:
				if x.Op == token.MUL {
					if k, ok := addrKey(x.X); ok {
						v, ok := endVer[k]
						if !ok {
							v = endVer["*"]
						}
						fi.loadVer[x] = v
					}
				}
			case *ssa.Store:
				if k, ok := addrKey(x.Addr); ok {
					bump(endVer, k)
				} else {
					bumpAll(endVer)
				}
			case *ssa.Call:
				if !pureCall(x) {
					bumpAll(endVer)
				}
			}
		}
		child := &blockFacts{lens: bf.lens, ints: bf.ints, syms: bf.syms, unkInts: bf.unkInts, unknown: bf.unknown, callsOn: bf.callsOn, ver: endVer}
		for _, d := range b.Dominees() {
			visit(d, child)
		}
	}
	visit(fn.Blocks[0], nil)
}

type chainInfo struct {
	root       ssa.Value
	members    []ssa.Value
	symbolic   bool // chain has symbolic-bound slice
	viaLoad    bool // passes through memory load (field / pointer deref)
	otherRoots bool
	arbLoop    bool // a phi member has a back-edge re-slice by an unstructured non-constant low bound
}

func unstructured(v ssa.Value, depth int) bool {
	if depth > 4 {
		return false
	}
	v = stripConv(v)
	switch x := v.(type) {
	case *ssa.UnOp:
		return x.Op == token.MUL // raw load (byte / field)
	case *ssa.BinOp:
		if x.Op == token.ADD || x.Op == token.SUB {
			if _, ok := constInt(x.Y); ok {
				return unstructured(x.X, depth+1)
			}
			if _, ok := constInt(x.X); ok {
				return unstructured(x.Y, depth+1)
			}
		}
	}
	return false
}

// minLen evaluates lower bound on len(v) using facts valid in block ctx.
func (fi *fnInfo) minLen(v ssa.Value, ctx *ssa.BasicBlock, inprog map[ssa.Value]bool) int {
	base := 0
	if bf := fi.facts[ctx]; bf != nil {
		vk, _ := fi.intKey(v, ctx)
		for _, f := range bf.lens {
			if (f.v == v || f.k == vk) && f.ge > base {
				base = f.ge
			}
		}
		for _, f := range bf.syms {
			if f.s == v || f.k == vk {
				if lb := fi.intLB(f.v, ctx, 0); lb > -1<<39 && lb+f.adj > base {
					base = lb + f.adj
				}
			}
		}
	}
	st := 0
	switch x := v.(type) {
	case *ssa.Slice:
		lo, loC := 0, true
		if x.Low != nil {
			lo, loC = constInt(x.Low)
		}
		if x.High == nil {
			if loC {
				m := fi.minLenOfSliceBase(x.X, ctx, inprog) - lo
				if m > st {
					st = m
				}
			}
		} else if hi, ok := constInt(x.High); ok && loC {
			st = hi - lo
		} else if loC {
			if hlb := fi.intLB(x.High, ctx, 0); hlb > -1<<39 && hlb-lo > st {
				st = hlb - lo
			}
		} else if x.Low != nil && x.High != nil {
			// both bounds symbolic: a successful x[a:b] has exactly b-a elements
			if d, ok := linDiff(x.High, x.Low); ok && d > st {
				st = d
			}
		}
	case *ssa.Phi:
		if inprog[v] {
			return base
		}
		inprog[v] = true
		m := 1 << 30
		for i, e := range x.Edges {
			pred := x.Block().Preds[i]
			em := fi.minLen(e, pred, inprog)
			if em < m {
				m = em
			}
		}
		delete(inprog, v)
		st = m
	case *ssa.MakeSlice:
		if c, ok := constInt(x.Len); ok {
			st = c
		}
	case *ssa.Parameter:
		if fi.rootParam != nil && x == fi.rootParam {
			st = fi.rootMin
		}
	case *ssa.ChangeType:
		st = fi.minLen(x.X, ctx, inprog)
	case *ssa.Convert:
		st = fi.minLen(x.X, ctx, inprog)
	}
	if st > base {
		return st
	}
	return base
}

func (fi *fnInfo) minLenOfSliceBase(x ssa.Value, ctx *ssa.BasicBlock, inprog map[ssa.Value]bool) int {
	// x may be slice, string, or *array
	if p, ok := x.Type().Underlying().(*types.Pointer); ok {
		if a, ok := p.Elem().Underlying().(*types.Array); ok {
			return int(a.Len())
		}
	}
	return fi.minLen(x, ctx, inprog)
}

func chainOf(v ssa.Value) chainInfo {
	ci := chainInfo{}
	seen := map[ssa.Value]bool{}
	var walk func(v ssa.Value)
	walk = func(v ssa.Value) {
		if seen[v] {
			return
		}
		seen[v] = true
		ci.members = append(ci.members, v)
		switch x := v.(type) {
		case *ssa.Slice:
			_, loC := 0, true
			if x.Low != nil {
				_, loC = constInt(x.Low)
			}
			hiC := true
			if x.High != nil {
				_, hiC = constInt(x.High)
			}
			if !loC || !hiC {
				ci.symbolic = true
			}
			if x.High != nil {
				// length fixed by bounds: parent guards irrelevant; root provenance continues for classification only
				r := x.X
				for {
					switch y := r.(type) {
					case *ssa.Slice:
						r = y.X
						continue
					case *ssa.ChangeType:
						r = y.X
						continue
					}
					break
				}
				if _, ok := r.(*ssa.Parameter); ok {
					if ci.root == nil {
						ci.root = r
					} else if ci.root != r {
						ci.otherRoots = true
					}
				} else if _, ok := r.(*ssa.Phi); ok {
					if ci.root == nil {
						ci.root = r
					}
				} else {
					if _, ok := r.(*ssa.UnOp); ok {
						ci.viaLoad = true
					}
					if ci.root == nil {
						ci.root = r
					} else if ci.root != r {
						ci.otherRoots = true
					}
				}
				return
			}
			walk(x.X)
		case *ssa.Phi:
			for _, e := range x.Edges {
				if sl, ok := e.(*ssa.Slice); ok && sl.High == nil && sl.Low != nil {
					if _, c := constInt(sl.Low); !c && unstructured(sl.Low, 0) {
						ci.arbLoop = true
					}
				}
				walk(e)
			}
		case *ssa.ChangeType:
			walk(x.X)
		case *ssa.Convert:
			walk(x.X)
		case *ssa.Parameter:
			if ci.root == nil {
				ci.root = x
			} else if ci.root != x {
				ci.otherRoots = true
			}
		case *ssa.UnOp:
			ci.viaLoad = true
			if ci.root == nil {
				ci.root = x
			} else {
				ci.otherRoots = true
			}
		default:
			if ci.root == nil {
				ci.root = v
			} else if ci.root != v {
				ci.otherRoots = true
			}
		}
	}
	walk(v)
	return ci
}

// linBase decomposes an integer value into (base key, constant offset):
// v = base + k, following +/- constants and conversions.
func linBase(v ssa.Value, depth int) (string, int, bool) {
	if depth > 6 {
		return "", 0, false
	}
	v = stripConv(v)
	if c, ok := constInt(v); ok {
		return "", c, true
	}
	if s, ok := isLen(v); ok {
		return fmt.Sprintf("len:%p", s), 0, true
	}
	if b, ok := v.(*ssa.BinOp); ok {
		switch b.Op {
		case token.ADD:
			if c, ok := constInt(b.Y); ok {
				if k, o, ok := linBase(b.X, depth+1); ok {
					return k, o + c, true
				}
			}
			if c, ok := constInt(b.X); ok {
				if k, o, ok := linBase(b.Y, depth+1); ok {
					return k, o + c, true
				}
			}
		case token.SUB:
			if c, ok := constInt(b.Y); ok {
				if k, o, ok := linBase(b.X, depth+1); ok {
					return k, o - c, true
				}
			}
		}
	}
	return fmt.Sprintf("v:%p", v), 0, true
}

// linDiff returns hi-lo when both decompose over the same base.
func linDiff(hi, lo ssa.Value) (int, bool) {
	kh, oh, ok1 := linBase(hi, 0)
	kl, ol, ok2 := linBase(lo, 0)
	if ok1 && ok2 && kh == kl {
		return oh - ol, true
	}
	return 0, false
}

func isUnsigned(t types.Type) bool {
	b, ok := t.Underlying().(*types.Basic)
	return ok && b.Info()&types.IsUnsigned != 0
}

// pureIntFn: a small function of integer parameters returning one integer,
// built only from arithmetic, comparisons, φ and returns (no memory, no calls).
func pureIntFn(f *ssa.Function) bool {
	if f.Signature.Recv() != nil || f.Signature.Results().Len() != 1 || len(f.Blocks) > 12 {
		return false
	}
	isInt := func(t types.Type) bool {
		b, ok := t.Underlying().(*types.Basic)
		return ok && b.Info()&types.IsInteger != 0
	}
	if !isInt(f.Signature.Results().At(0).Type()) {
		return false
	}
	for _, p := range f.Params {
		if !isInt(p.Type()) {
			return false
		}
	}
	for _, b := range f.Blocks {
		for _, ins := range b.Instrs {
			switch ins.(type) {
			case *ssa.BinOp, *ssa.UnOp, *ssa.Convert, *ssa.ChangeType, *ssa.Phi, *ssa.If, *ssa.Jump, *ssa.Return, *ssa.DebugRef:
				if u, ok := ins.(*ssa.UnOp); ok && u.Op == token.MUL {
					return false
				}
			default:
				return false
			}
		}
	}
	return true
}

// calleeLB: lower bound of the result of a pure integer function given lower
// bounds of its arguments (path conditions ignored: the minimum over all
// returns).  Arithmetic in narrow unsigned types is treated as possibly
// wrapping (bound 0).
func calleeLB(f *ssa.Function, args []int) int {
	const ninf = -1 << 40
	var lb, ub func(v ssa.Value, d int) int
	lb = func(v ssa.Value, d int) int {
		if d > 10 {
			return ninf
		}
		if c, ok := constInt(v); ok {
			return c
		}
		floor := ninf
		if isUnsigned(v.Type()) {
			floor = 0
		}
		max := func(a int) int {
			if a > floor {
				return a
			}
			return floor
		}
		switch x := v.(type) {
		case *ssa.Parameter:
			for i, p := range f.Params {
				if p == x && i < len(args) {
					return max(args[i])
				}
			}
		case *ssa.Convert:
			if widening(x.X.Type(), x.Type()) {
				return max(lb(x.X, d+1))
			}
		case *ssa.ChangeType:
			return max(lb(x.X, d+1))
		case *ssa.Phi:
			m := 1 << 40
			for _, e := range x.Edges {
				if l := lb(e, d+1); l < m {
					m = l
				}
			}
			return max(m)
		case *ssa.BinOp:
			if typeMax(x.Type()) != 0 || isUnsigned(x.Type()) {
				return floor // may wrap
			}
			a := lb(x.X, d+1)
			switch x.Op {
			case token.ADD:
				b := lb(x.Y, d+1)
				if a > ninf/2 && b > ninf/2 {
					return max(a + b)
				}
			case token.SUB:
				if u := ub(x.Y, d+1); u >= 0 && a > ninf/2 {
					return max(a - u)
				}
			case token.MUL:
				b := lb(x.Y, d+1)
				if a >= 0 && b >= 0 {
					return max(a * b)
				}
			case token.AND_NOT:
				if c, ok := constInt(x.Y); ok && c >= 0 && a >= 0 {
					return max(a - c)
				}
			case token.AND:
				if a >= 0 {
					return max(0)
				}
			}
		}
		return floor
	}
	ub = func(v ssa.Value, d int) int {
		if d > 10 {
			return -1
		}
		if c, ok := constInt(v); ok {
			return c
		}
		switch x := v.(type) {
		case *ssa.Convert:
			return ub(x.X, d+1)
		case *ssa.BinOp:
			switch x.Op {
			case token.AND:
				if c, ok := constInt(x.Y); ok && c >= 0 {
					return c
				}
				if c, ok := constInt(x.X); ok && c >= 0 {
					return c
				}
			case token.REM:
				if c, ok := constInt(x.Y); ok && c > 0 {
					return c - 1
				}
			}
		}
		if m := typeMax(v.Type()); m > 0 {
			return m
		}
		return -1
	}
	m := 1 << 40
	for _, b := range f.Blocks {
		if r, ok := b.Instrs[len(b.Instrs)-1].(*ssa.Return); ok {
			if l := lb(r.Results[0], 0); l < m {
				m = l
			}
		}
	}
	if m == 1<<40 {
		return ninf
	}
	return m
}
