package guard

import (
	"fmt"
	"go/token"
	"go/types"

	"golang.org/x/tools/go/ssa"
	"golang.org/x/tools/go/ssa/ssautil"
)

// ZONE — difference constraints over the dominating conditions.
//
// Every dominating comparison whose two sides normalise to "term + constant"
// (term: a load with its memory version, a parameter, len(s), an opaque SSA
// value) contributes x - y <= c.  A symbolic access data[..:t+k] is safe when
// t + k <= len(data) follows from the constraints by transitivity (shortest
// paths); integer difference constraints are exact, so when it does not
// follow, an assignment of the terms exists that satisfies every recorded
// constraint and violates the access — which supports a definite report only
// when every dominating condition was recorded (complete knowledge).

type zfact struct {
	x, y string // x - y <= c ; "" is the constant zero
	c    int
}

// zterm normalises an integer expression to (term key, constant).  Narrowing
// or sign-changing conversions and arithmetic that can wrap (unsigned
// subtraction, anything below 32 bits) are opaque terms.
func (fi *fnInfo) zterm(v ssa.Value, ctx *ssa.BasicBlock, depth int) (string, int, bool) {
	if depth > 8 {
		return "", 0, false
	}
	if c, ok := constInt(v); ok {
		return "", c, true
	}
	switch x := v.(type) {
	case *ssa.Convert:
		if widening(x.X.Type(), x.Type()) {
			return fi.zterm(x.X, ctx, depth+1)
		}
		return fmt.Sprintf("V:%p", v), 0, true
	case *ssa.ChangeType:
		return fi.zterm(x.X, ctx, depth+1)
	case *ssa.BinOp:
		bt, _ := x.Type().Underlying().(*types.Basic)
		if bt == nil || !wideSigned(bt) {
			break
		}
		switch x.Op {
		case token.ADD:
			if c, ok := constInt(x.Y); ok {
				if k, o, ok := fi.zterm(x.X, ctx, depth+1); ok {
					return k, o + c, true
				}
			}
			if c, ok := constInt(x.X); ok {
				if k, o, ok := fi.zterm(x.Y, ctx, depth+1); ok {
					return k, o + c, true
				}
			}
		case token.SUB:
			if c, ok := constInt(x.Y); ok {
				if k, o, ok := fi.zterm(x.X, ctx, depth+1); ok {
					return k, o - c, true
				}
			}
		}
	}
	if s, ok := isLen(v); ok {
		return fi.lenKey(s, ctx), 0, true
	}
	switch x := v.(type) {
	case *ssa.UnOp:
		if x.Op == token.MUL {
			if k, ok := addrKey(x.X); ok {
				return fmt.Sprintf("L:%s@%d", k, fi.loadVer[x]), 0, true
			}
		}
	case *ssa.Parameter:
		return "P:" + x.Name(), 0, true
	}
	return fmt.Sprintf("V:%p", v), 0, true
}

func (fi *fnInfo) lenKey(s ssa.Value, ctx *ssa.BasicBlock) string {
	if ld, ok := s.(*ssa.UnOp); ok && ld.Op == token.MUL {
		if k, ok := addrKey(ld.X); ok {
			return fmt.Sprintf("len:L:%s@%d", k, fi.loadVer[ld])
		}
	}
	return fmt.Sprintf("len:%p", s)
}

func wideSigned(b *types.Basic) bool {
	switch b.Kind() {
	case types.Int, types.Int64, types.UntypedInt:
		return true
	}
	return false
}

// widening: every value of type from is representable in type to (64-bit int).
func widening(from, to types.Type) bool {
	fb, ok1 := from.Underlying().(*types.Basic)
	tb, ok2 := to.Underlying().(*types.Basic)
	if !ok1 || !ok2 || fb.Info()&types.IsInteger == 0 || tb.Info()&types.IsInteger == 0 {
		return false
	}
	bits := func(b *types.Basic) (int, bool) { // width, signed
		switch b.Kind() {
		case types.Int8:
			return 8, true
		case types.Int16:
			return 16, true
		case types.Int32:
			return 32, true
		case types.Int, types.Int64, types.UntypedInt:
			return 64, true
		case types.Uint8:
			return 8, false
		case types.Uint16:
			return 16, false
		case types.Uint32:
			return 32, false
		case types.Uint, types.Uint64, types.Uintptr:
			return 64, false
		}
		return 0, false
	}
	fw, fs := bits(fb)
	tw, ts := bits(tb)
	if fw == 0 || tw == 0 {
		return false
	}
	switch {
	case fs == ts:
		return tw >= fw
	case !fs && ts:
		return tw > fw
	}
	return false
}

// zoneCond records cond==truth as difference constraints; ok=false when the
// comparison is not of the recognised form.
func (fi *fnInfo) zoneCond(cond ssa.Value, truth bool, ctx *ssa.BasicBlock, out *[]zfact) bool {
	if u, ok := cond.(*ssa.UnOp); ok && u.Op == token.NOT {
		return fi.zoneCond(u.X, !truth, ctx, out)
	}
	b, ok := cond.(*ssa.BinOp)
	if !ok {
		return false
	}
	op := b.Op
	if negate(op) == token.ILLEGAL {
		return false
	}
	if !truth {
		op = negate(op)
	}
	bt, _ := b.X.Type().Underlying().(*types.Basic)
	if bt == nil || bt.Info()&types.IsInteger == 0 {
		return false
	}
	kx, cx, ok1 := fi.zterm(b.X, ctx, 0)
	ky, cy, ok2 := fi.zterm(b.Y, ctx, 0)
	if !ok1 || !ok2 {
		return false
	}
	// X + cx  op  Y + cy
	le := func(x string, xc int, y string, yc int, strict bool) { // x+xc <= y+yc (or <)
		c := yc - xc
		if strict {
			c--
		}
		*out = append(*out, zfact{x, y, c})
	}
	switch op {
	case token.LSS:
		le(kx, cx, ky, cy, true)
	case token.LEQ:
		le(kx, cx, ky, cy, false)
	case token.GTR:
		le(ky, cy, kx, cx, true)
	case token.GEQ:
		le(ky, cy, kx, cx, false)
	case token.EQL:
		le(kx, cx, ky, cy, false)
		le(ky, cy, kx, cx, false)
	case token.NEQ:
		// a hole, no difference constraint; recognised (nothing is lost for upper bounds)
	}
	return true
}

// zoneAt collects the constraints of all dominating edges of b and reports
// whether every dominating condition that could bear on lengths or on the
// terms involved was recognised.
func (fi *fnInfo) zoneAt(b *ssa.BasicBlock) (facts []zfact, complete bool) {
	complete = true
	for x := b; x != nil; x = x.Idom() {
		if len(x.Preds) != 1 {
			continue
		}
		p := x.Preds[0]
		iff, ok := p.Instrs[len(p.Instrs)-1].(*ssa.If)
		if !ok {
			continue
		}
		var truth bool
		switch {
		case p.Succs[0] == x && p.Succs[1] != x:
			truth = true
		case p.Succs[1] == x && p.Succs[0] != x:
			truth = false
		default:
			continue
		}
		if !fi.zoneCond(iff.Cond, truth, p, &facts) {
			if condIsIntegerFree(iff.Cond, 0) {
				continue
			}
			complete = false
		}
	}
	return facts, complete
}

// condIsIntegerFree: the condition compares no integers at all (type tests,
// bool fields, nil tests, equality of enum-like loaded values with constants
// is NOT free).  Such conditions cannot constrain a length or an offset.
func condIsIntegerFree(v ssa.Value, depth int) bool {
	if depth > 6 {
		return false
	}
	switch x := v.(type) {
	case *ssa.UnOp:
		if x.Op == token.NOT {
			return condIsIntegerFree(x.X, depth+1)
		}
		if x.Op == token.MUL {
			bt, ok := x.Type().Underlying().(*types.Basic)
			return ok && bt.Kind() == types.Bool
		}
	case *ssa.BinOp:
		if x.Op == token.EQL || x.Op == token.NEQ {
			if isNilConst(x.X) || isNilConst(x.Y) {
				return true
			}
		}
	case *ssa.Extract:
		// comma-ok of a type assertion or map lookup
		switch x.Tuple.(type) {
		case *ssa.TypeAssert, *ssa.Lookup:
			return true
		}
	}
	return false
}

func isNilConst(v ssa.Value) bool {
	c, ok := v.(*ssa.Const)
	return ok && c.Value == nil
}

// zoneEntails: do the facts imply x - y <= c ?
func zoneEntails(facts []zfact, x, y string, c int) bool {
	idx := map[string]int{"": 0}
	id := func(k string) int {
		if i, ok := idx[k]; ok {
			return i
		}
		idx[k] = len(idx)
		return idx[k]
	}
	id(x)
	id(y)
	for _, f := range facts {
		id(f.x)
		id(f.y)
	}
	n := len(idx)
	const inf = 1 << 40
	d := make([][]int, n)
	for i := range d {
		d[i] = make([]int, n)
		for j := range d[i] {
			if i != j {
				d[i][j] = inf
			}
		}
	}
	// x - y <= c  : edge y -> x with weight c
	for _, f := range facts {
		a, b := idx[f.y], idx[f.x]
		if f.c < d[a][b] {
			d[a][b] = f.c
		}
	}
	// every len term is >= 0 : 0 - len <= 0
	for k, i := range idx {
		if len(k) > 4 && k[:4] == "len:" {
			if d[i][0] > 0 {
				d[i][0] = 0
			}
		}
	}
	for k := 0; k < n; k++ {
		for i := 0; i < n; i++ {
			if d[i][k] >= inf {
				continue
			}
			for j := 0; j < n; j++ {
				if d[k][j] < inf && d[i][k]+d[k][j] < d[i][j] {
					d[i][j] = d[i][k] + d[k][j]
				}
			}
		}
	}
	return d[idx[y]][idx[x]] <= c
}

// ZoneSafe: is req+extra <= len(sl) entailed at block b?  complete reports
// whether all dominating conditions were recorded.
func (fi *fnInfo) ZoneSafe(sl, req ssa.Value, extra int, b *ssa.BasicBlock) (safe, complete bool) {
	facts, complete := fi.zoneAt(b)
	// constant length facts of the classic analysis
	if bf := fi.facts[b]; bf != nil {
		for _, lf := range bf.lens {
			facts = append(facts, zfact{"", fi.lenKey(lf.v, b), -lf.ge})
		}
	}
	kx, cx, ok := fi.zterm(req, b, 0)
	if !ok {
		return false, false
	}
	ky := fi.lenKey(sl, b)
	// kx + cx + extra <= len  <=>  kx - ky <= -(cx+extra)
	return zoneEntails(facts, kx, ky, -(cx + extra)), complete
}

// ---- first-iteration instance of a loop-carried offset

// firstIter: req = φ + k (any integer type) where φ is a loop-header φ whose
// entry-edge value is the constant c0.  On the first iteration the access
// needs c0+k bytes.  The instance is feasible when every dominating condition
// between the loop header and b that depends on a φ of that header holds with
// all those φs at their entry values; conditions that do not depend on them
// are left to the ordinary classification.
func (fi *fnInfo) firstIter(req ssa.Value, b *ssa.BasicBlock) (need int, ok bool) {
	phi, k, ok := phiPlusConst(req, 0)
	if !ok {
		return 0, false
	}
	h := phi.Block()
	entry := -1
	for i, p := range h.Preds {
		if h.Dominates(p) {
			continue // back edge
		}
		if entry >= 0 {
			return 0, false
		}
		entry = i
	}
	if entry < 0 || len(h.Preds) < 2 {
		return 0, false
	}
	c0, isK := constInt(phi.Edges[entry])
	if !isK || c0 < 0 {
		return 0, false
	}
	if !h.Dominates(b) {
		return 0, false
	}
	// evaluate with header φs at their entry values
	var eval func(v ssa.Value, d int) (val int, known, dep bool)
	eval = func(v ssa.Value, d int) (int, bool, bool) {
		if d > 8 {
			return 0, false, true
		}
		if c, ok := constInt(v); ok {
			return c, true, false
		}
		switch x := v.(type) {
		case *ssa.Phi:
			if x.Block() == h {
				if c, ok := constInt(x.Edges[entry]); ok {
					return c, true, true
				}
				return 0, false, true
			}
			if h.Dominates(x.Block()) {
				return 0, false, true // merge inside the loop: may carry header φs
			}
			return 0, false, false
		case *ssa.Convert:
			return eval(x.X, d+1)
		case *ssa.ChangeType:
			return eval(x.X, d+1)
		case *ssa.BinOp:
			a, ka, da := eval(x.X, d+1)
			c, kc, dc := eval(x.Y, d+1)
			dep := da || dc
			if !ka || !kc {
				return 0, false, dep
			}
			switch x.Op {
			case token.ADD:
				return a + c, true, dep
			case token.SUB:
				return a - c, true, dep
			case token.MUL:
				return a * c, true, dep
			}
			return 0, false, dep
		}
		return 0, false, false
	}
	for x := b; x != nil && x != h; x = x.Idom() {
		if len(x.Preds) != 1 {
			continue
		}
		p := x.Preds[0]
		iff, isIf := p.Instrs[len(p.Instrs)-1].(*ssa.If)
		if !isIf {
			continue
		}
		truth := p.Succs[0] == x
		if p.Succs[0] == p.Succs[1] {
			continue
		}
		cond := iff.Cond
		for {
			if u, ok := cond.(*ssa.UnOp); ok && u.Op == token.NOT {
				cond, truth = u.X, !truth
				continue
			}
			break
		}
		bo, isB := cond.(*ssa.BinOp)
		if !isB {
			continue
		}
		l, kl, dl := eval(bo.X, 0)
		r, kr, dr := eval(bo.Y, 0)
		if !dl && !dr {
			continue
		}
		if !kl || !kr {
			// depends on a header φ but has an unknown side (i < num): feasible only if the
			// unknown side is free; accept comparisons of a φ-derived constant with a value
			// that does not depend on the header φs
			if kl && !dr && fi.uncorrelated(bo.Y, b, iff.Cond, 0) {
				continue
			}
			if kr && !dl && fi.uncorrelated(bo.X, b, iff.Cond, 0) {
				continue
			}
			return 0, false
		}
		var holds bool
		switch bo.Op {
		case token.LSS:
			holds = l < r
		case token.LEQ:
			holds = l <= r
		case token.GTR:
			holds = l > r
		case token.GEQ:
			holds = l >= r
		case token.EQL:
			holds = l == r
		case token.NEQ:
			holds = l != r
		default:
			return 0, false
		}
		if holds != truth {
			return 0, false
		}
	}
	return c0 + k, true
}

func phiPlusConst(v ssa.Value, depth int) (*ssa.Phi, int, bool) {
	if depth > 6 {
		return nil, 0, false
	}
	switch x := v.(type) {
	case *ssa.Phi:
		return x, 0, true
	case *ssa.Convert:
		return phiPlusConst(x.X, depth+1)
	case *ssa.ChangeType:
		return phiPlusConst(x.X, depth+1)
	case *ssa.BinOp:
		switch x.Op {
		case token.ADD:
			if c, ok := constInt(x.Y); ok {
				if p, k, ok := phiPlusConst(x.X, depth+1); ok {
					return p, k + c, true
				}
			}
			if c, ok := constInt(x.X); ok {
				if p, k, ok := phiPlusConst(x.Y, depth+1); ok {
					return p, k + c, true
				}
			}
		case token.SUB:
			if c, ok := constInt(x.Y); ok {
				if p, k, ok := phiPlusConst(x.X, depth+1); ok {
					return p, k - c, true
				}
			}
		}
	}
	return nil, 0, false
}

// ---- "free" loop bounds

var callerIndex map[*ssa.Function][]*ssa.Call

func staticCallers(fn *ssa.Function) []*ssa.Call {
	if callerIndex == nil {
		callerIndex = map[*ssa.Function][]*ssa.Call{}
		for f := range ssautil.AllFunctions(fn.Prog) {
			if f.Pkg == nil || f.Pkg.Pkg.Path() != fn.Pkg.Pkg.Path() && !sameModule(f, fn) {
				continue
			}
			for _, b := range f.Blocks {
				for _, ins := range b.Instrs {
					if c, ok := ins.(*ssa.Call); ok {
						if cal := c.Call.StaticCallee(); cal != nil {
							callerIndex[cal] = append(callerIndex[cal], c)
						}
					}
				}
			}
		}
	}
	return callerIndex[fn]
}

func sameModule(a, b *ssa.Function) bool {
	if a.Pkg == nil || b.Pkg == nil {
		return false
	}
	pa, pb := a.Pkg.Pkg.Path(), b.Pkg.Pkg.Path()
	n := 0
	for n < len(pa) && n < len(pb) && pa[n] == pb[n] {
		n++
	}
	return n >= len("github.com/gopacket/gopacket")
}

// atoms collects the memory cells, parameters and opaque values an integer
// expression is computed from (loads are forwarded through a field stored
// once in the function; len of a slice made in the function yields the atoms
// of its size).  ok=false when something cannot be named.
func (fi *fnInfo) atoms(v ssa.Value, out map[string]ssa.Value, depth int) bool {
	if depth > 10 {
		return false
	}
	if _, ok := constInt(v); ok {
		return true
	}
	switch x := v.(type) {
	case *ssa.Convert:
		return fi.atoms(x.X, out, depth+1)
	case *ssa.ChangeType:
		return fi.atoms(x.X, out, depth+1)
	case *ssa.BinOp:
		return fi.atoms(x.X, out, depth+1) && fi.atoms(x.Y, out, depth+1)
	case *ssa.Parameter:
		out["P:"+x.Name()] = x
		return true
	case *ssa.MakeSlice:
		return fi.atoms(x.Len, out, depth+1)
	case *ssa.Slice:
		// len of a re-slice depends on its bounds and on its operand
		ok := fi.atoms(x.X, out, depth+1)
		if x.Low != nil {
			ok = ok && fi.atoms(x.Low, out, depth+1)
		}
		if x.High != nil {
			ok = ok && fi.atoms(x.High, out, depth+1)
		}
		return ok
	case *ssa.Call:
		if b, ok := x.Call.Value.(*ssa.Builtin); ok && b.Name() == "len" {
			return fi.atoms(x.Call.Args[0], out, depth+1)
		}
		if f := x.Call.StaticCallee(); f != nil && f.Pkg != nil && f.Pkg.Pkg.Path() == "encoding/binary" && len(x.Call.Args) >= 2 {
			// an integer read from bytes: the atom is the byte window
			out[fmt.Sprintf("B:%p", x)] = x
			return true
		}
		return false
	case *ssa.UnOp:
		if x.Op == token.MUL {
			if _, isField := x.X.(*ssa.FieldAddr); isField {
				if sv, _, ok := singleFieldStore(fi.fn, x); ok {
					return fi.atoms(sv, out, depth+1)
				}
			}
			if k, ok := addrKey(x.X); ok {
				out["L:"+k] = x
				return true
			}
			if ia, ok := x.X.(*ssa.IndexAddr); ok {
				// a byte of a slice: data[k]
				out[fmt.Sprintf("B:%p", ia)] = x
				return true
			}
			return false
		}
		return fi.atoms(x.X, out, depth+1)
	case *ssa.Phi:
		out[fmt.Sprintf("V:%p", x)] = x
		return true
	}
	return false
}

// uncorrelated: no dominating condition of b other than skip mentions an atom
// of v, and (for parameters of a helper) the same holds for the argument at
// every static call site.
func (fi *fnInfo) uncorrelated(v ssa.Value, b *ssa.BasicBlock, skip ssa.Value, depth int) bool {
	if depth > 2 {
		return false
	}
	at := map[string]ssa.Value{}
	if !fi.atoms(v, at, 0) || len(at) == 0 {
		return false
	}
	for k := range at {
		if len(k) > 2 && k[:2] == "V:" {
			return false // merged value: provenance unknown
		}
	}
	for x := b; x != nil; x = x.Idom() {
		if len(x.Preds) != 1 {
			continue
		}
		p := x.Preds[0]
		iff, ok := p.Instrs[len(p.Instrs)-1].(*ssa.If)
		if !ok || iff.Cond == skip {
			continue
		}
		ca := map[string]ssa.Value{}
		fi.atoms(iff.Cond, ca, 0) // partial is fine: we only look for overlaps
		condAtomsOf(iff.Cond, fi, ca, 0)
		for k := range ca {
			if _, hit := at[k]; hit {
				return false
			}
		}
	}
	for k, a := range at {
		if k[:2] != "P:" {
			continue
		}
		par := a.(*ssa.Parameter)
		if fi.rootParam != nil && ssa.Value(par) == ssa.Value(fi.rootParam) {
			return false
		}
		idx := -1
		for i, q := range fi.fn.Params {
			if q == par {
				idx = i
			}
		}
		callers := staticCallers(fi.fn)
		if idx < 0 || len(callers) == 0 {
			return false
		}
		for _, c := range callers {
			cf := c.Parent()
			cfi := infoFor(cf, &RootInfo{})
			if !cfi.uncorrelated(c.Call.Args[idx], c.Block(), nil, depth+1) {
				return false
			}
		}
	}
	return true
}

// condAtomsOf descends into comparison operands (atoms() stops at the first
// unnamed part; here every nameable leaf is wanted).
func condAtomsOf(v ssa.Value, fi *fnInfo, out map[string]ssa.Value, depth int) {
	if depth > 8 {
		return
	}
	switch x := v.(type) {
	case *ssa.BinOp:
		condAtomsOf(x.X, fi, out, depth+1)
		condAtomsOf(x.Y, fi, out, depth+1)
	case *ssa.UnOp:
		if x.Op == token.MUL {
			fi.atoms(x, out, 0)
			return
		}
		condAtomsOf(x.X, fi, out, depth+1)
	case *ssa.Convert:
		condAtomsOf(x.X, fi, out, depth+1)
	case *ssa.ChangeType:
		condAtomsOf(x.X, fi, out, depth+1)
	case *ssa.Call:
		for _, a := range x.Call.Args {
			condAtomsOf(a, fi, out, depth+1)
		}
		fi.atoms(x, out, 0)
	default:
		fi.atoms(v, out, 0)
	}
}

// prefixGuard: req = G + T (signed wide arithmetic), some dominating edge
// establishes len(sl) >= G (the same SSA value G, possibly plus a non-negative
// constant), T is tainted, non-negative and uncorrelated with every other
// dominating condition.
func (fi *fnInfo) prefixGuard(sl, req ssa.Value, b *ssa.BasicBlock) (g, t ssa.Value, ok bool) {
	bo, isB := req.(*ssa.BinOp)
	if !isB || bo.Op != token.ADD {
		return nil, nil, false
	}
	if bt, _ := bo.Type().Underlying().(*types.Basic); bt == nil || !wideSigned(bt) {
		return nil, nil, false
	}
	facts, complete := fi.zoneAt(b)
	if !complete {
		return nil, nil, false
	}
	lk := fi.lenKey(sl, b)
	for _, pair := range [][2]ssa.Value{{bo.X, bo.Y}, {bo.Y, bo.X}} {
		gv, tv := pair[0], pair[1]
		if _, isK := constInt(tv); isK {
			continue
		}
		gk, gc, ok1 := fi.zterm(gv, b, 0)
		if !ok1 || gk == "" {
			continue
		}
		covered := false
		for _, f := range facts {
			// gk - len <= c  with c <= -gc  means len >= G
			if f.x == gk && f.y == lk && f.c <= -gc {
				covered = true
			}
		}
		if !covered {
			continue
		}
		if !(tainted(tv, 0) || taintedFwd(fi.fn, tv, 0)) || fi.intLB(tv, b, 0) < 0 {
			continue
		}
		// T must be able to be positive and be free of other conditions
		if u := fi.intUB(tv, b, 0); u == 0 {
			continue
		}
		if !fi.uncorrelated(tv, b, nil, 0) {
			continue
		}
		return gv, tv, true
	}
	return nil, nil, false
}

func describeVal(v ssa.Value) string {
	if v == nil {
		return "?"
	}
	if n := v.Name(); n != "" {
		if p := v.Parent(); p != nil {
			if pos := v.Pos(); pos.IsValid() {
				return "computed at " + p.Prog.Fset.Position(pos).String()
			}
		}
		return n
	}
	return v.String()
}
