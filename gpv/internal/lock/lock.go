// Package lock: lock regions, held-at-entry and lock order (DESIGN.md 3.7).
// Mutex identity is the struct field (StreamPool.mu), not the instance.
package lock

import (
	"sort"
	"strings"

	"go/types"

	"golang.org/x/tools/go/callgraph"
	"golang.org/x/tools/go/ssa"
)

// Held is a set of lock names; "T.f" exclusive, "T.f:R" shared.
type Held map[string]bool

func (h Held) clone() Held {
	n := Held{}
	for k := range h {
		n[k] = true
	}
	return n
}
func (h Held) Has(name string) bool    { return h[name] }
func (h Held) HasAny(name string) bool { return h[name] || h[name+":R"] }
func (h Held) String() string {
	var ks []string
	for k := range h {
		ks = append(ks, k)
	}
	sort.Strings(ks)
	return "{" + strings.Join(ks, ",") + "}"
}
func intersect(a, b Held) Held {
	n := Held{}
	for k := range a {
		if b[k] {
			n[k] = true
		}
	}
	return n
}
func union(a, b Held) Held {
	n := a.clone()
	for k := range b {
		n[k] = true
	}
	return n
}
func equal(a, b Held) bool {
	if len(a) != len(b) {
		return false
	}
	for k := range a {
		if !b[k] {
			return false
		}
	}
	return true
}

// lockOp classifies a call: returns mutex name and op in {"Lock","Unlock","RLock","RUnlock"}.
func lockOp(cc *ssa.CallCommon) (string, string) {
	f := cc.StaticCallee()
	if f == nil || f.Pkg == nil || f.Pkg.Pkg.Path() != "sync" || len(cc.Args) == 0 {
		return "", ""
	}
	switch f.Name() {
	case "Lock", "Unlock", "RLock", "RUnlock":
	default:
		return "", ""
	}
	// receiver: &x.mu
	fa, ok := cc.Args[0].(*ssa.FieldAddr)
	if !ok {
		return "", ""
	}
	st := fa.X.Type().Underlying().(*types.Pointer).Elem()
	tn := st.String()
	if i := strings.LastIndex(tn, "."); i >= 0 {
		tn = tn[i+1:]
	}
	fld := st.Underlying().(*types.Struct).Field(fa.Field).Name()
	return tn + "." + fld, f.Name()
}

type FnInfo struct {
	Fn      *ssa.Function
	At      map[ssa.Instruction]Held // locks held just before the instruction
	Entry   Held
	Acquire []Acq // lock acquisitions with the set held at that point
}

type Acq struct {
	Lock string
	Held Held
	At   ssa.Instruction
}

type Analysis struct {
	Fns map[*ssa.Function]*FnInfo
	May map[*ssa.Function]*FnInfo // may-held (union) variant, used for lock order
	cg  *callgraph.Graph
}

func transfer(h Held, ins ssa.Instruction) Held {
	var cc *ssa.CallCommon
	switch x := ins.(type) {
	case *ssa.Call:
		cc = &x.Call
	case *ssa.Defer:
		// deferred unlocks release at exit: the lock stays held for the rest of the function
		return h
	default:
		return h
	}
	name, op := lockOp(cc)
	if name == "" {
		return h
	}
	n := h.clone()
	switch op {
	case "Lock":
		n[name] = true
		n[name+":R"] = true // exclusive implies shared
	case "RLock":
		n[name+":R"] = true
	case "Unlock":
		delete(n, name)
		delete(n, name+":R")
	case "RUnlock":
		delete(n, name+":R")
	}
	return n
}

func analyzeFn(fn *ssa.Function, entry Held, may bool) *FnInfo {
	fi := &FnInfo{Fn: fn, At: map[ssa.Instruction]Held{}, Entry: entry}
	if len(fn.Blocks) == 0 {
		return fi
	}
	in := map[*ssa.BasicBlock]Held{fn.Blocks[0]: entry.clone()}
	work := []*ssa.BasicBlock{fn.Blocks[0]}
	out := map[*ssa.BasicBlock]Held{}
	for len(work) > 0 {
		b := work[0]
		work = work[1:]
		h := in[b]
		for _, ins := range b.Instrs {
			h = transfer(h, ins)
		}
		if o, ok := out[b]; ok && equal(o, h) {
			continue
		}
		out[b] = h
		for _, s := range b.Succs {
			if cur, ok := in[s]; ok {
				n := intersect(cur, h)
				if may {
					n = union(cur, h)
				}
				if equal(n, cur) {
					continue
				}
				in[s] = n
			} else {
				in[s] = h.clone()
			}
			work = append(work, s)
		}
	}
	for _, b := range fn.Blocks {
		h, ok := in[b]
		if !ok {
			continue
		}
		for _, ins := range b.Instrs {
			fi.At[ins] = h
			if c, ok := ins.(*ssa.Call); ok {
				if name, op := lockOp(&c.Call); name != "" && (op == "Lock" || op == "RLock") {
					fi.Acquire = append(fi.Acquire, Acq{Lock: name, Held: h.clone(), At: ins})
				}
			}
			h = transfer(h, ins)
		}
	}
	return fi
}

// New analyses the given functions; held-at-entry is the intersection over
// all call sites in the analysed set (roots: nothing held).
func New(cg *callgraph.Graph, fns []*ssa.Function, roots map[*ssa.Function]bool) *Analysis {
	a := &Analysis{Fns: map[*ssa.Function]*FnInfo{}, May: map[*ssa.Function]*FnInfo{}, cg: cg}
	set := map[*ssa.Function]bool{}
	for _, f := range fns {
		set[f] = true
	}
	entry := map[*ssa.Function]Held{}
	for _, f := range fns {
		a.Fns[f] = analyzeFn(f, Held{}, false)
		a.May[f] = analyzeFn(f, Held{}, true)
	}
	for iter := 0; iter < 12; iter++ {
		changed := false
		for _, f := range fns {
			if roots[f] {
				continue
			}
			n := cg.Nodes[f]
			if n == nil {
				continue
			}
			var h Held
			first := true
			for _, e := range n.In {
				caller := e.Caller.Func
				ci := a.Fns[caller]
				if ci == nil || e.Site == nil {
					continue
				}
				at, ok := ci.At[e.Site]
				if !ok {
					continue
				}
				if _, isGo := e.Site.(*ssa.Go); isGo {
					at = Held{}
				}
				if first {
					h = at.clone()
					first = false
				} else {
					h = intersect(h, at)
				}
			}
			if first {
				h = Held{}
			}
			if old, ok := entry[f]; !ok || !equal(old, h) {
				entry[f] = h
				a.Fns[f] = analyzeFn(f, h, false)
				changed = true
			}
		}
		if !changed {
			break
		}
	}
	// may-held at entry: union over call sites
	mentry := map[*ssa.Function]Held{}
	for iter := 0; iter < 12; iter++ {
		changed := false
		for _, f := range fns {
			n := cg.Nodes[f]
			if n == nil {
				continue
			}
			h := Held{}
			for _, e := range n.In {
				ci := a.May[e.Caller.Func]
				if ci == nil || e.Site == nil {
					continue
				}
				if _, isGo := e.Site.(*ssa.Go); isGo {
					continue
				}
				if at, ok := ci.At[e.Site]; ok {
					h = union(h, at)
				}
			}
			if old, ok := mentry[f]; !ok || !equal(old, h) {
				mentry[f] = h
				a.May[f] = analyzeFn(f, h, true)
				changed = true
			}
		}
		if !changed {
			break
		}
	}
	return a
}

// Order returns the held-before pairs "A<B" (A held while B acquired) with a witness.
func (a *Analysis) Order() map[string]ssa.Instruction {
	out := map[string]ssa.Instruction{}
	for _, fi := range a.May {
		for _, ac := range fi.Acquire {
			for h := range ac.Held {
				hb := strings.TrimSuffix(h, ":R")
				if hb != h && ac.Held[hb] {
					continue // the shared entry implied by the exclusive one
				}
				if hb == ac.Lock {
					out[hb+"<"+ac.Lock] = ac.At // re-acquisition while held: self-deadlock
					continue
				}
				k := hb + "<" + ac.Lock
				if _, ok := out[k]; !ok {
					out[k] = ac.At
				}
			}
		}
	}
	return out
}
