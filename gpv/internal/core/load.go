// Package core: loading of /repo into type-checked packages, SSA and call
// graphs, plus lookup helpers used by every rule.
package core

import (
	"fmt"
	"go/ast"
	"go/token"
	"go/types"
	"os"
	"path/filepath"
	"sort"
	"strings"

	"golang.org/x/tools/go/callgraph"
	"golang.org/x/tools/go/callgraph/cha"
	"golang.org/x/tools/go/callgraph/vta"
	"golang.org/x/tools/go/packages"
	"golang.org/x/tools/go/ssa"
	"golang.org/x/tools/go/ssa/ssautil"
)

const Mod = "github.com/gopacket/gopacket"

// InScope are the package patterns every property is anchored in.
var InScope = []string{".", "./layers", "./pcapgo", "./reassembly", "./tcpassembly/...", "./ip4defrag", "./ip6defrag"}

type Prog struct {
	Dir    string
	Pkgs   []*packages.Package
	ByPath map[string]*packages.Package
	SSA    *ssa.Program
	Fset   *token.FileSet
	AllFns map[*ssa.Function]bool
	cgVTA  *callgraph.Graph
	cgCHA  *callgraph.Graph
	// astFn maps a function object to its declaration
	declOf map[types.Object]*ast.FuncDecl
}

// Load type-checks the given patterns of the module at dir, builds SSA.
// Any load or type error is returned (the caller exits 2).
func Load(dir string, patterns []string) (*Prog, error) {
	os.Unsetenv("GOWORK")
	os.Setenv("GOWORK", "off")
	cfg := &packages.Config{Mode: packages.LoadAllSyntax, Dir: dir, Tests: false}
	pkgs, err := packages.Load(cfg, patterns...)
	if err != nil {
		return nil, err
	}
	if len(pkgs) == 0 {
		return nil, fmt.Errorf("no packages loaded from %s", dir)
	}
	var errs []string
	packages.Visit(pkgs, nil, func(p *packages.Package) {
		for _, e := range p.Errors {
			errs = append(errs, p.PkgPath+": "+e.Error())
		}
	})
	if len(errs) > 0 {
		return nil, fmt.Errorf("load/type errors:\n  %s", strings.Join(errs, "\n  "))
	}
	p := &Prog{Dir: dir, Pkgs: pkgs, ByPath: map[string]*packages.Package{}, declOf: map[types.Object]*ast.FuncDecl{}}
	packages.Visit(pkgs, nil, func(pk *packages.Package) {
		p.ByPath[pk.PkgPath] = pk
	})
	p.Fset = pkgs[0].Fset
	prog, _ := ssautil.AllPackages(pkgs, ssa.InstantiateGenerics)
	prog.Build()
	p.SSA = prog
	p.AllFns = ssautil.AllFunctions(prog)
	for _, pk := range pkgs {
		for _, f := range pk.Syntax {
			for _, d := range f.Decls {
				if fd, ok := d.(*ast.FuncDecl); ok {
					if o := pk.TypesInfo.Defs[fd.Name]; o != nil {
						p.declOf[o] = fd
					}
				}
			}
		}
	}
	return p, nil
}

// InModule reports whether fn belongs to the gopacket module (non-test).
func (p *Prog) InModule(fn *ssa.Function) bool {
	pk := FnPkg(fn)
	if pk == nil {
		return false
	}
	return pk.Path() == Mod || strings.HasPrefix(pk.Path(), Mod+"/")
}

// FnPkg returns the types.Package of a function, including closures and
// instantiations / wrappers.
func FnPkg(fn *ssa.Function) *types.Package {
	for fn != nil {
		if fn.Pkg != nil {
			return fn.Pkg.Pkg
		}
		if o := fn.Object(); o != nil && o.Pkg() != nil {
			return o.Pkg()
		}
		if fn.Parent() != nil {
			fn = fn.Parent()
			continue
		}
		if fn.Origin() != nil && fn.Origin() != fn {
			fn = fn.Origin()
			continue
		}
		return nil
	}
	return nil
}

// Pos renders a position relative to the repo root.
func (p *Prog) Pos(pos token.Pos) string {
	if !pos.IsValid() {
		return "?"
	}
	ps := p.Fset.Position(pos)
	rel, err := filepath.Rel(p.Dir, ps.Filename)
	if err != nil || strings.HasPrefix(rel, "..") {
		rel = ps.Filename
	}
	return fmt.Sprintf("%s:%d", rel, ps.Line)
}

// FnPos gives a best-effort position of an instruction (falls back to fn).
func (p *Prog) InstrPos(ins ssa.Instruction) string {
	if ins.Pos().IsValid() {
		return p.Pos(ins.Pos())
	}
	if v, ok := ins.(ssa.Value); ok {
		for _, r := range *v.Referrers() {
			if r.Pos().IsValid() {
				return p.Pos(r.Pos())
			}
		}
	}
	if ins.Parent() != nil {
		return p.Pos(ins.Parent().Pos())
	}
	return "?"
}

// Pkg returns the loaded package with the module-relative path rel ("" = root).
func (p *Prog) Pkg(rel string) *packages.Package {
	path := Mod
	if rel != "" {
		path = Mod + "/" + rel
	}
	return p.ByPath[path]
}

func (p *Prog) SSAPkg(rel string) *ssa.Package {
	pk := p.Pkg(rel)
	if pk == nil {
		return nil
	}
	return p.SSA.Package(pk.Types)
}

// Func finds a package-level function or a method: name "NewPacket" or
// "(*packet).AddLayer" / "(Flow).Reverse" / "T.M" (either receiver form).
func (p *Prog) Func(rel, name string) *ssa.Function {
	sp := p.SSAPkg(rel)
	if sp == nil {
		return nil
	}
	if !strings.Contains(name, ".") {
		return sp.Func(name)
	}
	name = strings.NewReplacer("(", "", ")", "", "*", "").Replace(name)
	parts := strings.SplitN(name, ".", 2)
	tn, _ := sp.Pkg.Scope().Lookup(parts[0]).(*types.TypeName)
	if tn == nil {
		return nil
	}
	for _, t := range []types.Type{tn.Type(), types.NewPointer(tn.Type())} {
		ms := p.SSA.MethodSets.MethodSet(t)
		for i := 0; i < ms.Len(); i++ {
			if ms.At(i).Obj().Name() == parts[1] {
				fn := p.SSA.MethodValue(ms.At(i))
				if fn != nil && fn.Synthetic != "" {
					// wrapper: find the declared one
					if o, ok := ms.At(i).Obj().(*types.Func); ok {
						if d := p.SSA.FuncValue(o); d != nil {
							return d
						}
					}
				}
				return fn
			}
		}
	}
	return nil
}

// NamedType returns the named type rel.name or nil.
func (p *Prog) NamedType(rel, name string) *types.Named {
	pk := p.Pkg(rel)
	if pk == nil {
		return nil
	}
	tn, _ := pk.Types.Scope().Lookup(name).(*types.TypeName)
	if tn == nil {
		return nil
	}
	n, _ := tn.Type().(*types.Named)
	return n
}

func (p *Prog) Iface(rel, name string) *types.Interface {
	n := p.NamedType(rel, name)
	if n == nil {
		return nil
	}
	i, _ := n.Underlying().(*types.Interface)
	return i
}

// Decl returns the AST declaration of a source function.
func (p *Prog) Decl(fn *ssa.Function) *ast.FuncDecl {
	if fn == nil || fn.Object() == nil {
		return nil
	}
	return p.declOf[fn.Object()]
}

// Info returns the types.Info of the package containing fn.
func (p *Prog) Info(fn *ssa.Function) *types.Info {
	pk := FnPkg(fn)
	if pk == nil {
		return nil
	}
	if lp := p.ByPath[pk.Path()]; lp != nil {
		return lp.TypesInfo
	}
	return nil
}

// CG returns the VTA call graph (CHA when cha is true).
func (p *Prog) CG(useCHA bool) *callgraph.Graph {
	if p.cgCHA == nil {
		p.cgCHA = cha.CallGraph(p.SSA)
	}
	if useCHA {
		return p.cgCHA
	}
	if p.cgVTA == nil {
		p.cgVTA = vta.CallGraph(p.AllFns, p.cgCHA)
	}
	return p.cgVTA
}

// Callees of a call instruction according to the graph (module and others).
func (p *Prog) Callees(g *callgraph.Graph, site ssa.CallInstruction) []*ssa.Function {
	if f := site.Common().StaticCallee(); f != nil {
		return []*ssa.Function{f}
	}
	n := g.Nodes[site.Parent()]
	if n == nil {
		return nil
	}
	var out []*ssa.Function
	for _, e := range n.Out {
		if e.Site == site {
			out = append(out, e.Callee.Func)
		}
	}
	return out
}

// Reach computes the set of module functions reachable from roots, following
// call edges of g and also closures created (MakeClosure) in reached functions.
func (p *Prog) Reach(g *callgraph.Graph, roots []*ssa.Function) map[*ssa.Function]bool {
	seen := map[*ssa.Function]bool{}
	var work []*ssa.Function
	push := func(f *ssa.Function) {
		if f == nil || seen[f] {
			return
		}
		if !p.InModule(f) {
			return
		}
		seen[f] = true
		work = append(work, f)
	}
	for _, r := range roots {
		push(r)
	}
	for len(work) > 0 {
		f := work[len(work)-1]
		work = work[:len(work)-1]
		if n := g.Nodes[f]; n != nil {
			for _, e := range n.Out {
				push(e.Callee.Func)
			}
		}
		for _, af := range f.AnonFuncs {
			push(af)
		}
	}
	return seen
}

// SortedFns returns the functions of a set in a deterministic order.
func SortedFns(set map[*ssa.Function]bool) []*ssa.Function {
	out := make([]*ssa.Function, 0, len(set))
	for f := range set {
		out = append(out, f)
	}
	sort.Slice(out, func(i, j int) bool {
		if out[i].String() != out[j].String() {
			return out[i].String() < out[j].String()
		}
		return out[i].Pos() < out[j].Pos()
	})
	return out
}

// FnKey is a stable, line-free identifier of a function: pkgrel.(*T).M or pkgrel.f$1
func FnKey(fn *ssa.Function) string {
	if fn == nil {
		return "<nil>"
	}
	s := fn.String()
	s = strings.ReplaceAll(s, Mod+"/", "")
	s = strings.ReplaceAll(s, Mod+".", "gopacket.")
	s = strings.ReplaceAll(s, Mod, "gopacket")
	return s
}

// Methods returns, for every named non-interface type of the loaded module
// packages whose T or *T implements iface, the declared method `name`.
func (p *Prog) Implementations(iface *types.Interface, method string, rels ...string) []*ssa.Function {
	var out []*ssa.Function
	seen := map[*ssa.Function]bool{}
	for _, rel := range rels {
		pk := p.Pkg(rel)
		if pk == nil {
			continue
		}
		sc := pk.Types.Scope()
		for _, name := range sc.Names() {
			tn, ok := sc.Lookup(name).(*types.TypeName)
			if !ok || tn.IsAlias() {
				continue
			}
			T := tn.Type()
			if types.IsInterface(T) {
				continue
			}
			for _, t := range []types.Type{T, types.NewPointer(T)} {
				if !types.Implements(t, iface) {
					continue
				}
				sel := p.SSA.MethodSets.MethodSet(t).Lookup(pk.Types, method)
				if sel == nil {
					sel = p.SSA.MethodSets.MethodSet(t).Lookup(nil, method)
				}
				if sel == nil {
					break
				}
				fo, _ := sel.Obj().(*types.Func)
				if fo == nil {
					break
				}
				fn := p.SSA.FuncValue(fo)
				if fn != nil && !seen[fn] && p.InModule(fn) {
					seen[fn] = true
					out = append(out, fn)
				}
				break
			}
		}
	}
	sort.Slice(out, func(i, j int) bool { return out[i].String() < out[j].String() })
	return out
}

// PkgScopeNames returns the package-level objects of package rel, sorted by name.
func (p *Prog) PkgScopeNames(rel string) []types.Object {
	pk := p.Pkg(rel)
	if pk == nil {
		return nil
	}
	var out []types.Object
	sc := pk.Types.Scope()
	for _, n := range sc.Names() {
		out = append(out, sc.Lookup(n))
	}
	return out
}

// TypePos is the position of a type declaration.
func (p *Prog) TypePos(tn *types.TypeName) string { return p.Pos(tn.Pos()) }

// InstrPosOr is InstrPos that tolerates nil.
func (p *Prog) InstrPosOr(i ssa.Instruction) string {
	if i == nil {
		return "?"
	}
	return p.InstrPos(i)
}
