package core

import (
	"go/types"
	"sort"
	"strings"

	"golang.org/x/tools/go/ssa"
)

// DecRoot is a function whose []byte parameter is chosen by the API user /
// the wire: a DecodeFromBytes method or a function converted to DecodeFunc.
type DecRoot struct {
	Fn     *ssa.Function
	Data   *ssa.Parameter // the []byte parameter
	MinLen int            // smallest length the contract lets reach it (0 or 1)
	Kind   string         // "DecodeFromBytes" | "registered" | "chained"
}

// Roots holds the root sets of DESIGN.md 3.1.
type Roots struct {
	Dec        []DecRoot
	DecByFn    map[*ssa.Function]*DecRoot
	DecReach   map[*ssa.Function]bool // module functions reachable from decode roots + packet.go drivers
	Acc        []*ssa.Function        // read-only API of an eager packet
	AccReach   map[*ssa.Function]bool
	Ser        []*ssa.Function
	SerReach   map[*ssa.Function]bool
	DecLayerTs []*types.Named // types implementing DecodingLayer
}

func IsByteSlice(t types.Type) bool {
	s, ok := t.Underlying().(*types.Slice)
	if !ok {
		return false
	}
	b, ok := s.Elem().Underlying().(*types.Basic)
	return ok && b.Kind() == types.Uint8
}

// liveFn: function is referenced somewhere (not dead code): has an incoming
// call-graph edge, or is address-taken in a live function, or is exported/method.
func (p *Prog) referenced(fn *ssa.Function) bool {
	g := p.CG(false)
	if n := g.Nodes[fn]; n != nil && len(n.In) > 0 {
		return true
	}
	// address taken anywhere in module code
	for f := range p.AllFns {
		if !p.InModule(f) {
			continue
		}
		found := false
		Instrs(f, func(ins ssa.Instruction) {
			if found {
				return
			}
			for _, op := range ins.Operands(nil) {
				if *op == ssa.Value(fn) {
					found = true
				}
			}
		})
		if found {
			return true
		}
	}
	return false
}

var rootsCache = map[*Prog]*Roots{}

func (p *Prog) Roots() *Roots {
	if r, ok := rootsCache[p]; ok {
		return r
	}
	r := &Roots{DecByFn: map[*ssa.Function]*DecRoot{}}
	rootsCache[p] = r
	g := p.CG(false)
	dl := p.Iface("", "DecodingLayer")
	add := func(fn *ssa.Function, min int, kind string) {
		if fn == nil || len(fn.Blocks) == 0 {
			return
		}
		var data *ssa.Parameter
		for _, pa := range fn.Params {
			if IsByteSlice(pa.Type()) {
				data = pa
				break
			}
		}
		if data == nil {
			return
		}
		if old, ok := r.DecByFn[fn]; ok {
			if min < old.MinLen {
				old.MinLen = min
				old.Kind = kind
			}
			return
		}
		r.Dec = append(r.Dec, DecRoot{Fn: fn, Data: data, MinLen: min, Kind: kind})
		r.DecByFn[fn] = &r.Dec[len(r.Dec)-1]
	}
	// 1. DecodeFromBytes of DecodingLayer implementors
	for _, fn := range p.Implementations(dl, "DecodeFromBytes", "", "layers") {
		add(fn, 0, "DecodeFromBytes")
	}
	// rebuild index (append may have moved elements)
	reindex := func() {
		for i := range r.Dec {
			r.DecByFn[r.Dec[i].Fn] = &r.Dec[i]
		}
	}
	reindex()
	// 2. functions converted to DecodeFunc in live module code
	type conv struct {
		fn     *ssa.Function
		stored bool
		chain  bool
	}
	convs := map[*ssa.Function]*conv{}
	for f := range p.AllFns {
		if !p.InModule(f) || len(f.Blocks) == 0 {
			continue
		}
		Instrs(f, func(ins ssa.Instruction) {
			ct, ok := ins.(*ssa.ChangeType)
			if !ok || !NamedIs(ct.Type(), "DecodeFunc") {
				return
			}
			var target *ssa.Function
			switch x := ct.X.(type) {
			case *ssa.Function:
				target = x
			case *ssa.MakeClosure:
				target, _ = x.Fn.(*ssa.Function)
			}
			if target == nil {
				return
			}
			cv := convs[target]
			if cv == nil {
				cv = &conv{fn: target}
				convs[target] = cv
			}
			// classify uses
			for _, ref := range *ct.Referrers() {
				mi, ok := ref.(*ssa.MakeInterface)
				if !ok {
					cv.stored = true
					continue
				}
				for _, r2 := range *mi.Referrers() {
					switch y := r2.(type) {
					case *ssa.Call:
						if y.Call.IsInvoke() && y.Call.Method.Name() == "NextDecoder" {
							cv.chain = true
						} else {
							cv.stored = true
						}
					default:
						cv.stored = true
					}
				}
			}
		})
	}
	var cl []*conv
	for _, cv := range convs {
		cl = append(cl, cv)
	}
	sort.Slice(cl, func(i, j int) bool { return cl[i].fn.String() < cl[j].fn.String() })
	for _, cv := range cl {
		if cv.stored {
			add(cv.fn, 0, "registered")
		} else {
			add(cv.fn, 1, "chained")
		}
	}
	reindex()
	sort.Slice(r.Dec, func(i, j int) bool { return r.Dec[i].Fn.String() < r.Dec[j].Fn.String() })
	reindex()
	// Decode closure: decode roots + packet drivers
	var droots []*ssa.Function
	for _, d := range r.Dec {
		droots = append(droots, d.Fn)
	}
	for _, n := range []string{"NewPacket", "DecodingLayerParser.DecodeLayers", "lazyPacket.decodeNextLayer", "eagerPacket.initialDecode"} {
		if f := p.Func("", n); f != nil {
			droots = append(droots, f)
		}
	}
	// NextLayerType / CanDecode / LayerPayload of decoding layers
	for _, m := range []string{"NextLayerType", "CanDecode", "LayerPayload"} {
		droots = append(droots, p.Implementations(dl, m, "", "layers")...)
	}
	r.DecReach = p.Reach(g, droots)

	// ACC: read-only API
	accSeen := map[*ssa.Function]bool{}
	addAcc := func(fn *ssa.Function) {
		if fn != nil && !accSeen[fn] && len(fn.Blocks) > 0 && p.InModule(fn) {
			accSeen[fn] = true
			r.Acc = append(r.Acc, fn)
		}
	}
	for _, m := range []string{"String", "Dump", "Layers", "Layer", "LayerClass", "LinkLayer", "NetworkLayer", "TransportLayer", "ApplicationLayer", "ErrorLayer", "Data", "Metadata", "VerifyChecksums"} {
		addAcc(p.Func("", "eagerPacket."+m))
		addAcc(p.Func("", "packet."+m))
	}
	for _, n := range []string{"LayerString", "LayerDump", "LayerGoString"} {
		addAcc(p.Func("", n))
	}
	renderNames := map[string]bool{"String": true, "GoString": true, "Error": true, "Dump": true, "Format": true, "LayerType": true, "LayerContents": true, "LayerPayload": true, "Payload": true, "VerifyChecksum": true, "ComputeChecksum": true, "LinkFlow": true, "NetworkFlow": true, "TransportFlow": true, "CanDecode": true, "NextLayerType": true}
	for _, rel := range []string{"", "layers"} {
		pk := p.Pkg(rel)
		if pk == nil {
			continue
		}
		sc := pk.Types.Scope()
		for _, name := range sc.Names() {
			tn, ok := sc.Lookup(name).(*types.TypeName)
			if !ok || tn.IsAlias() {
				continue
			}
			named, ok := tn.Type().(*types.Named)
			if !ok || types.IsInterface(named) {
				continue
			}
			if strings.HasPrefix(name, "lazyPacket") {
				continue
			}
			for i := 0; i < named.NumMethods(); i++ {
				m := named.Method(i)
				if renderNames[m.Name()] {
					addAcc(p.SSA.FuncValue(m))
				}
			}
		}
	}
	sort.Slice(r.Acc, func(i, j int) bool { return r.Acc[i].String() < r.Acc[j].String() })
	r.AccReach = p.Reach(g, r.Acc)

	// SER
	sl := p.Iface("", "SerializableLayer")
	r.Ser = p.Implementations(sl, "SerializeTo", "", "layers")
	for _, n := range []string{"SerializeLayers", "SerializePacket"} {
		if f := p.Func("", n); f != nil {
			r.Ser = append(r.Ser, f)
		}
	}
	r.SerReach = p.Reach(g, r.Ser)

	// DecodingLayer types
	for _, rel := range []string{"", "layers"} {
		pk := p.Pkg(rel)
		if pk == nil {
			continue
		}
		sc := pk.Types.Scope()
		for _, name := range sc.Names() {
			tn, ok := sc.Lookup(name).(*types.TypeName)
			if !ok || tn.IsAlias() {
				continue
			}
			named, ok := tn.Type().(*types.Named)
			if !ok || types.IsInterface(named) {
				continue
			}
			if types.Implements(types.NewPointer(named), dl) || types.Implements(named, dl) {
				r.DecLayerTs = append(r.DecLayerTs, named)
			}
		}
	}
	return r
}
